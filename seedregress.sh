#!/bin/bash
# regress.sh <seed-dir-names...>: apply each archived seeded change to /repo, run its property's quick check, report caught / missed
cd /verif
for d in "$@"; do
  S=/verif/seeded/$d
  P=$(jq -r .property $S/meta.json)
  if ! git -C /repo apply --check $S/patch.diff 2>/dev/null; then echo "$d $P SKIP(patch does not apply to the current tree)"; continue; fi
  git -C /repo apply $S/patch.diff
  out=$(timeout 900 ./check $P quick 2>&1)
  git -C /repo checkout -- . ; git -C /repo clean -fdq internal libs cmd pkg 2>/dev/null
  git -C /verif checkout -- evidence/$P.json 2>/dev/null   # the evidence file just written describes the patched tree: put the committed one back
  if echo "$out" | grep -q "^VIOLATION"; then echo "$d $P CAUGHT $(echo "$out" | grep -m1 'violation key' | cut -c1-110)";
  elif echo "$out" | grep -q "UNDECIDED"; then echo "$d $P UNDECIDED $(echo "$out" | grep -m1 UNDECIDED | cut -c1-120)";
  else echo "$d $P MISSED"; fi
done
