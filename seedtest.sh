#!/bin/bash
# seedtest.sh <prop> <n> [check-prop]: confirm a seeded change (compiles, existing tests pass, demo fails with / passes without), then run the check against it
P=$1; N=$2; CP=${3:-$P}
S=/tmp/seed-$P/$N; WT=/tmp/wt-$P
export GOFLAGS=-mod=mod GOPROXY=off GOSUMDB=off GOTOOLCHAIN=local
[ -f $S/patch.diff ] || { echo "no patch"; exit 2; }
[ -d $WT ] || git -C /repo worktree add -q --detach $WT HEAD
cd $WT && git checkout -q -- . && git clean -fdq
git apply --check $S/patch.diff || { echo "PATCH DOES NOT APPLY"; exit 2; }
DEST=$(head -1 $S/demo_test.go | sed -n 's,^// place in: *,,p' | tr -d '\r' | awk '{print $1}')
[ -n "$DEST" ] || { echo "no demo destination"; exit 2; }
mkdir -p $WT/$DEST; cp $S/demo_test.go $WT/$DEST/zz_seed_demo_test.go
DEMO=$(grep -o 'func Test[A-Za-z0-9_]*' $S/demo_test.go | sed 's/func //' | paste -sd'|')
moddir=$WT; case "$DEST" in libs/*) moddir=$WT/libs; DESTREL=${DEST#libs/};; *) DESTREL=$DEST;; esac
echo "== demo WITHOUT change"; (cd $moddir && go test -count=1 -run "^($DEMO)\$" ./$DESTREL 2>&1 | tail -3)
git apply $S/patch.diff
echo "== build WITH change"; (cd $WT && go build ./... && cd libs && go build ./... ) 2>&1 | tail -3
echo "== demo WITH change"; (cd $moddir && go test -count=1 -run "^($DEMO)\$" ./$DESTREL 2>&1 | tail -4)
rm -f $WT/$DEST/zz_seed_demo_test.go
echo "== existing tests WITH change (docker-free packages)"
(cd $WT && go test -count=1 ./internal ./internal/analytics/... ./internal/api/... ./internal/bus/... ./internal/engine/... ./internal/machine/... ./cmd/... 2>&1 | grep -v "no test files" | grep -v "^ok" | head -10; cd libs && go test -count=1 ./analytics/... ./api/... ./health/... ./otlp/... ./query/... ./collectionutils/... 2>&1 | grep -v "no test files" | grep -v "^ok" | head)
echo "== (anything listed above other than nothing is a failing existing test)"
cd $WT && git checkout -q -- . && git clean -fdq
echo "== check $CP against the change"
cd /repo && git apply $S/patch.diff && (cd /verif && timeout 900 ./check $CP quick 2>&1 | grep -E "^VIOLATION|violation key|quick:|UNDECIDED|INTERNAL" | cut -c1-260 | head -8); git -C /repo checkout -- .
git -C /repo status --short | head -3
