// Package vatomic stands in for "sync/atomic" in instrumented files (import path rewrite only).
package vatomic

import vr "github.com/formancehq/stack/libs/go-libs/verifrt"

type Int64 = vr.Int64

func AddInt64(p *int64, d int64) int64                  { return vr.AddInt64(p, d) }
func LoadInt64(p *int64) int64                          { return vr.LoadInt64(p) }
func StoreInt64(p *int64, v int64)                      { vr.StoreInt64(p, v) }
func CompareAndSwapInt64(p *int64, old, new int64) bool { return vr.CompareAndSwapInt64(p, old, new) }
