// Package verifrt: cooperative controlled scheduler for model checking the engine's concurrent core.
// Instrumented code (see /verif/engine/instr) calls into this package instead of sync, sync/atomic,
// channel operations, select and go statements. Exactly one thread runs at a time; every visible
// operation is a scheduling point at which the explorer chooses who goes next.
package verifrt

import (
	"fmt"
	"runtime"
	"runtime/debug"
	"sync"
)

// Alt is one alternative at a scheduling decision.
type Alt struct {
	Thread int // thread id, or -1 for "crash the process here"
	Sub    int // sub-choice (select case / injected fault / ...)
	Desc   string
	// Preempt: taking this alternative leaves a thread that could have continued
	Preempt bool
	// NonDefaultSub: a sub-choice other than the default one
	NonDefaultSub bool
}

// Chooser decides at every scheduling point. alts[0] is the default.
type Chooser interface {
	Choose(alts []Alt) int
}

type Reason int

const (
	Quiescent Reason = iota
	Deadlock
	Crash
	DaemonPanic
	StepLimit
)

func (r Reason) String() string {
	return [...]string{"quiescent", "deadlock", "crash", "daemon-panic", "step-limit"}[r]
}

type op interface {
	// subs returns the sub-choices currently enabled (empty = not enabled). Called with all threads parked.
	subs() []int
	// fire applies the effect of the operation with the given sub-choice (called by the scheduler just before resuming the thread).
	fire(sub int)
	desc() string
}

// objsOf: the shared objects an operation touches (for the happens-before state key). Operations that do not say are
// attributed to one global object per family, which is conservative (everything in the family is ordered).
type objser interface{ objs(sub int) []string }

func objsOf(o op, sub int) []string {
	if x, ok := o.(objser); ok {
		return x.objs(sub)
	}
	return nil
}

type Thread struct {
	ID       int
	Name     string
	Daemon   bool
	s        *Sched
	wake     chan struct{}
	pending  op
	finished bool
	killed   bool
	exited   chan struct{}
	Panic    interface{}
	PanicStack string
	started  bool
	fn       func()
	hb       uint64 // hash chain of this thread's events (each folds in the history of the objects it touched)
}

type Sched struct {
	threads []*Thread
	back    chan struct{}
	chooser Chooser
	last    *Thread
	AllowCrash bool
	Steps   int
	MaxSteps int
	Trace   []string // signature trace of fired operations (thread:desc)
	KeepTrace bool
	objSeq  int
	wg      sync.WaitGroup
	objHB   map[string]uint64
	Salt    uint64 // mixed into the state key (generation / persisted-state digest)
}

// the scheduler that owns the process (one execution at a time) and the thread currently running under it
var (
	cur     *Sched
	running *Thread
)

func New(c Chooser) *Sched {
	s := &Sched{back: make(chan struct{}), chooser: c, MaxSteps: 20000, objHB: map[string]uint64{}}
	cur = s
	running = nil
	return s
}

func Current() *Sched { return cur }

// Spawn registers a new thread; it starts parked at an initial always-enabled point.
func (s *Sched) Spawn(name string, daemon bool, fn func()) *Thread {
	t := &Thread{ID: len(s.threads), Name: name, Daemon: daemon, s: s, wake: make(chan struct{}), exited: make(chan struct{}), fn: fn}
	t.pending = &startOp{}
	s.threads = append(s.threads, t)
	s.wg.Add(1)
	go t.main()
	return t
}

type startOp struct{}

func (*startOp) subs() []int  { return []int{0} }
func (*startOp) fire(int)     {}
func (*startOp) desc() string { return "start" }

func (t *Thread) main() {
	defer t.s.wg.Done()
	defer close(t.exited)
	<-t.wake
	if t.killed {
		return
	}
	defer func() {
		if e := recover(); e != nil {
			t.Panic = e
			t.PanicStack = string(debug.Stack())
		}
		if t.killed {
			return
		}
		t.finished = true
		t.pending = nil
		t.s.back <- struct{}{}
	}()
	t.fn()
}

// Go is what an instrumented `go f()` becomes.
func Go(fn func()) {
	s := cur
	if s == nil || running == nil {
		go fn()
		return
	}
	parent := running
	child := s.Spawn(fmt.Sprintf("%s/go%d", parent.Name, len(s.threads)), parent.Daemon, fn)
	child.hb = mix(parent.hb, strHash("spawn"))
}

// GoDaemon spawns a daemon thread from harness or instrumented code.
func GoDaemon(name string, fn func()) {
	cur.Spawn(name, true, fn)
}

// park: publish the pending operation, hand the baton back, wait to be chosen.
func park(o op) {
	t := running
	if t == nil || cur == nil {
		// setup mode (no scheduled thread is running): the operation must be immediately possible
		sb := o.subs()
		if len(sb) == 0 {
			panic("verifrt: blocking operation outside a scheduled thread: " + o.desc())
		}
		o.fire(sb[0])
		return
	}
	if t.killed {
		// teardown: deferred functions of a killed thread do nothing visible
		return
	}
	t.pending = o
	t.s.back <- struct{}{}
	<-t.wake
	if t.killed {
		runtime.Goexit()
	}
}

// inKill reports whether the calling code runs in a thread being torn down.
func inKill() bool { return running != nil && running.killed }

func (s *Sched) alts() []Alt {
	var out []Alt
	add := func(t *Thread) {
		if t.finished || t.pending == nil {
			return
		}
		for i, sub := range t.pending.subs() {
			out = append(out, Alt{Thread: t.ID, Sub: sub, Desc: t.Name + ":" + t.pending.desc(), NonDefaultSub: i > 0})
		}
	}
	lastEnabled := false
	if s.last != nil {
		n := len(out)
		add(s.last)
		lastEnabled = len(out) > n
	}
	for _, t := range s.threads {
		if t != s.last {
			add(t)
		}
	}
	if lastEnabled {
		for i := range out {
			if out[i].Thread != s.last.ID {
				out[i].Preempt = true
			}
		}
	}
	return out
}

func (s *Sched) requestsDone() bool {
	for _, t := range s.threads {
		if !t.Daemon && !t.finished {
			return false
		}
	}
	return true
}

// Run schedules until every request thread has finished, nothing is enabled, a crash is chosen or a daemon panics.
func (s *Sched) Run() Reason {
	for {
		if s.requestsDone() {
			return Quiescent
		}
		alts := s.alts()
		if len(alts) == 0 {
			return Deadlock
		}
		if s.Steps >= s.MaxSteps {
			return StepLimit
		}
		if s.AllowCrash {
			alts = append(alts, Alt{Thread: -1, Desc: "CRASH", NonDefaultSub: true})
		}
		k := s.chooser.Choose(alts)
		a := alts[k]
		if a.Thread < 0 {
			return Crash
		}
		t := s.threads[a.Thread]
		s.Steps++
		if s.KeepTrace {
			s.Trace = append(s.Trace, fmt.Sprintf("%s#%d", a.Desc, a.Sub))
		}
		o := t.pending
		t.pending = nil
		s.event(t, o.desc(), a.Sub, objsOf(o, a.Sub))
		o.fire(a.Sub)
		s.last = t
		running = t
		t.wake <- struct{}{}
		<-s.back
		running = nil
		if t.Panic != nil && t.Daemon {
			return DaemonPanic
		}
	}
}

// KillAll tears every thread down (parked threads leave through runtime.Goexit; their deferred shim calls are no-ops).
func (s *Sched) KillAll() {
	for _, t := range s.threads {
		if t.finished {
			continue
		}
		t.killed = true
		running = t
		t.wake <- struct{}{}
		<-t.exited
		running = nil
		t.finished = true
	}
	s.wg.Wait()
}

// Threads returns the threads (for outcome inspection).
func (s *Sched) Threads() []*Thread { return s.threads }

// PendingDescs describes what every unfinished thread is waiting for (deadlock reports).
func (s *Sched) PendingDescs() []string {
	var out []string
	for _, t := range s.threads {
		if !t.finished && t.pending != nil {
			out = append(out, t.Name+":"+t.pending.desc())
		}
	}
	return out
}

func (s *Sched) nextObj(kind string) string {
	s.objSeq++
	return fmt.Sprintf("%s%d", kind, s.objSeq)
}

func objName(kind string) string {
	if cur == nil {
		return kind + "?"
	}
	return cur.nextObj(kind)
}

// ---------------------------------------------------------------------------------------------
// harness-visible points

type simpleOp struct {
	d    string
	n    int
	got  int
	obj  string
}

func (o *simpleOp) subs() []int {
	out := make([]int, o.n)
	for i := range out {
		out[i] = i
	}
	return out
}
func (o *simpleOp) fire(sub int) { o.got = sub }
func (o *simpleOp) desc() string { return o.d }
func (o *simpleOp) objs(int) []string {
	if o.obj != "" {
		return []string{o.obj}
	}
	if len(o.d) > 6 && o.d[:6] == "yield " {
		return []string{"mem"} // statement-level yields: unsynchronised memory, one conservative object
	}
	return []string{"harness"} // store / publisher / harness bookkeeping points
}

// Point is an always-enabled scheduling point (harness store / monitor operations).
func Point(desc string) {
	park(&simpleOp{d: desc, n: 1})
}

// Choice is an always-enabled point with n sub-choices (0 is the default; others cost a deviation).
func Choice(desc string, n int) int {
	if running == nil || inKill() {
		return 0
	}
	o := &simpleOp{d: desc, n: n}
	park(o)
	return o.got
}

// yieldObj: a scheduling point before an access to a named shim object (sync.Map, atomic).
func yieldObj(what, obj string) {
	if running == nil {
		return
	}
	park(&simpleOp{d: "yield " + what + " " + obj, n: 1, obj: obj})
}

// Yield is a plain scheduling point (statement granularity / spin loops).
func Yield(pos string) {
	if running == nil {
		return
	}
	park(&simpleOp{d: "yield " + pos, n: 1})
}

// SortedKeys: instrumented `for k, v := range m` over a map iterates in sorted key order (Go randomises map iteration;
// the explorer must own every source of nondeterminism).
func SortedKeys[M ~map[K]V, K interface {
	~int | ~int8 | ~int16 | ~int32 | ~int64 | ~uint | ~uint8 | ~uint16 | ~uint32 | ~uint64 | ~uintptr | ~float32 | ~float64 | ~string
}, V any](m M) []K {
	keys := make([]K, 0, len(m))
	for k := range m {
		keys = append(keys, k)
	}
	sortSlice(keys)
	return keys
}

func sortSlice[K interface {
	~int | ~int8 | ~int16 | ~int32 | ~int64 | ~uint | ~uint8 | ~uint16 | ~uint32 | ~uint64 | ~uintptr | ~float32 | ~float64 | ~string
}](s []K) {
	// insertion sort: the maps involved have a handful of entries
	for i := 1; i < len(s); i++ {
		for j := i; j > 0 && s[j] < s[j-1]; j-- {
			s[j], s[j-1] = s[j-1], s[j]
		}
	}
}


// ---------------------------------------------------------------------------------------------
// happens-before state key: two schedules that are equivalent up to reordering independent operations give every
// thread the same event chain, hence the same key.

func mix(h uint64, vals ...uint64) uint64 {
	for _, v := range vals {
		h ^= v + 0x9e3779b97f4a7c15 + (h << 6) + (h >> 2)
		h *= 0x100000001b3
	}
	return h
}

func strHash(s string) uint64 {
	h := uint64(14695981039346656037)
	for i := 0; i < len(s); i++ {
		h ^= uint64(s[i])
		h *= 1099511628211
	}
	return h
}

func (s *Sched) event(t *Thread, desc string, sub int, objs []string) {
	e := mix(t.hb, strHash(desc), uint64(sub)+1)
	for _, o := range objs {
		e = mix(e, s.objHB[o], strHash(o))
	}
	t.hb = e
	for _, o := range objs {
		s.objHB[o] = e
	}
}

// touch: a non-scheduling effect of the running thread on a shared object (unlock, close, counter change).
func touch(obj string) {
	s, t := cur, running
	if s == nil || t == nil {
		return
	}
	s.objHB[obj] = mix(s.objHB[obj], t.hb, strHash("touch"))
}

// StateKey identifies the global state up to reordering of independent operations.
func (s *Sched) StateKey() uint64 {
	k := mix(s.Salt, uint64(len(s.threads)))
	for _, t := range s.threads {
		f := uint64(0)
		if t.finished {
			f = 1
		}
		k = mix(k, uint64(t.ID), t.hb, f)
	}
	// the default (free) continuation depends on which thread ran last, so under a deviation bound two states only
	// have the same futures if that is equal too
	if s.last != nil {
		k = mix(k, uint64(s.last.ID)+1)
	}
	return k
}

// PointOn is Point with an explicit shared object (e.g. "real" before cancelling a context that instrumented code selects on).
func PointOn(desc, obj string) {
	park(&simpleOp{d: desc, n: 1, obj: obj})
}
