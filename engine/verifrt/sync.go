package verifrt

// Mutex

type Mutex struct {
	held bool
	name string
}

type lockOp struct{ m *Mutex }

func (o *lockOp) subs() []int {
	if o.m.held {
		return nil
	}
	return []int{0}
}
func (o *lockOp) fire(int)     { o.m.held = true }
func (o *lockOp) desc() string { return "Lock " + o.m.id() }
func (o *lockOp) objs(int) []string { return []string{o.m.id()} }

func (m *Mutex) id() string {
	if m.name == "" {
		m.name = objName("mu")
	}
	return m.name
}

func (m *Mutex) Lock() { park(&lockOp{m}) }
func (m *Mutex) Unlock() {
	if inKill() {
		return
	}
	if !m.held {
		panic("sync: unlock of unlocked mutex")
	}
	m.held = false
	touch(m.id())
}
func (m *Mutex) TryLock() bool {
	Yield("TryLock")
	if m.held {
		return false
	}
	m.held = true
	return true
}

// RWMutex

type RWMutex struct {
	writer  bool
	readers int
	name    string
}

func (m *RWMutex) id() string {
	if m.name == "" {
		m.name = objName("rw")
	}
	return m.name
}

type rwOp struct {
	m     *RWMutex
	write bool
}

func (o *rwOp) subs() []int {
	if o.m.writer || (o.write && o.m.readers > 0) {
		return nil
	}
	return []int{0}
}
func (o *rwOp) fire(int) {
	if o.write {
		o.m.writer = true
	} else {
		o.m.readers++
	}
}
func (o *rwOp) objs(int) []string { return []string{o.m.id()} }
func (o *rwOp) desc() string {
	if o.write {
		return "Lock " + o.m.id()
	}
	return "RLock " + o.m.id()
}

func (m *RWMutex) Lock()  { park(&rwOp{m, true}) }
func (m *RWMutex) RLock() { park(&rwOp{m, false}) }
func (m *RWMutex) Unlock() {
	if inKill() {
		return
	}
	m.writer = false
	touch(m.id())
}
func (m *RWMutex) RUnlock() {
	if inKill() {
		return
	}
	m.readers--
	touch(m.id())
}

// WaitGroup

type WaitGroup struct {
	n    int
	name string
}

type wgOp struct{ w *WaitGroup }

func (o *wgOp) subs() []int {
	if o.w.n > 0 {
		return nil
	}
	return []int{0}
}
func (o *wgOp) fire(int) {}
func (w *WaitGroup) id() string {
	if w.name == "" {
		w.name = objName("wg")
	}
	return w.name
}
func (o *wgOp) objs(int) []string { return []string{o.w.id()} }
func (o *wgOp) desc() string      { return "Wait " + o.w.id() }

func (w *WaitGroup) Add(d int) {
	if inKill() {
		return
	}
	w.n += d
	touch(w.id())
	if w.n < 0 {
		panic("sync: negative WaitGroup counter")
	}
}
func (w *WaitGroup) Done() { w.Add(-1) }
func (w *WaitGroup) Wait() { park(&wgOp{w}) }

// Once

type Once struct {
	done bool
	m    Mutex
}

func (o *Once) Do(f func()) {
	o.m.Lock()
	defer o.m.Unlock()
	if !o.done {
		o.done = true
		f()
	}
}

// Map (sync.Map): every method is a scheduling point, then acts on a plain map.

type Map struct {
	m    map[any]any
	keys []any
	name string
}

func (m *Map) pt(what string, key any) {
	if m.name == "" {
		m.name = objName("map")
	}
	yieldObj(what, m.name)
	if m.m == nil {
		m.m = map[any]any{}
	}
}

func (m *Map) Load(key any) (any, bool) {
	m.pt("Load", key)
	v, ok := m.m[key]
	return v, ok
}
func (m *Map) Store(key, value any) {
	m.pt("Store", key)
	if inKill() {
		return
	}
	if _, ok := m.m[key]; !ok {
		m.keys = append(m.keys, key)
	}
	m.m[key] = value
}
func (m *Map) LoadOrStore(key, value any) (any, bool) {
	m.pt("LoadOrStore", key)
	if v, ok := m.m[key]; ok {
		return v, true
	}
	if inKill() {
		return value, false
	}
	m.keys = append(m.keys, key)
	m.m[key] = value
	return value, false
}
func (m *Map) LoadAndDelete(key any) (any, bool) {
	m.pt("LoadAndDelete", key)
	v, ok := m.m[key]
	if ok && !inKill() {
		m.del(key)
	}
	return v, ok
}
func (m *Map) Delete(key any) {
	m.pt("Delete", key)
	if inKill() {
		return
	}
	m.del(key)
}
func (m *Map) del(key any) {
	if _, ok := m.m[key]; !ok {
		return
	}
	delete(m.m, key)
	for i, k := range m.keys {
		if k == key {
			m.keys = append(m.keys[:i], m.keys[i+1:]...)
			break
		}
	}
}
func (m *Map) Range(f func(key, value any) bool) {
	m.pt("Range", nil)
	for _, k := range append([]any{}, m.keys...) {
		if v, ok := m.m[k]; ok {
			if !f(k, v) {
				return
			}
		}
	}
}

// Int64 (atomic.Int64): every access is a scheduling point.

type Int64 struct {
	v    int64
	name string
}

func (i *Int64) pt(what string) {
	if i.name == "" {
		i.name = objName("a64_")
	}
	yieldObj(what, i.name)
}
func (i *Int64) Load() int64 { i.pt("Load"); return i.v }
func (i *Int64) Store(v int64) {
	i.pt("Store")
	if !inKill() {
		i.v = v
	}
}
func (i *Int64) Add(d int64) int64 {
	i.pt("Add")
	if !inKill() {
		i.v += d
	}
	return i.v
}
func (i *Int64) Swap(v int64) int64 {
	i.pt("Swap")
	old := i.v
	if !inKill() {
		i.v = v
	}
	return old
}
func (i *Int64) CompareAndSwap(old, new int64) bool {
	i.pt("CAS")
	if i.v == old {
		if !inKill() {
			i.v = new
		}
		return true
	}
	return false
}

// package-level atomic functions on plain words
func AddInt64(p *int64, d int64) int64 { Yield("AddInt64"); *p += d; return *p }
func LoadInt64(p *int64) int64         { Yield("LoadInt64"); return *p }
func StoreInt64(p *int64, v int64)     { Yield("StoreInt64"); *p = v }
func CompareAndSwapInt64(p *int64, old, new int64) bool {
	Yield("CASInt64")
	if *p == old {
		*p = new
		return true
	}
	return false
}

// Pool (sync.Pool): deterministic — Get returns the most recently Put item, nothing is ever dropped by a collection, and
// what one execution put is not handed to the next one (a package-level pool outlives an execution). No scheduling
// point of its own: what a pool makes observable is aliasing of the items, and that is ordered by the other operations.
type Pool struct {
	New   func() any
	items []any
	owner *Sched
}

func (p *Pool) reset() {
	if p.owner != cur {
		p.items, p.owner = nil, cur
	}
}

func (p *Pool) Get() any {
	p.reset()
	if n := len(p.items); n > 0 {
		x := p.items[n-1]
		p.items = p.items[:n-1]
		return x
	}
	if p.New != nil {
		return p.New()
	}
	return nil
}

func (p *Pool) Put(x any) {
	p.reset()
	if x == nil || inKill() {
		return
	}
	p.items = append(p.items, x)
}
