package verifrt

import "fmt"

// Chan[T] is what `chan T` becomes in instrumented code.
type Chan[T any] struct {
	buf    []T
	cap    int
	closed bool
	name   string
	// parked plain senders / receivers and select cases referring to this channel are found through the threads' pending ops
}

func MakeChan[T any](n ...int) *Chan[T] {
	c := &Chan[T]{}
	if len(n) > 0 {
		c.cap = n[0]
	}
	c.name = objName("ch")
	return c
}

type chanLike interface {
	chanID() string
}

func (c *Chan[T]) chanID() string {
	if c == nil {
		return "nilchan"
	}
	return c.name
}

// pendingSender / pendingReceiver: found by scanning parked threads.
type sendCase[T any] struct {
	c    *Chan[T]
	v    T
	done bool // completed by a receiver's rendezvous
}

type recvCase[T any] struct {
	c    *Chan[T]
	v    T
	ok   bool
	done bool // completed by a sender's rendezvous
}

type caseI interface {
	ready() bool   // can complete right now (buffer / closed / partner parked)
	complete()     // perform it
	isDone() bool  // completed passively by the partner
	describe() string
}

// partner search: a parked thread (other than self) whose pending op offers the complementary operation on c
func findRecvPartner[T any](c *Chan[T], self *Thread) *recvCase[T] {
	for _, t := range cur.threads {
		if t == self || t.finished || t.pending == nil {
			continue
		}
		switch o := t.pending.(type) {
		case *chanOp:
			if rc, ok := o.c.(*recvCase[T]); ok && rc.c == c && !rc.done {
				return rc
			}
		case *Select:
			if o.resolved >= 0 {
				continue
			}
			for _, cs := range o.cases {
				if rc, ok := cs.(*recvCase[T]); ok && rc.c == c && !rc.done {
					return rc
				}
			}
		}
	}
	return nil
}

func findSendPartner[T any](c *Chan[T], self *Thread) *sendCase[T] {
	for _, t := range cur.threads {
		if t == self || t.finished || t.pending == nil {
			continue
		}
		switch o := t.pending.(type) {
		case *chanOp:
			if sc, ok := o.c.(*sendCase[T]); ok && sc.c == c && !sc.done {
				return sc
			}
		case *Select:
			if o.resolved >= 0 {
				continue
			}
			for _, cs := range o.cases {
				if sc, ok := cs.(*sendCase[T]); ok && sc.c == c && !sc.done {
					return sc
				}
			}
		}
	}
	return nil
}

// markResolved: when a case of a parked select is completed passively, the select is resolved to that case.
func markResolved(c caseI) {
	for _, t := range cur.threads {
		if t.finished || t.pending == nil {
			continue
		}
		if s, ok := t.pending.(*Select); ok && s.resolved < 0 {
			for i, cs := range s.cases {
				if cs == c {
					s.resolved = i
				}
			}
		}
	}
}

func (s *sendCase[T]) owner() *Thread { return ownerOf(s) }
func (r *recvCase[T]) owner() *Thread { return ownerOf(r) }

func ownerOf(c caseI) *Thread {
	for _, t := range cur.threads {
		if t.finished || t.pending == nil {
			continue
		}
		switch o := t.pending.(type) {
		case *chanOp:
			if o.c == c {
				return t
			}
		case *Select:
			for _, cs := range o.cases {
				if cs == c {
					return t
				}
			}
		}
	}
	return nil
}

func (s *sendCase[T]) isDone() bool { return s.done }
func (s *sendCase[T]) ready() bool {
	if s.done {
		return true
	}
	c := s.c
	if c == nil {
		return false
	}
	if c.closed {
		return true // will panic, as in Go
	}
	if len(c.buf) < c.cap {
		return true
	}
	return findRecvPartner(c, s.owner()) != nil
}
func (s *sendCase[T]) complete() {
	if s.done {
		return
	}
	c := s.c
	if c.closed {
		panic("send on closed channel")
	}
	// a parked receiver takes precedence when the buffer is empty (FIFO otherwise)
	if len(c.buf) == 0 {
		if rc := findRecvPartner(c, s.owner()); rc != nil {
			rc.v, rc.ok, rc.done = s.v, true, true
			markResolved(rc)
			s.done = true
			return
		}
	}
	c.buf = append(c.buf, s.v)
	s.done = true
}
func (s *sendCase[T]) describe() string { return "send " + s.c.chanID() }

func (r *recvCase[T]) isDone() bool { return r.done }
func (r *recvCase[T]) ready() bool {
	if r.done {
		return true
	}
	c := r.c
	if c == nil {
		return false
	}
	if len(c.buf) > 0 || c.closed {
		return true
	}
	return findSendPartner(c, r.owner()) != nil
}
func (r *recvCase[T]) complete() {
	if r.done {
		return
	}
	c := r.c
	if len(c.buf) > 0 {
		r.v, r.ok = c.buf[0], true
		c.buf = c.buf[1:]
		// a parked sender may now fill the freed slot
		if sc := findSendPartner(c, r.owner()); sc != nil && len(c.buf) < c.cap {
			c.buf = append(c.buf, sc.v)
			sc.done = true
			markResolved(sc)
		}
		r.done = true
		return
	}
	if sc := findSendPartner(c, r.owner()); sc != nil {
		r.v, r.ok = sc.v, true
		sc.done = true
		markResolved(sc)
		r.done = true
		return
	}
	if c.closed {
		var zero T
		r.v, r.ok = zero, false
		r.done = true
		return
	}
	panic("verifrt: receive completed while not ready")
}
func (r *recvCase[T]) describe() string { return "recv " + r.c.chanID() }

// chanOp: a plain (non-select) channel operation.
type chanOp struct{ c caseI }

func (o *chanOp) subs() []int {
	if o.c.ready() {
		return []int{0}
	}
	return nil
}
func (o *chanOp) fire(int)     { o.c.complete() }
func (o *chanOp) desc() string { return o.c.describe() }
func (o *chanOp) objs(int) []string { return []string{caseObj(o.c)} }

// caseObj: the object a channel case touches ("real" for foreign channels: contexts, timers)
func caseObj(c caseI) string {
	d := c.describe()
	if d == "recv-real" {
		return "real"
	}
	if i := len("send "); len(d) > i {
		return d[i:] // "send chN" / "recv chN" have the same prefix length
	}
	return d
}

func (c *Chan[T]) Send(v T) {
	if inKill() {
		return
	}
	park(&chanOp{&sendCase[T]{c: c, v: v}})
}

func (c *Chan[T]) Recv() T {
	v, _ := c.Recv2()
	return v
}

func (c *Chan[T]) Recv2() (T, bool) {
	if inKill() {
		var zero T
		return zero, false
	}
	rc := &recvCase[T]{c: c}
	park(&chanOp{rc})
	return rc.v, rc.ok
}

// Close is not a scheduling point (a switch right after it equals a switch at the closer's next point).
func (c *Chan[T]) Close() {
	if inKill() {
		return
	}
	if c.closed {
		panic("close of closed channel")
	}
	c.closed = true
	touch(c.chanID())
}

func (c *Chan[T]) Len() int { return len(c.buf) }
func (c *Chan[T]) Cap() int { return c.cap }

// ---------------------------------------------------------------------------------------------
// foreign (real) channels: ctx.Done(), time.After(...)

type realRecvCase[T any] struct {
	ch     <-chan T
	v      T
	ok     bool
	polled bool // a value (or closedness) has been taken out of the real channel
}

func (r *realRecvCase[T]) isDone() bool { return false }
func (r *realRecvCase[T]) ready() bool {
	if r.polled {
		return true
	}
	if r.ch == nil {
		return false
	}
	select {
	case v, ok := <-r.ch:
		r.v, r.ok, r.polled = v, ok, true
		return true
	default:
		return false
	}
}
func (r *realRecvCase[T]) complete()        {}
func (r *realRecvCase[T]) describe() string { return "recv-real" }

func RecvReal[T any](ch <-chan T) T {
	v, _ := RecvReal2(ch)
	return v
}

func RecvReal2[T any](ch <-chan T) (T, bool) {
	if running == nil || inKill() {
		v, ok := <-ch
		return v, ok
	}
	rc := &realRecvCase[T]{ch: ch}
	park(&chanOp{rc})
	return rc.v, rc.ok
}

// ---------------------------------------------------------------------------------------------
// select

type Select struct {
	cases      []caseI
	hasDefault bool
	resolved   int // >= 0: completed passively by a partner
	chosen     int
}

func NewSelect() *Select { return &Select{resolved: -1, chosen: -1} }

type RecvHandle[T any] struct{ rc *recvCase[T] }

func (h RecvHandle[T]) Value() T          { return h.rc.v }
func (h RecvHandle[T]) Value2() (T, bool) { return h.rc.v, h.rc.ok }

type RealRecvHandle[T any] struct{ rc *realRecvCase[T] }

func (h RealRecvHandle[T]) Value() T          { return h.rc.v }
func (h RealRecvHandle[T]) Value2() (T, bool) { return h.rc.v, h.rc.ok }

func CaseRecv[T any](s *Select, c *Chan[T]) RecvHandle[T] {
	rc := &recvCase[T]{c: c}
	s.cases = append(s.cases, rc)
	return RecvHandle[T]{rc}
}

func CaseRecvReal[T any](s *Select, ch <-chan T) RealRecvHandle[T] {
	rc := &realRecvCase[T]{ch: ch}
	s.cases = append(s.cases, rc)
	return RealRecvHandle[T]{rc}
}

func CaseSend[T any](s *Select, c *Chan[T], v T) {
	s.cases = append(s.cases, &sendCase[T]{c: c, v: v})
}

func (s *Select) Default() { s.hasDefault = true }

const defaultCase = -1

func (s *Select) subs() []int {
	if s.resolved >= 0 {
		return []int{s.resolved}
	}
	var out []int
	for i, c := range s.cases {
		if c.ready() {
			out = append(out, i)
		}
	}
	if len(out) == 0 && s.hasDefault {
		return []int{len(s.cases)} // index len(cases) stands for default
	}
	return out
}

func (s *Select) fire(sub int) {
	s.chosen = sub
	if sub < len(s.cases) {
		s.cases[sub].complete()
	}
}

func (s *Select) objs(sub int) []string {
	if sub < len(s.cases) {
		return []string{caseObj(s.cases[sub])}
	}
	// default branch: it observed that no case was ready
	var out []string
	for _, c := range s.cases {
		out = append(out, caseObj(c))
	}
	return out
}

func (s *Select) desc() string {
	d := "select["
	for i, c := range s.cases {
		if i > 0 {
			d += ","
		}
		d += c.describe()
	}
	return d + "]"
}

// Wait blocks until one case fires; returns its index (len(cases) = default).
func (s *Select) Wait() int {
	if inKill() {
		return len(s.cases) + 1
	}
	if running == nil {
		// setup mode: must be immediately possible
		sb := s.subs()
		if len(sb) == 0 {
			panic("verifrt: blocking select outside a scheduled thread")
		}
		s.fire(sb[0])
		return s.chosen
	}
	park(s)
	return s.chosen
}

var _ = fmt.Sprint
