// Package vsync stands in for "sync" in instrumented files (import path rewrite only).
package vsync

import vr "github.com/formancehq/stack/libs/go-libs/verifrt"

type (
	Mutex     = vr.Mutex
	RWMutex   = vr.RWMutex
	WaitGroup = vr.WaitGroup
	Once      = vr.Once
	Map       = vr.Map
	Pool      = vr.Pool
)
