#!/bin/bash
# run_race.sh <property> <component>: free-running pass of the harness bodies of one component under the Go race detector
# (thorough tier only). The controlled scheduler orders every step, so the detector sees no race there; here real goroutines
# run and every pair of conflicting accesses not ordered by synchronisation is reported, whatever interleaving occurred.
set -u
cd /verif
export GOFLAGS=-mod=mod GOPROXY=off GOSUMDB=off GOTOOLCHAIN=local
PROP=$1; COMP=$2
W=/verif/.work
./engine/mkoverlay.sh plain > $W/overlay-plain.json || exit 0
if ! (cd xverif && go build -race -tags verif -overlay $W/overlay-plain.json -o $W/vrace ./cmd/vrace) 2> $W/build-race.log; then
  echo "note: race-detector build failed (property $PROP keeps the verdict of its other parts)"; head -5 $W/build-race.log; exit 0
fi
rm -f $W/race-$PROP.*
GORACE="log_path=$W/race-$PROP halt_on_error=0 exitcode=66" timeout 600 $W/vrace $COMP > $W/vrace-$PROP.out 2>&1
rc=$?
N=$(cat $W/race-$PROP.* 2>/dev/null | grep -c 'WARNING: DATA RACE')
E=/verif/evidence/$PROP.json
if [ -f $E ]; then
  jq --arg c "$COMP" --argjson n "$N" --argjson rc "$rc" '.coverage.race_pass = {component:$c, data_race_reports:$n, exit:$rc, workers:8, rounds:60, note:"free-running go build -race pass of the same component (not an exhaustive exploration: it only adds unsynchronised accesses the scheduler cannot show)"}' $E > $E.tmp && mv $E.tmp $E
fi
if [ "$N" -gt 0 ]; then
  mkdir -p replays
  R=/verif/replays/$PROP-race-$COMP.txt
  cat $W/race-$PROP.* > $R
  echo "  data race in $COMP: $(grep -m1 -A3 'WARNING: DATA RACE' $R | tail -2 | tr -s ' ' | tr '\n' ' ' | cut -c1-200)"
  echo "VIOLATION property=$PROP replay=$R"
  exit 1
fi
if [ $rc -ne 0 ]; then
  echo "note: race pass of $COMP ended with status $rc without a race report (see $W/vrace-$PROP.out); not counted"
fi
echo "$PROP race pass ($COMP): $N data race reports"
exit 0
