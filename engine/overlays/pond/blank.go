package pond
