// Stand-in for github.com/alitto/pond used only in the instrumented (controlled-scheduler) build:
// one spawn per submitted task, no idle timers, no private goroutines outside the scheduler's control.
package pond

// Spawn and NewWaitGroup are pointed at the controlled scheduler by the harness.
var Spawn = func(f func()) { go f() }

type WG interface {
	Add(int)
	Done()
	Wait()
}

var NewWaitGroup func() WG

type Option func(*WorkerPool)

type WorkerPool struct {
	wg WG
}

func New(maxWorkers, maxCapacity int, options ...Option) *WorkerPool {
	return &WorkerPool{wg: NewWaitGroup()}
}

func (p *WorkerPool) Submit(task func()) {
	p.wg.Add(1)
	Spawn(func() {
		defer p.wg.Done()
		task()
	})
}

func (p *WorkerPool) StopAndWait() { p.wg.Wait() }
func (p *WorkerPool) Stop()        {}
