#!/bin/bash
# builds the instrumented harness binary from the CURRENT /repo tree and runs one scheduler-based check
#   run_sched.sh build            just build (setup)
#   run_sched.sh <Cxx> <tier>     build + run
set -u
cd /verif
export GOFLAGS=-mod=mod GOPROXY=off GOSUMDB=off GOTOOLCHAIN=local
PROP=${1:-build}; TIER=${2:-quick}
W=/verif/.work
mkdir -p $W
FILES="maponly:/repo/internal/machine/vm/machine.go /repo/internal/engine/command/compiler.go /repo/internal/engine/command/commander.go /repo/internal/engine/command/context.go /repo/internal/engine/command/lock.go /repo/internal/engine/command/reference.go /repo/internal/engine/utils/batching/batcher.go /repo/internal/engine/utils/job/jobs.go /repo/libs/collectionutils/linked_list.go /repo/libs/publish/messages.go /repo/internal/bus/monitor.go /repo/internal/storage/ledgerstore/store.go /repo/internal/storage/ledgerstore/balances.go /repo/internal/storage/ledgerstore/logs.go /repo/internal/storage/ledgerstore/transactions.go /repo/internal/storage/ledgerstore/accounts.go /repo/internal/storage/ledgerstore/utils.go /repo/internal/storage/ledgerstore/bucket.go"
build() {
  local variant=$1 flag=$2
  (cd xverif && go build -o $W/instr ./cmd/instr) 2> $W/build-sched.log || return 1
  rm -rf $W/instr-$variant
  $W/instr $flag -out $W/instr-$variant $FILES > $W/instr-$variant.json 2>> $W/build-sched.log || return 1
  POND=$(go env GOMODCACHE)/github.com/alitto/pond@v1.8.3
  python3 - "$variant" "$POND" > $W/overlay-$variant.json <<'PY' || return 1
import json,sys,glob,os
variant,pond=sys.argv[1],sys.argv[2]
rep=json.load(open(f'/verif/.work/instr-{variant}.json'))
for f in glob.glob('/verif/engine/verifrt/*.go'):
    rep['/repo/libs/verifrt/'+os.path.basename(f)]=f
for sub in ('vsync','vatomic'):
    for f in glob.glob(f'/verif/engine/verifrt/{sub}/*.go'):
        rep[f'/repo/libs/verifrt/{sub}/'+os.path.basename(f)]=f
for f in glob.glob(pond+'/*.go'):
    b=os.path.basename(f)
    if b.endswith('_test.go'): continue
    rep[f]='/verif/engine/overlays/pond/pond.go' if b=='pond.go' else '/verif/engine/overlays/pond/blank.go'
for f in glob.glob('/verif/engine/overlays/sched/*.go.txt'):
    dest=open(f).readline().split('OVERLAY-DEST:')[1].strip()
    rep[dest]=f
json.dump({'Replace':rep},sys.stdout,indent=1)
PY
  (cd xverif && go build -tags verif -overlay $W/overlay-$variant.json -o $W/vsched-$variant ./cmd/vsched) 2>> $W/build-sched.log
}
if ! build sync ""; then
  if [ "$PROP" = build ]; then cat $W/build-sched.log; exit 1; fi
  echo "UNDECIDED property=$PROP instrumented build failed (construct unknown to the instrumenter, or the tree does not compile):"; head -20 $W/build-sched.log
  ./engine/undecided.sh "$PROP" "$TIER" "instrumented build failed"
  exit 0
fi
if [ "$TIER" = thorough ] || [ "$PROP" = build ] || [ "$PROP" = C08 ]; then
  build stmt "-stmt" || { echo "note: statement-granularity build failed"; rm -f $W/vsched-stmt; }
fi
[ "$PROP" = build ] && exit 0
if [ "$PROP" = replay ]; then
  # run_sched.sh replay <file>: re-execute one recorded schedule (scenario + choice sequence) on the current tree
  F=$TIER
  SC=$(jq -r '.replay.scenario' "$F"); CH=$(jq -r '.replay.choices | map(tostring) | join(",")' "$F"); ST=$(jq -r '.replay.stmt // false' "$F")
  BIN=$W/vsched-sync
  if [ "$ST" = true ]; then build stmt "-stmt" || exit 3; BIN=$W/vsched-stmt; fi
  exec $BIN replay "$SC" "$CH"
fi
export VERIF_TIER=$TIER
if [ "$PROP" = C08 ]; then
  # the compilation cache has no synchronisation operations of its own: explore it at statement granularity
  [ -x $W/vsched-stmt ] || { echo "UNDECIDED property=C08 statement-granularity build failed"; exit 0; }
  exec $W/vsched-stmt "$PROP"
fi
if [ "$TIER" = thorough ] && [ -x $W/vsched-stmt ] && [ "$PROP" != C15 ]; then
  $W/vsched-sync "$PROP"; rc1=$?
  VERIF_STMT=1 VERIF_EVIDENCE_APPEND=1 $W/vsched-stmt "$PROP"; rc2=$?
  [ $rc1 -gt $rc2 ] && exit $rc1
  exit $rc2
fi
exec $W/vsched-sync "$PROP"
