#!/bin/bash
# prints a go build overlay JSON adding verif-only files into the /repo tree (nothing is written under /repo)
set -e
kind=$1
echo '{"Replace":{'
first=1
for f in /verif/engine/overlays/$kind/*.go.txt; do
  [ -e "$f" ] || continue
  dest=$(head -1 "$f" | sed -n 's,^// OVERLAY-DEST: ,,p')
  [ -n "$dest" ] || continue
  [ $first = 1 ] || echo ','
  first=0
  printf '"%s":"%s"' "$dest" "$f"
done
echo '}}'
