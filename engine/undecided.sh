#!/bin/bash
# writes an evidence file recording that the check could not be decided (harness does not build)
PROP=$1; TIER=$2; WHY=$3
cat > /verif/evidence/$PROP.json <<JSON
{"property_id":"$PROP","tier":"$TIER","seed":${VERIF_SEED:-0},"level":"other","coverage":{"explanation":"UNDECIDED: $WHY","exhaustive":false},"wall_s":0,"violations":0}
JSON
