module github.com/formancehq/ledger/xverif

go 1.20

require (
	github.com/ThreeDotsLabs/watermill v1.2.0
	github.com/alitto/pond v1.8.3
	github.com/formancehq/ledger v0.0.0
	github.com/formancehq/stack/libs/go-libs v0.0.0-20230517212829-71aaaacfd130
	github.com/go-chi/chi/v5 v5.0.8
	github.com/lib/pq v1.10.7
	github.com/sirupsen/logrus v1.9.3
	github.com/uptrace/bun v1.1.16
	github.com/uptrace/bun/dialect/pgdialect v1.1.16
	go.uber.org/fx v1.19.2
)

require (
	github.com/Shopify/sarama v1.38.1 // indirect
	github.com/ThreeDotsLabs/watermill-http v1.1.4 // indirect
	github.com/ThreeDotsLabs/watermill-kafka/v2 v2.2.2 // indirect
	github.com/ThreeDotsLabs/watermill-nats/v2 v2.0.0 // indirect
	github.com/ajg/form v1.5.1 // indirect
	github.com/antlr/antlr4/runtime/Go/antlr v1.4.10 // indirect
	github.com/bluele/gcache v0.0.2 // indirect
	github.com/davecgh/go-spew v1.1.1 // indirect
	github.com/eapache/go-resiliency v1.3.0 // indirect
	github.com/eapache/go-xerial-snappy v0.0.0-20230111030713-bf00bc1b83b6 // indirect
	github.com/eapache/queue v1.1.0 // indirect
	github.com/felixge/httpsnoop v1.0.3 // indirect
	github.com/fsnotify/fsnotify v1.6.0 // indirect
	github.com/go-chi/chi v4.1.2+incompatible // indirect
	github.com/go-chi/cors v1.2.1 // indirect
	github.com/go-chi/render v1.0.2 // indirect
	github.com/go-logr/logr v1.2.4 // indirect
	github.com/go-logr/stdr v1.2.2 // indirect
	github.com/golang/snappy v0.0.4 // indirect
	github.com/google/uuid v1.3.1 // indirect
	github.com/gorilla/mux v1.8.0 // indirect
	github.com/gorilla/schema v1.2.0 // indirect
	github.com/gorilla/securecookie v1.1.1 // indirect
	github.com/hashicorp/errwrap v1.1.0 // indirect
	github.com/hashicorp/go-cleanhttp v0.5.2 // indirect
	github.com/hashicorp/go-multierror v1.1.1 // indirect
	github.com/hashicorp/go-retryablehttp v0.7.2 // indirect
	github.com/hashicorp/go-uuid v1.0.3 // indirect
	github.com/hashicorp/hcl v1.0.0 // indirect
	github.com/imdario/mergo v0.3.13 // indirect
	github.com/jackc/pgpassfile v1.0.0 // indirect
	github.com/jackc/pgservicefile v0.0.0-20221227161230-091c0ba34f0a // indirect
	github.com/jackc/pgx/v5 v5.3.0 // indirect
	github.com/jcmturner/aescts/v2 v2.0.0 // indirect
	github.com/jcmturner/dnsutils/v2 v2.0.0 // indirect
	github.com/jcmturner/gofork v1.7.6 // indirect
	github.com/jcmturner/gokrb5/v8 v8.4.3 // indirect
	github.com/jcmturner/rpc/v2 v2.0.3 // indirect
	github.com/jinzhu/inflection v1.0.0 // indirect
	github.com/klauspost/compress v1.16.7 // indirect
	github.com/lithammer/shortuuid/v3 v3.0.7 // indirect
	github.com/logrusorgru/aurora v2.0.3+incompatible // indirect
	github.com/magiconair/properties v1.8.7 // indirect
	github.com/mitchellh/mapstructure v1.5.0 // indirect
	github.com/muhlemmer/gu v0.3.1 // indirect
	github.com/muhlemmer/httpforwarded v0.1.0 // indirect
	github.com/nats-io/nats.go v1.28.0 // indirect
	github.com/nats-io/nkeys v0.4.6 // indirect
	github.com/nats-io/nuid v1.0.1 // indirect
	github.com/oklog/ulid v1.3.1 // indirect
	github.com/pelletier/go-toml/v2 v2.0.8 // indirect
	github.com/pierrec/lz4/v4 v4.1.17 // indirect
	github.com/pkg/errors v0.9.1 // indirect
	github.com/pmezard/go-difflib v1.0.0 // indirect
	github.com/rcrowley/go-metrics v0.0.0-20201227073835-cf1acfcdf475 // indirect
	github.com/riandyrn/otelchi v0.5.1 // indirect
	github.com/rs/cors v1.10.0 // indirect
	github.com/spf13/afero v1.9.3 // indirect
	github.com/spf13/cast v1.5.0 // indirect
	github.com/spf13/cobra v1.6.1 // indirect
	github.com/spf13/jwalterweatherman v1.1.0 // indirect
	github.com/spf13/pflag v1.0.5 // indirect
	github.com/spf13/viper v1.15.0 // indirect
	github.com/stretchr/testify v1.8.4 // indirect
	github.com/subosito/gotenv v1.4.2 // indirect
	github.com/tmthrgd/go-hex v0.0.0-20190904060850-447a3041c3bc // indirect
	github.com/uptrace/bun/extra/bunotel v1.1.16 // indirect
	github.com/uptrace/opentelemetry-go-extra/otelsql v0.2.2 // indirect
	github.com/vmihailenco/msgpack/v5 v5.3.5 // indirect
	github.com/vmihailenco/tagparser/v2 v2.0.0 // indirect
	github.com/xdg-go/pbkdf2 v1.0.0 // indirect
	github.com/xdg-go/scram v1.1.2 // indirect
	github.com/xdg-go/stringprep v1.0.4 // indirect
	github.com/zitadel/oidc/v2 v2.11.0 // indirect
	go.opentelemetry.io/contrib v1.0.0 // indirect
	go.opentelemetry.io/contrib/instrumentation/github.com/Shopify/sarama/otelsarama v0.42.0 // indirect
	go.opentelemetry.io/otel v1.17.0 // indirect
	go.opentelemetry.io/otel/metric v1.17.0 // indirect
	go.opentelemetry.io/otel/trace v1.17.0 // indirect
	go.uber.org/atomic v1.10.0 // indirect
	go.uber.org/dig v1.16.1 // indirect
	go.uber.org/mock v0.3.0 // indirect
	go.uber.org/multierr v1.9.0 // indirect
	go.uber.org/zap v1.24.0 // indirect
	golang.org/x/crypto v0.14.0 // indirect
	golang.org/x/net v0.15.0 // indirect
	golang.org/x/oauth2 v0.12.0 // indirect
	golang.org/x/sys v0.13.0 // indirect
	golang.org/x/text v0.13.0 // indirect
	gopkg.in/ini.v1 v1.67.0 // indirect
	gopkg.in/square/go-jose.v2 v2.6.0 // indirect
	gopkg.in/yaml.v3 v3.0.1 // indirect
)

replace github.com/formancehq/ledger => /repo

replace github.com/formancehq/stack/libs/go-libs => /repo/libs
