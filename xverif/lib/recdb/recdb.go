// Package recdb: a database/sql driver that records every SQL text it is sent and answers with empty result sets.
package recdb

import (
	"context"
	"database/sql"
	"database/sql/driver"
	"fmt"
	"io"
	"sync"
	"sync/atomic"
)

type Query struct {
	SQL  string
	Args []driver.NamedValue
}

type Recorder struct {
	mu sync.Mutex
	Q  []Query
}

func (r *Recorder) add(q string, args []driver.NamedValue) {
	r.mu.Lock()
	r.Q = append(r.Q, Query{q, args})
	r.mu.Unlock()
}

func (r *Recorder) Take() []Query {
	r.mu.Lock()
	defer r.mu.Unlock()
	q := r.Q
	r.Q = nil
	return q
}

var (
	regMu sync.Mutex
	reg   = map[string]*Recorder{}
	seq   int64
)

type drv struct{}

func init() { sql.Register("recdb", drv{}) }

func (drv) Open(name string) (driver.Conn, error) {
	regMu.Lock()
	r := reg[name]
	regMu.Unlock()
	if r == nil {
		return nil, fmt.Errorf("recdb: unknown recorder %s", name)
	}
	return &conn{r}, nil
}

// Open returns a *sql.DB whose statements are recorded in the returned Recorder.
func Open() (*sql.DB, *Recorder) {
	name := fmt.Sprintf("rec%d", atomic.AddInt64(&seq, 1))
	r := &Recorder{}
	regMu.Lock()
	reg[name] = r
	regMu.Unlock()
	db, err := sql.Open("recdb", name)
	if err != nil {
		panic(err)
	}
	return db, r
}

type conn struct{ r *Recorder }

func (c *conn) Prepare(q string) (driver.Stmt, error) { return &stmt{c, q}, nil }
func (c *conn) Close() error                          { return nil }
func (c *conn) Begin() (driver.Tx, error)             { return tx{}, nil }
func (c *conn) BeginTx(ctx context.Context, opts driver.TxOptions) (driver.Tx, error) {
	return tx{}, nil
}
func (c *conn) QueryContext(ctx context.Context, q string, args []driver.NamedValue) (driver.Rows, error) {
	c.r.add(q, args)
	return &rows{}, nil
}
func (c *conn) ExecContext(ctx context.Context, q string, args []driver.NamedValue) (driver.Result, error) {
	c.r.add(q, args)
	return driver.RowsAffected(0), nil
}

type tx struct{}

func (tx) Commit() error   { return nil }
func (tx) Rollback() error { return nil }

type stmt struct {
	c *conn
	q string
}

func (s *stmt) Close() error  { return nil }
func (s *stmt) NumInput() int { return -1 }
func (s *stmt) Exec(args []driver.Value) (driver.Result, error) {
	s.c.r.add(s.q, nil)
	return driver.RowsAffected(0), nil
}
func (s *stmt) Query(args []driver.Value) (driver.Rows, error) {
	s.c.r.add(s.q, nil)
	return &rows{}, nil
}

type rows struct{}

func (*rows) Columns() []string              { return []string{} }
func (*rows) Close() error                   { return nil }
func (*rows) Next(dest []driver.Value) error { return io.EOF }
