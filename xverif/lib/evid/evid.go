// Package evid: evidence files, violation reporting, known findings, replay artefacts.
package evid

import (
	"crypto/sha256"
	"encoding/hex"
	"encoding/json"
	"fmt"
	"os"
	"path/filepath"
	"sort"
	"strconv"
	"strings"
	"sync"
	"time"
)

const Root = "/verif"

type KnownFinding struct {
	Property string `json:"property"`
	Status   string `json:"status"` // "known" | "fixed"
	Key      string `json:"key"`    // exact fingerprint, or prefix ending in '*'
	What     string `json:"what"`
	Commit   string `json:"commit,omitempty"`
}

func LoadKnown(prop string) []KnownFinding {
	b, err := os.ReadFile(filepath.Join(Root, "known_findings.json"))
	if err != nil {
		return nil
	}
	var all []KnownFinding
	if err := json.Unmarshal(b, &all); err != nil {
		fmt.Fprintf(os.Stderr, "known_findings.json: %v\n", err)
		os.Exit(3)
	}
	var out []KnownFinding
	for _, k := range all {
		if k.Property == prop && k.Status == "known" {
			out = append(out, k)
		}
	}
	return out
}

func (k KnownFinding) Matches(key string) bool {
	if strings.HasSuffix(k.Key, "*") {
		return strings.HasPrefix(key, strings.TrimSuffix(k.Key, "*"))
	}
	return k.Key == key
}

type Violation struct {
	Key         string      `json:"key"`
	Explanation string      `json:"explanation"`
	Replay      interface{} `json:"replay"`
	Count       int         `json:"count"`
}

// Reporter collects violations (deduplicated by fingerprint key) and counters and writes the evidence file.
type Reporter struct {
	Prop   string
	Tier   string
	Level  string
	Seed   int
	start  time.Time
	mu     sync.Mutex
	viols  map[string]*Violation
	order  []string
	Assume []string
	Undecided []string
}

func NewReporter(prop, level string) *Reporter {
	tier := os.Getenv("VERIF_TIER")
	if tier != "thorough" {
		tier = "quick"
	}
	seed, _ := strconv.Atoi(os.Getenv("VERIF_SEED"))
	return &Reporter{Prop: prop, Tier: tier, Level: level, Seed: seed, start: time.Now(), viols: map[string]*Violation{}}
}

func (r *Reporter) Thorough() bool { return r.Tier == "thorough" }

// Violation records one violating case. key is the stable fingerprint (scenario + normalised failing input class).
func (r *Reporter) Violation(key, explanation string, replay interface{}) {
	r.mu.Lock()
	defer r.mu.Unlock()
	if v, ok := r.viols[key]; ok {
		v.Count++
		return
	}
	r.viols[key] = &Violation{Key: key, Explanation: explanation, Replay: replay, Count: 1}
	r.order = append(r.order, key)
}

func (r *Reporter) Undecide(what string) {
	r.mu.Lock()
	defer r.mu.Unlock()
	r.Undecided = append(r.Undecided, what)
}

func (r *Reporter) NViolations() int {
	r.mu.Lock()
	defer r.mu.Unlock()
	return len(r.viols)
}

type Coverage map[string]interface{}

// Finish writes the evidence file, prints KNOWN-FINDING / VIOLATION lines and returns the exit code.
func (r *Reporter) Finish(cov Coverage) int {
	known := LoadKnown(r.Prop)
	sort.Strings(r.order)
	unknown := 0
	knownHit := map[int]int{}
	var lines []string
	for _, key := range r.order {
		v := r.viols[key]
		matched := -1
		for i, k := range known {
			if k.Matches(key) {
				matched = i
				break
			}
		}
		if matched >= 0 {
			knownHit[matched] += v.Count
			continue
		}
		unknown++
		if unknown <= 20 {
			path := r.writeReplay(v)
			lines = append(lines, fmt.Sprintf("VIOLATION property=%s replay=%s", r.Prop, path))
			fmt.Printf("  violation key=%s (%d cases): %s\n", v.Key, v.Count, v.Explanation)
		}
	}
	for i, k := range known {
		if n := knownHit[i]; n > 0 {
			fmt.Printf("KNOWN-FINDING: property=%s %s [key=%s, %d cases this run]\n", r.Prop, k.What, k.Key, n)
		} else {
			fmt.Printf("note: listed known finding not reproduced in this run: property=%s key=%s\n", r.Prop, k.Key)
		}
	}
	for _, u := range r.Undecided {
		fmt.Printf("UNDECIDED property=%s %s\n", r.Prop, u)
	}
	for _, l := range lines {
		fmt.Println(l)
	}
	cov["violation_fingerprints"] = len(r.order)
	cov["known_finding_fingerprints"] = len(r.order) - unknown
	if len(r.Undecided) > 0 {
		cov["undecided"] = r.Undecided
		cov["exhaustive"] = false
	}
	if r.Assume == nil {
		r.Assume = []string{}
	}
	ev := map[string]interface{}{
		"property_id": r.Prop,
		"tier":        r.Tier,
		"seed":        r.Seed,
		"level":       r.Level,
		"coverage":    cov,
		"assumptions": r.Assume,
		"wall_s":      time.Since(r.start).Seconds(),
		"violations":  unknown,
	}
	// a check made of two engines runs them one after the other; the second merges its evidence into the first's
	if os.Getenv("VERIF_EVIDENCE_APPEND") != "" {
		if pb, err := os.ReadFile(filepath.Join(Root, "evidence", r.Prop+".json")); err == nil {
			var prev map[string]interface{}
			if json.Unmarshal(pb, &prev) == nil {
				if pc, ok := prev["coverage"].(map[string]interface{}); ok {
					for _, k := range []string{"states", "transitions", "traces_validated_against_impl", "evaluations", "distinct_nontrivial"} {
						pv, _ := pc[k].(float64)
						switch cv := cov[k].(type) {
						case int:
							cov[k] = cv + int(pv)
						case nil:
							if pv > 0 {
								cov[k] = int(pv)
							}
						}
					}
					if ps, ok := pc["samples"].([]interface{}); ok {
						if cs, ok := cov["samples"].([]interface{}); ok {
							cov["samples"] = append(ps, cs...)
						}
					}
					if pe, ok := pc["exhaustive"].(bool); ok && !pe {
						cov["exhaustive"] = false
					}
					cov["first_part"] = pc
				}
				if pl, ok := prev["level"].(string); ok {
					ev["level"] = pl
				}
				if pr, ok := pc0(prev)["rule"].(string); ok {
					if cr, ok := cov["rule"].(string); ok {
						cov["rule"] = pr + " || second part: " + cr
					}
				}
				if pa, ok := prev["assumptions"].([]interface{}); ok {
					for _, a := range pa {
						if as, ok := a.(string); ok {
							r.Assume = append(r.Assume, as)
						}
					}
					ev["assumptions"] = r.Assume
				}
				if pv, ok := prev["violations"].(float64); ok {
					ev["violations"] = unknown + int(pv)
				}
				if pw, ok := prev["wall_s"].(float64); ok {
					ev["wall_s"] = time.Since(r.start).Seconds() + pw
				}
			}
		}
	}
	b, _ := json.MarshalIndent(ev, "", " ")
	_ = os.MkdirAll(filepath.Join(Root, "evidence"), 0o755)
	if os.Getenv("VERIF_REPLAY") != "" {
		// a replay run (./check replay <file>) re-finds one recorded case: it never rewrites evidence
	} else if err := os.WriteFile(filepath.Join(Root, "evidence", r.Prop+".json"), append(b, '\n'), 0o644); err != nil {
		fmt.Fprintln(os.Stderr, "cannot write evidence:", err)
		return 3
	}
	fmt.Printf("%s %s: wall=%.1fs unknown_violations=%d known=%d coverage=%s\n", r.Prop, r.Tier, time.Since(r.start).Seconds(), unknown, len(r.order)-unknown, briefCov(cov))
	if unknown > 0 {
		return 1
	}
	return 0
}

func briefCov(cov Coverage) string {
	c := map[string]interface{}{}
	for k, v := range cov {
		switch v.(type) {
		case int, int64, uint64, bool, float64, string:
			if s, ok := v.(string); ok && len(s) > 80 {
				continue
			}
			c[k] = v
		}
	}
	b, _ := json.Marshal(c)
	return string(b)
}

func (r *Reporter) writeReplay(v *Violation) string {
	h := sha256.Sum256([]byte(v.Key))
	name := fmt.Sprintf("%s-%s.json", r.Prop, hex.EncodeToString(h[:6]))
	path := filepath.Join(Root, "replays", name)
	_ = os.MkdirAll(filepath.Join(Root, "replays"), 0o755)
	b, _ := json.MarshalIndent(map[string]interface{}{
		"property":    r.Prop,
		"key":         v.Key,
		"explanation": v.Explanation,
		"cases":       v.Count,
		"replay":      v.Replay,
	}, "", " ")
	if os.Getenv("VERIF_REPLAY") == "" {
		_ = os.WriteFile(path, append(b, '\n'), 0o644)
	}
	return path
}

// Samples keeps the first n items offered (thread-safe).
type Samples struct {
	mu  sync.Mutex
	N   int
	Got []interface{}
}

func (s *Samples) Offer(f func() interface{}) {
	s.mu.Lock()
	defer s.mu.Unlock()
	if len(s.Got) < s.N {
		s.Got = append(s.Got, f())
	}
}

// Histogram is a thread-safe string counter.
type Histogram struct {
	mu sync.Mutex
	M  map[string]int
}

func NewHistogram() *Histogram { return &Histogram{M: map[string]int{}} }
func (h *Histogram) Add(k string) {
	h.mu.Lock()
	h.M[k]++
	h.mu.Unlock()
}
func (h *Histogram) Merge(o map[string]int) {
	h.mu.Lock()
	for k, v := range o {
		h.M[k] += v
	}
	h.mu.Unlock()
}

// ParallelFor runs fn(i) for i in [0,n) on w goroutines, in chunks.
func ParallelFor(n, w int, fn func(worker, i int)) {
	if w < 1 {
		w = 1
	}
	var wg sync.WaitGroup
	var mu sync.Mutex
	next := 0
	const chunk = 16
	for k := 0; k < w; k++ {
		wg.Add(1)
		go func(k int) {
			defer wg.Done()
			for {
				mu.Lock()
				lo := next
				next += chunk
				mu.Unlock()
				if lo >= n {
					return
				}
				hi := lo + chunk
				if hi > n {
					hi = n
				}
				for i := lo; i < hi; i++ {
					fn(k, i)
				}
			}
		}(k)
	}
	wg.Wait()
}


func pc0(prev map[string]interface{}) map[string]interface{} {
	if pc, ok := prev["coverage"].(map[string]interface{}); ok {
		return pc
	}
	return map[string]interface{}{}
}
