//go:build verif

// Package storeh: the repository's ledgerstore.Store over a recording SQL driver.
package storeh

import (
	"github.com/formancehq/ledger/internal/storage/ledgerstore"
	"github.com/formancehq/ledger/xverif/lib/recdb"
	"github.com/uptrace/bun"
	"github.com/uptrace/bun/dialect/pgdialect"
)

// NewRecordingStore returns the real Store (built through the overlay-added constructor) whose SQL goes to a Recorder.
func NewRecordingStore(bucket, name string) (*ledgerstore.Store, *recdb.Recorder) {
	sqldb, rec := recdb.Open()
	db := bun.NewDB(sqldb, pgdialect.New())
	return ledgerstore.VerifNewStore(db, bucket, name), rec
}
