// Package explore: stateless depth-first exploration by prefix replay with a deviation bound,
// sharded over worker processes (one controlled scheduler per process).
package explore

import (
	"bufio"
	"encoding/json"
	"fmt"
	"hash/fnv"
	"os"
	"os/exec"
	"sort"
	"sync"
	"time"

	"github.com/formancehq/stack/libs/go-libs/verifrt"
)

// Replayer is the verifrt.Chooser of one execution: replays Prefix, then takes the default everywhere.
type Replayer struct {
	Prefix  []int
	Choices []int
	NAlts   []int
	Costs   [][]int8
	Sig     uint64 // rolling hash of the alternatives' descriptions (determinism check)
	Sigs    []uint64
	PrefixSig uint64
	Bad     string
	Keys    []uint64 // happens-before state key at every point
	Descs   []string // chosen alternative descriptions (kept only when KeepDescs)
	KeepDescs bool
}

func (r *Replayer) Choose(alts []verifrt.Alt) int {
	i := len(r.Choices)
	k := 0
	if i < len(r.Prefix) {
		k = r.Prefix[i]
		if k >= len(alts) {
			if r.Bad == "" {
				r.Bad = fmt.Sprintf("replay diverged at point %d: choice %d of %d alternatives", i, k, len(alts))
			}
			k = 0
		}
	}
	costs := make([]int8, len(alts))
	h := fnv.New64a()
	for j, a := range alts {
		// deviation bounding: alts[0] (keep running the current thread; else the lowest-numbered enabled thread with its first
		// sub-choice) is the default and free; every other alternative - a preemption, another thread at a blocking point,
		// a non-first ready select case, an injected fault, a crash - is one deviation.
		var c int8
		if j > 0 {
			c = 1
		}
		costs[j] = c
		h.Write([]byte(a.Desc))
		h.Write([]byte{byte(a.Sub), 0})
	}
	r.Sig = r.Sig*1099511628211 ^ h.Sum64()
	r.Sigs = append(r.Sigs, r.Sig)
	if i+1 == len(r.Prefix) {
		r.PrefixSig = r.Sig
	}
	if sc := verifrt.Current(); sc != nil {
		r.Keys = append(r.Keys, sc.StateKey())
	} else {
		r.Keys = append(r.Keys, 0)
	}
	r.Choices = append(r.Choices, k)
	r.NAlts = append(r.NAlts, len(alts))
	r.Costs = append(r.Costs, costs)
	if r.KeepDescs {
		r.Descs = append(r.Descs, fmt.Sprintf("%s#%d", alts[k].Desc, alts[k].Sub))
	}
	return k
}

// Outcome of one execution as judged by the scenario.
type Outcome struct {
	State     string // canonical end-state / observation (hashed for the distinct-states count)
	Label     string // coarse outcome label for the histogram (vacuity check)
	Violation string // non-empty: the property is violated in this execution
	VKey      string // fingerprint of the violation
}

// Scenario: one closed system. Exec must build everything fresh, run it under the chooser and tear it down.
type Scenario struct {
	Name  string
	Bound int // deviation bound
	Exec  func(r *Replayer) Outcome
}

type item struct {
	Prefix []int  `json:"p"`
	Cost   int    `json:"c"`
	Sig    uint64 `json:"s"` // expected signature after replaying Prefix (0 = unknown)
}

type Violation struct {
	Scenario string `json:"scenario"`
	Key      string `json:"key"`
	Why      string `json:"why"`
	Choices  []int  `json:"choices"`
	Trace    []string `json:"trace,omitempty"`
}

type batchResult struct {
	Execs      int64            `json:"execs"`
	Points     int64            `json:"points"`
	MaxDepth   int              `json:"max_depth"`
	States     []uint64         `json:"states"`
	Labels     map[string]int64 `json:"labels"`
	Leftover   []item           `json:"leftover"`
	Violations []Violation      `json:"violations"`
	Internal   string           `json:"internal,omitempty"`
	Sample     []string         `json:"sample,omitempty"`
	Pruned     int64            `json:"pruned"`
}

type request struct {
	Scenario string `json:"scenario"`
	Bound    int    `json:"bound"`
	Item     item   `json:"item"`
	Budget   int    `json:"budget"`
}

// runBatch explores the subtree of it depth-first until the budget of executions is used up.
// NoPrune disables happens-before pruning (VERIF_NOPRUNE=1): every schedule within the bound is executed.
var NoPrune = os.Getenv("VERIF_NOPRUNE") != ""

// visited state keys of the scenario / bound currently explored by this worker process
var (
	visited    = map[uint64]int{}
	visitedFor string
)

func runBatch(sc *Scenario, bound int, it item, budget int) batchResult {
	res := batchResult{Labels: map[string]int64{}}
	if tag := fmt.Sprintf("%s/%d", sc.Name, bound); tag != visitedFor {
		visited = map[uint64]int{}
		visitedFor = tag
	}
	seen := map[uint64]bool{}
	seenV := map[string]bool{}
	stack := []item{it}
	for len(stack) > 0 {
		if int(res.Execs) >= budget {
			res.Leftover = append(res.Leftover, stack...)
			break
		}
		cur := stack[len(stack)-1]
		stack = stack[:len(stack)-1]
		r := &Replayer{Prefix: cur.Prefix}
		out := sc.Exec(r)
		res.Execs++
		res.Points += int64(len(r.Choices))
		if len(r.Choices) > res.MaxDepth {
			res.MaxDepth = len(r.Choices)
		}
		if r.Bad != "" {
			res.Internal = fmt.Sprintf("scenario %s: %s (prefix %v)", sc.Name, r.Bad, cur.Prefix)
			return res
		}
		if cur.Sig != 0 && len(cur.Prefix) > 0 && r.PrefixSig != cur.Sig {
			res.Internal = fmt.Sprintf("scenario %s: nondeterministic replay of prefix %v (signature mismatch)", sc.Name, cur.Prefix)
			return res
		}
		h := fnv.New64a()
		h.Write([]byte(out.State))
		hs := h.Sum64()
		if !seen[hs] {
			seen[hs] = true
			res.States = append(res.States, hs)
		}
		res.Labels[out.Label]++
		if out.Violation != "" && !seenV[out.VKey] {
			seenV[out.VKey] = true
			// confirm determinism: the same schedule must fail the same way 5 times
			for k := 0; k < 5; k++ {
				r2 := &Replayer{Prefix: r.Choices, KeepDescs: k == 0}
				o2 := sc.Exec(r2)
				if o2.VKey != out.VKey || r2.Bad != "" {
					res.Internal = fmt.Sprintf("scenario %s: violation %q not reproducible on replay (got %q %s)", sc.Name, out.VKey, o2.VKey, r2.Bad)
					return res
				}
				if k == 0 {
					res.Violations = append(res.Violations, Violation{Scenario: sc.Name, Key: out.VKey, Why: out.Violation, Choices: r.Choices, Trace: r2.Descs})
				}
			}
		}
		if len(res.Sample) < 2 && len(cur.Prefix) > 0 {
			res.Sample = append(res.Sample, fmt.Sprintf("%s choices=%v label=%s", sc.Name, r.Choices, out.Label))
		}
		// children: every alternative at every point after the prefix whose cumulative cost stays within the bound
		// happens-before pruning: a state (thread event chains up to reordering of independent operations) already expanded
		// with at least this much deviation budget has had all its continuations generated
		limit := len(r.Choices)
		if !NoPrune {
			left := bound - cur.Cost
			for i := len(cur.Prefix); i < len(r.Choices); i++ {
				if b, ok := visited[r.Keys[i]]; ok && b >= left {
					limit = i
					res.Pruned++
					break
				}
				visited[r.Keys[i]] = left
			}
		}
		for i := limit - 1; i >= len(cur.Prefix); i-- {
			for k := r.NAlts[i] - 1; k >= 1; k-- {
				c := cur.Cost + int(r.Costs[i][k])
				if c > bound {
					continue
				}
				p := make([]int, i+1)
				copy(p, r.Choices[:i])
				p[i] = k
				stack = append(stack, item{Prefix: p, Cost: c, Sig: r.Sigs[i]})
			}
		}
	}
	return res
}

// WorkerMain serves batches on stdin/stdout (one JSON request per line).
func WorkerMain(scenarios map[string]*Scenario) {
	in := bufio.NewReaderSize(os.Stdin, 1<<20)
	out := bufio.NewWriter(os.Stdout)
	dec := json.NewDecoder(in)
	enc := json.NewEncoder(out)
	for {
		var rq request
		if err := dec.Decode(&rq); err != nil {
			return
		}
		sc := scenarios[rq.Scenario]
		var res batchResult
		if sc == nil {
			res.Internal = "unknown scenario " + rq.Scenario
		} else {
			res = runBatch(sc, rq.Bound, rq.Item, rq.Budget)
		}
		_ = enc.Encode(res)
		out.Flush()
	}
}

// Result of exploring one scenario completely (or up to the deadline).
type Result struct {
	Scenario   string
	Bound      int
	Execs      int64
	Points     int64
	MaxDepth   int
	States     int
	Labels     map[string]int64
	Violations []Violation
	Complete   bool
	Internal   string
	Samples    []string
	Wall       float64
	Pruned     int64
}

type worker struct {
	cmd *exec.Cmd
	enc *json.Encoder
	dec *json.Decoder
	in  *bufio.Writer
}

// Pool of worker processes (the same binary run with the "worker" argument).
type Pool struct {
	ws []*worker
}

func NewPool(n int) (*Pool, error) {
	p := &Pool{}
	exe, err := os.Executable()
	if err != nil {
		return nil, err
	}
	for i := 0; i < n; i++ {
		cmd := exec.Command(exe, "worker")
		cmd.Env = append(os.Environ(), "GOMAXPROCS=2", "GOGC=200")
		// the engine prints a stack trace whenever its batch worker dies (debug.PrintStack); keep that out of the check's output
		if f, ferr := os.Create(fmt.Sprintf("/verif/.work/worker-%d.err", i)); ferr == nil {
			cmd.Stderr = f
		} else {
			cmd.Stderr = os.Stderr
		}
		stdin, err := cmd.StdinPipe()
		if err != nil {
			return nil, err
		}
		stdout, err := cmd.StdoutPipe()
		if err != nil {
			return nil, err
		}
		if err := cmd.Start(); err != nil {
			return nil, err
		}
		bw := bufio.NewWriter(stdin)
		p.ws = append(p.ws, &worker{cmd: cmd, enc: json.NewEncoder(bw), dec: json.NewDecoder(bufio.NewReaderSize(stdout, 1<<20)), in: bw})
	}
	return p, nil
}

func (p *Pool) Close() {
	for _, w := range p.ws {
		_ = w.cmd.Process.Kill()
		_ = w.cmd.Wait()
	}
}

// Explore runs the scenario to completion with the given bound (or until the deadline).
func (p *Pool) Explore(sc *Scenario, bound int, deadline time.Time) Result {
	start := time.Now()
	res := Result{Scenario: sc.Name, Bound: bound, Labels: map[string]int64{}, Complete: true}
	var mu sync.Mutex
	cond := sync.NewCond(&mu)
	queue := []item{{}}
	busy := 0
	states := map[uint64]bool{}
	vkeys := map[string]bool{}
	stop := false
	var wg sync.WaitGroup
	for _, w := range p.ws {
		wg.Add(1)
		go func(w *worker) {
			defer wg.Done()
			for {
				mu.Lock()
				for len(queue) == 0 && busy > 0 && !stop {
					cond.Wait()
				}
				if stop || (len(queue) == 0 && busy == 0) {
					mu.Unlock()
					cond.Broadcast()
					return
				}
				it := queue[len(queue)-1]
				queue = queue[:len(queue)-1]
				busy++
				// small budgets while the queue is short (to spread work), larger later
				budget := 200
				if len(queue) > 4*len(p.ws) {
					budget = 3000
				}
				mu.Unlock()
				var br batchResult
				err := w.enc.Encode(request{Scenario: sc.Name, Bound: bound, Item: it, Budget: budget})
				if err == nil {
					err = w.in.Flush()
				}
				if err == nil {
					err = w.dec.Decode(&br)
				}
				mu.Lock()
				busy--
				if err != nil {
					res.Internal = "worker failed: " + err.Error()
					stop = true
				} else {
					res.Execs += br.Execs
					res.Pruned += br.Pruned
					res.Points += br.Points
					if br.MaxDepth > res.MaxDepth {
						res.MaxDepth = br.MaxDepth
					}
					for _, s := range br.States {
						states[s] = true
					}
					for k, v := range br.Labels {
						res.Labels[k] += v
					}
					for _, v := range br.Violations {
						if !vkeys[v.Key] {
							vkeys[v.Key] = true
							res.Violations = append(res.Violations, v)
						}
					}
					if len(res.Samples) < 3 {
						res.Samples = append(res.Samples, br.Sample...)
					}
					if br.Internal != "" {
						res.Internal = br.Internal
						stop = true
					}
					queue = append(queue, br.Leftover...)
					if time.Now().After(deadline) && len(queue) > 0 {
						res.Complete = false
						stop = true
					}
				}
				mu.Unlock()
				cond.Broadcast()
			}
		}(w)
	}
	wg.Wait()
	res.States = len(states)
	res.Wall = time.Since(start).Seconds()
	sort.Slice(res.Violations, func(i, j int) bool { return res.Violations[i].Key < res.Violations[j].Key })
	return res
}
