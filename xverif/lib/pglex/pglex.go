// Package pglex: a lexer for PostgreSQL's token syntax (standard_conforming_strings = on) producing a token skeleton
// in which the *contents* of literals are abstracted away.
package pglex

import (
	"strings"
	"unicode"
)

type Token struct {
	Kind string // str | estr | dollar | ident | qident | num | op | param | comment | punct | bad
	Text string
}

func isIdentStart(r rune) bool { return r == '_' || unicode.IsLetter(r) || r >= 0x80 }
func isIdentPart(r rune) bool  { return isIdentStart(r) || unicode.IsDigit(r) || r == '$' }

const opChars = "+-*/<>=~!@#%^&|`?"

// Lex tokenises s. An unterminated literal or comment yields a final token of kind "bad".
func Lex(s string) []Token {
	var out []Token
	rs := []rune(s)
	n := len(rs)
	i := 0
	for i < n {
		c := rs[i]
		switch {
		case unicode.IsSpace(c):
			i++
		case c == '-' && i+1 < n && rs[i+1] == '-':
			j := i
			for j < n && rs[j] != '\n' {
				j++
			}
			out = append(out, Token{"comment", string(rs[i:j])})
			i = j
		case c == '/' && i+1 < n && rs[i+1] == '*':
			depth := 0
			j := i
			closed := false
			for j < n {
				if j+1 < n && rs[j] == '/' && rs[j+1] == '*' {
					depth++
					j += 2
				} else if j+1 < n && rs[j] == '*' && rs[j+1] == '/' {
					depth--
					j += 2
					if depth == 0 {
						closed = true
						break
					}
				} else {
					j++
				}
			}
			if !closed {
				out = append(out, Token{"bad", string(rs[i:])})
				return out
			}
			out = append(out, Token{"comment", string(rs[i:j])})
			i = j
		case c == '\'' || ((c == 'E' || c == 'e') && i+1 < n && rs[i+1] == '\''):
			escapes := c != '\''
			kind := "str"
			j := i + 1
			if escapes {
				kind = "estr"
				j = i + 2
			}
			closed := false
			for j < n {
				if escapes && rs[j] == '\\' && j+1 < n {
					j += 2
					continue
				}
				if rs[j] == '\'' {
					if j+1 < n && rs[j+1] == '\'' {
						j += 2
						continue
					}
					j++
					closed = true
					break
				}
				j++
			}
			if !closed {
				out = append(out, Token{"bad", string(rs[i:])})
				return out
			}
			out = append(out, Token{kind, string(rs[i:j])})
			i = j
		case c == '"':
			j := i + 1
			closed := false
			for j < n {
				if rs[j] == '"' {
					if j+1 < n && rs[j+1] == '"' {
						j += 2
						continue
					}
					j++
					closed = true
					break
				}
				j++
			}
			if !closed {
				out = append(out, Token{"bad", string(rs[i:])})
				return out
			}
			out = append(out, Token{"qident", string(rs[i:j])})
			i = j
		case c == '$':
			// $n parameter, or $tag$ ... $tag$
			j := i + 1
			if j < n && unicode.IsDigit(rs[j]) {
				for j < n && unicode.IsDigit(rs[j]) {
					j++
				}
				out = append(out, Token{"param", string(rs[i:j])})
				i = j
				break
			}
			for j < n && (isIdentPart(rs[j]) && rs[j] != '$') {
				j++
			}
			if j < n && rs[j] == '$' {
				tag := string(rs[i : j+1])
				rest := string(rs[j+1:])
				k := strings.Index(rest, tag)
				if k < 0 {
					out = append(out, Token{"bad", string(rs[i:])})
					return out
				}
				end := j + 1 + len([]rune(rest[:k])) + len([]rune(tag))
				out = append(out, Token{"dollar", string(rs[i:end])})
				i = end
				break
			}
			out = append(out, Token{"op", "$"})
			i++
		case unicode.IsDigit(c) || (c == '.' && i+1 < n && unicode.IsDigit(rs[i+1])):
			j := i
			for j < n && (unicode.IsDigit(rs[j]) || rs[j] == '.') {
				j++
			}
			if j < n && (rs[j] == 'e' || rs[j] == 'E') {
				k := j + 1
				if k < n && (rs[k] == '+' || rs[k] == '-') {
					k++
				}
				if k < n && unicode.IsDigit(rs[k]) {
					for k < n && unicode.IsDigit(rs[k]) {
						k++
					}
					j = k
				}
			}
			out = append(out, Token{"num", string(rs[i:j])})
			i = j
		case isIdentStart(c):
			j := i
			for j < n && isIdentPart(rs[j]) {
				j++
			}
			out = append(out, Token{"ident", strings.ToLower(string(rs[i:j]))})
			i = j
		case c == ':' && i+1 < n && rs[i+1] == ':':
			out = append(out, Token{"op", "::"})
			i += 2
		case strings.ContainsRune(opChars, c):
			j := i
			for j < n && strings.ContainsRune(opChars, rs[j]) {
				// a comment start ends the operator
				if j > i && ((rs[j] == '-' && j+1 < n && rs[j+1] == '-') || (rs[j] == '/' && j+1 < n && rs[j+1] == '*')) {
					break
				}
				j++
			}
			out = append(out, Token{"op", string(rs[i:j])})
			i = j
		default:
			out = append(out, Token{"punct", string(c)})
			i++
		}
	}
	return out
}

// Skeleton renders the token sequence with literal contents abstracted.
func Skeleton(toks []Token) string {
	var sb strings.Builder
	for _, t := range toks {
		switch t.Kind {
		case "str", "estr", "dollar":
			sb.WriteString("S ")
		case "num":
			sb.WriteString("N ")
		case "comment":
			sb.WriteString("/*C*/ ")
		case "bad":
			sb.WriteString("<BAD> ")
		default:
			sb.WriteString(t.Text + " ")
		}
	}
	return sb.String()
}

// Contains reports in which token kinds the needle occurs.
func Where(toks []Token, needle string) map[string]int {
	out := map[string]int{}
	for _, t := range toks {
		if strings.Contains(t.Text, needle) {
			out[t.Kind]++
		}
	}
	return out
}
