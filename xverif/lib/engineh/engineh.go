// Package engineh: a real command.Commander on memstore with a recording publisher behind the repo's ledger monitor.
package engineh

import (
	"context"
	"encoding/json"
	"sync"

	"github.com/ThreeDotsLabs/watermill/message"
	"github.com/formancehq/ledger/internal/bus"
	"github.com/formancehq/ledger/internal/engine/command"
	"github.com/formancehq/ledger/xverif/lib/memstore"
	"github.com/formancehq/stack/libs/go-libs/logging"
)

// Published is one message put on the bus, with the persisted log count at publish time.
type Published struct {
	Topic     string
	Payload   json.RawMessage
	Persisted int
	// Live: the message as handed over (a bus that queues messages — watermill's go-channel copies share the payload slice —
	// lets its subscribers read these bytes after Publish returned)
	Live *message.Message
}

type Publisher struct {
	mu    sync.Mutex
	Store *memstore.Store
	Msgs  []Published
	Hook  func(topic string)
}

func (p *Publisher) Publish(topic string, messages ...*message.Message) error {
	if p.Hook != nil {
		p.Hook(topic)
	}
	p.mu.Lock()
	defer p.mu.Unlock()
	for _, m := range messages {
		p.Msgs = append(p.Msgs, Published{Topic: topic, Payload: append(json.RawMessage{}, m.Payload...), Persisted: p.persisted(), Live: m})
	}
	return nil
}

func (p *Publisher) persisted() int {
	if p.Store == nil {
		return 0
	}
	return p.Store.Len()
}

func (p *Publisher) Close() error { return nil }

func (p *Publisher) Snapshot() []Published {
	p.mu.Lock()
	defer p.mu.Unlock()
	return append([]Published{}, p.Msgs...)
}

type Engine struct {
	// CStore: what the Commander runs on (the memstore below, or any other implementation of its store contract)
	CStore command.Store
	Store  *memstore.Store
	Pub   *Publisher
	Cmd   *command.Commander
	ctx   context.Context
}

// QuietCtx: a context whose logger discards everything.
func QuietCtx() context.Context { return quietCtx() }

func quietCtx() context.Context {
	return logging.ContextWithLogger(context.Background(), logging.NewLogrus(quietLogrus()))
}

// Start builds a Commander on store (as engine.New does), initialises it from the store and starts its runner (free-running).
func Start(store *memstore.Store, pub *Publisher) *Engine {
	return StartWithCompiler(store, pub, command.NewCompiler(64))
}

// StartWithCompiler: as Start, with the (possibly shared) compilation cache given.
func StartWithCompiler(store *memstore.Store, pub *Publisher, compiler *command.Compiler) *Engine {
	if pub == nil {
		pub = &Publisher{Store: store}
	}
	e := StartOn(store, pub, compiler)
	e.Store = store
	return e
}

// StartOn: a Commander on any implementation of the store contract (the real ledgerstore over an interpreter, say).
func StartOn(store command.Store, pub *Publisher, compiler *command.Compiler) *Engine {
	if pub == nil {
		pub = &Publisher{}
	}
	if compiler == nil {
		compiler = command.NewCompiler(64)
	}
	e := &Engine{CStore: store, Pub: pub, ctx: quietCtx()}
	e.Cmd = command.New(store, command.NewDefaultLocker(), compiler, command.NewReferencer(), bus.NewLedgerMonitor(pub, "l1"))
	if err := e.Cmd.Init(e.ctx); err != nil {
		panic(err)
	}
	go e.Cmd.Run(e.ctx)
	return e
}

func (e *Engine) Ctx() context.Context { return e.ctx }

// Stop stops the runner (graceful).
func (e *Engine) Stop() { e.Cmd.Close() }

// Restart: stop, then a new Commander initialised from what the store holds.
func (e *Engine) Restart() *Engine {
	e.Stop()
	if e.Store == nil {
		return StartOn(e.CStore, e.Pub, nil)
	}
	return Start(e.Store, e.Pub)
}
