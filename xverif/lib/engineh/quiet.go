package engineh

import (
	"io"

	"github.com/sirupsen/logrus"
)

func quietLogrus() *logrus.Logger {
	l := logrus.New()
	l.SetOutput(io.Discard)
	l.SetLevel(logrus.PanicLevel)
	return l
}
