// Package minidb: a database/sql driver executing the single-table SELECT shape that bunpaginate produces
// (WHERE conjunction of simple comparisons, ORDER BY one column, LIMIT, OFFSET) over an in-memory table.
// It exists so the pagination library can be walked exhaustively without a PostgreSQL server.
package minidb

import (
	"context"
	"database/sql"
	"database/sql/driver"
	"fmt"
	"io"
	"regexp"
	"sort"
	"strconv"
	"strings"
	"sync"
	"sync/atomic"
)

type Row map[string]int64

type Table struct {
	Cols []string
	Rows []Row
	mu   sync.Mutex
	Log  []string
}

var (
	regMu sync.Mutex
	reg   = map[string]*Table{}
	seq   int64
)

type drv struct{}

func init() { sql.Register("minidb", drv{}) }

func (drv) Open(name string) (driver.Conn, error) {
	regMu.Lock()
	t := reg[name]
	regMu.Unlock()
	if t == nil {
		return nil, fmt.Errorf("minidb: unknown table set %s", name)
	}
	return &conn{t}, nil
}

func Open(t *Table) *sql.DB {
	name := fmt.Sprintf("mini%d", atomic.AddInt64(&seq, 1))
	regMu.Lock()
	reg[name] = t
	regMu.Unlock()
	db, err := sql.Open("minidb", name)
	if err != nil {
		panic(err)
	}
	return db
}

type conn struct{ t *Table }

func (c *conn) Prepare(q string) (driver.Stmt, error) { return nil, fmt.Errorf("minidb: prepare unsupported") }
func (c *conn) Close() error                          { return nil }
func (c *conn) Begin() (driver.Tx, error)             { return nil, fmt.Errorf("minidb: tx unsupported") }

var (
	reSelect = regexp.MustCompile(`(?is)^SELECT\s+(.*?)\s+FROM\s+"?(\w+)"?(?:\s+AS\s+"?\w+"?)?(?:\s+WHERE\s+(.*?))?(?:\s+ORDER BY\s+(.*?))?(?:\s+LIMIT\s+(\d+))?(?:\s+OFFSET\s+(\d+))?\s*$`)
	reCond   = regexp.MustCompile(`^\(?\s*"?(\w+)"?\s*(>=|<=|<>|!=|=|<|>)\s*'?(-?\d+|TRUE|FALSE)'?\s*\)?$`)
)

// ErrUnsupported: the statement is outside the subset (the check treats it as undecided, never as a violation).
type ErrUnsupported struct{ SQL string }

func (e ErrUnsupported) Error() string { return "minidb: unsupported statement: " + e.SQL }

func (c *conn) QueryContext(ctx context.Context, q string, args []driver.NamedValue) (driver.Rows, error) {
	c.t.mu.Lock()
	c.t.Log = append(c.t.Log, q)
	c.t.mu.Unlock()
	m := reSelect.FindStringSubmatch(strings.TrimSpace(q))
	if m == nil || len(args) != 0 {
		return nil, ErrUnsupported{q}
	}
	where, order, limit, offset := m[3], m[4], m[5], m[6]
	rows := append([]Row{}, c.t.Rows...)
	if where != "" {
		for _, cond := range strings.Split(where, " AND ") {
			cm := reCond.FindStringSubmatch(strings.TrimSpace(cond))
			if cm == nil {
				return nil, ErrUnsupported{q}
			}
			col, op, lit := cm[1], cm[2], cm[3]
			var v int64
			switch strings.ToUpper(lit) {
			case "TRUE":
				v = 1
			case "FALSE":
				v = 0
			default:
				v, _ = strconv.ParseInt(lit, 10, 64)
			}
			var kept []Row
			for _, r := range rows {
				x, ok := r[col]
				if !ok {
					return nil, ErrUnsupported{q}
				}
				keep := false
				switch op {
				case ">=":
					keep = x >= v
				case "<=":
					keep = x <= v
				case "<":
					keep = x < v
				case ">":
					keep = x > v
				case "=":
					keep = x == v
				case "<>", "!=":
					keep = x != v
				}
				if keep {
					kept = append(kept, r)
				}
			}
			rows = kept
		}
	}
	if order != "" {
		// "col ASC" | "col DESC" | "\"col\"" ; several keys separated by commas: only the first matters here (ids are unique)
		first := strings.TrimSpace(strings.Split(order, ",")[0])
		f := strings.Fields(first)
		col := strings.Trim(f[0], `"`)
		desc := len(f) > 1 && strings.EqualFold(f[1], "DESC")
		sort.SliceStable(rows, func(i, j int) bool {
			if desc {
				return rows[i][col] > rows[j][col]
			}
			return rows[i][col] < rows[j][col]
		})
	}
	if offset != "" {
		n, _ := strconv.Atoi(offset)
		if n > len(rows) {
			n = len(rows)
		}
		rows = rows[n:]
	}
	if limit != "" {
		n, _ := strconv.Atoi(limit)
		if n < len(rows) {
			rows = rows[:n]
		}
	}
	return &result{cols: c.t.Cols, rows: rows}, nil
}

type result struct {
	cols []string
	rows []Row
	i    int
}

func (r *result) Columns() []string { return r.cols }
func (r *result) Close() error      { return nil }
func (r *result) Next(dest []driver.Value) error {
	if r.i >= len(r.rows) {
		return io.EOF
	}
	for k, c := range r.cols {
		dest[k] = r.rows[r.i][c]
	}
	r.i++
	return nil
}
