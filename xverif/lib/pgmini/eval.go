package pgmini

import (
	"math"
	"math/big"
	"strings"
	"time"
)

// binding is one FROM item (or the target row of a DML statement) visible to expressions.
type binding struct {
	alias         string
	cols          []string
	row           []Value // current row
	rowType       string  // composite type of a whole-row reference ("" = anonymous record)
	scalar        bool    // function returning a scalar: a whole-row reference yields the single column
	qualifiedOnly bool    // columns are visible only as alias.column (EXCLUDED)
}

type variable struct {
	typ Type
	val Value
}

// scope is one level of name resolution: a query level (bindings) or a function body (variables). Inner scopes
// shadow outer ones, except that inside PL/pgSQL a name matching both a column and a variable is an error, as with
// PostgreSQL's default plpgsql.variable_conflict = error.
type scope struct {
	outer      *scope
	binds      []*binding
	vars       map[string]*variable
	plpgsql    bool
	queryLevel bool
	grouped    bool                  // aggregate query without GROUP BY: plain column references are invalid
	aggs       map[*FuncCall]Value   // aggregate results of this query level
	rowNumber  int64                 // row_number() OVER () of the current row
	groupKeys  map[string]Value      // GROUP BY: canonical expression -> value for the current group
	ctes       map[string]*resultSet // WITH queries visible from here
}

func (sc *scope) findVar(name string) *variable {
	for ; sc != nil; sc = sc.outer {
		if v := sc.vars[name]; v != nil {
			return v
		}
	}
	return nil
}

func (b *binding) wholeRow() Value {
	if b.scalar {
		return b.row[0]
	}
	return Composite{Type: b.rowType, Fields: b.row}
}

func (s *session) resolveIdent(id *Ident, sc *scope) (Value, error) {
	name := strings.Join(id.Parts, ".")
	switch len(id.Parts) {
	case 1:
		for cur := sc; cur != nil; cur = cur.outer {
			var hit *binding
			hitCol := -1
			for _, b := range cur.binds {
				if b.qualifiedOnly {
					continue
				}
				for i, c := range b.cols {
					if c == name {
						if hit != nil {
							return nil, pgError("column reference %q is ambiguous", name)
						}
						hit, hitCol = b, i
					}
				}
			}
			if hit != nil {
				for p := cur; p != nil; p = p.outer {
					if p.plpgsql && p.vars[name] != nil {
						return nil, pgError("column reference %q is ambiguous: it could refer to either a PL/pgSQL variable or a table column", name)
					}
				}
				if cur.grouped {
					return nil, pgError("column %q must appear in the GROUP BY clause or be used in an aggregate function", name)
				}
				return hit.row[hitCol], nil
			}
			for _, b := range cur.binds {
				if b.alias == name {
					if cur.grouped || b.row == nil {
						return nil, pgError("column %q must appear in the GROUP BY clause or be used in an aggregate function", name)
					}
					return b.wholeRow(), nil
				}
			}
			if v := cur.vars[name]; v != nil {
				return v.val, nil
			}
		}
		return nil, pgError("column %q does not exist", name)
	case 2:
		for cur := sc; cur != nil; cur = cur.outer {
			for _, b := range cur.binds {
				if b.alias != id.Parts[0] {
					continue
				}
				for i, c := range b.cols {
					if c == id.Parts[1] {
						if cur.grouped {
							return nil, pgError("column %q must appear in the GROUP BY clause or be used in an aggregate function", name)
						}
						return b.row[i], nil
					}
				}
				return nil, pgError("column %s does not exist", name)
			}
			if v := cur.vars[id.Parts[0]]; v != nil {
				return s.fieldOf(v.val, v.typ.Name, id.Parts[1])
			}
		}
		return nil, pgError("missing FROM-clause entry for table %q", id.Parts[0])
	}
	return nil, unsupported("name with %d parts: %s", len(id.Parts), name)
}

// fieldOf selects a field of a composite value; typeName is the static type when the value is NULL.
func (s *session) fieldOf(v Value, typeName, field string) (Value, error) {
	c, isComp := v.(Composite)
	if isComp {
		typeName = c.Type
	} else if v != nil {
		return nil, pgError("column notation .%s applied to type %s, which is not a composite type", field, typeNameOf(v))
	}
	if typeName == "" {
		return nil, unsupported("field selection from an anonymous record")
	}
	fields, ok := s.compositeFields(typeName)
	if !ok {
		return nil, pgError("type %s is not composite", typeName)
	}
	for i, f := range fields {
		if f.Name == field {
			if !isComp {
				return nil, nil
			}
			return c.Fields[i], nil
		}
	}
	return nil, pgError("column %q not found in data type %s", field, typeName)
}

// dynType names the type of a non-null value, for coercing unknown-typed string constants next to it.
func dynType(v Value) (Type, error) {
	switch x := v.(type) {
	case int64:
		return Type{Name: "bigint"}, nil
	case *big.Int:
		return Type{Name: "numeric"}, nil
	case string:
		return Type{Name: "text"}, nil
	case time.Time:
		return Type{Name: "timestamp"}, nil
	case bool:
		return Type{Name: "boolean"}, nil
	case []byte:
		return Type{Name: "bytea"}, nil
	case JSON:
		if !x.plain {
			return Type{Name: "jsonb"}, nil
		}
	}
	return Type{}, unsupported("string constant next to a value of type %s", typeNameOf(v))
}

// evalPair evaluates both operands of a binary operator; an unknown-typed string constant on one side takes the
// type of the other side, as PostgreSQL's operator resolution does.
func (s *session) evalPair(l, r Expr, sc *scope) (a, b Value, err error) {
	if a, err = s.eval(l, sc); err != nil {
		return
	}
	if b, err = s.eval(r, sc); err != nil {
		return
	}
	return s.coerceUnknown(l, r, a, b)
}

// coerceUnknown gives an unknown-typed string constant operand the type of the other operand.
func (s *session) coerceUnknown(l, r Expr, a, b Value) (_, _ Value, err error) {
	_, lLit := l.(*StringLit)
	_, rLit := r.(*StringLit)
	coerce := func(lit, other Value) (Value, error) {
		if _, isStr := other.(string); isStr || other == nil {
			return lit, nil
		}
		t, err := dynType(other)
		if err != nil {
			return nil, err
		}
		return s.cast(lit, t, castIO)
	}
	if lLit && !rLit {
		a, err = coerce(a, b)
	} else if rLit && !lLit {
		b, err = coerce(b, a)
	}
	return a, b, err
}

func (s *session) evalBool(e Expr, sc *scope) (Value, error) {
	v, err := s.eval(e, sc)
	if err != nil || v == nil {
		return nil, err
	}
	if _, isLit := e.(*StringLit); isLit {
		return s.cast(v, Type{Name: "boolean"}, castIO)
	}
	if b, ok := v.(bool); ok {
		return b, nil
	}
	return nil, pgError("argument of a boolean context must be type boolean, not type %s", typeNameOf(v))
}

// isTrue evaluates a condition; NULL counts as not true.
func (s *session) isTrue(e Expr, sc *scope) (bool, error) {
	v, err := s.evalBool(e, sc)
	return v == true, err
}

func (s *session) eval(e Expr, sc *scope) (Value, error) {
	if sc != nil && sc.groupKeys != nil { // grouped query: an expression equal to a GROUP BY item is that group's key
		if v, ok := sc.groupKeys[s.canon(e, sc)]; ok {
			return v, nil
		}
	}
	switch x := e.(type) {
	case *Literal:
		return x.Val, nil
	case *StringLit:
		return x.Val, nil
	case *Param:
		if v := sc.findVar("$" + itoa(x.N)); v != nil {
			return v.val, nil
		}
		return nil, pgError("there is no parameter $%d", x.N)
	case *Ident:
		return s.resolveIdent(x, sc)
	case *Unary:
		return s.evalUnary(x, sc)
	case *Binary:
		return s.evalBinary(x, sc)
	case *IsNull:
		v, err := s.eval(x.X, sc)
		if err != nil {
			return nil, err
		}
		if c, ok := v.(Composite); ok { // row IS NULL: all fields null; row IS NOT NULL: all fields non-null
			for _, f := range c.Fields {
				if (f == nil) == x.Not {
					return false, nil
				}
			}
			return true, nil
		}
		return (v == nil) != x.Not, nil
	case *Cast:
		v, err := s.eval(x.X, sc)
		if err != nil {
			return nil, err
		}
		return s.cast(v, x.To, castExplicit)
	case *FieldSel:
		v, err := s.eval(x.X, sc)
		if err != nil {
			return nil, err
		}
		if v == nil {
			return nil, nil
		}
		return s.fieldOf(v, "", x.Field)
	case *RowCtor:
		c := Composite{Fields: make([]Value, len(x.Fields))}
		for i, f := range x.Fields {
			var err error
			if c.Fields[i], err = s.eval(f, sc); err != nil {
				return nil, err
			}
		}
		return c, nil
	case *Case:
		return s.evalCase(x, sc)
	case *FuncCall:
		return s.evalCall(x, sc)
	case *Subquery:
		res, err := s.execSelect(x.Sel, sc)
		if err != nil {
			return nil, err
		}
		if len(res.cols) != 1 {
			return nil, pgError("subquery must return only one column")
		}
		switch len(res.rows) {
		case 0:
			return nil, nil
		case 1:
			return res.rows[0][0], nil
		}
		return nil, pgError("more than one row returned by a subquery used as an expression")
	case *Exists:
		res, err := s.execSelect(x.Sel, sc)
		if err != nil {
			return nil, err
		}
		return len(res.rows) > 0, nil
	case *AnyOp:
		l, err := s.eval(x.L, sc)
		if err != nil {
			return nil, err
		}
		r, err := s.eval(x.R, sc)
		if err != nil || l == nil || r == nil {
			return nil, err
		}
		arr, ok := r.(Array)
		if !ok {
			return nil, pgError("op ANY/ALL (array) requires array on right side")
		}
		var result Value = false
		for _, el := range arr.Elems {
			if el == nil {
				result = nil
				continue
			}
			ok, err := compareOp(x.Op, l, el)
			if err != nil {
				return nil, err
			}
			if ok {
				return true, nil
			}
		}
		return result, nil
	}
	return nil, unsupported("expression %s", describe(e))
}

func itoa(n int) string { return big.NewInt(int64(n)).String() }

func (s *session) evalUnary(x *Unary, sc *scope) (Value, error) {
	if x.Op == "not" {
		v, err := s.evalBool(x.X, sc)
		if err != nil || v == nil {
			return nil, err
		}
		return !v.(bool), nil
	}
	v, err := s.eval(x.X, sc)
	if err != nil || v == nil {
		return nil, err
	}
	switch n := v.(type) {
	case int64:
		if x.Op == "+" {
			return n, nil
		}
		if n == math.MinInt64 {
			return nil, pgError("bigint out of range")
		}
		return -n, nil
	case *big.Int:
		if x.Op == "+" {
			return n, nil
		}
		return new(big.Int).Neg(n), nil
	}
	return nil, pgError("operator does not exist: %s %s", x.Op, typeNameOf(v))
}

func compareOp(op string, a, b Value) (bool, error) {
	c, err := compareValues(a, b)
	if err != nil {
		return false, err
	}
	switch op {
	case "=":
		return c == 0, nil
	case "<>":
		return c != 0, nil
	case "<":
		return c < 0, nil
	case "<=":
		return c <= 0, nil
	case ">":
		return c > 0, nil
	}
	return c >= 0, nil
}

func (s *session) evalBinary(x *Binary, sc *scope) (Value, error) {
	if x.Op == "and" || x.Op == "or" {
		l, err := s.evalBool(x.L, sc)
		if err != nil {
			return nil, err
		}
		decisive := x.Op == "or" // true decides OR, false decides AND
		if l == decisive {
			return decisive, nil
		}
		r, err := s.evalBool(x.R, sc)
		if err != nil {
			return nil, err
		}
		if r == decisive {
			return decisive, nil
		}
		if l == nil || r == nil {
			return nil, nil
		}
		return !decisive, nil
	}
	a, err := s.eval(x.L, sc)
	if err != nil {
		return nil, err
	}
	b, err := s.eval(x.R, sc)
	if err != nil {
		return nil, err
	}
	// jsonb -> 'key', jsonb ->> 'key' and jsonb - 'key' take a text right operand (there is no jsonb variant of
	// these operators); everywhere else an unknown-typed constant adopts the other operand's type.
	// For || a constant becomes jsonb next to jsonb and stays text next to anything else (text || anynonarray).
	_, leftJSON := a.(JSON)
	_, rightJSON := b.(JSON)
	if _, isLit := x.R.(*StringLit); isLit && x.Op == "@@" && leftJSON {
		if b, err = s.cast(b, Type{Name: "jsonpath"}, castIO); err != nil {
			return nil, err
		}
	} else if !(x.Op == "->" || x.Op == "->>" || (x.Op == "-" && leftJSON) || (x.Op == "||" && !leftJSON && !rightJSON)) {
		if a, b, err = s.coerceUnknown(x.L, x.R, a, b); err != nil {
			return nil, err
		}
	}
	if _, isCmp := comparisonOps[x.Op]; isCmp {
		if a == nil || b == nil {
			return nil, nil
		}
		return compareOp(x.Op, a, b)
	}
	if a == nil || b == nil {
		_, aArr := a.(Array)
		_, bArr := b.(Array)
		switch x.Op {
		case "+", "-", "*", "/", "%", "||", "->", "->>", "@>", "<@", "@@":
			if !aArr && !bArr {
				return nil, nil // these operators are strict
			}
		}
		return nil, unsupported("operator %s with a NULL operand", x.Op)
	}
	ja, aJSON := a.(JSON)
	jb, bJSON := b.(JSON)
	switch x.Op {
	case "+", "-", "*", "/", "%":
		if isNumber(a) && isNumber(b) {
			return arith(x.Op, a, b)
		}
		if key, isStr := b.(string); x.Op == "-" && aJSON && !ja.plain && isStr {
			return jsonDeleteKey(ja, key)
		}
	case "||":
		if aJSON && bJSON && !ja.plain && !jb.plain {
			return JSON{V: jsonConcat(ja.V, jb.V)}, nil
		}
		as, aStr := a.(string)
		bs, bStr := b.(string)
		_, aArr := a.(Array)
		_, bArr := b.(Array)
		switch {
		case aArr || bArr:
			return nil, unsupported("array concatenation")
		case aStr && bStr:
			return as + bs, nil
		case aStr:
			return as + textOut(b), nil // text || anynonarray
		case bStr:
			return textOut(a) + bs, nil
		}
	case "->", "->>":
		if !aJSON {
			break
		}
		var elem any
		found := false
		switch k := b.(type) {
		case string:
			if obj, ok := ja.V.(map[string]any); ok {
				elem, found = obj[k]
			}
		case int64:
			if arr, ok := ja.V.([]any); ok {
				if k < 0 {
					k += int64(len(arr))
				}
				if k >= 0 && k < int64(len(arr)) {
					elem, found = arr[k], true
				}
			}
		default:
			return nil, pgError("operator does not exist: %s %s %s", typeNameOf(a), x.Op, typeNameOf(b))
		}
		if !found {
			return nil, nil
		}
		if x.Op == "->" {
			return JSON{V: elem, plain: ja.plain}, nil
		}
		return jsonText(elem), nil
	case "@>", "<@":
		if aJSON && bJSON && !ja.plain && !jb.plain {
			if x.Op == "<@" {
				ja, jb = jb, ja
			}
			return jsonContains(ja.V, jb.V, true), nil
		}
		if _, isArr := a.(Array); isArr {
			return nil, unsupported("array operator %s", x.Op)
		}
	case "@@":
		if jp, ok := b.(jsonPathEq); ok && aJSON && !ja.plain {
			return jsonPathMatch(ja.V, jp)
		}
	default:
		return nil, unsupported("operator %s", x.Op)
	}
	return nil, pgError("operator does not exist: %s %s %s", typeNameOf(a), x.Op, typeNameOf(b))
}

// jsonText is the ->> rendering of a JSON element: NULL for JSON null, the bare string, otherwise jsonb text.
func jsonText(elem any) Value {
	switch v := elem.(type) {
	case nil:
		return nil
	case string:
		return v
	}
	return JSON{V: elem}.String()
}

func jsonDeleteKey(j JSON, key string) (Value, error) {
	switch v := j.V.(type) {
	case map[string]any:
		out := make(map[string]any, len(v))
		for k, e := range v {
			if k != key {
				out[k] = e
			}
		}
		return JSON{V: out}, nil
	case []any: // removes matching string elements
		out := []any{}
		for _, e := range v {
			if str, ok := e.(string); !ok || str != key {
				out = append(out, e)
			}
		}
		return JSON{V: out}, nil
	}
	return nil, pgError("cannot delete from scalar")
}

func (s *session) evalCase(x *Case, sc *scope) (Value, error) {
	for _, w := range x.Whens {
		var hit bool
		var err error
		if x.Operand == nil {
			hit, err = s.isTrue(w.Cond, sc)
		} else {
			var a, b Value
			if a, b, err = s.evalPair(x.Operand, w.Cond, sc); err == nil && a != nil && b != nil {
				hit, err = compareOp("=", a, b)
			}
		}
		if err != nil {
			return nil, err
		}
		if hit {
			return s.eval(w.Then, sc)
		}
	}
	if x.Else != nil {
		return s.eval(x.Else, sc)
	}
	return nil, nil
}
