package pgmini

import (
	"context"
	"database/sql"
	"database/sql/driver"
	"errors"
	"io"
	"math/big"
	"time"
)

// OpenSQL returns a database/sql handle bound to db with search_path = schema. It supports QueryContext /
// ExecContext with complete SQL text (no bound arguments), BeginTx / Commit / Rollback (snapshot and restore of the
// data) and the COPY ... FROM STDIN protocol of lib/pq (Prepare, Exec per row, Exec() to flush).
func OpenSQL(db *DB, schema string) *sql.DB {
	return sql.OpenDB(&connector{db: db, schema: schema})
}

type sqlDriver struct{}

func (sqlDriver) Open(string) (driver.Conn, error) {
	return nil, unsupported(`sql.Open("pgmini", ...): use pgmini.OpenSQL`)
}

func init() { sql.Register("pgmini", sqlDriver{}) }

type connector struct {
	db     *DB
	schema string
}

func (c *connector) Connect(context.Context) (driver.Conn, error) { return &conn{c: c}, nil }
func (c *connector) Driver() driver.Driver                        { return sqlDriver{} }

type conn struct {
	c        *connector
	snapshot *DB // non-nil inside a transaction
}

var (
	_ driver.QueryerContext = (*conn)(nil)
	_ driver.ExecerContext  = (*conn)(nil)
	_ driver.ConnBeginTx    = (*conn)(nil)
)

func noArgs(n int) error {
	if n != 0 {
		return unsupported("bound query arguments (the SQL text must be complete)")
	}
	return nil
}

func (c *conn) QueryContext(ctx context.Context, query string, args []driver.NamedValue) (driver.Rows, error) {
	if err := noArgs(len(args)); err != nil {
		return nil, err
	}
	if err := ctx.Err(); err != nil {
		return nil, err
	}
	res, err := c.c.db.Query(c.c.schema, query)
	if err != nil {
		return nil, err
	}
	return &rows{res: res}, nil
}

func (c *conn) ExecContext(ctx context.Context, query string, args []driver.NamedValue) (driver.Result, error) {
	if err := noArgs(len(args)); err != nil {
		return nil, err
	}
	if err := ctx.Err(); err != nil {
		return nil, err
	}
	res, err := c.c.db.Query(c.c.schema, query)
	if err != nil {
		return nil, err
	}
	return driver.RowsAffected(res.tag), nil
}

func (c *conn) Prepare(query string) (driver.Stmt, error) {
	stmts, err := parseStatements(query)
	if err != nil {
		return nil, err
	}
	if len(stmts) == 1 {
		if cp, ok := stmts[0].(*CopyFrom); ok {
			schema := cp.Schema
			if schema == "" {
				schema = c.c.schema
			}
			return &copyStmt{conn: c, schema: schema, copy: cp}, nil
		}
	}
	return &textStmt{conn: c, query: query}, nil
}

func (c *conn) Close() error { return nil }

func (c *conn) Begin() (driver.Tx, error) { return c.BeginTx(context.Background(), driver.TxOptions{}) }

func (c *conn) BeginTx(ctx context.Context, _ driver.TxOptions) (driver.Tx, error) {
	if c.snapshot != nil {
		return nil, pgError("there is already a transaction in progress")
	}
	c.snapshot = c.c.db.Clone()
	return &tx{conn: c}, nil
}

type tx struct{ conn *conn }

func (t *tx) Commit() error {
	t.conn.snapshot = nil
	return nil
}

func (t *tx) Rollback() error {
	if t.conn.snapshot != nil {
		t.conn.c.db.restore(t.conn.snapshot)
		t.conn.snapshot = nil
	}
	return nil
}

// textStmt is a prepared statement holding complete SQL text.
type textStmt struct {
	conn  *conn
	query string
}

func (s *textStmt) Close() error  { return nil }
func (s *textStmt) NumInput() int { return 0 }
func (s *textStmt) Exec(args []driver.Value) (driver.Result, error) {
	return s.conn.ExecContext(context.Background(), s.query, nil)
}
func (s *textStmt) Query(args []driver.Value) (driver.Rows, error) {
	return s.conn.QueryContext(context.Background(), s.query, nil)
}

// copyStmt buffers rows; Exec without arguments sends them with CopyIn semantics.
type copyStmt struct {
	conn   *conn
	schema string
	copy   *CopyFrom
	rows   [][]any
}

func (s *copyStmt) Close() error  { return nil }
func (s *copyStmt) NumInput() int { return -1 }
func (s *copyStmt) Query([]driver.Value) (driver.Rows, error) {
	return nil, unsupported("Query on a COPY statement")
}
func (s *copyStmt) Exec(args []driver.Value) (driver.Result, error) {
	if len(args) > 0 {
		row := make([]any, len(args))
		for i, a := range args {
			row[i] = a
		}
		s.rows = append(s.rows, row)
		return driver.RowsAffected(0), nil
	}
	rows := s.rows
	s.rows = nil
	if err := s.conn.c.db.CopyIn(s.schema, s.copy.Table, s.copy.Cols, rows); err != nil {
		return nil, err
	}
	return driver.RowsAffected(len(rows)), nil
}

// rows adapts a result to driver.Rows.
type rows struct {
	res *Rows
	pos int
}

func (r *rows) Columns() []string { return r.res.Cols }
func (r *rows) Close() error      { return nil }
func (r *rows) Next(dest []driver.Value) error {
	if r.pos >= len(r.res.raw) {
		return io.EOF
	}
	for i, v := range r.res.raw[r.pos] {
		dest[i] = driverValue(v)
	}
	r.pos++
	return nil
}

// driverValue converts an internal value to what lib/pq would deliver for the corresponding PostgreSQL type.
func driverValue(v Value) driver.Value {
	switch x := v.(type) {
	case nil:
		return nil
	case bool, int64, string, time.Time:
		return x
	case []byte:
		return append([]byte(nil), x...)
	case *big.Int:
		return x.String() // numeric arrives as text
	case JSON:
		return []byte(x.String())
	}
	return textOut(v) // composite, array
}

// IsUnsupported reports whether err is (or wraps) an ErrUnsupported.
func IsUnsupported(err error) bool {
	var u ErrUnsupported
	return errors.As(err, &u)
}
