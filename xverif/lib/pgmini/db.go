package pgmini

import (
	"fmt"
	"sort"
	"strings"
	"sync"
)

// DB is one database: a set of schemas ("buckets").
type DB struct {
	mu      sync.Mutex
	schemas map[string]*schema
	undo    *[]undoEntry // non-nil while a top-level statement runs: its effects are reverted on error
}

// schema holds the catalog (shared, immutable definitions) and the data of one bucket.
type schema struct {
	name     string
	tables   map[string]*table
	types    map[string]*CreateType
	funcs    map[string]*CreateFunction
	aggs     map[string]*CreateAggregate
	triggers map[string][]*CreateTrigger // by table, in name order (the order PostgreSQL fires them)
}

type uniqueIndex struct {
	name string
	cols []int
}

// tableDef is immutable once published: adding an index replaces it (definitions are shared between clones).
type tableDef struct {
	name    string
	cols    []ColumnDef
	colIdx  map[string]int
	uniques []uniqueIndex
}

type table struct {
	def  *tableDef
	rows [][]Value        // rows are immutable: an update replaces the slice
	seqs map[string]int64 // last value handed out per serial column; never rolled back
}

type undoEntry struct {
	t   *table
	idx int     // row index; -1 for "remove the last row"
	old []Value // previous content for an update
}

// Rows is a statement result.
type Rows struct {
	Cols []string
	Data [][]Value
	raw  [][]Value // internal representation (int64 for integer types), used by the driver
	tag  int64     // rows affected by INSERT / UPDATE
}

// New creates an empty database.
func New() *DB { return &DB{schemas: map[string]*schema{}} }

func newSchema(name string) *schema {
	return &schema{name: name, tables: map[string]*table{}, types: map[string]*CreateType{}, funcs: map[string]*CreateFunction{},
		aggs: map[string]*CreateAggregate{}, triggers: map[string][]*CreateTrigger{}}
}

// LoadSchema runs DDL text inside schema `schema` (created if needed). On error a schema created by this call is
// dropped again.
func (db *DB) LoadSchema(schemaName, ddl string) error {
	db.mu.Lock()
	_, existed := db.schemas[schemaName]
	if !existed {
		db.schemas[schemaName] = newSchema(schemaName)
	}
	db.mu.Unlock()
	_, err := db.Query(schemaName, ddl)
	if err != nil && !existed {
		db.mu.Lock()
		delete(db.schemas, schemaName)
		db.mu.Unlock()
	}
	return err
}

// Clone returns a deep copy of all data (rows, sequences). Definitions and parsed function bodies are shared.
func (db *DB) Clone() *DB {
	db.mu.Lock()
	defer db.mu.Unlock()
	return db.cloneLocked()
}

func (db *DB) cloneLocked() *DB {
	out := New()
	for name, sc := range db.schemas {
		c := newSchema(name)
		for k, t := range sc.tables {
			nt := &table{def: t.def, rows: append([][]Value(nil), t.rows...), seqs: map[string]int64{}}
			for col, v := range t.seqs {
				nt.seqs[col] = v
			}
			c.tables[k] = nt
		}
		for k, v := range sc.types {
			c.types[k] = v
		}
		for k, v := range sc.funcs {
			c.funcs[k] = v
		}
		for k, v := range sc.aggs {
			c.aggs[k] = v
		}
		for k, v := range sc.triggers {
			c.triggers[k] = append([]*CreateTrigger(nil), v...)
		}
		out.schemas[name] = c
	}
	return out
}

// restore brings back the data of a snapshot taken with Clone (transaction rollback). Sequences keep their highest
// value: PostgreSQL does not roll them back either.
func (db *DB) restore(snapshot *DB) {
	db.mu.Lock()
	defer db.mu.Unlock()
	fresh := snapshot.cloneLocked()
	for name, sc := range fresh.schemas {
		if cur, ok := db.schemas[name]; ok {
			for tname, t := range sc.tables {
				if ct, ok := cur.tables[tname]; ok {
					for col, v := range ct.seqs {
						if v > t.seqs[col] {
							t.seqs[col] = v
						}
					}
				}
			}
		}
	}
	db.schemas = fresh.schemas
}

// Query runs one or more ';'-separated statements with search_path = schema and returns the last result. A failing
// statement leaves no trace of its own effects (sequences excepted).
func (db *DB) Query(schemaName, sql string) (*Rows, error) {
	stmts, err := parseStatements(sql)
	if err != nil {
		return nil, err
	}
	db.mu.Lock()
	defer db.mu.Unlock()
	s := &session{db: db, searchPath: schemaName}
	res := &Rows{}
	err = db.atomically(func() (err error) { // several statements in one call form one implicit transaction
		for _, st := range stmts {
			if res, err = s.execTop(st); err != nil {
				return err
			}
		}
		return nil
	})
	if err != nil {
		return nil, err
	}
	res.Data = make([][]Value, len(res.raw))
	for i, row := range res.raw {
		res.Data[i] = make([]Value, len(row))
		for j, v := range row {
			res.Data[i][j] = export(v)
		}
	}
	return res, nil
}

// CopyIn does what COPY schema.table (cols) FROM STDIN does: all rows are inserted in order, then the queued
// AFTER INSERT row triggers fire in row order (PostgreSQL fires AFTER ROW triggers at the end of the statement).
// Any error undoes every data effect of the call; sequences are not rolled back.
func (db *DB) CopyIn(schemaName, tableName string, cols []string, rows [][]any) error {
	db.mu.Lock()
	defer db.mu.Unlock()
	s := &session{db: db, searchPath: schemaName}
	return db.atomically(func() error { return s.copyIn(schemaName, tableName, cols, rows) })
}

// TableRows returns the content of a table in physical (insertion) order; nil, nil if it does not exist.
func (db *DB) TableRows(schemaName, tableName string) (cols []string, rows [][]Value) {
	db.mu.Lock()
	defer db.mu.Unlock()
	sc := db.schemas[schemaName]
	if sc == nil || sc.tables[tableName] == nil {
		return nil, nil
	}
	t := sc.tables[tableName]
	for _, c := range t.def.cols {
		cols = append(cols, c.Name)
	}
	for _, r := range t.rows {
		out := make([]Value, len(r))
		for i, v := range r {
			out[i] = export(v)
		}
		rows = append(rows, out)
	}
	return cols, rows
}

func (db *DB) atomically(fn func() error) (err error) {
	if db.undo != nil {
		return fn()
	}
	log := []undoEntry{}
	db.undo = &log
	defer func() {
		db.undo = nil
		if r := recover(); r != nil { // an interpreter bug must not leave half-applied effects behind
			err = fmt.Errorf("pgmini: internal error: %v", r)
		}
		if err != nil {
			db.undo = &log
			db.rollbackTo(0)
			db.undo = nil
		}
	}()
	return fn()
}

// rollbackTo reverts the effects logged after position n of the undo log (a savepoint).
func (db *DB) rollbackTo(n int) {
	log := *db.undo
	for i := len(log) - 1; i >= n; i-- {
		if e := log[i]; e.idx < 0 {
			e.t.rows = e.t.rows[:len(e.t.rows)-1]
		} else {
			e.t.rows[e.idx] = e.old
		}
	}
	*db.undo = log[:n]
}

func (db *DB) logUndo(e undoEntry) {
	if db.undo != nil {
		*db.undo = append(*db.undo, e)
	}
}

// ---------- catalog lookups ----------

// session is one execution context: a database plus the search path.
type session struct {
	db         *DB
	searchPath string
	depth      int // function call nesting, to stop runaway recursion
}

func (s *session) schemaFor(qualifier string) (*schema, error) {
	name := qualifier
	if name == "" {
		name = s.searchPath
	}
	sc := s.db.schemas[name]
	if sc == nil {
		return nil, pgError("schema %q does not exist", name)
	}
	return sc, nil
}

func (s *session) cur() *schema { return s.db.schemas[s.searchPath] }

func (s *session) enumLabels(name string) ([]string, bool) {
	if sc := s.cur(); sc != nil {
		if t := sc.types[name]; t != nil && t.Enum {
			return t.Labels, true
		}
	}
	return nil, false
}

// compositeFields returns the fields of a composite type or of a table's row type.
func (s *session) compositeFields(name string) ([]ColumnDef, bool) {
	sc := s.cur()
	if sc == nil {
		return nil, false
	}
	if t := sc.types[name]; t != nil && !t.Enum {
		return t.Fields, true
	}
	if t := sc.tables[name]; t != nil {
		return t.def.cols, true
	}
	return nil, false
}

// ---------- DDL ----------

func (s *session) execDDL(st Stmt) error {
	sc, err := s.schemaFor("")
	if err != nil {
		return err
	}
	taken := func(name string) bool { return sc.tables[name] != nil || sc.types[name] != nil }
	switch d := st.(type) {
	case *CreateTable:
		if taken(d.Name) {
			return pgError("relation %q already exists", d.Name)
		}
		def := &tableDef{name: d.Name, cols: d.Cols, colIdx: map[string]int{}}
		for i, c := range d.Cols {
			if _, dup := def.colIdx[c.Name]; dup {
				return pgError("column %q specified more than once", c.Name)
			}
			def.colIdx[c.Name] = i
		}
		for i, u := range d.Uniques {
			name := d.Name + "_" + strings.Join(u, "_") + "_key"
			if i == 0 && d.HasPK {
				name = d.Name + "_pkey"
			}
			idx, err := def.indexOn(name, u)
			if err != nil {
				return err
			}
			if i == 0 && d.HasPK {
				def.cols = append([]ColumnDef(nil), def.cols...)
				for _, ci := range idx.cols {
					def.cols[ci].NotNull = true
				}
			}
			def.uniques = append(def.uniques, idx)
		}
		sc.tables[d.Name] = &table{def: def, seqs: map[string]int64{}}
	case *CreateIndex:
		t := sc.tables[d.Table]
		if t == nil {
			return pgError("relation %q does not exist", d.Table)
		}
		if !d.Unique {
			return nil
		}
		idx, err := t.def.indexOn(d.Name, d.Cols)
		if err != nil {
			return err
		}
		for i := range t.rows {
			if j := t.findDuplicate(idx, t.rows[i], i); j >= 0 {
				return pgError("could not create unique index %q: duplicate key", d.Name)
			}
		}
		nd := *t.def
		nd.uniques = append(append([]uniqueIndex(nil), t.def.uniques...), idx)
		t.def = &nd
	case *CreateType:
		if taken(d.Name) {
			return pgError("type %q already exists", d.Name)
		}
		sc.types[d.Name] = d
	case *CreateAggregate:
		if sc.aggs[d.Name] != nil || sc.funcs[d.Name] != nil {
			return pgError("function %q already exists", d.Name)
		}
		sc.aggs[d.Name] = d
	case *CreateFunction:
		if old := sc.funcs[d.Name]; (old != nil && !d.Replace) || sc.aggs[d.Name] != nil {
			return pgError("function %q already exists (overloading is not supported)", d.Name)
		}
		sc.funcs[d.Name] = d
	case *CreateTrigger:
		if sc.tables[d.Table] == nil {
			return pgError("relation %q does not exist", d.Table)
		}
		if sc.funcs[d.Func] == nil {
			return pgError("function %s() does not exist", d.Func)
		}
		list := append(append([]*CreateTrigger(nil), sc.triggers[d.Table]...), d)
		sort.SliceStable(list, func(i, j int) bool { return list[i].Name < list[j].Name })
		sc.triggers[d.Table] = list
	default:
		return unsupported("statement %s", describe(st))
	}
	return nil
}

func (def *tableDef) indexOn(name string, cols []string) (uniqueIndex, error) {
	idx := uniqueIndex{name: name}
	for _, c := range cols {
		i, ok := def.colIdx[c]
		if !ok {
			return idx, pgError("column %q does not exist", c)
		}
		idx.cols = append(idx.cols, i)
	}
	return idx, nil
}

// findDuplicate returns the index of a row (other than skip) equal to row on the index columns, or -1. Rows with a
// NULL in an index column never conflict.
func (t *table) findDuplicate(idx uniqueIndex, row []Value, skip int) int {
	for _, c := range idx.cols {
		if row[c] == nil {
			return -1
		}
	}
	for i, other := range t.rows {
		if i == skip {
			continue
		}
		same := true
		for _, c := range idx.cols {
			if other[c] == nil {
				same = false
				break
			}
			if cmp, err := compareValues(row[c], other[c]); err != nil || cmp != 0 {
				same = false
				break
			}
		}
		if same {
			return i
		}
	}
	return -1
}
