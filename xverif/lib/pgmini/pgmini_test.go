package pgmini

import (
	"context"
	"encoding/json"
	"errors"
	"fmt"
	"math/big"
	"os"
	"strings"
	"testing"
	"time"
)

// ---------- helpers ----------

func mustQuery(t *testing.T, db *DB, schema, sql string) *Rows {
	t.Helper()
	res, err := db.Query(schema, sql)
	if err != nil {
		t.Fatalf("%s\n=> %v", sql, err)
	}
	return res
}

// show renders a public Value for comparisons in tests.
func show(v Value) string {
	switch x := v.(type) {
	case nil:
		return "NULL"
	case time.Time:
		return x.Format("2006-01-02T15:04:05.000000")
	case Composite:
		parts := make([]string, len(x.Fields))
		for i, f := range x.Fields {
			parts[i] = show(f)
		}
		return x.Type + "(" + strings.Join(parts, ",") + ")"
	case Array:
		parts := make([]string, len(x.Elems))
		for i, f := range x.Elems {
			parts[i] = show(f)
		}
		return "[" + strings.Join(parts, ",") + "]"
	case []byte:
		return fmt.Sprintf("%x", x)
	}
	return fmt.Sprint(v)
}

func showRows(rows [][]Value) string {
	var lines []string
	for _, r := range rows {
		cells := make([]string, len(r))
		for i, v := range r {
			cells[i] = show(v)
		}
		lines = append(lines, strings.Join(cells, " | "))
	}
	return strings.Join(lines, "\n")
}

// scalar runs a query returning one cell.
func scalar(t *testing.T, db *DB, schema, sql string) string {
	t.Helper()
	res := mustQuery(t, db, schema, sql)
	if len(res.Data) != 1 || len(res.Data[0]) != 1 {
		t.Fatalf("%s: expected one cell, got %d rows", sql, len(res.Data))
	}
	return show(res.Data[0][0])
}

func expect(t *testing.T, what, got, want string) {
	t.Helper()
	if got != want {
		t.Errorf("%s:\n got: %s\nwant: %s", what, got, want)
	}
}

func newDB(t *testing.T, ddl string) *DB {
	t.Helper()
	db := New()
	if err := db.LoadSchema("t", ddl); err != nil {
		t.Fatal(err)
	}
	return db
}

// ---------- 1. text -> timestamp without time zone ----------

func TestTimestampCast(t *testing.T) {
	db := newDB(t, `create table ev (seq bigserial primary key, at timestamp not null)`)
	for in, want := range map[string]string{
		"2023-05-06T07:08:09.123456Z":      "2023-05-06T07:08:09.123456",
		"2023-05-06 07:08:09":              "2023-05-06T07:08:09.000000",
		"2023-05-06T07:08:09+02:00":        "2023-05-06T07:08:09.000000", // offset ignored, wall clock kept
		"2023-05-06 07:08:09.5-0830":       "2023-05-06T07:08:09.500000",
		"2023-05-06T07:08:09.1234567Z":     "2023-05-06T07:08:09.123457", // rounded to microseconds
		"2023-05-06T23:59:59.9999996Z":     "2023-05-07T00:00:00.000000",
		"2023-05-06":                       "2023-05-06T00:00:00.000000",
		"  2023-05-06T07:08:09.000001Z   ": "2023-05-06T07:08:09.000001",
	} {
		expect(t, in, scalar(t, db, "t", "select '"+in+"'::timestamp without time zone"), want)
		expect(t, in+" (short type name)", scalar(t, db, "t", "select '"+in+"'::timestamp"), want)
	}
	if _, err := db.Query("t", "select 'yesterday-ish'::timestamp"); err == nil || !strings.Contains(err.Error(), "invalid input syntax for type timestamp") {
		t.Errorf("bad timestamp: %v", err)
	}
	// the same conversion applies to COPY text input and to comparisons with string constants
	if err := db.CopyIn("t", "ev", []string{"at"}, [][]any{{"2023-05-06T07:08:09.123456+05:00"}}); err != nil {
		t.Fatal(err)
	}
	_, rows := db.TableRows("t", "ev")
	expect(t, "copied timestamp", showRows(rows), "1 | 2023-05-06T07:08:09.123456")
	got := rows[0][1].(time.Time)
	if got.Location() != time.UTC || got.Nanosecond()%1000 != 0 {
		t.Errorf("timestamp must be UTC with microsecond precision: %v", got)
	}
	expect(t, "compare with constant", scalar(t, db, "t", "select count(*) from ev where at <= '2023-05-06 07:08:09.123456'"), "1")
	expect(t, "timestamp -> jsonb", scalar(t, db, "t", "select to_jsonb(at) from ev"), `"2023-05-06T07:08:09.123456"`)
}

// ---------- 2. SELECT INTO with zero rows, NULL arithmetic, composite of NULLs ----------

const volumesDDL = `
create type volumes as (inputs numeric, outputs numeric);
create table m (seq bigserial primary key, k varchar not null, v volumes not null, n numeric);
create function probe(_k varchar, _amount numeric) returns bool language plpgsql as $$
declare
    _v   volumes = (0, 0)::volumes;
    _hit bool;
    _one numeric := 41;
begin
    select (v).inputs, (v).outputs into _v from m where k = _k order by seq desc limit 1;
    _hit = found;
    select n from m where k = _k into _one;
    _v.outputs = _v.outputs + _amount;
    insert into m (k, v, n) values ('out:' || _k, _v, coalesce(_one, -1) + (_v).inputs);
    return _hit;
end $$;`

func TestSelectIntoNoRow(t *testing.T) {
	db := newDB(t, volumesDDL)
	expect(t, "FOUND after zero rows", scalar(t, db, "t", "select probe('missing', 3)"), "false")
	_, rows := db.TableRows("t", "m")
	// the variable became NULL, NULL + 3 is NULL, and the stored value is a composite of NULLs (accepted by NOT NULL)
	expect(t, "row after miss", showRows(rows), "1 | out:missing | volumes(NULL,NULL) | NULL")

	mustQuery(t, db, "t", "insert into m (k, v, n) values ('x', (1, 2), 10)")
	expect(t, "FOUND after a hit", scalar(t, db, "t", "select probe('x', 3)"), "true")
	_, rows = db.TableRows("t", "m")
	expect(t, "row after hit", show(rows[2][2])+" "+show(rows[2][3]), "volumes(1,5) 11")
	expect(t, "row IS NULL", scalar(t, db, "t", "select count(*) from m where v is null"), "1")
	expect(t, "field of NULL-field composite", scalar(t, db, "t", "select (v).inputs from m where seq = 1"), "NULL")
	expect(t, "composite text", scalar(t, db, "t", "select 'v=' || v from m where seq = 1"), "v=(,)")

	// a genuinely NULL composite is rejected by NOT NULL
	if _, err := db.Query("t", "insert into m (k, v) values ('y', null)"); err == nil || !strings.Contains(err.Error(), "not-null") {
		t.Errorf("NULL into NOT NULL column: %v", err)
	}
}

// ---------- 3. exact numerics ----------

func TestNumericExact(t *testing.T) {
	db := newDB(t, `create table n (v numeric)`)
	big70 := "1180591620717411303424" // 2^70
	expect(t, "cast", scalar(t, db, "t", "select '"+big70+"'::numeric"), big70)
	expect(t, "constant", scalar(t, db, "t", "select "+big70), big70)
	want := new(big.Int)
	want.SetString(big70, 10)
	want.Mul(want, want).Add(want, big.NewInt(1))
	expect(t, "product", scalar(t, db, "t", "select "+big70+" * '"+big70+"'::numeric + 1"), want.String())
	expect(t, "numeric -> text", scalar(t, db, "t", "select 'n=' || ("+big70+" * 1000000)"), "n="+big70+"000000")
	expect(t, "jsonb number -> numeric", scalar(t, db, "t", `select ('{"amount": `+big70+`}'::jsonb ->> 'amount')::numeric - 1`), "1180591620717411303423")
	expect(t, "bigint + numeric", scalar(t, db, "t", "select 9223372036854775807 + 1::numeric"), "9223372036854775808")
	if _, err := db.Query("t", "select 9223372036854775807 + 1"); err == nil || !strings.Contains(err.Error(), "bigint out of range") {
		t.Errorf("bigint overflow: %v", err)
	}
	mustQuery(t, db, "t", "insert into n values ("+big70+"), (2), (null)")
	expect(t, "sum", scalar(t, db, "t", "select sum(v) from n"), "1180591620717411303426")
	expect(t, "order", showRows(mustQuery(t, db, "t", "select v from n order by v desc").Data), "NULL\n"+big70+"\n2")
	var u ErrUnsupported
	if _, err := db.Query("t", "select '1.5'::numeric"); !errors.As(err, &u) {
		t.Errorf("fractional numerics must be reported as unsupported, got %v", err)
	}
}

// ---------- 4. ON CONFLICT DO UPDATE ... WHERE ----------

const upsertDDL = `
create table acc (seq bigserial primary key, addr varchar not null, meta jsonb not null default '{}'::jsonb, rev numeric default 0);
create unique index acc_addr on acc (addr) include (seq);
create table audit (seq bigserial primary key, addr varchar, what varchar, rev numeric);
create function on_ins() returns trigger language plpgsql as $$
begin insert into audit (addr, what, rev) values (new.addr, 'insert', new.rev); return new; end $$;
create function on_upd() returns trigger language plpgsql as $$
begin insert into audit (addr, what, rev) values (new.addr, 'update', new.rev); return new; end $$;
create trigger t_ins after insert on acc for each row execute procedure on_ins();
create trigger t_upd after update on "acc" for each row execute procedure on_upd();
create function put(_a varchar, _m jsonb) returns void language plpgsql as $$
begin
    insert into acc (addr, meta) values (_a, coalesce(_m, '{}'::jsonb))
    on conflict (addr) do update set meta = acc.meta || coalesce(_m, '{}'::jsonb), rev = acc.rev + 1
    where not acc.meta @> coalesce(_m, '{}'::jsonb);
end $$;`

func TestOnConflictDoUpdateWhere(t *testing.T) {
	db := newDB(t, upsertDDL)
	mustQuery(t, db, "t", `select put('a', '{"k": "v"}')`)
	mustQuery(t, db, "t", `select put('a', '{"k": "v"}')`) // contained: WHERE false => untouched, no trigger
	mustQuery(t, db, "t", `select put('a', null)`)         // '{}' is contained too
	_, rows := db.TableRows("t", "acc")
	expect(t, "after no-op upserts", showRows(rows), `1 | a | {"k": "v"} | 0`)
	_, audit := db.TableRows("t", "audit")
	expect(t, "audit after no-op upserts", showRows(audit), "1 | a | insert | 0")

	res := mustQuery(t, db, "t", `insert into acc (addr) values ('a') on conflict (addr) do update set rev = 99 where null::bool returning rev`)
	if len(res.Data) != 0 {
		t.Errorf("WHERE NULL must skip the update and return no row, got %v", res.Data)
	}
	mustQuery(t, db, "t", `select put('a', '{"k": "w", "z": 1}')`)
	_, rows = db.TableRows("t", "acc")
	expect(t, "after real upsert", showRows(rows), `1 | a | {"k": "w", "z": 1} | 1`)
	_, audit = db.TableRows("t", "audit")
	expect(t, "audit after real upsert", showRows(audit), "1 | a | insert | 0\n2 | a | update | 1")

	// every attempted insert consumed a sequence value, conflict or not (as in PostgreSQL)
	mustQuery(t, db, "t", `select put('b', '{}')`)
	expect(t, "seq after conflicts", scalar(t, db, "t", "select seq from acc where addr = 'b'"), "6")
	// excluded.* is visible, DO NOTHING leaves the row alone
	mustQuery(t, db, "t", `insert into acc (addr, rev) values ('b', 7) on conflict (addr) do update set rev = excluded.rev + acc.rev`)
	mustQuery(t, db, "t", `insert into acc (addr, rev) values ('b', 100) on conflict (addr) do nothing`)
	expect(t, "excluded", scalar(t, db, "t", "select rev from acc where addr = 'b'"), "7")
}

// ---------- 5. jsonb rendering ----------

func TestJSONBRendering(t *testing.T) {
	db := New()
	db.LoadSchema("t", "")
	in := `{"bb":1,"a":{"y":[1,2,{"k":null}],"x":true},"c":"q\"\\\n\u00e9","a":2, "aaa": 1e3, "ab":1.50, "B": -0, "":[]}`
	expect(t, "key order / spacing / last duplicate wins / numbers", scalar(t, db, "t", "select '"+in+"'::jsonb"),
		`{"": [], "B": 0, "a": 2, "c": "q\"\\\né", "ab": 1.50, "bb": 1, "aaa": 1000}`)
	for expr, want := range map[string]string{
		`'{"a": "str"}'::jsonb ->> 'a'`:                         `str`,
		`'{"a": "str"}'::jsonb -> 'a'`:                          `"str"`,
		`'{"a": 12345678901234567890123}'::jsonb ->> 'a'`:       `12345678901234567890123`,
		`'{"a": {"z":1,"b":[1,2]}}'::jsonb ->> 'a'`:             `{"b": [1, 2], "z": 1}`,
		`'{"a": null}'::jsonb ->> 'a'`:                          `NULL`,
		`'{"a": null}'::jsonb -> 'a'`:                           `null`,
		`'{"a": null}'::jsonb -> 'b'`:                           `NULL`,
		`'[10, 20, 30]'::jsonb -> -1`:                           `30`,
		`'[10, 20, 30]'::jsonb -> 5`:                            `NULL`,
		`'{"a":1}'::jsonb -> 'a' ->> 'b'`:                       `NULL`,
		`'{"a":1,"b":2}'::jsonb || '{"b":3,"c":4}'`:             `{"a": 1, "b": 3, "c": 4}`,
		`'{"a":1,"b":2}'::jsonb - 'a'`:                          `{"b": 2}`,
		`'{"a":1,"b":{"c":[1,2]}}'::jsonb @> '{"b":{"c":[2]}}'`: `true`,
		`'{"a":1}'::jsonb @> '{"a":1.0}'`:                       `true`,
		`'{"a":1}'::jsonb @> '{"a":2}'`:                         `false`,
		`'{"a":1}'::jsonb @> '{}'`:                              `true`,
		`'[1,[2,3]]'::jsonb @> '[[3]]'`:                         `true`,
		`'[1,[2,3]]'::jsonb @> '3'`:                             `false`,
		`'[1,2]'::jsonb @> '2'`:                                 `true`,
		`to_json(string_to_array('a:b:c', ':'))`:                `["a","b","c"]`,
		`to_jsonb(string_to_array('a:b:c', ':'))`:               `["a", "b", "c"]`,
		`to_json(string_to_array('', ':'))`:                     `[]`,
		`jsonb_build_object('k', 1, 2, null)`:                   `{"2": null, "k": 1}`,
		`jsonb_array_length('[1,2,3]')`:                         `3`,
		`coalesce(null::jsonb, '{}'::jsonb)`:                    `{}`,
		`'a' || null`:                                           `NULL`,
		`jsonb_pretty('{"b":[1,{"c":2}],"a":{}}')`:              "{\n    \"a\": {\n    },\n    \"b\": [\n        1,\n        {\n            \"c\": 2\n        }\n    ]\n}",
	} {
		expect(t, expr, scalar(t, db, "t", "select "+expr), want)
	}
	res := mustQuery(t, db, "t", `select * from jsonb_each_text('{"n": 1, "s": "x", "o": {"b": 1}, "z": null}')`)
	expect(t, "jsonb_each_text", showRows(res.Data), "n | 1\no | {\"b\": 1}\ns | x\nz | NULL")
	res = mustQuery(t, db, "t", `select v ->> 'a' as a, v.value -> 'a' from jsonb_array_elements('[{"a":1},{"a":"x"}]') v`)
	expect(t, "jsonb_array_elements alias", showRows(res.Data), "1 | 1\nx | \"x\"")
	expect(t, "array_agg over zero rows", scalar(t, db, "t", `select to_jsonb(array_agg(v ->> 'a')) from jsonb_array_elements('[]') v`), "NULL")
}

// ---------- 6. ORDER BY NULL placement, LIMIT, OFFSET ----------

func TestOrderByNullsAndLimit(t *testing.T) {
	db := newDB(t, `create table o (id numeric, grp varchar, at timestamp);
		create table r (o_id numeric, revision numeric, note varchar)`)
	mustQuery(t, db, "t", `insert into o values (1, 'b', '2023-01-01'), (2, null, '2023-01-03'), (3, 'a', null), (4, 'b', '2023-01-02')`)
	mustQuery(t, db, "t", `insert into r values (1, 1, 'one'), (1, 2, 'two'), (4, 1, 'four')`)
	ids := func(sql string) string {
		var out []string
		for _, row := range mustQuery(t, db, "t", sql).Data {
			out = append(out, show(row[0]))
		}
		return strings.Join(out, ",")
	}
	expect(t, "asc: NULL last", ids("select id from o order by grp, id"), "3,1,4,2")
	expect(t, "desc: NULL first", ids("select id from o order by grp desc, id desc"), "2,4,1,3")
	expect(t, "timestamp desc limit 1", ids("select id from o order by at desc limit 1"), "3")
	expect(t, "order by non-selected column, offset", ids(`select id from o order by "at" asc limit 2 offset 1`), "4,2")
	expect(t, "left join: unmatched rows have NULL revision, which sorts first in DESC",
		ids(`select o.id from "o" left join r on r.o_id = o.id order by "revision" desc, o.id`), "2,3,1,1,4")
	expect(t, "latest revision of one row", showRows(mustQuery(t, db, "t",
		`select o.id, coalesce(r.note, 'none') as note from o left join r on r.o_id = o.id where (o.id = '1') order by "r"."revision" desc limit 1`).Data), "1 | two")
	expect(t, "count over derived table", ids(`select count(*) from (select "o"."grp", "o".* from o where (o.grp = 'b') order by id) data`), "2")
	expect(t, "scalar subquery with zero rows", ids(`select (select revision + 1 from r where o_id = 99 order by revision desc limit 1)`), "NULL")
	expect(t, "x = any(array)", ids(`select count(*) from o where grp = any (string_to_array('a:b', ':'))`), "3")
}

// ---------- 7 + 8. bigserial never reuses values; unique violation message ----------

func TestSerialAndUniqueViolation(t *testing.T) {
	db := newDB(t, `create table l (seq bigserial primary key, ledger varchar not null, id numeric not null);
		create unique index l_ledger on l (ledger, id)`)
	cols := []string{"ledger", "id"}
	if err := db.CopyIn("t", "l", cols, [][]any{{"x", "0"}, {"x", "1"}}); err != nil {
		t.Fatal(err)
	}
	err := db.CopyIn("t", "l", cols, [][]any{{"x", "2"}, {"x", "3"}, {"x", "1"}})
	if err == nil || !strings.Contains(err.Error(), `duplicate key value violates unique constraint "l_ledger"`) {
		t.Fatalf("unique violation: %v", err)
	}
	_, rows := db.TableRows("t", "l")
	if len(rows) != 2 {
		t.Fatalf("failed COPY must leave no rows behind, have %d", len(rows))
	}
	if err := db.CopyIn("t", "l", cols, [][]any{{"y", "1"}}); err != nil { // same id, other ledger: fine
		t.Fatal(err)
	}
	expect(t, "sequence values consumed by the failed COPY are not reused", scalar(t, db, "t", "select seq from l where ledger = 'y'"), "6")
	if _, err := db.Query("t", "insert into l (seq, ledger, id) values (1, 'z', 0)"); err == nil || !strings.Contains(err.Error(), `"l_pkey"`) {
		t.Errorf("primary key violation: %v", err)
	}
	if _, err := db.Query("t", "insert into l (ledger, id) values ('n', null)"); err == nil || !strings.Contains(err.Error(), "not-null constraint") {
		t.Errorf("not null: %v", err)
	}
	// NULLs never collide in a unique index
	db2 := newDB(t, `create table u (a varchar, b numeric); create unique index u_ab on u (a, b)`)
	mustQuery(t, db2, "t", "insert into u values ('k', null), ('k', null), ('k', 1)")
	if _, err := db2.Query("t", "update u set b = 1 where b is null"); err == nil || !strings.Contains(err.Error(), "u_ab") {
		t.Errorf("update into a duplicate: %v", err)
	}
	expect(t, "failed UPDATE rolled back", scalar(t, db2, "t", "select count(*) from u where b is null"), "2")
}

// ---------- 9. language sql functions ----------

const sqlFuncDDL = `
create table tx (seq bigserial primary key, ledger varchar not null, id numeric not null, at timestamp not null, reverted_at timestamp);
create function get_tx(_ledger varchar, _id numeric, _before timestamp default null) returns setof tx language sql stable as $$
select * from tx t where (_before is null or t.at <= _before) and t.id = _id and ledger = _ledger order by id desc limit 1;
$$;
create function all_ids(_ledger varchar) returns setof numeric language sql as $$ select id from tx where ledger = _ledger order by id $$;
create function newest(_ledger varchar) returns numeric language sql as $$
select 12345;
select id from tx where ledger = _ledger order by id desc
$$;
create function revert(_ledger varchar, _id numeric, _date timestamp) returns void language sql as $$
update tx set reverted_at = _date where id = _id and ledger = _ledger;
$$;
create function first_arg(anyelement, anyelement) returns anyelement language sql immutable strict as $$ select $1 $$;
create aggregate first_of (anyelement) (sfunc = first_arg, stype = anyelement);
create aggregate merged(jsonb) (sfunc = jsonb_concat, stype = jsonb, initcond = '{}');
create function explode(_address varchar) returns jsonb language sql immutable as $$
select merged(jsonb_build_object(data.number - 1, data.value))
from (select row_number() over () as number, v.value
      from (select unnest(string_to_array(_address, ':')) as value union all select null) v) data
$$;`

func TestSQLFunctions(t *testing.T) {
	db := newDB(t, sqlFuncDDL)
	mustQuery(t, db, "t", `insert into tx (ledger, id, at) values ('l', 0, '2023-01-01'), ('l', 1, '2023-01-02'), ('other', 7, '2023-01-03')`)
	expect(t, "scalar function: first row of the last statement", scalar(t, db, "t", "select newest('l')"), "1")
	expect(t, "scalar function with no row", scalar(t, db, "t", "select newest('none')"), "NULL")
	expect(t, "scalar function in FROM, column named by alias", showRows(mustQuery(t, db, "t", "select * from newest('l') as n").Data), "1")
	expect(t, "alias names the column", strings.Join(mustQuery(t, db, "t", "select * from newest('l') as n").Cols, ","), "n")
	expect(t, "setof scalar", showRows(mustQuery(t, db, "t", "select v.v from all_ids('l') v").Data), "0\n1")
	res := mustQuery(t, db, "t", "select seq, id from get_tx('l', 1)")
	expect(t, "setof table, default argument", showRows(res.Data), "2 | 1")
	expect(t, "named argument", scalar(t, db, "t", "select count(*) from get_tx('l', 1, _before := '2023-01-01')"), "0")
	expect(t, "void function running an UPDATE", scalar(t, db, "t", "select revert('l', 1, '2023-02-01')"), "NULL")
	expect(t, "effect of the UPDATE", scalar(t, db, "t", "select reverted_at from tx where id = 1"), "2023-02-01T00:00:00.000000")
	expect(t, "user aggregates", showRows(mustQuery(t, db, "t",
		`select first_of(reverted_at), first_of(id), merged(jsonb_build_object(ledger, id)) from tx`).Data),
		`2023-02-01T00:00:00.000000 | 0 | {"l": 1, "other": 7}`)
	expect(t, "aggregates over zero rows", showRows(mustQuery(t, db, "t",
		`select first_of(id), merged(jsonb_build_object(ledger, id)), count(*), sum(id), min(id) from tx where false`).Data), `NULL | {} | 0 | NULL | NULL`)
	expect(t, "explode_address shape", scalar(t, db, "t", "select explode('a:b:c')"), `{"0": "a", "1": "b", "2": "c", "3": null}`)
	if _, err := db.Query("t", "select newest()"); err == nil {
		t.Error("missing argument must fail")
	}
}

// ---------- triggers fire at the end of the statement, nested DML fires its own ----------

func TestTriggerTiming(t *testing.T) {
	db := newDB(t, `
create table src (seq bigserial primary key, v numeric);
create table seen (seq bigserial primary key, v numeric, visible numeric);
create function note() returns trigger language plpgsql as $$
begin
    insert into seen (v, visible) values (new.v, (select count(*) from src));
    return new;
end $$;
create trigger a_note after insert on src for each row execute procedure note();
create trigger b_note after update on src for each row execute procedure note();`)
	mustQuery(t, db, "t", "insert into src (v) values (1), (2), (3)")
	_, rows := db.TableRows("t", "seen")
	// AFTER ROW triggers run once the statement has processed all its rows: each sees 3 rows
	expect(t, "insert triggers", showRows(rows), "1 | 1 | 3\n2 | 2 | 3\n3 | 3 | 3")
	res := mustQuery(t, db, "t", "update src set v = v * 10 where v >= 2")
	if res.tag != 2 {
		t.Errorf("rows affected: %d", res.tag)
	}
	_, rows = db.TableRows("t", "seen")
	expect(t, "update triggers see NEW", showRows(rows[3:]), "4 | 20 | 3\n5 | 30 | 3")
	// an error inside a trigger aborts the whole statement
	mustQuery(t, db, "t", `create function boom() returns trigger language plpgsql as $$ begin insert into seen (seq) values (1); return new; end $$;
		create trigger c_boom after insert on src for each row execute procedure boom()`)
	if _, err := db.Query("t", "insert into src (v) values (4)"); err == nil || !strings.Contains(err.Error(), "seen_pkey") {
		t.Fatalf("trigger error: %v", err)
	}
	expect(t, "statement rolled back", scalar(t, db, "t", "select count(*) from src")+"/"+scalar(t, db, "t", "select count(*) from seen"), "3/5")
}

// ---------- constructs outside the subset ----------

func TestUnsupported(t *testing.T) {
	db := newDB(t, `create table m (a varchar, b numeric, j jsonb)`)
	mustQuery(t, db, "t", `insert into m values ('x', 1, '{}')`)
	for _, sql := range []string{
		"select distinct a from m",
		"select a, sum(b) from m group by a having sum(b) > 1",
		"select a from m group by 1",
		"select a as k from m group by k",
		"with x as materialized (select 1) select * from x",
		"with x as (insert into m values ('y', 2, '{}') returning a) select * from x",
		"with recursive x as (select 1 union select 2 from x) select * from x",
		"select 1 union select 2",
		"select a from m union all select a from m order by 1",
		"select * from m where j @@ '$.a ? (@ > 1)'",
		"select * from m where j @@ '$[0] == 1'",
		"select * from m right join m m2 on true",
		"select distinct on (a) a, b from (select * from m union all select 'x', 2, '{}') u",
		"select * from m where j @@ '$.a == 1'",
		"select '$.a'::jsonpath",
		"select * from m where a like 'x%'",
		"select * from m where a in ('x')",
		"select a from m order by a nulls first",
		"select 1.5",
		"select now()",
		"delete from m",
		"select array_agg(distinct a) from m",
		"select * from m for update",
		"select b / 2 from m, (select 1) x where b = 1::numeric or true",
	} {
		_, err := db.Query("t", sql)
		if !IsUnsupported(err) {
			t.Errorf("%s: expected ErrUnsupported, got %v", sql, err)
		}
	}
	// a function whose body is outside the subset loads fine and fails only when called
	mustQuery(t, db, "t", `create function later() returns setof varchar language sql as $$ select distinct a from m $$`)
	if _, err := db.Query("t", "select * from later()"); !IsUnsupported(err) {
		t.Errorf("calling an unsupported body: %v", err)
	}
	// PostgreSQL errors are ordinary errors, not ErrUnsupported
	for _, sql := range []string{"select nope from m", "select * from nope", "select a = b from m", "select 1 +", "select a from m, m"} {
		if _, err := db.Query("t", sql); err == nil || IsUnsupported(err) {
			t.Errorf("%s: expected a plain error, got %v", sql, err)
		}
	}
}

func TestPLpgSQLNameConflict(t *testing.T) {
	db := newDB(t, `create table m (a varchar, b numeric);
		create function clash(a varchar) returns numeric language plpgsql as $$
		declare r numeric; begin select b into r from m where a = a; return r; end $$;
		create function sqlclash(a varchar) returns numeric language sql as $$ select b from m where a = a $$`)
	mustQuery(t, db, "t", "insert into m values ('x', 1)")
	if _, err := db.Query("t", "select clash('x')"); err == nil || !strings.Contains(err.Error(), "ambiguous") {
		t.Errorf("plpgsql variable/column conflict must be an error: %v", err)
	}
	expect(t, "in SQL functions the column wins", scalar(t, db, "t", "select sqlclash('nomatch')"), "1")
}

// ---------- database/sql driver ----------

func TestDriver(t *testing.T) {
	db := newDB(t, `create type kind as enum ('A', 'B');
		create table d (seq bigserial primary key, id numeric not null, k kind not null, name varchar(5), at timestamp, hash bytea, data jsonb, ok boolean);
		create unique index d_id on d (id)`)
	h := OpenSQL(db, "t")
	defer h.Close()
	ctx := context.Background()

	tx, err := h.BeginTx(ctx, nil)
	if err != nil {
		t.Fatal(err)
	}
	stmt, err := tx.Prepare(`COPY "t"."d" ("id", "k", "name", "at", "hash", "data", "ok") FROM STDIN`)
	if err != nil {
		t.Fatal(err)
	}
	at := time.Date(2023, 5, 6, 7, 8, 9, 123456000, time.UTC)
	if _, err := stmt.Exec("1180591620717411303424", "A", "abc", at.Format(time.RFC3339Nano), []byte{0xde, 0xad}, `{"b":1,"a":[1,2]}`, true); err != nil {
		t.Fatal(err)
	}
	if _, err := stmt.Exec(int64(2), "B", nil, nil, []byte{}, `null`, nil); err != nil {
		t.Fatal(err)
	}
	if _, err := stmt.Exec(); err != nil {
		t.Fatal(err)
	}
	if err := stmt.Close(); err != nil {
		t.Fatal(err)
	}
	if err := tx.Commit(); err != nil {
		t.Fatal(err)
	}

	rows, err := h.QueryContext(ctx, `SELECT * FROM "d" ORDER BY id DESC`)
	if err != nil {
		t.Fatal(err)
	}
	cols, _ := rows.Columns()
	expect(t, "columns", strings.Join(cols, ","), "seq,id,k,name,at,hash,data,ok")
	var got []string
	for rows.Next() {
		cells := make([]any, len(cols))
		ptrs := make([]any, len(cols))
		for i := range cells {
			ptrs[i] = &cells[i]
		}
		if err := rows.Scan(ptrs...); err != nil {
			t.Fatal(err)
		}
		for i, c := range cells {
			got = append(got, fmt.Sprintf("%s=%T:%v", cols[i], c, c))
		}
	}
	rows.Close()
	expect(t, "driver values", strings.Join(got, "\n"), strings.Join([]string{
		"seq=int64:1", "id=string:1180591620717411303424", "k=string:A", "name=string:abc", "at=time.Time:2023-05-06 07:08:09.123456 +0000 UTC",
		"hash=[]uint8:[222 173]", `data=[]uint8:` + fmt.Sprint([]byte(`{"a": [1, 2], "b": 1}`)), "ok=bool:true",
		"seq=int64:2", "id=string:2", "k=string:B", "name=<nil>:<nil>", "at=<nil>:<nil>", "hash=[]uint8:[]", "data=[]uint8:" + fmt.Sprint([]byte("null")), "ok=<nil>:<nil>",
	}, "\n"))
	var n int64
	if err := h.QueryRowContext(ctx, `SELECT count(*) FROM (SELECT * FROM d) data`).Scan(&n); err != nil || n != 2 {
		t.Fatalf("count: %v %v", n, err)
	}

	// rollback restores the data; sequences keep going
	tx, _ = h.BeginTx(ctx, nil)
	if _, err := tx.ExecContext(ctx, `insert into d (id, k) values (3, 'A')`); err != nil {
		t.Fatal(err)
	}
	if err := tx.Rollback(); err != nil {
		t.Fatal(err)
	}
	expect(t, "rolled back", scalar(t, db, "t", "select count(*) from d"), "2")
	mustQuery(t, db, "t", `insert into d (id, k) values (3, 'A')`)
	expect(t, "sequence after rollback", scalar(t, db, "t", "select seq from d where id = 3"), "4")

	// input validation on COPY: enum label, varchar length, duplicate key => nothing is kept
	for _, bad := range [][]any{{"9", "C", "x"}, {"9", "A", "toolong"}, {"3", "A", "x"}, {"x", "A", "x"}} {
		if err := db.CopyIn("t", "d", []string{"id", "k", "name"}, [][]any{{"8", "A", "fine"}, bad}); err == nil {
			t.Errorf("COPY of %v must fail", bad)
		}
	}
	expect(t, "failed COPYs left nothing", scalar(t, db, "t", "select count(*) from d"), "3")
	if _, err := h.QueryContext(ctx, "select $1", 1); !IsUnsupported(err) {
		t.Errorf("bound arguments: %v", err)
	}
}

func TestCloneIsIndependent(t *testing.T) {
	db := newDB(t, `create table c (seq bigserial primary key, v numeric)`)
	mustQuery(t, db, "t", "insert into c (v) values (1)")
	cp := db.Clone()
	mustQuery(t, cp, "t", "insert into c (v) values (2); update c set v = v + 10")
	mustQuery(t, db, "t", "insert into c (v) values (3)")
	_, a := db.TableRows("t", "c")
	_, b := cp.TableRows("t", "c")
	expect(t, "original", showRows(a), "1 | 1\n2 | 3")
	expect(t, "clone", showRows(b), "1 | 11\n2 | 12")
}

// ---------- end to end over the real bucket schema ----------

const schemaFile = "/repo/internal/storage/ledgerstore/migrations/0-init-schema.sql"

var logCols = []string{"ledger", "id", "type", "hash", "date", "data", "idempotency_key"}

// txLog builds the data column of a NEW_TRANSACTION log the way ledger.NewTransactionLogPayload marshals.
func txLog(id int, ts, src, dst string, amount int, meta, accountMeta string) string {
	return fmt.Sprintf(`{"transaction":{"postings":[{"source":%q,"destination":%q,"amount":%d,"asset":"X"}],"metadata":%s,"timestamp":%q,"reference":"","id":%d,"reverted":false},"accountMetadata":%s}`,
		src, dst, amount, meta, ts, id, accountMeta)
}

func loadLedger(t *testing.T) *DB {
	t.Helper()
	ddl, err := os.ReadFile(schemaFile)
	if err != nil {
		t.Fatal(err)
	}
	db := New()
	if err := db.LoadSchema("b1", string(ddl)); err != nil {
		t.Fatal(err)
	}
	err = db.CopyIn("b1", "logs", logCols, [][]any{
		{"l1", "0", "NEW_TRANSACTION", []byte{0}, "2023-01-01T10:00:00Z", txLog(0, "2023-01-03T00:00:00Z", "world", "a", 5, `{"m":"1"}`, `{"a":{"k":"v"}}`), ""},
		{"l1", "1", "NEW_TRANSACTION", []byte{1}, "2023-01-01T10:00:01Z", txLog(1, "2023-01-02T00:00:00Z", "a", "b", 3, `{}`, `{}`), "ik"},
		{"l1", "2", "SET_METADATA", []byte{2}, "2023-01-01T10:00:02.5Z", `{"targetType":"ACCOUNT","targetId":"b","metadata":{"role":"x"}}`, ""},
	})
	if err != nil {
		t.Fatal(err)
	}
	return db
}

func tableDump(db *DB, table string, cols ...string) string {
	all, rows := db.TableRows("b1", table)
	idx := map[string]int{}
	for i, c := range all {
		idx[c] = i
	}
	var lines []string
	for _, r := range rows {
		var cells []string
		for _, c := range cols {
			cells = append(cells, show(r[idx[c]]))
		}
		lines = append(lines, strings.Join(cells, " | "))
	}
	return strings.Join(lines, "\n")
}

func TestEndToEnd(t *testing.T) {
	db := loadLedger(t)

	expect(t, "transactions", tableDump(db, "transactions", "seq", "id", "timestamp", "reference", "sources", "destinations", "destinations_arrays", "metadata", "reverted_at"),
		`1 | 0 | 2023-01-03T00:00:00.000000 |  | ["world"] | ["a"] | [{"0": "a", "1": null}] | {"m": "1"} | NULL`+"\n"+
			`2 | 1 | 2023-01-02T00:00:00.000000 |  | ["a"] | ["b"] | [{"0": "b", "1": null}] | {} | NULL`)
	// postings is text that the Go side decodes with encoding/json
	_, txRows := db.TableRows("b1", "transactions")
	var postings []map[string]any
	if err := json.Unmarshal([]byte(txRows[0][7].(string)), &postings); err != nil || len(postings) != 1 || postings[0]["destination"] != "a" {
		t.Errorf("postings column: %v %v", postings, err)
	}
	// the insert trigger writes revision 1, insert_transaction then writes revision 0 (as the schema says)
	expect(t, "transactions_metadata", tableDump(db, "transactions_metadata", "transactions_seq", "revision", "date", "metadata"),
		`1 | 1 | 2023-01-03T00:00:00.000000 | {"m": "1"}`+"\n"+`1 | 0 | 2023-01-03T00:00:00.000000 | {"m": "1"}`+"\n"+
			`2 | 1 | 2023-01-02T00:00:00.000000 | {}`+"\n"+`2 | 0 | 2023-01-02T00:00:00.000000 | {}`)
	// upserts that hit a conflict still consume sequence values: b gets seq 5
	expect(t, "accounts", tableDump(db, "accounts", "seq", "address", "address_array", "insertion_date", "updated_at", "metadata"),
		`1 | world | ["world"] | 2023-01-01T10:00:00.000000 | 2023-01-01T10:00:00.000000 | {}`+"\n"+
			`2 | a | ["a"] | 2023-01-01T10:00:00.000000 | 2023-01-01T10:00:00.000000 | {"k": "v"}`+"\n"+
			`5 | b | ["b"] | 2023-01-01T10:00:01.000000 | 2023-01-01T10:00:02.500000 | {"role": "x"}`)
	expect(t, "accounts_metadata", tableDump(db, "accounts_metadata", "accounts_seq", "revision", "date", "metadata"),
		`1 | 1 | 2023-01-01T10:00:00.000000 | {}`+"\n"+`2 | 1 | 2023-01-01T10:00:00.000000 | {"k": "v"}`+"\n"+
			`5 | 1 | 2023-01-01T10:00:01.000000 | {}`+"\n"+`5 | 2 | 2023-01-01T10:00:02.500000 | {"role": "x"}`)
	// The second transaction is back-dated: no move of "a" exists at or before its date, so SELECT INTO finds no row; the
	// schema (since its fix) restarts the effective volumes from zero, and the later-dated move of "a" is shifted by
	// the UPDATE. TestSelectIntoNoRow covers the NULL behaviour of SELECT INTO itself.
	expect(t, "moves", tableDump(db, "moves", "seq", "transactions_seq", "accounts_seq", "account_address", "amount", "is_source", "effective_date", "post_commit_volumes", "post_commit_effective_volumes"),
		`1 | 1 | 1 | world | 5 | true | 2023-01-03T00:00:00.000000 | volumes(0,5) | volumes(0,5)`+"\n"+
			`2 | 1 | 2 | a | 5 | false | 2023-01-03T00:00:00.000000 | volumes(5,0) | volumes(5,3)`+"\n"+
			`3 | 2 | 2 | a | 3 | true | 2023-01-02T00:00:00.000000 | volumes(5,3) | volumes(0,3)`+"\n"+
			`4 | 2 | 5 | b | 3 | false | 2023-01-02T00:00:00.000000 | volumes(3,0) | volumes(3,0)`)
	expect(t, "logs", tableDump(db, "logs", "seq", "id", "type", "hash", "date", "idempotency_key"),
		"1 | 0 | NEW_TRANSACTION | 00 | 2023-01-01T10:00:00.000000 | \n2 | 1 | NEW_TRANSACTION | 01 | 2023-01-01T10:00:01.000000 | ik\n3 | 2 | SET_METADATA | 02 | 2023-01-01T10:00:02.500000 | ")

	// a rejected batch leaves no trace: the duplicate log id aborts after the first row's trigger effects were applied
	err := db.CopyIn("b1", "logs", logCols, [][]any{
		{"l1", "3", "NEW_TRANSACTION", []byte{3}, "2023-01-01T10:00:03Z", txLog(2, "2023-01-04T00:00:00Z", "world", "c", 1, `{}`, `{}`), ""},
		{"l1", "2", "SET_METADATA", []byte{4}, "2023-01-01T10:00:04Z", `{"targetType":"ACCOUNT","targetId":"c","metadata":{}}`, ""},
	})
	if err == nil || !strings.Contains(err.Error(), `duplicate key value violates unique constraint "logs_ledger"`) {
		t.Fatalf("duplicate log id: %v", err)
	}
	expect(t, "row counts after the rejected batch", fmt.Sprint(
		scalar(t, db, "b1", "select count(*) from logs"), scalar(t, db, "b1", "select count(*) from transactions"),
		scalar(t, db, "b1", "select count(*) from accounts"), scalar(t, db, "b1", "select count(*) from moves")), "3234")

	// remaining log types
	err = db.CopyIn("b1", "logs", logCols, [][]any{
		{"l1", "3", "SET_METADATA", []byte{3}, "2023-01-05T00:00:00Z", `{"targetType":"TRANSACTION","targetId":0,"metadata":{"m":"2","n":"3"}}`, ""},
		{"l1", "4", "DELETE_METADATA", []byte{4}, "2023-01-06T00:00:00Z", `{"targetType":"TRANSACTION","targetId":0,"key":"m"}`, ""},
		{"l1", "5", "DELETE_METADATA", []byte{5}, "2023-01-07T00:00:00Z", `{"targetType":"ACCOUNT","targetId":"a","key":"k"}`, ""},
		{"l1", "6", "REVERTED_TRANSACTION", []byte{6}, "2023-01-08T00:00:00Z", `{"revertedTransactionID":1,"transaction":{"postings":[{"source":"b","destination":"a","amount":3,"asset":"X"}],"metadata":null,"timestamp":"2023-01-08T00:00:00Z","id":2,"reverted":false}}`, ""},
	})
	if err != nil {
		t.Fatal(err)
	}
	expect(t, "transaction metadata after set + delete", scalar(t, db, "b1", "select metadata from transactions where id = 0"), `{"n": "3"}`)
	expect(t, "transaction metadata history", showRows(mustQuery(t, db, "b1", "select revision, metadata from transactions_metadata where transactions_seq = 1 order by revision").Data),
		`0 | {"m": "1"}`+"\n"+`1 | {"m": "1"}`+"\n"+`2 | {"m": "2", "n": "3"}`+"\n"+`3 | {"n": "3"}`)
	expect(t, "account metadata after delete", scalar(t, db, "b1", "select metadata from accounts where address = 'a'"), `{}`)
	expect(t, "reverted_at", scalar(t, db, "b1", "select reverted_at from transactions where id = 1"), "2023-01-08T00:00:00.000000")
	// "metadata": null is JSON null: stored as 'null'::jsonb, and the revision-0 history row is skipped (NULL condition)
	expect(t, "null metadata", scalar(t, db, "b1", "select metadata from transactions where id = 2")+" "+
		scalar(t, db, "b1", "select count(*) from transactions_metadata where transactions_seq = 3"), "null 1")
}

// TestTargetStatements runs every statement the Go store sends (target-sql.txt) through the database/sql driver.
func TestTargetStatements(t *testing.T) {
	db := loadLedger(t)
	h := OpenSQL(db, "b1")
	defer h.Close()
	text, err := os.ReadFile("target-sql.txt")
	if err != nil {
		t.Fatal(err)
	}
	results := map[string]string{}
	label, copies := "", 0
	for _, line := range strings.Split(string(text), "\n") {
		line = strings.TrimSpace(line)
		switch {
		case line == "":
			continue
		case strings.HasPrefix(line, "--"):
			label = strings.TrimSpace(strings.TrimPrefix(line, "--"))
			continue
		case strings.HasPrefix(line, "COPY"):
			copies++
			tx, err := h.Begin()
			if err != nil {
				t.Fatal(err)
			}
			stmt, err := tx.Prepare(line)
			if err != nil {
				t.Fatalf("%s: %v", label, err)
			}
			id := fmt.Sprint(2 + copies)
			data := fmt.Sprintf(`{"targetType":"ACCOUNT","targetId":"acc%s","metadata":{"n":"%s"}}`, id, id)
			if _, err := stmt.Exec("l1", id, "SET_METADATA", []byte{9}, "2023-02-01T00:00:00Z", data, "key"+id); err != nil {
				t.Fatalf("%s: %v", label, err)
			}
			if _, err := stmt.Exec(); err != nil {
				t.Fatalf("%s: %v", label, err)
			}
			if err := stmt.Close(); err != nil {
				t.Fatal(err)
			}
			if err := tx.Commit(); err != nil {
				t.Fatal(err)
			}
			continue
		}
		rows, err := h.Query(line)
		if err != nil {
			t.Errorf("%s: %v\n%s", label, err, line)
			continue
		}
		cols, _ := rows.Columns()
		var out []string
		for rows.Next() {
			cells := make([]any, len(cols))
			ptrs := make([]any, len(cols))
			for i := range cells {
				ptrs[i] = &cells[i]
			}
			if err := rows.Scan(ptrs...); err != nil {
				t.Fatalf("%s: %v", label, err)
			}
			var parts []string
			for i, c := range cells {
				if b, ok := c.([]byte); ok && cols[i] != "hash" {
					c = string(b)
				}
				parts = append(parts, fmt.Sprintf("%s=%v", cols[i], c))
			}
			out = append(out, strings.Join(parts, " "))
		}
		if err := rows.Err(); err != nil {
			t.Errorf("%s: %v", label, err)
		}
		rows.Close()
		results[label] = strings.Join(out, "\n")
	}
	if copies != 2 || len(results) != 14 {
		t.Errorf("expected 2 COPY and 14 SELECT statements, ran %d and %d", copies, len(results))
	}
	expect(t, "GetBalance", results["GetBalance"], "balance=2")
	expect(t, "GetAccount", results["GetAccount"], `address=a metadata={"k": "v"}`)
	expect(t, "GetTransaction (no such id)", results["GetTransaction"], "")
	expect(t, "GetLastTransaction", results["GetLastTransaction"][:24], "id=1 reference= postings")
	expect(t, "GetLastLog", results["GetLastLog"],
		`seq=3 ledger=l1 id=2 type=SET_METADATA hash=[2] date=2023-01-01 10:00:02.5 +0000 UTC data={"metadata": {"role": "x"}, "targetId": "b", "targetType": "ACCOUNT"} idempotency_key=`)
	expect(t, "ReadLogWithIdempotencyKey", results["ReadLogWithIdempotencyKey"][:17], "seq=2 ledger=l1 i")
	expect(t, "CountTransactions", results["CountTransactions"], "count=2")
	expect(t, "CountAccounts", results["CountAccounts"], "count=3")
	expect(t, "GetAccountsWithVolumes", results["GetAccountsWithVolumes"], "address=a metadata={\"k\": \"v\"}\naddress=b metadata={\"role\": \"x\"}\naddress=world metadata={}")
	expect(t, "GetTransactions columns", strings.Join(strings.Fields(results["GetTransactions"])[:3], " "), `metadata={} seq=2 ledger=l1`)
	expect(t, "accounts created through the driver COPY", scalar(t, db, "b1", "select count(*) from accounts where address = 'acc3' or address = 'acc4'"), "2")
}
