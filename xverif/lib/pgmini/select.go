package pgmini

import (
	"sort"
)

// outCol is one output column of a SELECT: an expression, or a column taken from a binding by `*`.
type outCol struct {
	expr Expr
	bind *binding
	idx  int
	srf  bool // set-returning function at the top of the select item
}

// sortRef is an ORDER BY / DISTINCT ON item after name resolution: an output column or an input expression.
type sortRef struct {
	out   int // index of the output column, or -1
	expr  Expr
	canon string
}

// prodRow is one produced row with its ORDER BY and DISTINCT ON values.
type prodRow struct {
	out      []Value
	sortVals []Value
	distinct []Value
}

// selectState carries the pieces of one SELECT arm through its evaluation.
type selectState struct {
	s     *session
	sel   *Select
	q     *scope
	outer *scope
	cols  []string
	outs  []outCol
	order []sortRef // ORDER BY items, then the DISTINCT ON items they do not cover
	desc  []bool
	dist  []sortRef
}

// execCore evaluates one SELECT arm: FROM, WHERE, GROUP BY / aggregates, select list, DISTINCT ON, ORDER BY,
// OFFSET, LIMIT.
func (s *session) execCore(sel *Select, outer *scope) (*resultSet, error) {
	cur := &fromResult{rows: [][][]Value{{}}} // no FROM: a single empty row
	for _, item := range sel.From {
		var err error
		if cur, err = s.joinItem(cur, item, "cross", nil, outer); err != nil {
			return nil, err
		}
	}
	st := &selectState{s: s, sel: sel, outer: outer, q: &scope{outer: outer, queryLevel: true, binds: cur.binds}}
	joined := cur.rows
	if sel.Where != nil {
		kept := joined[:0:0]
		for _, jr := range joined {
			setRows(st.q.binds, jr)
			ok, err := s.isTrue(sel.Where, st.q)
			if err != nil {
				return nil, err
			}
			if ok {
				kept = append(kept, jr)
			}
		}
		joined = kept
	}
	if err := st.resolveOutputs(); err != nil {
		return nil, err
	}
	if err := st.resolveSortItems(); err != nil {
		return nil, err
	}

	var aggCalls []*FuncCall
	for _, oc := range st.outs {
		s.collectAggs(oc.expr, &aggCalls)
	}
	for _, ref := range append(append([]sortRef(nil), st.order...), st.dist...) {
		s.collectAggs(ref.expr, &aggCalls)
	}
	var produced []prodRow
	var err error
	if len(aggCalls) > 0 || sel.GroupBy != nil {
		produced, err = st.produceGrouped(joined, aggCalls)
	} else {
		for n, jr := range joined {
			setRows(st.q.binds, jr)
			st.q.rowNumber = int64(n + 1)
			if produced, err = st.produce(produced); err != nil {
				break
			}
		}
	}
	if err != nil {
		return nil, err
	}
	if len(st.order) > 0 {
		if err := st.sortRows(produced); err != nil {
			return nil, err
		}
	}
	if sel.DistinctOn != nil {
		if produced, err = st.applyDistinctOn(produced); err != nil {
			return nil, err
		}
	}
	if produced, err = st.applyOffsetLimit(produced); err != nil {
		return nil, err
	}
	res := &resultSet{cols: st.cols}
	for _, pr := range produced {
		res.rows = append(res.rows, pr.out)
	}
	return res, nil
}

// resolveOutputs expands the select list into output columns and their names.
func (st *selectState) resolveOutputs() error {
	for _, it := range st.sel.Items {
		if !it.Star {
			name := it.Alias
			if name == "" {
				name = exprName(it.Expr)
			}
			fc, isCall := it.Expr.(*FuncCall)
			st.outs = append(st.outs, outCol{expr: it.Expr, srf: isCall && st.s.isSRF(fc)})
			st.cols = append(st.cols, name)
			continue
		}
		found := false
		for _, b := range st.q.binds {
			if it.Qualifier != "" && b.alias != it.Qualifier {
				continue
			}
			found = true
			for i, c := range b.cols {
				st.outs = append(st.outs, outCol{bind: b, idx: i})
				st.cols = append(st.cols, c)
			}
		}
		if !found {
			if it.Qualifier == "" {
				return pgError("SELECT * with no tables specified is not valid")
			}
			return pgError("missing FROM-clause entry for table %q", it.Qualifier)
		}
	}
	return nil
}

// resolveSortItem applies the ORDER BY name rules: a bare name matching exactly one output column, or an output
// position, refers to the output; anything else is an expression over the input columns.
func (st *selectState) resolveSortItem(e Expr, clause string) (sortRef, error) {
	outRef := func(i int) sortRef {
		ref := sortRef{out: i}
		if oc := st.outs[i]; oc.expr == nil {
			ref.canon = st.s.canon(&Ident{Parts: []string{oc.bind.alias, oc.bind.cols[oc.idx]}}, st.q)
		} else {
			ref.canon = st.s.canon(oc.expr, st.q)
		}
		return ref
	}
	switch x := e.(type) {
	case *Ident:
		if len(x.Parts) == 1 {
			matches, at := 0, 0
			for c, name := range st.cols {
				if name == x.Parts[0] {
					matches++
					at = c
				}
			}
			if matches == 1 {
				return outRef(at), nil
			}
			if matches > 1 { // fine when all of them are the same column, as PostgreSQL checks with equal()
				first := outRef(at)
				for c, name := range st.cols {
					if name == x.Parts[0] && outRef(c).canon != first.canon {
						return sortRef{}, pgError("%s %q is ambiguous", clause, x.Parts[0])
					}
				}
				return first, nil
			}
		}
	case *Literal:
		n, isInt := x.Val.(int64)
		if !isInt || n < 1 || int(n) > len(st.outs) {
			return sortRef{}, pgError("%s position is not in select list", clause)
		}
		return outRef(int(n - 1)), nil
	case *StringLit:
		return sortRef{}, unsupported("%s a constant", clause)
	}
	return sortRef{out: -1, expr: e, canon: st.s.canon(e, st.q)}, nil
}

// resolveSortItems resolves ORDER BY and DISTINCT ON and checks PostgreSQL's rule that the DISTINCT ON expressions
// must be the leading ORDER BY expressions. The sort order is ORDER BY followed by the DISTINCT ON expressions it
// does not mention (ascending), which is how PostgreSQL sorts before removing duplicates.
func (st *selectState) resolveSortItems() error {
	if st.sel.UnionAll != nil && st.sel.OrderBy != nil {
		return unsupported("ORDER BY applied to a UNION")
	}
	for _, k := range st.sel.OrderBy {
		ref, err := st.resolveSortItem(k.Expr, "ORDER BY")
		if err != nil {
			return err
		}
		st.order, st.desc = append(st.order, ref), append(st.desc, k.Desc)
	}
	isDistinct := map[string]bool{}
	for _, e := range st.sel.DistinctOn {
		ref, err := st.resolveSortItem(e, "DISTINCT ON")
		if err != nil {
			return err
		}
		st.dist = append(st.dist, ref)
		isDistinct[ref.canon] = true
	}
	covered := map[string]bool{}
	skipped := false
	for _, ref := range st.order[:len(st.sel.OrderBy)] {
		if !isDistinct[ref.canon] {
			skipped = true
			break
		}
		covered[ref.canon] = true
	}
	for _, ref := range st.dist {
		if covered[ref.canon] {
			continue
		}
		if skipped {
			return pgError("SELECT DISTINCT ON expressions must match initial ORDER BY expressions")
		}
		covered[ref.canon] = true
		st.order, st.desc = append(st.order, ref), append(st.desc, false)
	}
	return nil
}

func (st *selectState) sortValue(ref sortRef, row []Value) (Value, error) {
	if ref.out >= 0 {
		return row[ref.out], nil
	}
	return st.s.eval(ref.expr, st.q)
}

// produce evaluates the select list (and sort values) for the current row or group and appends the result. Set-
// returning functions at the top of select items are expanded in lockstep.
func (st *selectState) produce(into []prodRow) ([]prodRow, error) {
	row := make([]Value, len(st.outs))
	var sets []*resultSet
	var setCols []int
	for i, oc := range st.outs {
		switch {
		case oc.expr == nil:
			if st.q.grouped {
				if v, ok := st.q.groupKeys[st.s.canon(&Ident{Parts: []string{oc.bind.alias, oc.bind.cols[oc.idx]}}, st.q)]; ok {
					row[i] = v
					continue
				}
				return nil, pgError("column \"%s.%s\" must appear in the GROUP BY clause or be used in an aggregate function", oc.bind.alias, oc.bind.cols[oc.idx])
			}
			row[i] = oc.bind.row[oc.idx]
		case oc.srf:
			if st.q.grouped {
				return nil, unsupported("set-returning function in an aggregate query")
			}
			set, scalar, err := st.s.evalSRF(oc.expr.(*FuncCall), st.q)
			if err != nil {
				return nil, err
			}
			if !scalar {
				return nil, unsupported("composite set-returning function in a select list")
			}
			sets, setCols = append(sets, set), append(setCols, i)
		default:
			var err error
			if row[i], err = st.s.eval(oc.expr, st.q); err != nil {
				return nil, err
			}
		}
	}
	pr := prodRow{out: row}
	for _, ref := range st.order {
		if ref.out >= 0 && len(sets) > 0 {
			return nil, unsupported("ORDER BY over a set-returning select list")
		}
		v, err := st.sortValue(ref, row)
		if err != nil {
			return nil, err
		}
		pr.sortVals = append(pr.sortVals, v)
	}
	for _, ref := range st.dist {
		v, err := st.sortValue(ref, row)
		if err != nil {
			return nil, err
		}
		pr.distinct = append(pr.distinct, v)
	}
	if len(sets) == 0 {
		return append(into, pr), nil
	}
	longest := 0
	for _, set := range sets {
		if len(set.rows) > longest {
			longest = len(set.rows)
		}
	}
	for k := 0; k < longest; k++ {
		expanded := pr
		expanded.out = append([]Value(nil), row...)
		for j, set := range sets {
			if k < len(set.rows) {
				expanded.out[setCols[j]] = set.rows[k][0]
			}
		}
		into = append(into, expanded)
	}
	return into, nil
}

// produceGrouped handles aggregate queries: the rows are partitioned by the GROUP BY values (NULLs group together;
// without GROUP BY there is exactly one group, even over zero rows), aggregates are computed per group in input
// order, and one row is produced per group. Groups come out sorted by their keys (the order a sorted GroupAggregate
// produces; PostgreSQL itself promises no order here).
func (st *selectState) produceGrouped(joined [][][]Value, aggCalls []*FuncCall) ([]prodRow, error) {
	s, q := st.s, st.q
	type group struct {
		keys []Value
		rows [][][]Value
	}
	var groups []*group
	keyCanon := make([]string, len(st.sel.GroupBy))
	for i, e := range st.sel.GroupBy {
		switch x := e.(type) {
		case *Literal:
			return nil, unsupported("GROUP BY position")
		case *Ident:
			if b, _ := resolveColumn(x, q); b == nil && len(x.Parts) == 1 && q.findVar(x.Parts[0]) == nil {
				return nil, unsupported("GROUP BY %q, which is not an input column (output-column names are not resolved)", x.Parts[0])
			}
		}
		var nested []*FuncCall
		if s.collectAggs(e, &nested); len(nested) > 0 {
			return nil, pgError("aggregate functions are not allowed in GROUP BY")
		}
		keyCanon[i] = s.canon(e, q)
	}
	if st.sel.GroupBy == nil {
		groups = []*group{{rows: joined}}
	}
	for _, jr := range joined {
		if st.sel.GroupBy == nil {
			break
		}
		setRows(q.binds, jr)
		keys := make([]Value, len(st.sel.GroupBy))
		for i, e := range st.sel.GroupBy {
			var err error
			if keys[i], err = s.eval(e, q); err != nil {
				return nil, err
			}
		}
		var home *group
		for _, g := range groups {
			same := true
			for i := range keys {
				if eq, err := compareNullable(keys[i], g.keys[i]); err != nil || !eq {
					same = false
					break
				}
			}
			if same {
				home = g
				break
			}
		}
		if home == nil {
			home = &group{keys: keys}
			groups = append(groups, home)
		}
		home.rows = append(home.rows, jr)
	}
	sortable := true
	sort.SliceStable(groups, func(i, j int) bool {
		c, err := compareKeyLists(groups[i].keys, groups[j].keys, nil)
		if err != nil {
			sortable = false
		}
		return sortable && c < 0
	})

	var produced []prodRow
	for _, g := range groups {
		q.grouped, q.groupKeys = false, nil
		q.aggs = map[*FuncCall]Value{}
		for _, fc := range aggCalls {
			if len(fc.Args) > 1 || (len(fc.Args) == 0) != fc.Star {
				return nil, pgError("function %s with %d arguments does not exist", fc.Name, len(fc.Args))
			}
			inputs := make([]Value, 0, len(g.rows))
			for _, jr := range g.rows {
				setRows(q.binds, jr)
				var v Value
				if !fc.Star {
					var err error
					if v, err = s.eval(fc.Args[0], q); err != nil {
						return nil, err
					}
				}
				inputs = append(inputs, v)
			}
			v, err := s.aggregate(fc, inputs)
			if err != nil {
				return nil, err
			}
			q.aggs[fc] = v
		}
		q.grouped, q.groupKeys = true, map[string]Value{}
		for i, c := range keyCanon {
			q.groupKeys[c] = g.keys[i]
		}
		var err error
		if produced, err = st.produce(produced); err != nil {
			return nil, err
		}
	}
	return produced, nil
}

// compareKeyLists orders two value lists; NULL sorts as larger than every value; desc[i] reverses key i.
func compareKeyLists(a, b []Value, desc []bool) (int, error) {
	for k := range a {
		c := 0
		switch {
		case a[k] == nil && b[k] == nil:
		case a[k] == nil:
			c = 1
		case b[k] == nil:
			c = -1
		default:
			var err error
			if c, err = compareValues(a[k], b[k]); err != nil {
				return 0, err
			}
		}
		if desc != nil && desc[k] {
			c = -c
		}
		if c != 0 {
			return c, nil
		}
	}
	return 0, nil
}

func (st *selectState) sortRows(produced []prodRow) error {
	var sortErr error
	sort.SliceStable(produced, func(i, j int) bool {
		c, err := compareKeyLists(produced[i].sortVals, produced[j].sortVals, st.desc)
		if err != nil && sortErr == nil {
			sortErr = err
		}
		return c < 0
	})
	return sortErr
}

// applyDistinctOn keeps the first row of every run of rows with equal DISTINCT ON values. When the sort order does
// not decide which row of a run comes first and the candidates differ, PostgreSQL's choice is unpredictable: that
// is reported instead of picking one.
func (st *selectState) applyDistinctOn(produced []prodRow) ([]prodRow, error) {
	sameValues := func(a, b []Value) bool {
		for i := range a {
			if eq, err := compareNullable(a[i], b[i]); err != nil || !eq {
				return false
			}
		}
		return true
	}
	var kept []prodRow
	for _, pr := range produced {
		if len(kept) == 0 || !sameValues(kept[len(kept)-1].distinct, pr.distinct) {
			kept = append(kept, pr)
			continue
		}
		head := kept[len(kept)-1]
		if tie, err := compareKeyLists(head.sortVals, pr.sortVals, st.desc); err == nil && tie == 0 && !sameValues(head.out, pr.out) {
			return nil, unsupported("DISTINCT ON whose ORDER BY does not determine which row of a group is kept")
		}
	}
	return kept, nil
}

func (st *selectState) applyOffsetLimit(produced []prodRow) ([]prodRow, error) {
	bound := func(e Expr, what string) (int, bool, error) {
		if e == nil {
			return 0, false, nil
		}
		v, err := st.s.eval(e, st.outer)
		if err != nil || v == nil {
			return 0, false, err
		}
		if lit, isLit := e.(*StringLit); isLit {
			if v, err = st.s.cast(lit.Val, Type{Name: "bigint"}, castIO); err != nil {
				return 0, false, err
			}
		}
		if !isNumber(v) {
			return 0, false, pgError("argument of %s must be type bigint, not type %s", what, typeNameOf(v))
		}
		n := toBig(v)
		if n.Sign() < 0 {
			return 0, false, pgError("%s must not be negative", what)
		}
		if !n.IsInt64() || n.Int64() > int64(len(produced)) {
			return len(produced), true, nil
		}
		return int(n.Int64()), true, nil
	}
	if off, ok, err := bound(st.sel.Offset, "OFFSET"); err != nil {
		return nil, err
	} else if ok {
		produced = produced[off:]
	}
	if lim, ok, err := bound(st.sel.Limit, "LIMIT"); err != nil {
		return nil, err
	} else if ok && lim < len(produced) {
		produced = produced[:lim]
	}
	return produced, nil
}
