package pgmini

import (
	"encoding/json"
	"fmt"
	"math/big"
	"sort"
	"strings"
	"time"
)

// JSON is a json / jsonb value. V holds nil (JSON null), bool, json.Number (normalised numeric text, exact), string,
// []any or map[string]any. plain marks a value of type json (result of to_json): it supports -> and ->> but not the
// jsonb-only operators, and becomes jsonb when cast or stored into a jsonb column.
type JSON struct {
	V     any
	plain bool
}

// ParseJSON parses jsonb input text. Duplicate object keys: the last one wins. Numbers keep arbitrary precision.
func ParseJSON(text string) (JSON, error) {
	dec := json.NewDecoder(strings.NewReader(text))
	dec.UseNumber()
	var v any
	if err := dec.Decode(&v); err != nil {
		return JSON{}, pgError("invalid input syntax for type json: %q", text)
	}
	if dec.More() {
		return JSON{}, pgError("invalid input syntax for type json: %q", text)
	}
	v, err := normJSON(v)
	return JSON{V: v}, err
}

func normJSON(v any) (any, error) {
	var err error
	switch x := v.(type) {
	case json.Number:
		return normNumber(string(x))
	case []any:
		for i := range x {
			if x[i], err = normJSON(x[i]); err != nil {
				return nil, err
			}
		}
	case map[string]any:
		for k := range x {
			if strings.ContainsRune(k, 0) {
				return nil, pgError("unsupported Unicode escape sequence (\\u0000 cannot be converted to text)")
			}
			if x[k], err = normJSON(x[k]); err != nil {
				return nil, err
			}
		}
	case string:
		// jsonb stores strings as text, and text cannot hold U+0000
		if strings.ContainsRune(x, 0) {
			return nil, pgError("unsupported Unicode escape sequence (\\u0000 cannot be converted to text)")
		}
	}
	return v, nil
}

// normNumber renders a JSON number the way numeric_out does: no exponent, "-0" becomes "0", written scale kept.
func normNumber(s string) (json.Number, error) {
	neg := strings.HasPrefix(s, "-")
	body := strings.TrimPrefix(s, "-")
	exp := 0
	if i := strings.IndexAny(body, "eE"); i >= 0 {
		if _, err := fmt.Sscanf(body[i+1:], "%d", &exp); err != nil || exp > 100000 || exp < -100000 {
			return "", unsupported("JSON number with exponent out of range: %s", s)
		}
		body = body[:i]
	}
	intPart, frac, _ := strings.Cut(body, ".")
	digits := intPart + frac
	point := len(intPart) + exp // position of the decimal point inside digits
	switch {
	case point >= len(digits):
		intPart, frac = digits+strings.Repeat("0", point-len(digits)), ""
	case point <= 0:
		intPart, frac = "0", strings.Repeat("0", -point)+digits
	default:
		intPart, frac = digits[:point], digits[point:]
	}
	intPart = strings.TrimLeft(intPart, "0")
	if intPart == "" {
		intPart = "0"
	}
	out := intPart
	if frac != "" {
		out += "." + frac
	}
	if neg && strings.Trim(out, "0.") != "" {
		out = "-" + out
	}
	return json.Number(out), nil
}

// String renders the value as PostgreSQL renders jsonb (or, for a plain json array built by to_json, json) text.
func (j JSON) String() string {
	var sb strings.Builder
	if arr, ok := j.V.([]any); ok && j.plain {
		sb.WriteByte('[') // array_to_json: elements separated by a bare comma
		for i, e := range arr {
			if i > 0 {
				sb.WriteByte(',')
			}
			writeJSONB(&sb, e)
		}
		sb.WriteByte(']')
		return sb.String()
	}
	writeJSONB(&sb, j.V)
	return sb.String()
}

// sortedKeys orders object keys the way jsonb stores them: by length, then bytewise.
func sortedKeys(m map[string]any) []string {
	keys := make([]string, 0, len(m))
	for k := range m {
		keys = append(keys, k)
	}
	sort.Slice(keys, func(i, j int) bool {
		if len(keys[i]) != len(keys[j]) {
			return len(keys[i]) < len(keys[j])
		}
		return keys[i] < keys[j]
	})
	return keys
}

func writeJSONB(sb *strings.Builder, v any) {
	switch x := v.(type) {
	case nil:
		sb.WriteString("null")
	case bool:
		fmt.Fprint(sb, x)
	case json.Number:
		sb.WriteString(string(x))
	case string:
		writeJSONString(sb, x)
	case []any:
		sb.WriteByte('[')
		for i, e := range x {
			if i > 0 {
				sb.WriteString(", ")
			}
			writeJSONB(sb, e)
		}
		sb.WriteByte(']')
	case map[string]any:
		sb.WriteByte('{')
		for i, k := range sortedKeys(x) {
			if i > 0 {
				sb.WriteString(", ")
			}
			writeJSONString(sb, k)
			sb.WriteString(": ")
			writeJSONB(sb, x[k])
		}
		sb.WriteByte('}')
	}
}

// writeJSONString follows escape_json: only ", \ and control characters are escaped.
func writeJSONString(sb *strings.Builder, s string) {
	sb.WriteByte('"')
	for _, c := range s {
		switch c {
		case '"':
			sb.WriteString(`\"`)
		case '\\':
			sb.WriteString(`\\`)
		case '\b':
			sb.WriteString(`\b`)
		case '\f':
			sb.WriteString(`\f`)
		case '\n':
			sb.WriteString(`\n`)
		case '\r':
			sb.WriteString(`\r`)
		case '\t':
			sb.WriteString(`\t`)
		default:
			if c < 0x20 {
				fmt.Fprintf(sb, `\u%04x`, c)
			} else {
				sb.WriteRune(c)
			}
		}
	}
	sb.WriteByte('"')
}

// jsonPretty implements jsonb_pretty: four-space indentation, one member per line; empty containers render as
// an opening and a closing bracket on two lines, as PostgreSQL does.
func jsonPretty(v any) string {
	var sb strings.Builder
	var walk func(v any, depth int)
	walk = func(v any, depth int) {
		indent := strings.Repeat("    ", depth+1)
		switch x := v.(type) {
		case []any:
			sb.WriteString("[")
			for i, e := range x {
				if i > 0 {
					sb.WriteString(",")
				}
				sb.WriteString("\n" + indent)
				walk(e, depth+1)
			}
			sb.WriteString("\n" + strings.Repeat("    ", depth) + "]")
		case map[string]any:
			sb.WriteString("{")
			for i, k := range sortedKeys(x) {
				if i > 0 {
					sb.WriteString(",")
				}
				sb.WriteString("\n" + indent)
				writeJSONString(&sb, k)
				sb.WriteString(": ")
				walk(x[k], depth+1)
			}
			sb.WriteString("\n" + strings.Repeat("    ", depth) + "}")
		default:
			writeJSONB(&sb, v)
		}
	}
	walk(v, 0)
	return sb.String()
}

func jsonNumCmp(a, b json.Number) int {
	x, _ := new(big.Rat).SetString(string(a))
	y, _ := new(big.Rat).SetString(string(b))
	return x.Cmp(y)
}

func jsonEqual(a, b any) bool {
	switch x := a.(type) {
	case nil:
		return b == nil
	case bool:
		y, ok := b.(bool)
		return ok && x == y
	case json.Number:
		y, ok := b.(json.Number)
		return ok && jsonNumCmp(x, y) == 0
	case string:
		y, ok := b.(string)
		return ok && x == y
	case []any:
		y, ok := b.([]any)
		if !ok || len(x) != len(y) {
			return false
		}
		for i := range x {
			if !jsonEqual(x[i], y[i]) {
				return false
			}
		}
		return true
	case map[string]any:
		y, ok := b.(map[string]any)
		if !ok || len(x) != len(y) {
			return false
		}
		for k, xv := range x {
			if yv, ok := y[k]; !ok || !jsonEqual(xv, yv) {
				return false
			}
		}
		return true
	}
	return false
}

// jsonContains implements jsonb @>. top is true for the outermost call only (an array contains a bare scalar only
// at top level).
func jsonContains(a, b any, top bool) bool {
	switch x := a.(type) {
	case map[string]any:
		y, ok := b.(map[string]any)
		if !ok {
			return false
		}
		for k, bv := range y {
			av, ok := x[k]
			if !ok || !jsonContainsNested(av, bv) {
				return false
			}
		}
		return true
	case []any:
		y, ok := b.([]any)
		if !ok {
			if _, isObj := b.(map[string]any); isObj || !top {
				return false
			}
			y = []any{b}
		}
		for _, bv := range y {
			found := false
			for _, av := range x {
				if jsonContainsNested(av, bv) {
					found = true
					break
				}
			}
			if !found {
				return false
			}
		}
		return true
	}
	switch b.(type) {
	case map[string]any, []any:
		return false
	}
	return jsonEqual(a, b)
}

func jsonContainsNested(a, b any) bool {
	_, aObj := a.(map[string]any)
	_, aArr := a.([]any)
	_, bObj := b.(map[string]any)
	_, bArr := b.([]any)
	if aObj != bObj || aArr != bArr {
		return false
	}
	return jsonContains(a, b, false)
}

// jsonConcat implements jsonb || jsonb.
func jsonConcat(a, b any) any {
	ao, aIsObj := a.(map[string]any)
	bo, bIsObj := b.(map[string]any)
	if aIsObj && bIsObj {
		out := make(map[string]any, len(ao)+len(bo))
		for k, v := range ao {
			out[k] = v
		}
		for k, v := range bo {
			out[k] = v
		}
		return out
	}
	asArr := func(v any) []any {
		if arr, ok := v.([]any); ok {
			return arr
		}
		return []any{v}
	}
	return append(append([]any{}, asArr(a)...), asArr(b)...)
}

// toJSONAny converts an SQL value to its JSON representation (to_jsonb rules).
func toJSONAny(v Value) (any, error) {
	switch x := v.(type) {
	case nil:
		return nil, nil
	case bool:
		return x, nil
	case int64:
		return json.Number(fmt.Sprint(x)), nil
	case *big.Int:
		return json.Number(x.String()), nil
	case string:
		return x, nil
	case time.Time:
		return formatTimestamp(x, "T"), nil
	case JSON:
		return x.V, nil
	case Array:
		out := make([]any, len(x.Elems))
		for i, e := range x.Elems {
			var err error
			if out[i], err = toJSONAny(e); err != nil {
				return nil, err
			}
		}
		return out, nil
	}
	return nil, unsupported("conversion of %s to json", typeNameOf(v))
}
