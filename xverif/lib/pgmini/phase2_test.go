package pgmini

import (
	"fmt"
	"os"
	"strings"
	"testing"
)

func rowsOf(t *testing.T, db *DB, schema, sql string) string {
	t.Helper()
	return showRows(mustQuery(t, db, schema, sql).Data)
}

func expectError(t *testing.T, db *DB, sql, fragment string) {
	t.Helper()
	_, err := db.Query("t", sql)
	if err == nil || !strings.Contains(err.Error(), fragment) || IsUnsupported(err) {
		t.Errorf("%s\n got: %v\nwant a PostgreSQL error containing %q", sql, err, fragment)
	}
}

const movesDDL = `
create table mv (seq bigserial primary key, acct varchar, asset varchar, amount numeric, at timestamp);
create table acct (name varchar not null, meta jsonb not null default '{}'::jsonb);`

func movesDB(t *testing.T) *DB {
	db := newDB(t, movesDDL)
	mustQuery(t, db, "t", `insert into mv (acct, asset, amount, at) values
		('a', 'X', 1, '2023-01-01'), ('b', 'X', 2, '2023-01-02'), ('a', 'Y', 3, '2023-01-03'),
		('a', 'X', 4, '2023-01-04'), (null, 'X', 5, '2023-01-05'), ('b', null, 6, '2023-01-06'), (null, 'X', 7, '2023-01-07')`)
	mustQuery(t, db, "t", `insert into acct values ('a', '{"k": "v"}'), ('b', '{}'), ('c', '{}')`)
	return db
}

// ---------- DISTINCT ON ----------

func TestDistinctOn(t *testing.T) {
	db := movesDB(t)
	// latest row per (acct, asset): the ORDER BY after the DISTINCT ON keys decides which row of a group is kept
	expect(t, "latest per group", rowsOf(t, db, "t",
		`select distinct on (mv.acct, mv.asset) mv.seq, acct, asset from mv order by "acct", "asset", "mv"."seq" desc`),
		"4 | a | X\n3 | a | Y\n2 | b | X\n6 | b | NULL\n7 | NULL | X")
	expect(t, "earliest per group", rowsOf(t, db, "t",
		`select distinct on (acct) seq, acct from mv order by acct desc, at`), "5 | NULL\n2 | b\n1 | a")
	expect(t, "keys in another order than ORDER BY", rowsOf(t, db, "t",
		`select distinct on (asset, acct) seq from mv where acct is not null and asset is not null order by acct, asset, seq`), "1\n3\n2")
	// without ORDER BY the result is sorted by the keys; one row per group is unambiguous when groups are singletons
	expect(t, "no ORDER BY", rowsOf(t, db, "t", `select distinct on (seq) seq from mv where seq > 5`), "6\n7")
	expect(t, "under count(*)", scalar(t, db, "t", `select count(*) from (select distinct on (acct) * from mv order by acct, seq) d`), "3")
	expect(t, "with LIMIT", rowsOf(t, db, "t", `select distinct on (acct) acct, amount from mv order by acct, amount desc limit 2`), "a | 4\nb | 6")
	expectError(t, db, `select distinct on (acct) acct from mv order by seq`, "SELECT DISTINCT ON expressions must match initial ORDER BY expressions")
	expectError(t, db, `select distinct on (acct, asset) acct from mv order by acct, seq, asset`, "SELECT DISTINCT ON expressions must match initial ORDER BY expressions")
	if _, err := db.Query("t", `select distinct on (acct) acct, seq from mv order by acct`); !IsUnsupported(err) {
		t.Errorf("undetermined DISTINCT ON choice must be reported, got %v", err)
	}
}

// ---------- LATERAL ----------

func TestLateral(t *testing.T) {
	db := movesDB(t)
	expect(t, "left join lateral with LIMIT 1 per outer row", rowsOf(t, db, "t",
		`select acct.name, last.seq, last.amount from acct left join lateral
		   (select * from mv where mv.acct = acct.name order by seq desc limit 1) as last on true order by name`),
		"a | 4 | 4\nb | 6 | 6\nc | NULL | NULL")
	expect(t, "inner join lateral drops unmatched rows", rowsOf(t, db, "t",
		`select acct.name, last.seq from acct join lateral (select seq from mv where mv.acct = acct.name order by seq limit 1) last on true order by 1`),
		"a | 1\nb | 2")
	expect(t, "comma + LATERAL, ON condition, star expansion", rowsOf(t, db, "t",
		`select x.* from acct, lateral (select count(*) as n, sum(amount) as total from mv where acct = name) x where name <> 'b' order by name`),
		"3 | 8\n0 | NULL")
	// functions in FROM see the items to their left without the keyword
	expect(t, "implicit lateral: set-returning function", rowsOf(t, db, "t",
		`select name, kv.key, kv.value from acct join jsonb_each_text(acct.meta) kv on true`), "a | k | v")
	mustQuery(t, db, "t", `create function total_of(_acct varchar, _asset varchar default null) returns jsonb language sql stable as $$
		select jsonb_build_object('total', sum(amount)) from mv where acct = _acct and (_asset is null or asset = _asset) $$`)
	res := mustQuery(t, db, "t", `select "acct"."name", totals.* from "acct" join total_of(acct.name, NULL) totals on true order by "acct"."name"`)
	expect(t, "implicit lateral: scalar function, one column named after the alias", strings.Join(res.Cols, ",")+"\n"+showRows(res.Data),
		"name,totals\na | {\"total\": 8}\nb | {\"total\": 8}\nc | {\"total\": null}")
	res = mustQuery(t, db, "t", `select name, l.* from (select * from acct where false) a2 join lateral (select seq, amount from mv where acct = a2.name) l on true`)
	expect(t, "columns are known even without outer rows", strings.Join(res.Cols, ","), "name,seq,amount")
	expectError(t, db, `select * from acct join (select seq from mv where mv.acct = acct.name) l on true`, "acct")
}

// ---------- GROUP BY ----------

func TestGroupBy(t *testing.T) {
	db := movesDB(t)
	expect(t, "NULL keys form one group", rowsOf(t, db, "t",
		`select acct, count(*), sum(amount), min(at), max(amount), array_agg(seq) from mv group by acct`),
		"a | 3 | 8 | 2023-01-01T00:00:00.000000 | 4 | [1,3,4]\nb | 2 | 8 | 2023-01-02T00:00:00.000000 | 6 | [2,6]\nNULL | 2 | 12 | 2023-01-05T00:00:00.000000 | 7 | [5,7]")
	expect(t, "two keys, qualified and bare references to the same column", rowsOf(t, db, "t",
		`select mv.acct, asset, sum(mv.amount) from mv where acct is not null group by "mv"."acct", mv.asset order by acct, asset`),
		"a | X | 5\na | Y | 3\nb | X | 2\nb | NULL | 6")
	expect(t, "expression over keys and aggregates, row constructor", rowsOf(t, db, "t",
		`select 'k:' || asset, (asset, (sum(amount), count(*))) from mv where acct = 'a' group by asset order by asset`),
		"k:X | (X,(5,2))\nk:Y | (Y,(3,1))")
	expect(t, "no rows, GROUP BY: no groups", rowsOf(t, db, "t", `select acct, count(*) from mv where false group by acct`), "")
	expect(t, "no rows, no GROUP BY: one group", rowsOf(t, db, "t", `select count(*), sum(amount) from mv where false`), "0 | NULL")
	expect(t, "ORDER BY an aggregate", rowsOf(t, db, "t", `select acct from mv group by acct order by sum(amount) desc, acct`), "NULL\na\nb")
	mustQuery(t, db, "t", `create function pick(anyelement, anyelement) returns anyelement language sql immutable strict as $$ select $1 $$;
		create aggregate first(anyelement) (sfunc = pick, stype = anyelement);
		create aggregate merge_objects(jsonb) (sfunc = jsonb_concat, stype = jsonb, initcond = '{}')`)
	expect(t, "user aggregates per group, in input order", rowsOf(t, db, "t",
		`select acct, first(amount), merge_objects(jsonb_build_object(coalesce(asset, '?'::varchar), amount)) from mv where acct is not null group by acct`),
		`a | 1 | {"X": 4, "Y": 3}`+"\n"+`b | 2 | {"?": 6, "X": 2}`)
	expect(t, "DISTINCT ON over groups", rowsOf(t, db, "t",
		`select distinct on (mv.acct, mv.asset) mv.acct, sum(amount) from mv where acct is not null and asset is not null group by mv.acct, mv.asset`),
		"a | 5\na | 3\nb | 2")
	expectError(t, db, `select acct, seq from mv group by acct`, "must appear in the GROUP BY clause")
	expectError(t, db, `select mv.* from mv group by acct`, "must appear in the GROUP BY clause")
	expectError(t, db, `select acct from mv group by sum(amount)`, "not allowed in GROUP BY")
}

// ---------- WITH ----------

func TestWith(t *testing.T) {
	db := movesDB(t)
	expect(t, "chained CTEs", rowsOf(t, db, "t",
		`with big as (select * from mv where amount >= 4), per as (select acct, count(*) as n from big group by acct) select * from per order by acct`),
		"a | 1\nb | 1\nNULL | 2")
	// inside its own definition the name still means the table; afterwards it means the CTE, also in subqueries
	expect(t, "a CTE shadowing a table", rowsOf(t, db, "t",
		`with "mv" as (select mv.* from "mv" where (mv.acct = 'a')) select count(*), (select max(seq) from mv) from mv`), "3 | 4")
	expect(t, "the table is untouched", scalar(t, db, "t", "select count(*) from mv"), "7")
	expect(t, "column aliases, CTE used twice", rowsOf(t, db, "t",
		`with p(k, v) as (select acct, amount from mv where seq <= 2) select a.k, b.v from p a join p b on a.v < b.v`), "a | 2")
	expect(t, "WITH inside a subquery sees outer columns", rowsOf(t, db, "t",
		`select name, (with mine as (select amount from mv where acct = name) select sum(amount) from mine) from acct order by name`),
		"a | 8\nb | 8\nc | NULL")
	// functions do not see the caller's CTEs
	mustQuery(t, db, "t", `create function mv_count() returns bigint language sql as $$ select count(*) from mv $$`)
	expect(t, "function bodies see the table", scalar(t, db, "t", `with mv as (select 1) select mv_count() from mv`), "7")

	expect(t, "recursive: counter", rowsOf(t, db, "t",
		`with recursive n(i) as (select 1 union all select i + 1 from n where i < 5) select sum(i), count(*), max(i) from n`), "15 | 5 | 5")
	// the loose index scan of get_all_assets: each step fetches the next distinct value, and stops on NULL
	expect(t, "recursive: distinct values by repeated min()", rowsOf(t, db, "t",
		`with recursive t as (select min(asset) as asset from mv
		   union all select (select min(asset) from mv where asset > t.asset) from t where t.asset is not null)
		 select asset from t where asset is not null
		 union all select null where exists(select 1 from mv where asset is null)`), "X\nY\nNULL")
	expect(t, "recursive: the recursive term sees only the previous step", rowsOf(t, db, "t",
		`with recursive r as (select 1 as depth, 1 as width union all select depth + 1, (select count(*) from r) from r where depth < 4) select depth, width from r`),
		"1 | 1\n2 | 1\n3 | 1\n4 | 1")
	expect(t, "recursive over an empty start", rowsOf(t, db, "t",
		`with recursive t as (select seq from mv where false union all select seq + 1 from t) select count(*) from t`), "0")
	expect(t, "non-recursive entry under WITH RECURSIVE", rowsOf(t, db, "t",
		`with recursive a as (select 2 as x), b as (select x from a union all select x * 2 from b where x < 16) select x from b`), "2\n4\n8\n16")
	expectError(t, db, `with a as (select 1), a as (select 2) select * from a`, "specified more than once")
	expectError(t, db, `with a as (select * from b), b as (select 1) select * from a`, `relation "b" does not exist`)
	if _, err := db.Query("t", `with recursive t as (select 1 as i union all select i + 1 from t) select count(*) from t`); err == nil || !strings.Contains(err.Error(), "did not terminate") {
		t.Errorf("runaway recursion: %v", err)
	}
}

// ---------- jsonpath subset and the remaining corpus idioms ----------

func TestJSONPathSubsetAndIdioms(t *testing.T) {
	db := New()
	db.LoadSchema("t", `create type volumes as (inputs numeric, outputs numeric);
		create type volumes_with_asset as (asset varchar, volumes volumes);
		create function volumes_to_jsonb(v volumes_with_asset) returns jsonb language sql immutable as $$
		select ('{"' || v.asset || '": {"input": ' || (v.volumes).inputs || ', "output": ' || (v.volumes).outputs || '}}')::jsonb $$`)
	for expr, want := range map[string]string{
		`'["a", "b"]'::jsonb @@ ('$[0] == "a"')::jsonpath`:                                                    "true",
		`'["a", "b"]'::jsonb @@ ('$[1] == "a"')::jsonpath`:                                                    "false",
		`'["a", "b"]'::jsonb @@ ('$[2] == "a"')::jsonpath`:                                                    "false", // lax mode: no such element
		`'["a", null]'::jsonb @@ ('$[1] == "a"')::jsonpath`:                                                   "false",
		`'["a", 1]'::jsonb @@ ('$[1] == "a"')::jsonpath`:                                                      "NULL", // string vs number: unknown
		`'"a"'::jsonb @@ ('$[0] == "a"')::jsonpath`:                                                           "true", // lax mode wraps a scalar
		`'["q\"uote"]'::jsonb @@ ('$[0]  ==  "q\"uote"')::jsonpath`:                                           "true",
		`null::jsonb @@ ('$[0] == "a"')::jsonpath`:                                                            "NULL",
		`'["a"]'::jsonb @@ '$[0] == "a"'`:                                                                     "true",
		`jsonb_array_length('["a","b"]') = 2 and '["a","b"]'::jsonb @@ ('$[0] == "a"')::jsonpath`:             "true",
		`volumes_to_jsonb(('USD', (10, 3)::volumes))`:                                                         `{"USD": {"input": 10, "output": 3}}`,
		`volumes_to_jsonb(('USD', (null, 3)))`:                                                                "NULL",
		`(('USD', (10, 3))::volumes_with_asset).volumes`:                                                      "volumes(10,3)",
		`('2023-05-06T07:08:09Z' is null or '2023-05-06 07:08:09'::timestamp <= '2023-05-06T07:08:09+05:00')`: "true",
		`(null is null or 1 = 2)`:                                                                             "true",
		`case when '2023-05-06T07:08:10'::timestamp is not null and '2023-05-06T07:08:10'::timestamp > '2023-05-06T07:08:09Z' then null else 1 end`: "NULL",
	} {
		expect(t, expr, scalar(t, db, "t", "select "+expr), want)
	}
	for _, bad := range []string{`'$.a == "x"'`, `'$[0] == 1'`, `'$[*] == "a"'`, `'$[0] != "a"'`, `'strict $[0] == "a"'`, `'$[0] == "a" && $[1] == "b"'`} {
		if _, err := db.Query("t", `select '["a"]'::jsonb @@ (`+bad+`)::jsonpath`); !IsUnsupported(err) {
			t.Errorf("jsonpath %s: expected ErrUnsupported, got %v", bad, err)
		}
	}
}

// ---------- the phase-2 corpus against the real schema ----------

// readCorpus2 splits target-sql-2.txt into labelled statements. The capture removed repeated lines, which cut the
// multi-line statements (the balance filter subquery and the LATERAL metadata join of GetAggregatedBalances): they
// are completed here from the pieces that survived, exactly as the query builders in accounts.go / balances.go
// write them.
func readCorpus2(t *testing.T) (labels, statements []string) {
	text, err := os.ReadFile("target-sql-2.txt")
	if err != nil {
		t.Fatal(err)
	}
	var blocks [][]string
	for _, line := range strings.Split(string(text), "\n") {
		switch {
		case strings.TrimSpace(line) == "":
		case strings.HasPrefix(line, "-- "):
			labels = append(labels, strings.TrimPrefix(line, "-- "))
			blocks = append(blocks, nil)
		default:
			blocks[len(blocks)-1] = append(blocks[len(blocks)-1], line)
		}
	}
	balance := []string{
		"				select balance_from_volumes(post_commit_volumes)",
		"				from moves",
		"				where asset = 'X' and account_address = accounts.address and ledger = 'l1'",
		"				order by seq desc",
		"				limit 1",
	}
	lateralHead := []string{
		`WITH "moves" AS (SELECT distinct on (moves.account_address, moves.asset) moves.* FROM "moves" join lateral (	`,
		"						select metadata",
	}
	for i, b := range blocks {
		switch {
		case len(b) == 0:
			t.Fatalf("%s: no statement", labels[i])
		case strings.HasSuffix(b[0], "AND (("):
			tail := `			) < 5) ORDER BY "accounts"."address"`
			if strings.Contains(b[0], "accounts_metadata.date") {
				tail += `, "revision" desc`
			}
			if strings.HasPrefix(b[0], "SELECT count") {
				tail += ") data"
			} else {
				tail += " LIMIT 16"
			}
			if last := b[len(b)-1]; len(b) > 1 && last != tail {
				t.Fatalf("%s: unexpected tail %q, reconstructed %q", labels[i], last, tail)
			}
			b = append(append([]string{b[0]}, balance...), tail)
		case !strings.HasPrefix(b[0], "SELECT") && !strings.HasPrefix(b[0], "WITH"):
			b = append(append([]string(nil), lateralHead...), b...)
		}
		statements = append(statements, strings.Join(b, "\n"))
	}
	return labels, statements
}

// loadLedger2 builds a ledger whose history straddles the point in time used by the corpus (2023-05-06T07:08:09Z).
func loadLedger2(t *testing.T) *DB {
	t.Helper()
	ddl, err := os.ReadFile(schemaFile)
	if err != nil {
		t.Fatal(err)
	}
	db := New()
	if err := db.LoadSchema("b1", string(ddl)); err != nil {
		t.Fatal(err)
	}
	tx := func(id int, day, src, dst string, amount int, asset, ref, meta, accountMeta string) string {
		return fmt.Sprintf(`{"transaction":{"postings":[{"source":%q,"destination":%q,"amount":%d,"asset":%q}],"metadata":%s,"timestamp":%q,"reference":%q,"id":%d,"reverted":false},"accountMetadata":%s}`,
			src, dst, amount, asset, meta, day+"T00:00:00Z", ref, id, accountMeta)
	}
	err = db.CopyIn("b1", "logs", logCols, [][]any{
		{"l1", "0", "NEW_TRANSACTION", []byte{0}, "2023-05-01T00:00:00Z", tx(0, "2023-05-01", "world", "a", 100, "X", "r", `{"k":"v"}`, `{"a":{"k":"v"}}`), ""},
		{"l1", "1", "NEW_TRANSACTION", []byte{1}, "2023-05-02T00:00:00Z", tx(1, "2023-05-02", "a", "a:b", 30, "X", "", `{}`, `{}`), ""},
		{"l1", "2", "NEW_TRANSACTION", []byte{2}, "2023-05-03T00:00:00Z", tx(2, "2023-05-03", "world", "a:b", 7, "Y", "", `{}`, `{}`), ""},
		{"l1", "3", "NEW_TRANSACTION", []byte{3}, "2023-05-04T00:00:00Z", tx(3, "2023-05-04", "a", "a:c", 10, "X", "", `{}`, `{}`), ""},
		{"l1", "4", "SET_METADATA", []byte{4}, "2023-05-05T00:00:00Z", `{"targetType":"ACCOUNT","targetId":"a:b","metadata":{"k":"v"}}`, ""},
		{"l1", "5", "NEW_TRANSACTION", []byte{5}, "2023-06-01T00:00:00Z", tx(4, "2023-06-01", "world", "a", 1000, "X", "", `{}`, `{}`), ""},
		{"l1", "6", "SET_METADATA", []byte{6}, "2023-06-02T00:00:00Z", `{"targetType":"ACCOUNT","targetId":"a","metadata":{"late":"1"}}`, ""},
		{"other", "0", "NEW_TRANSACTION", []byte{7}, "2023-05-01T00:00:00Z", tx(0, "2023-05-01", "world", "a", 555, "X", "r", `{"k":"v"}`, `{}`), ""},
	})
	if err != nil {
		t.Fatal(err)
	}
	return db
}

func TestTargetStatementsPhase2(t *testing.T) {
	db := loadLedger2(t)
	for name, fn := range db.schemas["b1"].funcs {
		if fn.BodyError != nil {
			t.Errorf("function %s does not parse: %v", name, fn.BodyError)
		}
	}
	h := OpenSQL(db, "b1")
	defer h.Close()
	labels, statements := readCorpus2(t)
	if len(statements) != 104 {
		t.Errorf("expected 104 labelled statements, found %d", len(statements))
	}
	results := map[string]string{}
	for i, sql := range statements {
		rows, err := h.Query(sql)
		if err != nil {
			t.Errorf("%s: %v\n%s", labels[i], err, sql)
			continue
		}
		cols, _ := rows.Columns()
		var out []string
		for rows.Next() {
			cells := make([]any, len(cols))
			ptrs := make([]any, len(cols))
			for k := range cells {
				ptrs[k] = &cells[k]
			}
			if err := rows.Scan(ptrs...); err != nil {
				t.Fatalf("%s: %v", labels[i], err)
			}
			var parts []string
			for k, c := range cells {
				switch cols[k] {
				case "postings", "sources", "destinations", "sources_arrays", "destinations_arrays", "seq", "ledger", "updated_at", "timestamp":
					continue // keep the expectations readable
				case "volumes", "effective_volumes", "post_commit_volumes", "post_commit_effective_volumes", "aggregated", "metadata":
					if _, ok := c.([]byte); !ok && c != nil {
						t.Errorf("%s: column %s must arrive as []byte (jsonb text), got %T", labels[i], cols[k], c)
					}
				}
				if b, ok := c.([]byte); ok {
					c = string(b)
				}
				parts = append(parts, fmt.Sprintf("%s=%v", cols[k], c))
			}
			out = append(out, strings.Join(parts, " "))
		}
		if err := rows.Err(); err != nil {
			t.Errorf("%s: %v", labels[i], err)
		}
		rows.Close()
		results[labels[i]] = strings.Join(out, "\n")
	}
	check := func(label, want string) {
		t.Helper()
		got, ok := results[label]
		if !ok {
			t.Errorf("no result for %q", label)
			return
		}
		expect(t, label, got, want)
	}

	// Volumes of the accounts after five transactions (non-PIT): a received 100 + 1000 X and sent 30 + 10 X.
	aNow := `{"X": {"input": 1100, "output": 40}}`
	abNow := `{"X": {"input": 30, "output": 0}, "Y": {"input": 7, "output": 0}}`
	check(`GetAccountsWithVolumes pit=false volumes=true filter=`,
		`address=a metadata={"k": "v", "late": "1"} volumes=`+aNow+` effective_volumes=`+aNow+"\n"+
			`address=a:b metadata={"k": "v"} volumes=`+abNow+` effective_volumes=`+abNow+"\n"+
			`address=a:c metadata={} volumes={"X": {"input": 10, "output": 0}} effective_volumes={"X": {"input": 10, "output": 0}}`+"\n"+
			`address=world metadata={} volumes={"X": {"input": 0, "output": 1100}, "Y": {"input": 0, "output": 7}} effective_volumes={"X": {"input": 0, "output": 1100}, "Y": {"input": 0, "output": 7}}`)
	// The point in time hides the 1000 X transaction of June and the "late" metadata; a:b has two revisions before it
	// and the join returns one row per revision.
	aThen := `{"X": {"input": 100, "output": 40}}`
	check(`GetAccountWithVolumes pit=true volumes=true`,
		`address=a address=a metadata={"k": "v"} volumes=`+aThen+` effective_volumes=`+aThen)
	check(`CountAccounts pit=true volumes=true filter=`, "count=5")
	check(`GetAccountsWithVolumes pit=true volumes=false filter={"$match":{"metadata[k]":"v"}}`,
		`address=a address=a metadata={"k": "v"}`+"\n"+`address=a:b address=a:b metadata={"k": "v"}`)
	check(`GetAccountsWithVolumes pit=false volumes=false filter={"$match":{"address":"a:"}}`, `address=a:b metadata={"k": "v"}`+"\n"+`address=a:c metadata={}`)
	check(`GetAccountsWithVolumes pit=false volumes=false filter={"$lt":{"balance[X]":5}}`, `address=world metadata={}`)
	check(`CountAccounts pit=true volumes=true filter={"$lt":{"balance[X]":5}}`, "count=1")

	// Aggregated balances: the latest move of every (account, asset), summed per asset.
	check(`GetAggregatedBalances pit=false filter=`, `aggregated={"X": {"input": 1140, "output": 1140}, "Y": {"input": 7, "output": 7}}`)
	check(`GetAggregatedBalances pit=true filter=`, `aggregated={"X": {"input": 140, "output": 140}, "Y": {"input": 7, "output": 7}}`)
	check(`GetAggregatedBalances pit=false filter={"$match":{"address":"a:"}}`, `aggregated={"X": {"input": 40, "output": 0}, "Y": {"input": 7, "output": 0}}`)
	check(`GetAggregatedBalances pit=true filter={"$match":{"address":"a"}}`, `aggregated={"X": {"input": 100, "output": 40}}`)
	check(`GetAggregatedBalances pit=false filter={"$match":{"metadata[k]":"v"}}`, `aggregated={"X": {"input": 1130, "output": 40}, "Y": {"input": 7, "output": 0}}`)
	check(`GetAggregatedBalances pit=true filter={"$match":{"metadata[k]":"v"}}`, `aggregated={"X": {"input": 130, "output": 40}, "Y": {"input": 7, "output": 0}}`)

	// Transactions: id 3 is a -> a:c 10 X; at that moment a had received 100 and sent 40.
	tx3 := `{"a": {"X": {"input": 100, "output": 40}}, "a:c": {"X": {"input": 10, "output": 0}}}`
	check(`GetTransactionWithVolumes pit=false volumes=true`,
		`metadata={} id=3 reference= reverted_at=<nil> metadata={} post_commit_effective_volumes=`+tx3+` post_commit_volumes=`+tx3)
	check(`GetTransactionWithVolumes pit=true volumes=true`,
		`id=3 reference= reverted_at=<nil> metadata={} metadata={} reverted_at=<nil> post_commit_effective_volumes=`+tx3+` post_commit_volumes=`+tx3)
	check(`CountTransactions pit=false volumes=false filter=`, "count=5")
	check(`CountTransactions pit=true volumes=true filter=`, "count=4")
	ids := func(label string) string {
		var out []string
		for _, line := range strings.Split(results[label], "\n") {
			for _, f := range strings.Fields(line) {
				if strings.HasPrefix(f, "id=") {
					out = append(out, strings.TrimPrefix(f, "id="))
				}
			}
		}
		return strings.Join(out, ",")
	}
	expect(t, "PIT hides the later transaction", ids(`GetTransactions pit=true volumes=false filter=`), "3,2,1,0")
	expect(t, "no PIT", ids(`GetTransactions pit=false volumes=true filter=`), "4,3,2,1,0")
	expect(t, "account segment pattern a:", ids(`GetTransactions pit=true volumes=true filter={"$match":{"account":"a:"}}`), "3,2,1")
	expect(t, "source a", ids(`GetTransactions pit=false volumes=false filter={"$match":{"source":"a"}}`), "3,1")
	expect(t, "reference r", ids(`GetTransactions pit=true volumes=false filter={"$match":{"reference":"r"}}`), "0")
	expect(t, "metadata k=v", ids(`GetTransactions pit=true volumes=true filter={"$match":{"metadata[k]":"v"}}`), "0")
	expect(t, "timestamp >= PIT", ids(`GetTransactions pit=false volumes=false filter={"$gte":{"timestamp":"2023-05-06T07:08:09Z"}}`)+"/"+
		ids(`GetTransactions pit=true volumes=false filter={"$gte":{"timestamp":"2023-05-06T07:08:09Z"}}`), "4/")
}

// TestSchemaReadFunctions calls the schema's read functions directly.
func TestSchemaReadFunctions(t *testing.T) {
	db := loadLedger2(t)
	expect(t, "get_all_assets", rowsOf(t, db, "b1", `select * from get_all_assets('l1') a`), "X\nY")
	expect(t, "get_all_assets of an unknown ledger", rowsOf(t, db, "b1", `select * from get_all_assets('none')`), "")
	expect(t, "get_all_account_volumes", rowsOf(t, db, "b1", `select asset, (volumes).inputs, (volumes).outputs from get_all_account_volumes('l1', 'a:b')`), "X | 30 | 0\nY | 7 | 0")
	expect(t, "get_all_account_effective_volumes before", rowsOf(t, db, "b1",
		`select * from get_all_account_effective_volumes('l1', 'a', _before := '2023-05-02T12:00:00Z')`), "X | volumes(100,30)")
	expect(t, "get_account_aggregated_volumes of an account without moves", scalar(t, db, "b1", `select get_account_aggregated_volumes('l1', 'nobody')`), "{}")
	expect(t, "aggregate_ledger_volumes", rowsOf(t, db, "b1", `select * from aggregate_ledger_volumes('l1') order by asset`),
		"X | volumes(1140,1140)\nY | volumes(7,7)")
	expect(t, "aggregate_ledger_volumes with filters", rowsOf(t, db, "b1",
		`select * from aggregate_ledger_volumes('l1', _before := '2023-05-06T07:08:09Z', _accounts := string_to_array('a,a:c', ','), _assets := string_to_array('X', ','))`),
		"X | volumes(110,40)")
	expect(t, "get_account_balance", scalar(t, db, "b1", `select get_account_balance('l1', 'a', 'X')`)+" "+
		scalar(t, db, "b1", `select get_account_balance('l1', 'a', 'X', _before := '2023-05-06T07:08:09Z')`), "1060 60")
	expect(t, "get_latest_move_for_account_and_asset", rowsOf(t, db, "b1",
		`select seq, amount, is_source from get_latest_move_for_account_and_asset('l1', 'a', 'X', '2023-05-03T00:00:00Z')`), "3 | 30 | true")
	expect(t, "get_transaction", rowsOf(t, db, "b1", `select id, reference from get_transaction('l1', 0)`)+"/"+
		rowsOf(t, db, "b1", `select id from get_transaction('l1', 4, '2023-05-06T07:08:09Z')`), "0 | r/")
	expect(t, "balance_from_volumes", scalar(t, db, "b1", `select balance_from_volumes((10, 4)::volumes)`), "6")
}
