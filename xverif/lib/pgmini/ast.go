package pgmini

// ---------- types ----------

// Type is a (normalised) SQL type reference.
type Type struct {
	Name  string // numeric, smallint, integer, bigint, text, timestamp, jsonb, json, boolean, bytea, void, ... or a user type
	Len   int    // varchar(n); 0 = unlimited
	Array bool
}

func (t Type) String() string {
	if t.Array {
		return t.Name + "[]"
	}
	return t.Name
}

// ---------- expressions ----------

type Expr interface{}

type (
	// Literal is a typed constant: nil, bool, int64 or *big.Int.
	Literal struct{ Val Value }
	// StringLit is a quoted constant of type "unknown": it takes the type its context requires.
	StringLit struct{ Val string }
	// Ident is a possibly qualified name: column, table.column, variable, variable.field, or a whole-row reference.
	Ident struct{ Parts []string }
	// Param is $n.
	Param struct{ N int }
	Unary struct {
		Op string // "-", "+", "not"
		X  Expr
	}
	Binary struct {
		Op   string
		L, R Expr
	}
	IsNull struct {
		X   Expr
		Not bool
	}
	Cast struct {
		X  Expr
		To Type
	}
	FieldSel struct { // (expr).field
		X     Expr
		Field string
	}
	RowCtor struct{ Fields []Expr }
	Case    struct {
		Operand Expr // nil for searched CASE
		Whens   []CaseWhen
		Else    Expr
	}
	FuncCall struct {
		Name     string
		Args     []Expr
		ArgNames []string // "" for positional arguments
		Star     bool     // count(*)
		Distinct bool
		Over     bool // OVER ()
	}
	Subquery struct{ Sel *Select } // scalar subquery
	Exists   struct{ Sel *Select }
	AnyOp    struct { // x op ANY (array)
		Op   string
		L, R Expr
	}
)

type CaseWhen struct{ Cond, Then Expr }

// ---------- SELECT ----------

type Select struct {
	With       []CTE  // WITH list (belongs to the whole UNION chain)
	Recursive  bool   // WITH RECURSIVE
	DistinctOn []Expr // DISTINCT ON (...)
	GroupBy    []Expr
	Items      []SelItem
	From       []FromItem // comma separated = cross join
	Where      Expr
	OrderBy    []OrderKey
	Limit      Expr
	Offset     Expr
	UnionAll   *Select  // next arm of a UNION ALL chain
	Into       []Target // PL/pgSQL SELECT ... INTO
}

// CTE is one WITH list entry.
type CTE struct {
	Name string
	Cols []string
	Sel  *Select
}

type SelItem struct {
	Expr      Expr
	Alias     string
	Star      bool   // * or qualifier.*
	Qualifier string // for qualifier.*
}

type OrderKey struct {
	Expr Expr
	Desc bool
}

type FromItem interface{}

type (
	TableRef struct {
		Schema, Name, Alias string
	}
	SubqueryRef struct {
		Sel     *Select
		Alias   string
		Lateral bool
	}
	FuncRef struct {
		Call       *FuncCall
		Alias      string
		ColAliases []string // functions in FROM are implicitly LATERAL
	}
	JoinRef struct {
		Left, Right FromItem
		Kind        string // "inner", "left", "cross"
		On          Expr
	}
)

// ---------- DML ----------

type Insert struct {
	Schema, Table string
	Cols          []string
	Rows          [][]Expr // VALUES lists; a nil entry in a row means DEFAULT
	Conflict      *OnConflict
	Returning     []SelItem
	Into          []Target // PL/pgSQL RETURNING ... INTO
}

type OnConflict struct {
	Cols    []string
	Nothing bool
	Set     []SetClause
	Where   Expr
}

type SetClause struct {
	Col  string
	Expr Expr
}

type Update struct {
	Schema, Table, Alias string
	Set                  []SetClause
	Where                Expr
}

// ---------- DDL ----------

type ColumnDef struct {
	Name    string
	Type    Type
	NotNull bool
	Default Expr
	Serial  bool
	Refs    *ForeignKey
}

type ForeignKey struct{ Table, Col string }

type CreateTable struct {
	Name    string
	Cols    []ColumnDef
	Uniques [][]string // primary key first (if any); PrimaryKey tells whether Uniques[0] is one
	HasPK   bool
}

type CreateIndex struct {
	Name, Table string
	Unique      bool
	Cols        []string
}

type CreateType struct {
	Name   string
	Fields []ColumnDef // composite
	Labels []string    // enum
	Enum   bool
}

type CreateAggregate struct {
	Name     string
	SFunc    string
	SType    Type
	InitCond *string
}

type FuncParam struct {
	Name    string
	Type    Type
	Default Expr
	HasDef  bool
}

type CreateFunction struct {
	Name      string
	Params    []FuncParam
	Returns   Type
	SetOf     bool
	Language  string
	Strict    bool
	Replace   bool
	Body      string
	SQLBody   []Stmt   // language sql
	PLBody    *PLBlock // language plpgsql
	BodyError error    // parse error of the body, reported when the function is called
}

type CreateTrigger struct {
	Name, Table, Func string
	Event             string // "insert" or "update"
}

type CopyFrom struct {
	Schema, Table string
	Cols          []string
}

type Stmt interface{}

// ---------- PL/pgSQL ----------

// Target is an assignment target: variable or variable.field.
type Target struct{ Var, Field string }

type PLDecl struct {
	Name    string
	Type    Type
	Default Expr
}

type PLBlock struct {
	Decls []PLDecl
	Body  []PLStmt
}

type PLStmt interface{}

type (
	PLAssign struct {
		Target Target
		Expr   Expr
	}
	PLIf struct {
		Conds  []Expr // if / elsif conditions
		Blocks [][]PLStmt
		Else   []PLStmt
	}
	PLForQuery struct {
		Targets []Target
		Query   *Select
		Body    []PLStmt
	}
	PLPerform struct{ Query *Select }
	PLSQL     struct{ Stmt Stmt } // *Select (with Into), *Insert, *Update
	PLReturn  struct{ Expr Expr }
	PLNested  struct{ Block *PLBlock }
	PLNull    struct{}
)
