package pgmini

import (
	"fmt"
	"math/big"
	"strconv"
	"strings"
)

// parser is a recursive-descent parser over the token list. Errors are raised with panic(parseFailure) and turned
// back into error values at the entry points (parseStatements, parsePLBody).
type parser struct {
	toks []token
	pos  int
	pl   bool // inside PL/pgSQL: SELECT / RETURNING accept an INTO clause
}

type parseFailure struct{ err error }

func (p *parser) fail(format string, args ...any) {
	panic(parseFailure{pgError("syntax error: "+format+" (at offset %d)", append(args, p.peek().pos)...)})
}

func (p *parser) unsupported(format string, args ...any) {
	panic(parseFailure{unsupported(format, args...)})
}

func recoverParse(err *error) {
	if r := recover(); r != nil {
		pf, ok := r.(parseFailure)
		if !ok {
			panic(r)
		}
		*err = pf.err
	}
}

// parseStatements parses a script of ';'-separated SQL statements.
func parseStatements(src string) (stmts []Stmt, err error) {
	toks, err := lex(src)
	if err != nil {
		return nil, err
	}
	defer recoverParse(&err)
	p := &parser{toks: toks}
	for {
		for p.acceptOp(";") {
		}
		if p.peek().kind == tEOF {
			return stmts, nil
		}
		stmts = append(stmts, p.parseStatement())
		if p.peek().kind != tEOF && !p.isOp(";") {
			p.fail("unexpected %q", p.peek())
		}
	}
}

// ---------- token helpers ----------

func (p *parser) peek() token { return p.toks[p.pos] }
func (p *parser) peekAt(n int) token {
	if p.pos+n < len(p.toks) {
		return p.toks[p.pos+n]
	}
	return p.toks[len(p.toks)-1]
}
func (p *parser) next() token {
	t := p.toks[p.pos]
	if t.kind != tEOF {
		p.pos++
	}
	return t
}
func (p *parser) isKw(words ...string) bool {
	t := p.peek()
	if t.kind != tIdent {
		return false
	}
	for _, w := range words {
		if t.text == w {
			return true
		}
	}
	return false
}
func (p *parser) isKwAt(n int, word string) bool {
	t := p.peekAt(n)
	return t.kind == tIdent && t.text == word
}
func (p *parser) acceptKw(word string) bool {
	if p.isKw(word) {
		p.pos++
		return true
	}
	return false
}
func (p *parser) expectKw(word string) {
	if !p.acceptKw(word) {
		p.fail("expected %q, found %q", word, p.peek())
	}
}
func (p *parser) isOp(op string) bool { t := p.peek(); return t.kind == tOp && t.text == op }
func (p *parser) acceptOp(op string) bool {
	if p.isOp(op) {
		p.pos++
		return true
	}
	return false
}
func (p *parser) expectOp(op string) {
	if !p.acceptOp(op) {
		p.fail("expected %q, found %q", op, p.peek())
	}
}

// reserved words cannot be used as bare column references or aliases.
var reserved = map[string]bool{}

func init() {
	for _, w := range strings.Fields(`all and any array as asc between both case cast check collate column constraint create cross
		default desc distinct do else end except false fetch for foreign from full grant group having in inner intersect into is
		join lateral leading left like limit loop natural not null offset on only or order outer primary references returning
		right select set some table then to trailing true union unique using values when where window with elsif`) {
		reserved[w] = true
	}
}

// ident accepts an identifier (quoted, or unquoted and not reserved).
func (p *parser) ident() string {
	t := p.peek()
	if t.kind == tQIdent || (t.kind == tIdent && !reserved[t.text]) {
		p.pos++
		return t.text
	}
	p.fail("expected identifier, found %q", t)
	return ""
}

// anyName accepts any word, reserved or not (column labels after AS, type names, option names).
func (p *parser) anyName() string {
	t := p.peek()
	if t.kind == tQIdent || t.kind == tIdent {
		p.pos++
		return t.text
	}
	p.fail("expected name, found %q", t)
	return ""
}

func (p *parser) isIdent() bool {
	t := p.peek()
	return t.kind == tQIdent || (t.kind == tIdent && !reserved[t.text])
}

func (p *parser) identList() []string {
	p.expectOp("(")
	var out []string
	for {
		out = append(out, p.ident())
		if !p.acceptOp(",") {
			break
		}
	}
	p.expectOp(")")
	return out
}

// qualifiedName parses name or schema.name.
func (p *parser) qualifiedName() (schema, name string) {
	name = p.ident()
	if p.isOp(".") && (p.peekAt(1).kind == tIdent || p.peekAt(1).kind == tQIdent) {
		p.pos++
		schema, name = name, p.anyName()
	}
	return
}

// ---------- types ----------

var typeAliases = map[string]string{
	"varchar": "text", "text": "text", "int": "integer", "int4": "integer", "integer": "integer", "int2": "smallint",
	"smallint": "smallint", "int8": "bigint", "bigint": "bigint", "bool": "boolean", "boolean": "boolean",
	"numeric": "numeric", "decimal": "numeric", "timestamptz": "timestamptz", "jsonb": "jsonb", "json": "json",
	"bytea": "bytea",
}

func (p *parser) parseType() Type {
	name := p.anyName()
	switch name {
	case "timestamp", "time":
		if p.isKw("with", "without") {
			with := p.next().text == "with"
			p.expectKw("time")
			p.expectKw("zone")
			if with {
				name += "tz"
			}
		}
	case "double":
		p.expectKw("precision")
		name = "double precision"
	case "character":
		if p.acceptKw("varying") {
			name = "varchar"
		}
	}
	if p.isOp(".") {
		p.unsupported("schema-qualified type name %s.", name)
	}
	if p.isOp("%") {
		// tbl%ROWTYPE: the row type of the table, which is what the bare table name denotes as a type
		p.next()
		if kw := strings.ToLower(p.ident()); kw != "rowtype" {
			p.unsupported("%%%s type reference", kw)
		}
	}
	t := Type{Name: name}
	if alias, ok := typeAliases[name]; ok {
		t.Name = alias
	}
	if p.acceptOp("(") {
		n, err := strconv.Atoi(p.next().text)
		if err != nil || p.isOp(",") || name != "varchar" {
			p.unsupported("type modifier on %s", name)
		}
		t.Len = n
		p.expectOp(")")
	}
	if p.acceptOp("[") {
		p.expectOp("]")
		t.Array = true
	}
	return t
}

// ---------- expressions ----------

func (p *parser) parseExpr() Expr {
	x := p.parseAnd()
	for p.acceptKw("or") {
		x = &Binary{Op: "or", L: x, R: p.parseAnd()}
	}
	return x
}

func (p *parser) parseAnd() Expr {
	x := p.parseNot()
	for p.acceptKw("and") {
		x = &Binary{Op: "and", L: x, R: p.parseNot()}
	}
	return x
}

func (p *parser) parseNot() Expr {
	if p.acceptKw("not") {
		return &Unary{Op: "not", X: p.parseNot()}
	}
	return p.parseIs()
}

func (p *parser) parseIs() Expr {
	x := p.parseComparison()
	for {
		switch {
		case p.acceptKw("is"):
			not := p.acceptKw("not")
			if !p.acceptKw("null") {
				p.unsupported("IS [NOT] %s", strings.ToUpper(p.peek().text))
			}
			x = &IsNull{X: x, Not: not}
		case p.acceptKw("isnull"):
			x = &IsNull{X: x}
		case p.acceptKw("notnull"):
			x = &IsNull{X: x, Not: true}
		default:
			return x
		}
	}
}

var comparisonOps = map[string]string{"=": "=", "<>": "<>", "!=": "<>", "<": "<", ">": ">", "<=": "<=", ">=": ">="}

func (p *parser) parseComparison() Expr {
	x := p.parsePattern()
	t := p.peek()
	if op, ok := comparisonOps[t.text]; ok && t.kind == tOp {
		p.pos++
		if p.isKw("any", "some", "all") && p.peekAt(1).text == "(" {
			if p.next().text == "all" {
				p.unsupported("ALL (...)")
			}
			p.expectOp("(")
			if p.isKw("select") {
				p.unsupported("ANY (subquery)")
			}
			r := p.parseExpr()
			p.expectOp(")")
			return &AnyOp{Op: op, L: x, R: r}
		}
		return &Binary{Op: op, L: x, R: p.parsePattern()}
	}
	return x
}

// parsePattern is the BETWEEN / IN / LIKE level; none of these are in the subset.
func (p *parser) parsePattern() Expr {
	x := p.parseOtherOp()
	kw := p.peek()
	if p.isKw("not") {
		kw = p.peekAt(1)
	}
	if kw.kind == tIdent {
		switch kw.text {
		case "in", "like", "ilike", "between", "similar":
			p.unsupported("%s predicate", strings.ToUpper(kw.text))
		}
	}
	return x
}

// parseOtherOp handles "any other operator" (||, ->, ->>, @>, - on jsonb is additive, ...), left associative.
func (p *parser) parseOtherOp() Expr {
	x := p.parseAdditive()
	for {
		t := p.peek()
		if t.kind != tOp || strings.Trim(t.text, opChars) != "" {
			return x
		}
		if _, cmp := comparisonOps[t.text]; cmp {
			return x
		}
		switch t.text {
		case "+", "-", "*", "/", "%", "^", "=>":
			return x
		}
		switch t.text {
		case "||", "->", "->>", "@>", "<@", "@@":
		default:
			p.unsupported("operator %s", t.text)
		}
		p.pos++
		x = &Binary{Op: t.text, L: x, R: p.parseAdditive()}
	}
}

func (p *parser) parseAdditive() Expr {
	x := p.parseMultiplicative()
	for p.isOp("+") || p.isOp("-") {
		op := p.next().text
		x = &Binary{Op: op, L: x, R: p.parseMultiplicative()}
	}
	return x
}

func (p *parser) parseMultiplicative() Expr {
	x := p.parseUnary()
	for p.isOp("*") || p.isOp("/") || p.isOp("%") {
		op := p.next().text
		x = &Binary{Op: op, L: x, R: p.parseUnary()}
	}
	if p.isOp("^") {
		p.unsupported("operator ^")
	}
	return x
}

func (p *parser) parseUnary() Expr {
	if p.isOp("-") || p.isOp("+") {
		op := p.next().text
		return &Unary{Op: op, X: p.parseUnary()}
	}
	return p.parsePostfix()
}

func (p *parser) parsePostfix() Expr {
	x := p.parsePrimary()
	for {
		switch {
		case p.acceptOp("::"):
			x = &Cast{X: x, To: p.parseType()}
		case p.isOp("["):
			p.unsupported("array subscript")
		case p.isOp("."):
			p.pos++
			if p.isOp("*") {
				p.unsupported("(expr).*")
			}
			x = &FieldSel{X: x, Field: p.anyName()}
		default:
			return x
		}
	}
}

func (p *parser) parsePrimary() Expr {
	t := p.peek()
	switch t.kind {
	case tNumber:
		p.pos++
		if strings.ContainsAny(t.text, ".eE") {
			p.unsupported("non-integral numeric constant %s", t.text)
		}
		n, _ := new(big.Int).SetString(t.text, 10)
		if n.IsInt64() {
			return &Literal{Val: n.Int64()}
		}
		return &Literal{Val: n}
	case tString:
		p.pos++
		return &StringLit{Val: t.text}
	case tParam:
		p.pos++
		n, _ := strconv.Atoi(t.text[1:])
		return &Param{N: n}
	case tOp:
		if t.text == "(" {
			p.pos++
			if p.isKw("select", "with") {
				sel := p.parseSelect()
				p.expectOp(")")
				return &Subquery{Sel: sel}
			}
			first := p.parseExpr()
			if p.acceptOp(")") {
				return first
			}
			fields := []Expr{first}
			for p.acceptOp(",") {
				fields = append(fields, p.parseExpr())
			}
			p.expectOp(")")
			return &RowCtor{Fields: fields}
		}
	case tIdent:
		switch t.text {
		case "null":
			p.pos++
			return &Literal{Val: nil}
		case "true", "false":
			p.pos++
			return &Literal{Val: t.text == "true"}
		case "case":
			return p.parseCase()
		case "exists":
			if p.peekAt(1).text == "(" {
				p.pos += 2
				sel := p.parseSelect()
				p.expectOp(")")
				return &Exists{Sel: sel}
			}
		case "cast":
			if p.peekAt(1).text == "(" {
				p.pos += 2
				x := p.parseExpr()
				p.expectKw("as")
				c := &Cast{X: x, To: p.parseType()}
				p.expectOp(")")
				return c
			}
		case "row":
			if p.peekAt(1).text == "(" {
				p.pos += 2
				var fields []Expr
				for !p.isOp(")") {
					fields = append(fields, p.parseExpr())
					if !p.acceptOp(",") {
						break
					}
				}
				p.expectOp(")")
				return &RowCtor{Fields: fields}
			}
		case "array":
			p.unsupported("ARRAY constructor")
		}
	}
	if !p.isIdent() {
		p.fail("unexpected %q in expression", t)
	}
	if p.peekAt(1).kind == tString {
		p.unsupported("typed constant %s '...'", t.text)
	}
	if p.peekAt(1).text == "(" && p.peekAt(1).kind == tOp {
		return p.parseFuncCall()
	}
	parts := []string{p.ident()}
	for p.isOp(".") && (p.peekAt(1).kind == tIdent || p.peekAt(1).kind == tQIdent) {
		p.pos++
		parts = append(parts, p.anyName())
	}
	if p.isOp(".") && p.peekAt(1).text == "*" {
		p.unsupported("%s.* inside an expression", strings.Join(parts, "."))
	}
	return &Ident{Parts: parts}
}

func (p *parser) parseCase() Expr {
	p.expectKw("case")
	c := &Case{}
	if !p.isKw("when") {
		c.Operand = p.parseExpr()
	}
	for p.acceptKw("when") {
		cond := p.parseExpr()
		p.expectKw("then")
		c.Whens = append(c.Whens, CaseWhen{Cond: cond, Then: p.parseExpr()})
	}
	if len(c.Whens) == 0 {
		p.fail("CASE without WHEN")
	}
	if p.acceptKw("else") {
		c.Else = p.parseExpr()
	}
	p.expectKw("end")
	return c
}

func (p *parser) parseFuncCall() *FuncCall {
	fc := &FuncCall{Name: p.ident()}
	p.expectOp("(")
	if p.acceptOp("*") {
		fc.Star = true
	} else if !p.isOp(")") {
		if p.acceptKw("distinct") {
			fc.Distinct = true
		} else {
			p.acceptKw("all")
		}
		for {
			name := ""
			if (p.peek().kind == tIdent || p.peek().kind == tQIdent) && (p.peekAt(1).text == ":=" || p.peekAt(1).text == "=>") {
				name = p.anyName()
				p.pos++
			}
			fc.Args = append(fc.Args, p.parseExpr())
			fc.ArgNames = append(fc.ArgNames, name)
			if !p.acceptOp(",") {
				break
			}
		}
		if p.isKw("order") {
			p.unsupported("ORDER BY inside an aggregate call")
		}
	}
	p.expectOp(")")
	if p.isKw("filter") && p.peekAt(1).text == "(" {
		p.unsupported("aggregate FILTER clause")
	}
	if p.isKw("within") {
		p.unsupported("WITHIN GROUP")
	}
	if p.acceptKw("over") {
		if !p.acceptOp("(") || !p.acceptOp(")") {
			p.unsupported("window specification other than OVER ()")
		}
		fc.Over = true
	}
	return fc
}

// ---------- SELECT ----------

func (p *parser) parseSelect() *Select {
	var with []CTE
	recursive := false
	if p.acceptKw("with") {
		recursive = p.acceptKw("recursive")
		for {
			cte := CTE{Name: p.ident()}
			if p.isOp("(") {
				cte.Cols = p.identList()
			}
			p.expectKw("as")
			if p.isKw("materialized") || (p.isKw("not") && p.isKwAt(1, "materialized")) {
				p.unsupported("[NOT] MATERIALIZED")
			}
			p.expectOp("(")
			if !p.isKw("select", "with") {
				p.unsupported("data-modifying statement in WITH")
			}
			cte.Sel = p.parseSelect()
			p.expectOp(")")
			with = append(with, cte)
			if !p.acceptOp(",") {
				break
			}
		}
		if p.isKw("search", "cycle") {
			p.unsupported("SEARCH / CYCLE clause")
		}
		if !p.isKw("select") {
			p.unsupported("WITH followed by %s", strings.ToUpper(p.peek().text))
		}
	}
	first := p.parseSelectCore()
	first.With, first.Recursive = with, recursive
	last := first
	for {
		if p.isKw("intersect", "except") {
			p.unsupported("%s", strings.ToUpper(p.peek().text))
		}
		if !p.acceptKw("union") {
			break
		}
		if !p.acceptKw("all") {
			p.unsupported("UNION without ALL")
		}
		if p.isOp("(") {
			p.unsupported("parenthesised UNION arm")
		}
		last.UnionAll = p.parseSelectCore()
		last = last.UnionAll
	}
	for {
		switch {
		case p.isKw("order"):
			p.pos++
			p.expectKw("by")
			for {
				key := OrderKey{Expr: p.parseExpr()}
				if p.acceptKw("desc") {
					key.Desc = true
				} else {
					p.acceptKw("asc")
				}
				if p.isKw("nulls") {
					p.unsupported("NULLS FIRST/LAST")
				}
				if p.isKw("using") {
					p.unsupported("ORDER BY ... USING")
				}
				first.OrderBy = append(first.OrderBy, key)
				if !p.acceptOp(",") {
					break
				}
			}
		case p.acceptKw("limit"):
			if p.acceptKw("all") {
				continue
			}
			first.Limit = p.parseExpr()
		case p.acceptKw("offset"):
			first.Offset = p.parseExpr()
			if p.isKw("row", "rows") {
				p.pos++
			}
		case p.isKw("fetch"):
			p.unsupported("FETCH FIRST")
		case p.isKw("for") && (p.isKwAt(1, "update") || p.isKwAt(1, "share") || p.isKwAt(1, "no") || p.isKwAt(1, "key")):
			p.unsupported("row locking clause (FOR UPDATE/SHARE)")
		case p.pl && p.isKw("into") && first.Into == nil:
			p.pos++
			first.Into = p.parseTargets()
		default:
			if first.UnionAll != nil && (first.OrderBy != nil || first.Limit != nil || first.Offset != nil) {
				p.unsupported("ORDER BY / LIMIT applied to a UNION")
			}
			return first
		}
	}
}

func (p *parser) parseSelectCore() *Select {
	p.expectKw("select")
	s := &Select{}
	if p.acceptKw("distinct") {
		if !p.acceptKw("on") {
			p.unsupported("SELECT DISTINCT")
		}
		p.expectOp("(")
		for {
			s.DistinctOn = append(s.DistinctOn, p.parseExpr())
			if !p.acceptOp(",") {
				break
			}
		}
		p.expectOp(")")
	}
	p.acceptKw("all")
	emptyList := p.isKw("from", "where", "into", "union", "order", "limit") || p.isOp(")") || p.isOp(";") || p.peek().kind == tEOF
	for !emptyList {
		s.Items = append(s.Items, p.parseSelItem())
		if !p.acceptOp(",") {
			break
		}
	}
	if p.pl && p.acceptKw("into") {
		s.Into = p.parseTargets()
	}
	if p.acceptKw("from") {
		for {
			s.From = append(s.From, p.parseFromItem())
			if !p.acceptOp(",") {
				break
			}
		}
	}
	if p.acceptKw("where") {
		s.Where = p.parseExpr()
	}
	if p.acceptKw("group") {
		p.expectKw("by")
		if p.isKw("all", "distinct", "rollup", "cube", "grouping") || p.isOp("(") && p.peekAt(1).text == ")" {
			p.unsupported("GROUP BY %s", strings.ToUpper(p.peek().text))
		}
		for {
			s.GroupBy = append(s.GroupBy, p.parseExpr())
			if !p.acceptOp(",") {
				break
			}
		}
	}
	if p.isKw("having") {
		p.unsupported("HAVING")
	}
	if p.isKw("window") {
		p.unsupported("WINDOW clause")
	}
	return s
}

func (p *parser) parseSelItem() SelItem {
	if p.acceptOp("*") {
		return SelItem{Star: true}
	}
	if (p.peek().kind == tQIdent || p.isIdent()) && p.peekAt(1).text == "." && p.peekAt(2).text == "*" && p.peekAt(2).kind == tOp {
		q := p.ident()
		p.pos += 2
		return SelItem{Star: true, Qualifier: q}
	}
	item := SelItem{Expr: p.parseExpr()}
	if p.acceptKw("as") {
		item.Alias = p.anyName()
	} else if p.isIdent() && !(p.pl && p.isKw("into")) {
		item.Alias = p.ident()
	}
	return item
}

func (p *parser) parseFromItem() FromItem {
	left := p.parseFromPrimary()
	for {
		kind := ""
		switch {
		case p.isKw("join"):
			kind = "inner"
		case p.isKw("inner") && p.isKwAt(1, "join"):
			p.pos++
			kind = "inner"
		case p.isKw("left"):
			p.pos++
			p.acceptKw("outer")
			kind = "left"
		case p.isKw("cross") && p.isKwAt(1, "join"):
			p.pos++
			kind = "cross"
		case p.isKw("right", "full", "natural"):
			p.unsupported("%s JOIN", strings.ToUpper(p.peek().text))
		default:
			return left
		}
		p.expectKw("join")
		j := &JoinRef{Left: left, Kind: kind, Right: p.parseFromPrimary()}
		if kind != "cross" {
			if p.isKw("using") {
				p.unsupported("JOIN ... USING")
			}
			p.expectKw("on")
			j.On = p.parseExpr()
		}
		left = j
	}
}

func (p *parser) parseAlias() (alias string, cols []string) {
	if p.acceptKw("as") {
		alias = p.ident()
	} else if p.isIdent() && !(p.pl && p.isKw("into", "loop")) {
		alias = p.ident()
	}
	if alias != "" && p.isOp("(") {
		cols = p.identList()
	}
	return
}

func (p *parser) parseFromPrimary() FromItem {
	lateral := p.acceptKw("lateral")
	if p.isKw("only") {
		p.unsupported("ONLY")
	}
	if p.acceptOp("(") {
		if !p.isKw("select", "with") {
			p.unsupported("parenthesised join in FROM")
		}
		sel := p.parseSelect()
		p.expectOp(")")
		alias, cols := p.parseAlias()
		if alias == "" {
			p.fail("subquery in FROM must have an alias")
		}
		if cols != nil {
			p.unsupported("column aliases on a derived table")
		}
		return &SubqueryRef{Sel: sel, Alias: alias, Lateral: lateral}
	}
	if p.peekAt(1).text == "(" && p.peekAt(1).kind == tOp {
		call := p.parseFuncCall()
		if p.isKw("with") && p.isKwAt(1, "ordinality") {
			p.unsupported("WITH ORDINALITY")
		}
		alias, cols := p.parseAlias()
		return &FuncRef{Call: call, Alias: alias, ColAliases: cols}
	}
	if lateral {
		p.fail("LATERAL must be followed by a subquery or a function call")
	}
	schema, name := p.qualifiedName()
	if p.isOp("(") {
		p.unsupported("schema-qualified function call %s.%s", schema, name)
	}
	alias, cols := p.parseAlias()
	if cols != nil {
		p.unsupported("column aliases on a table reference")
	}
	return &TableRef{Schema: schema, Name: name, Alias: alias}
}

// ---------- INSERT / UPDATE ----------

func (p *parser) parseInsert() *Insert {
	p.expectKw("insert")
	p.expectKw("into")
	ins := &Insert{}
	ins.Schema, ins.Table = p.qualifiedName()
	if p.isKw("as") {
		p.unsupported("INSERT ... AS alias")
	}
	if p.isOp("(") {
		ins.Cols = p.identList()
	}
	if !p.acceptKw("values") {
		p.unsupported("INSERT without VALUES (%s)", strings.ToUpper(p.peek().text))
	}
	for {
		p.expectOp("(")
		var row []Expr
		for {
			if p.acceptKw("default") {
				row = append(row, nil)
			} else {
				row = append(row, p.parseExpr())
			}
			if !p.acceptOp(",") {
				break
			}
		}
		p.expectOp(")")
		ins.Rows = append(ins.Rows, row)
		if !p.acceptOp(",") {
			break
		}
	}
	if p.acceptKw("on") {
		p.expectKw("conflict")
		oc := &OnConflict{}
		if p.isOp("(") {
			oc.Cols = p.identList()
			if p.isKw("where") {
				p.unsupported("ON CONFLICT index predicate")
			}
		} else if p.isKw("on") {
			p.unsupported("ON CONFLICT ON CONSTRAINT")
		}
		p.expectKw("do")
		if p.acceptKw("nothing") {
			oc.Nothing = true
		} else {
			p.expectKw("update")
			p.expectKw("set")
			oc.Set = p.parseSetClauses()
			if p.acceptKw("where") {
				oc.Where = p.parseExpr()
			}
			if oc.Cols == nil {
				p.fail("ON CONFLICT DO UPDATE requires inference specification")
			}
		}
		ins.Conflict = oc
	}
	if p.acceptKw("returning") {
		for {
			ins.Returning = append(ins.Returning, p.parseSelItem())
			if !p.acceptOp(",") {
				break
			}
		}
		if p.pl && p.acceptKw("into") {
			ins.Into = p.parseTargets()
		}
	}
	return ins
}

func (p *parser) parseSetClauses() []SetClause {
	var out []SetClause
	for {
		if p.isOp("(") {
			p.unsupported("multi-column SET (a, b) = ...")
		}
		col := p.ident()
		p.expectOp("=")
		if p.acceptKw("default") {
			p.unsupported("SET col = DEFAULT")
		}
		out = append(out, SetClause{Col: col, Expr: p.parseExpr()})
		if !p.acceptOp(",") {
			return out
		}
	}
}

func (p *parser) parseUpdate() *Update {
	p.expectKw("update")
	up := &Update{}
	up.Schema, up.Table = p.qualifiedName()
	if p.acceptKw("as") {
		up.Alias = p.ident()
	} else if p.isIdent() && !p.isKw("set") {
		up.Alias = p.ident()
	}
	p.expectKw("set")
	up.Set = p.parseSetClauses()
	if p.isKw("from") {
		p.unsupported("UPDATE ... FROM")
	}
	if p.acceptKw("where") {
		up.Where = p.parseExpr()
	}
	if p.isKw("returning") {
		p.unsupported("UPDATE ... RETURNING")
	}
	return up
}

func (p *parser) parseTargets() []Target {
	var out []Target
	for {
		t := Target{Var: p.ident()}
		if p.acceptOp(".") {
			t.Field = p.anyName()
		}
		out = append(out, t)
		if !p.acceptOp(",") {
			return out
		}
	}
}

// describe is used in error messages about statements.
func describe(s Stmt) string { return strings.TrimPrefix(fmt.Sprintf("%T", s), "*pgmini.") }
