package pgmini

import (
	"fmt"
	"math/big"
	"strings"
)

// ---------- built-in scalar functions ----------

type builtin struct {
	params  []string // "jsonb", "text" or "any"; a trailing "..." entry makes the list variadic ("any")
	strict  bool
	polymor bool // polymorphic argument: an unknown-typed constant cannot be resolved
	impl    func(s *session, args []Value) (Value, error)
}

var builtins map[string]*builtin

func init() {
	builtins = map[string]*builtin{
		"to_json": {params: []string{"any"}, strict: true, polymor: true, impl: func(s *session, a []Value) (Value, error) {
			if _, isComp := a[0].(Composite); isComp {
				return nil, unsupported("to_json of a composite value (field order of json text is not modelled)")
			}
			v, err := s.toJSON(a[0])
			return JSON{V: v, plain: true}, err
		}},
		"to_jsonb": {params: []string{"any"}, strict: true, polymor: true, impl: func(s *session, a []Value) (Value, error) {
			v, err := s.toJSON(a[0])
			return JSON{V: v}, err
		}},
		"jsonb_build_object": {params: []string{"..."}, impl: func(s *session, a []Value) (Value, error) {
			if len(a)%2 != 0 {
				return nil, pgError("argument list must have even number of elements")
			}
			obj := map[string]any{}
			for i := 0; i < len(a); i += 2 {
				if a[i] == nil {
					return nil, pgError("argument %d: key must not be null", i+1)
				}
				switch a[i].(type) {
				case Composite, Array, JSON:
					return nil, pgError("key value must be scalar, not array, composite, or json")
				}
				v, err := s.toJSON(a[i+1])
				if err != nil {
					return nil, err
				}
				obj[textOut(a[i])] = v
			}
			return JSON{V: obj}, nil
		}},
		"jsonb_array_length": {params: []string{"jsonb"}, strict: true, impl: func(s *session, a []Value) (Value, error) {
			switch v := a[0].(JSON).V.(type) {
			case []any:
				return int64(len(v)), nil
			case map[string]any:
				return nil, pgError("cannot get array length of a non-array")
			}
			return nil, pgError("cannot get array length of a scalar")
		}},
		"jsonb_pretty": {params: []string{"jsonb"}, strict: true, impl: func(s *session, a []Value) (Value, error) {
			return jsonPretty(a[0].(JSON).V), nil
		}},
		"jsonb_concat": {params: []string{"jsonb", "jsonb"}, strict: true, impl: func(s *session, a []Value) (Value, error) {
			return JSON{V: jsonConcat(a[0].(JSON).V, a[1].(JSON).V)}, nil
		}},
		"string_to_array": {params: []string{"text", "text"}, impl: func(s *session, a []Value) (Value, error) {
			if a[0] == nil {
				return nil, nil
			}
			if a[1] == nil {
				return nil, unsupported("string_to_array with a NULL delimiter")
			}
			str, delim := a[0].(string), a[1].(string)
			out := Array{Elems: []Value{}}
			switch {
			case str == "":
			case delim == "":
				out.Elems = append(out.Elems, str)
			default:
				for _, part := range strings.Split(str, delim) {
					out.Elems = append(out.Elems, part)
				}
			}
			return out, nil
		}},
	}
}

// toJSON is toJSONAny plus composite values (which need the catalog for field names).
func (s *session) toJSON(v Value) (any, error) {
	switch x := v.(type) {
	case Composite:
		fields, ok := s.compositeFields(x.Type)
		if !ok {
			return nil, unsupported("conversion of an anonymous record to json")
		}
		obj := map[string]any{}
		for i, f := range fields {
			var err error
			if obj[f.Name], err = s.toJSON(x.Fields[i]); err != nil {
				return nil, err
			}
		}
		return obj, nil
	case Array:
		out := make([]any, len(x.Elems))
		for i, e := range x.Elems {
			var err error
			if out[i], err = s.toJSON(e); err != nil {
				return nil, err
			}
		}
		return out, nil
	}
	return toJSONAny(v)
}

func (s *session) lookupFunc(name string) *CreateFunction {
	if sc := s.cur(); sc != nil {
		return sc.funcs[name]
	}
	return nil
}

func (s *session) lookupAgg(name string) *CreateAggregate {
	if sc := s.cur(); sc != nil {
		return sc.aggs[name]
	}
	return nil
}

var builtinAggs = map[string]bool{"count": true, "sum": true, "min": true, "max": true, "array_agg": true}

var builtinSRFs = map[string]bool{"unnest": true, "jsonb_array_elements": true, "jsonb_each_text": true, "jsonb_each": true}

func (s *session) isAggregate(fc *FuncCall) bool {
	return !fc.Over && (builtinAggs[fc.Name] || (builtins[fc.Name] == nil && s.lookupAgg(fc.Name) != nil))
}

func (s *session) isSRF(fc *FuncCall) bool {
	if builtinSRFs[fc.Name] {
		return true
	}
	fn := s.lookupFunc(fc.Name)
	return builtins[fc.Name] == nil && fn != nil && fn.SetOf
}

// evalCall evaluates a function call in scalar position.
func (s *session) evalCall(fc *FuncCall, sc *scope) (Value, error) {
	if fc.Over {
		if fc.Name != "row_number" || len(fc.Args) > 0 {
			return nil, unsupported("window function %s", fc.Name)
		}
		for cur := sc; cur != nil; cur = cur.outer {
			if cur.queryLevel {
				if cur.rowNumber == 0 {
					break
				}
				return cur.rowNumber, nil
			}
		}
		return nil, unsupported("window function outside the select list of an ungrouped query")
	}
	if s.isAggregate(fc) {
		for cur := sc; cur != nil; cur = cur.outer {
			if v, ok := cur.aggs[fc]; ok {
				return v, nil
			}
		}
		return nil, pgError("aggregate function %s is not allowed here", fc.Name)
	}
	if fc.Star || fc.Distinct {
		return nil, pgError("%s(*) / DISTINCT specified, but %s is not an aggregate function", fc.Name, fc.Name)
	}
	if fc.Name == "coalesce" {
		return s.evalCoalesce(fc, sc)
	}
	if s.isSRF(fc) {
		return nil, unsupported("set-returning function %s outside FROM or the top of a select list", fc.Name)
	}
	if b := builtins[fc.Name]; b != nil {
		args, err := s.builtinArgs(fc, b, sc)
		if err != nil {
			return nil, err
		}
		if b.strict {
			for _, a := range args {
				if a == nil {
					return nil, nil
				}
			}
		}
		return b.impl(s, args)
	}
	fn := s.lookupFunc(fc.Name)
	if fn == nil {
		if fc.Name == "row_number" {
			return nil, pgError("window function row_number requires an OVER clause")
		}
		return nil, unsupported("function %s", fc.Name)
	}
	args, err := s.bindArgs(fn, fc, sc)
	if err != nil {
		return nil, err
	}
	return s.callScalar(fn, args)
}

func (s *session) evalCoalesce(fc *FuncCall, sc *scope) (Value, error) {
	typed := 0
	for _, a := range fc.Args {
		if _, isLit := a.(*StringLit); !isLit {
			typed++
		}
	}
	for _, a := range fc.Args {
		v, err := s.eval(a, sc)
		if err != nil {
			return nil, err
		}
		if v == nil {
			continue
		}
		if _, isLit := a.(*StringLit); isLit && typed > 0 {
			return nil, unsupported("coalesce falling back to an untyped string constant (its type depends on the other arguments)")
		}
		return v, nil
	}
	return nil, nil
}

func (s *session) builtinArgs(fc *FuncCall, b *builtin, sc *scope) ([]Value, error) {
	variadic := len(b.params) == 1 && b.params[0] == "..."
	if !variadic && len(fc.Args) != len(b.params) {
		return nil, pgError("function %s with %d arguments does not exist", fc.Name, len(fc.Args))
	}
	args := make([]Value, len(fc.Args))
	for i, a := range fc.Args {
		if fc.ArgNames[i] != "" {
			return nil, unsupported("named arguments for built-in function %s", fc.Name)
		}
		v, err := s.eval(a, sc)
		if err != nil {
			return nil, err
		}
		_, isLit := a.(*StringLit)
		if isLit && b.polymor {
			return nil, pgError("could not determine polymorphic type because input has type unknown")
		}
		if !variadic && b.params[i] != "any" {
			mode := castImplicit
			if isLit {
				mode = castIO
			}
			if v, err = s.cast(v, Type{Name: b.params[i]}, mode); err != nil {
				return nil, fmt.Errorf("function %s: argument %d: %w", fc.Name, i+1, err)
			}
		}
		args[i] = v
	}
	return args, nil
}

// ---------- user-defined functions ----------

// bindArgs matches positional and named arguments to the parameters, fills defaults and coerces each argument.
func (s *session) bindArgs(fn *CreateFunction, fc *FuncCall, sc *scope) ([]Value, error) {
	noMatch := func() error {
		return pgError("function %s with the given %d argument(s) does not exist", fn.Name, len(fc.Args))
	}
	if len(fc.Args) > len(fn.Params) {
		return nil, noMatch()
	}
	args := make([]Value, len(fn.Params))
	given := make([]bool, len(fn.Params))
	for i, a := range fc.Args {
		pos := i
		if name := fc.ArgNames[i]; name != "" {
			pos = -1
			for j, p := range fn.Params {
				if p.Name == name {
					pos = j
				}
			}
			if pos < 0 || given[pos] {
				return nil, noMatch()
			}
		} else if i > 0 && fc.ArgNames[i-1] != "" {
			return nil, pgError("positional argument cannot follow named argument")
		}
		v, err := s.eval(a, sc)
		if err != nil {
			return nil, err
		}
		mode := castImplicit
		if _, isLit := a.(*StringLit); isLit {
			mode = castIO
		}
		if args[pos], err = s.cast(v, fn.Params[pos].Type, mode); err != nil {
			return nil, fmt.Errorf("function %s: argument %d: %w", fn.Name, pos+1, err)
		}
		given[pos] = true
	}
	for i, p := range fn.Params {
		if given[i] {
			continue
		}
		if !p.HasDef {
			return nil, noMatch()
		}
		v, err := s.eval(p.Default, &scope{})
		if err != nil {
			return nil, err
		}
		if args[i], err = s.cast(v, p.Type, castIO); err != nil {
			return nil, err
		}
	}
	return args, nil
}

func (s *session) paramScope(fn *CreateFunction, args []Value) *scope {
	sc := &scope{vars: map[string]*variable{}, plpgsql: fn.Language == "plpgsql"}
	for i, p := range fn.Params {
		v := &variable{typ: p.Type, val: args[i]}
		sc.vars["$"+itoa(i+1)] = v
		if p.Name != "" {
			sc.vars[p.Name] = v
		}
	}
	return sc
}

func (s *session) enter(fn *CreateFunction) error {
	if fn.BodyError != nil {
		return fn.BodyError
	}
	if s.depth >= 100 {
		return pgError("stack depth limit exceeded")
	}
	s.depth++
	return nil
}

// runSQLBody executes the statements of a language sql function and returns the result of the last one (nil if it
// produced no rows-result) together with that statement.
func (s *session) runSQLBody(fn *CreateFunction, args []Value) (*resultSet, *Select, error) {
	if err := s.enter(fn); err != nil {
		return nil, nil, err
	}
	defer func() { s.depth-- }()
	sc := s.paramScope(fn, args)
	var last *resultSet
	var lastSel *Select
	for _, st := range fn.SQLBody {
		res, err := s.execStmt(st, sc)
		if err != nil {
			return nil, nil, err
		}
		last = res
		lastSel, _ = st.(*Select)
	}
	return last, lastSel, nil
}

// shapeRow converts one result row of the final SELECT into the function's declared return type.
func (s *session) shapeRow(fn *CreateFunction, sel *Select, row []Value) (Value, error) {
	if _, isComposite := s.compositeFields(fn.Returns.Name); isComposite && !fn.Returns.Array {
		if len(row) == 1 {
			if _, ok := row[0].(Composite); ok || row[0] == nil {
				return s.cast(row[0], fn.Returns, castAssign)
			}
		}
		return s.cast(Composite{Fields: row}, fn.Returns, castAssign)
	}
	if len(row) != 1 {
		return nil, pgError("return type mismatch in function %s declared to return %s: final statement must return exactly one column", fn.Name, fn.Returns)
	}
	mode := castAssign
	if sel != nil && len(sel.Items) == 1 {
		if _, isLit := sel.Items[0].Expr.(*StringLit); isLit {
			mode = castIO
		}
	}
	return s.cast(row[0], fn.Returns, mode)
}

func strictNull(fn *CreateFunction, args []Value) bool {
	if fn.Strict {
		for _, a := range args {
			if a == nil {
				return true
			}
		}
	}
	return false
}

// callScalar calls a function in scalar position.
func (s *session) callScalar(fn *CreateFunction, args []Value) (Value, error) {
	if fn.Returns.Name == "trigger" {
		return nil, pgError("trigger functions can only be called as triggers")
	}
	if strictNull(fn, args) {
		return nil, nil
	}
	if fn.Language == "plpgsql" {
		if fn.SetOf {
			return nil, unsupported("set-returning PL/pgSQL function %s", fn.Name)
		}
		return s.runPLFunction(fn, s.paramScope(fn, args))
	}
	res, sel, err := s.runSQLBody(fn, args)
	if err != nil || fn.Returns.Name == "void" {
		return nil, err
	}
	if res == nil || sel == nil {
		return nil, pgError("return type mismatch in function %s declared to return %s: final statement must be SELECT", fn.Name, fn.Returns)
	}
	if len(res.rows) == 0 {
		return nil, nil
	}
	return s.shapeRow(fn, sel, res.rows[0])
}

// evalSRF evaluates a set-returning function call. scalar tells whether rows consist of one scalar column.
func (s *session) evalSRF(fc *FuncCall, sc *scope) (res *resultSet, scalar bool, err error) {
	if fc.Star || fc.Distinct || fc.Over {
		return nil, false, pgError("invalid call of set-returning function %s", fc.Name)
	}
	if !builtinSRFs[fc.Name] {
		fn := s.lookupFunc(fc.Name)
		args, err := s.bindArgs(fn, fc, sc)
		if err != nil {
			return nil, false, err
		}
		return s.callSet(fn, args)
	}
	if len(fc.Args) != 1 || fc.ArgNames[0] != "" {
		return nil, false, pgError("function %s with %d arguments does not exist", fc.Name, len(fc.Args))
	}
	arg, err := s.eval(fc.Args[0], sc)
	if err != nil {
		return nil, false, err
	}
	if _, isLit := fc.Args[0].(*StringLit); isLit && fc.Name != "unnest" {
		if arg, err = s.cast(arg, Type{Name: "jsonb"}, castIO); err != nil {
			return nil, false, err
		}
	}
	res = &resultSet{cols: []string{"value"}}
	if fc.Name == "unnest" {
		res.cols = []string{"unnest"}
	}
	if arg == nil { // all of these are strict: no rows
		if fc.Name == "jsonb_each_text" || fc.Name == "jsonb_each" {
			res.cols = []string{"key", "value"}
		}
		return res, len(res.cols) == 1, nil
	}
	switch fc.Name {
	case "unnest":
		arr, ok := arg.(Array)
		if !ok {
			return nil, false, pgError("function unnest(%s) does not exist", typeNameOf(arg))
		}
		for _, e := range arr.Elems {
			res.rows = append(res.rows, []Value{e})
		}
		return res, true, nil
	case "jsonb_array_elements":
		j, ok := arg.(JSON)
		if !ok || j.plain {
			return nil, false, pgError("function jsonb_array_elements(%s) does not exist", typeNameOf(arg))
		}
		arr, ok := j.V.([]any)
		if !ok {
			if _, isObj := j.V.(map[string]any); isObj {
				return nil, false, pgError("cannot extract elements from an object")
			}
			return nil, false, pgError("cannot extract elements from a scalar")
		}
		for _, e := range arr {
			res.rows = append(res.rows, []Value{JSON{V: e}})
		}
		return res, true, nil
	default: // jsonb_each, jsonb_each_text
		j, ok := arg.(JSON)
		if !ok || j.plain {
			return nil, false, pgError("function %s(%s) does not exist", fc.Name, typeNameOf(arg))
		}
		obj, ok := j.V.(map[string]any)
		if !ok {
			return nil, false, pgError("cannot call %s on a non-object", fc.Name)
		}
		res.cols = []string{"key", "value"}
		for _, k := range sortedKeys(obj) {
			var v Value = JSON{V: obj[k]}
			if fc.Name == "jsonb_each_text" {
				v = jsonText(obj[k])
			}
			res.rows = append(res.rows, []Value{k, v})
		}
		return res, false, nil
	}
}

// callSet calls a user function declared RETURNS SETOF.
func (s *session) callSet(fn *CreateFunction, args []Value) (*resultSet, bool, error) {
	if fn.Language != "sql" {
		return nil, false, unsupported("set-returning PL/pgSQL function %s", fn.Name)
	}
	fields, isComposite := s.compositeFields(fn.Returns.Name)
	out := &resultSet{cols: []string{fn.Name}}
	if isComposite {
		out.cols = nil
		for _, f := range fields {
			out.cols = append(out.cols, f.Name)
		}
		out.rowType = fn.Returns.Name
	}
	if strictNull(fn, args) {
		return out, !isComposite, nil
	}
	res, sel, err := s.runSQLBody(fn, args)
	if err != nil {
		return nil, false, err
	}
	if res == nil || sel == nil {
		return nil, false, pgError("return type mismatch in function %s: final statement must be SELECT", fn.Name)
	}
	for _, row := range res.rows {
		v, err := s.shapeRow(fn, sel, row)
		if err != nil {
			return nil, false, err
		}
		if !isComposite {
			out.rows = append(out.rows, []Value{v})
		} else if c, ok := v.(Composite); ok {
			out.rows = append(out.rows, c.Fields)
		} else {
			out.rows = append(out.rows, make([]Value, len(fields)))
		}
	}
	return out, !isComposite, nil
}

// ---------- aggregates ----------

// aggregate computes one aggregate call over the input values (already evaluated, in input order).
func (s *session) aggregate(fc *FuncCall, inputs []Value) (Value, error) {
	if fc.Distinct {
		return nil, unsupported("DISTINCT inside an aggregate")
	}
	switch fc.Name {
	case "count":
		n := int64(0)
		for _, v := range inputs {
			if v != nil || fc.Star {
				n++
			}
		}
		return n, nil
	case "sum":
		var total *big.Int
		for _, v := range inputs {
			if v == nil {
				continue
			}
			if !isNumber(v) {
				return nil, pgError("function sum(%s) does not exist", typeNameOf(v))
			}
			if total == nil {
				total = new(big.Int)
			}
			total.Add(total, toBig(v))
		}
		if total == nil {
			return nil, nil
		}
		return total, nil // sum(bigint) and sum(numeric) are both numeric
	case "min", "max":
		var best Value
		for _, v := range inputs {
			if v == nil {
				continue
			}
			if best == nil {
				best = v
				continue
			}
			c, err := compareValues(v, best)
			if err != nil {
				return nil, err
			}
			if (fc.Name == "min" && c < 0) || (fc.Name == "max" && c > 0) {
				best = v
			}
		}
		return best, nil
	case "array_agg":
		if len(inputs) == 0 {
			return nil, nil
		}
		return Array{Elems: append([]Value(nil), inputs...)}, nil
	}
	return s.userAggregate(s.lookupAgg(fc.Name), inputs)
}

// userAggregate folds a CREATE AGGREGATE definition: state starts at initcond (or NULL); a strict transition function
// skips NULL inputs and, with a NULL initial state, adopts the first non-null input as the state.
func (s *session) userAggregate(agg *CreateAggregate, inputs []Value) (Value, error) {
	var state Value
	var err error
	if agg.InitCond != nil {
		if state, err = s.cast(*agg.InitCond, agg.SType, castIO); err != nil {
			return nil, err
		}
	}
	var step func(state, v Value) (Value, error)
	strict := false
	if b := builtins[agg.SFunc]; b != nil && len(b.params) == 2 {
		strict = b.strict
		step = func(state, v Value) (Value, error) {
			args := []Value{state, v}
			for i := range args {
				if args[i], err = s.cast(args[i], Type{Name: b.params[i]}, castImplicit); err != nil {
					return nil, err
				}
			}
			return b.impl(s, args)
		}
	} else if fn := s.lookupFunc(agg.SFunc); fn != nil && len(fn.Params) == 2 {
		strict = fn.Strict
		step = func(state, v Value) (Value, error) { return s.callScalar(fn, []Value{state, v}) }
	} else {
		return nil, unsupported("aggregate transition function %s", agg.SFunc)
	}
	needFirst := agg.InitCond == nil
	for _, v := range inputs {
		if strict {
			if v == nil {
				continue
			}
			if needFirst {
				state, needFirst = v, false
				continue
			}
			if state == nil {
				continue // a strict transition function never leaves a NULL state
			}
		}
		if state, err = step(state, v); err != nil {
			return nil, err
		}
	}
	return state, nil
}
