package pgmini

import (
	"fmt"
	"strings"
)

// fromResult is an evaluated FROM item: its bindings and, per joined row, one row slice per binding.
type fromResult struct {
	binds []*binding
	rows  [][][]Value
}

func singleBinding(b *binding, rows [][]Value) *fromResult {
	fr := &fromResult{binds: []*binding{b}}
	for _, r := range rows {
		fr.rows = append(fr.rows, [][]Value{r})
	}
	return fr
}

func setRows(binds []*binding, joined [][]Value) {
	for i, b := range binds {
		b.row = joined[i]
	}
}

func (sc *scope) findCTE(name string) *resultSet {
	for ; sc != nil; sc = sc.outer {
		if rs, ok := sc.ctes[name]; ok {
			return rs
		}
	}
	return nil
}

// evalFrom evaluates one FROM item with `outer` as the only visible scope (LATERAL items get a scope that
// includes the items to their left, see joinItem).
func (s *session) evalFrom(item FromItem, outer *scope) (*fromResult, error) {
	switch x := item.(type) {
	case *TableRef:
		alias := x.Alias
		if alias == "" {
			alias = x.Name
		}
		if cte := outer.findCTE(x.Name); cte != nil && x.Schema == "" { // a WITH query hides a table of the same name
			return singleBinding(&binding{alias: alias, cols: cte.cols, rowType: cte.rowType}, cte.rows), nil
		}
		t, _, err := s.lookupTableSchema(x.Schema, x.Name)
		if err != nil {
			return nil, err
		}
		b := &binding{alias: alias, rowType: t.def.name}
		for _, c := range t.def.cols {
			b.cols = append(b.cols, c.Name)
		}
		return singleBinding(b, t.rows), nil
	case *SubqueryRef:
		res, err := s.execSelect(x.Sel, outer)
		if err != nil {
			return nil, err
		}
		return singleBinding(&binding{alias: x.Alias, cols: res.cols}, res.rows), nil
	case *FuncRef:
		b, err := s.funcBinding(x)
		if err != nil {
			return nil, err
		}
		if s.isSRF(x.Call) {
			res, _, err := s.evalSRF(x.Call, outer)
			if err != nil {
				return nil, err
			}
			return singleBinding(b, res.rows), nil
		}
		v, err := s.evalCall(x.Call, outer)
		if err != nil {
			return nil, err
		}
		row := []Value{v}
		if !b.scalar { // a composite result is spread over its columns; a NULL composite gives one all-NULL row
			row = make([]Value, len(b.cols))
			if c, ok := v.(Composite); ok {
				row = c.Fields
			}
		}
		return singleBinding(b, [][]Value{row}), nil
	case *JoinRef:
		left, err := s.evalFrom(x.Left, outer)
		if err != nil {
			return nil, err
		}
		return s.joinItem(left, x.Right, x.Kind, x.On, outer)
	}
	return nil, unsupported("FROM item %s", describe(item))
}

// funcBinding derives the alias, column names and row type of a function in FROM from its declaration: a scalar
// function yields one column named after the alias (or the function); OUT-parameter names of the built-in
// set-returning functions (value, key) stay; a composite return type is spread over its fields.
func (s *session) funcBinding(x *FuncRef) (*binding, error) {
	name := x.Call.Name
	b := &binding{alias: x.Alias, cols: []string{name}, scalar: true}
	keepName := false
	switch name {
	case "jsonb_array_elements":
		b.cols, keepName = []string{"value"}, true
	case "jsonb_each", "jsonb_each_text":
		b.cols, b.scalar = []string{"key", "value"}, false
	default:
		if builtins[name] == nil && !builtinSRFs[name] && name != "coalesce" {
			fn := s.lookupFunc(name)
			if fn == nil {
				return nil, unsupported("function %s in FROM", name)
			}
			if fields, ok := s.compositeFields(fn.Returns.Name); ok && !fn.Returns.Array {
				b.cols, b.scalar, b.rowType = nil, false, fn.Returns.Name
				for _, f := range fields {
					b.cols = append(b.cols, f.Name)
				}
			}
		}
	}
	if b.alias == "" {
		b.alias = name
	} else if b.scalar && !keepName {
		b.cols[0] = x.Alias
	}
	if len(x.ColAliases) > len(b.cols) {
		return nil, pgError("table %q has %d columns available but %d columns specified", b.alias, len(b.cols), len(x.ColAliases))
	}
	copy(b.cols, x.ColAliases)
	return b, nil
}

// isLateral tells whether a FROM item must be re-evaluated for every row of the items to its left: an explicit
// LATERAL subquery, or a function whose arguments mention a column or alias of those items.
func (s *session) isLateral(item FromItem, left []*binding) bool {
	switch x := item.(type) {
	case *SubqueryRef:
		return x.Lateral
	case *FuncRef:
		found := false
		for _, arg := range x.Call.Args {
			walkExpr(arg, func(n Expr) bool {
				if id, ok := n.(*Ident); ok {
					for _, b := range left {
						if b.alias == id.Parts[0] {
							found = true
						}
						for _, c := range b.cols {
							if len(id.Parts) == 1 && c == id.Parts[0] {
								found = true
							}
						}
					}
				}
				_, sub := n.(*Subquery)
				_, ex := n.(*Exists)
				found = found || sub || ex // a subquery argument may be correlated: treat it as lateral
				return true
			})
		}
		return found
	}
	return false
}

// joinItem joins an already evaluated left side with one more FROM item. kind is "cross" (comma), "inner" or
// "left".
func (s *session) joinItem(left *fromResult, item FromItem, kind string, on Expr, outer *scope) (*fromResult, error) {
	lateral := len(left.binds) > 0 && s.isLateral(item, left.binds)
	leftScope := &scope{outer: outer, binds: left.binds}
	var fixed *fromResult
	var rbinds []*binding
	var err error
	switch {
	case !lateral:
		if fixed, err = s.evalFrom(item, outer); err != nil {
			return nil, err
		}
		rbinds = fixed.binds
	case len(left.rows) == 0: // nothing to iterate over: the column layout is still needed (alias.*)
		if rbinds, err = s.describeLateral(item, left.binds, leftScope); err != nil {
			return nil, err
		}
	}
	out := &fromResult{}
	var all []*binding
	var joinScope *scope
	for _, l := range left.rows {
		right := fixed
		if lateral {
			setRows(left.binds, l)
			if right, err = s.evalFrom(item, leftScope); err != nil {
				return nil, err
			}
			if rbinds == nil {
				rbinds = right.binds
			} else if len(right.binds) != len(rbinds) || len(right.binds[0].cols) != len(rbinds[0].cols) {
				return nil, fmt.Errorf("pgmini: internal error: LATERAL item changed shape")
			}
		}
		if all == nil {
			all = append(append([]*binding(nil), left.binds...), rbinds...)
			joinScope = &scope{outer: outer, binds: all}
		}
		matched := false
		for _, r := range right.rows {
			joined := append(append([][]Value(nil), l...), r...)
			if on != nil {
				setRows(all, joined)
				ok, err := s.isTrue(on, joinScope)
				if err != nil {
					return nil, err
				}
				if !ok {
					continue
				}
			}
			matched = true
			out.rows = append(out.rows, joined)
		}
		if !matched && kind == "left" {
			joined := append([][]Value(nil), l...)
			for _, b := range rbinds {
				joined = append(joined, make([]Value, len(b.cols)))
			}
			out.rows = append(out.rows, joined)
		}
	}
	out.binds = append(append([]*binding(nil), left.binds...), rbinds...)
	for i, b := range out.binds {
		for _, other := range out.binds[:i] {
			if other.alias == b.alias {
				return nil, pgError("table name %q specified more than once", b.alias)
			}
		}
	}
	return out, nil
}

// describeLateral finds the column layout of a LATERAL item when there is no left row to evaluate it for. A
// function is described from its declaration. A subquery is evaluated once against an all-NULL left row, inside a
// savepoint, and only its column names are kept.
func (s *session) describeLateral(item FromItem, left []*binding, leftScope *scope) ([]*binding, error) {
	if fr, ok := item.(*FuncRef); ok {
		b, err := s.funcBinding(fr)
		return []*binding{b}, err
	}
	for _, b := range left {
		b.row = make([]Value, len(b.cols))
	}
	mark := -1
	if s.db.undo != nil {
		mark = len(*s.db.undo)
	}
	res, err := s.evalFrom(item, leftScope)
	if mark >= 0 {
		s.db.rollbackTo(mark)
	}
	if err != nil {
		return nil, err
	}
	return res.binds, nil
}

// ---------- WITH ----------

// bindCTEs evaluates the WITH list of sel and returns the scope in which the query (and later WITH entries) see
// the results. A non-recursive entry does not see itself: inside it the name still means the table.
func (s *session) bindCTEs(sel *Select, outer *scope) (*scope, error) {
	env := &scope{outer: outer, ctes: map[string]*resultSet{}}
	for _, cte := range sel.With {
		if _, dup := env.ctes[cte.Name]; dup {
			return nil, pgError("WITH query name %q specified more than once", cte.Name)
		}
		var res *resultSet
		var err error
		if sel.Recursive && refsTable(cte.Sel, cte.Name) {
			res, err = s.recursiveCTE(cte, env)
		} else {
			res, err = s.execSelect(cte.Sel, env)
		}
		if err != nil {
			return nil, err
		}
		if cte.Cols != nil {
			if len(cte.Cols) > len(res.cols) {
				return nil, pgError("WITH query %q has %d columns available but %d columns specified", cte.Name, len(res.cols), len(cte.Cols))
			}
			res = &resultSet{cols: append([]string(nil), res.cols...), rows: res.rows}
			copy(res.cols, cte.Cols)
		}
		env.ctes[cte.Name] = res
	}
	return env, nil
}

// recursiveCTE evaluates `non-recursive term UNION ALL recursive term` by working-table iteration: the recursive
// term sees only the rows produced by the previous step, and evaluation stops when a step produces no rows.
func (s *session) recursiveCTE(cte CTE, env *scope) (*resultSet, error) {
	base, rec := cte.Sel, cte.Sel.UnionAll
	if rec == nil || rec.UnionAll != nil || base.With != nil || refsTable(coreOnly(base), cte.Name) {
		return nil, unsupported("recursive WITH query %q that is not `non-recursive term UNION ALL recursive term`", cte.Name)
	}
	defer delete(env.ctes, cte.Name)
	working, err := s.execCore(base, env)
	if err != nil {
		return nil, err
	}
	if cte.Cols != nil && len(cte.Cols) <= len(working.cols) {
		copy(working.cols, cte.Cols) // the recursive term refers to the declared column names
	}
	result := &resultSet{cols: working.cols, rows: append([][]Value(nil), working.rows...)}
	for step := 0; len(working.rows) > 0; step++ {
		if step > 10000 || len(result.rows) > 1000000 {
			return nil, pgError("recursive query %q did not terminate (pgmini limit)", cte.Name)
		}
		env.ctes[cte.Name] = working
		next, err := s.execCore(rec, env)
		if err != nil {
			return nil, err
		}
		if len(next.cols) != len(result.cols) {
			return nil, pgError("each UNION query must have the same number of columns")
		}
		result.rows = append(result.rows, next.rows...)
		working = &resultSet{cols: result.cols, rows: next.rows}
	}
	return result, nil
}

// coreOnly returns a copy of one SELECT arm without its UNION chain.
func coreOnly(sel *Select) *Select {
	c := *sel
	c.UnionAll = nil
	return &c
}

// refsTable reports whether the unqualified table name is referenced anywhere inside node (a *Select, a FROM
// item or an expression), including subqueries.
func refsTable(node any, name string) bool {
	found := false
	var visitExpr func(e Expr)
	var visitSel func(sel *Select)
	var visitFrom func(item FromItem)
	visitExpr = func(e Expr) {
		walkExpr(e, func(n Expr) bool {
			switch x := n.(type) {
			case *Subquery:
				visitSel(x.Sel)
			case *Exists:
				visitSel(x.Sel)
			}
			return true
		})
	}
	visitFrom = func(item FromItem) {
		switch x := item.(type) {
		case *TableRef:
			found = found || (x.Schema == "" && x.Name == name)
		case *SubqueryRef:
			visitSel(x.Sel)
		case *FuncRef:
			visitExpr(x.Call)
		case *JoinRef:
			visitFrom(x.Left)
			visitFrom(x.Right)
			visitExpr(x.On)
		}
	}
	visitSel = func(sel *Select) {
		for ; sel != nil; sel = sel.UnionAll {
			for _, cte := range sel.With {
				visitSel(cte.Sel)
			}
			for _, it := range sel.Items {
				visitExpr(it.Expr)
			}
			for _, f := range sel.From {
				visitFrom(f)
			}
			for _, e := range append(append([]Expr{sel.Where, sel.Limit, sel.Offset}, sel.GroupBy...), sel.DistinctOn...) {
				visitExpr(e)
			}
			for _, k := range sel.OrderBy {
				visitExpr(k.Expr)
			}
		}
	}
	switch x := node.(type) {
	case *Select:
		visitSel(x)
	default:
		visitExpr(x)
	}
	return found
}

// ---------- canonical form of expressions ----------

// canon renders an expression in a canonical form in which column references are resolved against the bindings
// of query level q, so that `asset`, `moves.asset` and an output column produced from either compare equal. It is
// used to match GROUP BY / DISTINCT ON / ORDER BY expressions.
func (s *session) canon(e Expr, q *scope) string {
	list := func(es []Expr) string {
		parts := make([]string, len(es))
		for i, x := range es {
			parts[i] = s.canon(x, q)
		}
		return strings.Join(parts, ", ")
	}
	switch x := e.(type) {
	case nil:
		return ""
	case *Literal:
		return fmt.Sprintf("%T:%v", x.Val, x.Val)
	case *StringLit:
		return fmt.Sprintf("%q", x.Val)
	case *Param:
		return fmt.Sprintf("$%d", x.N)
	case *Ident:
		if b, i := resolveColumn(x, q); b != nil {
			return fmt.Sprintf("@%p.%d", b, i)
		}
		return strings.Join(x.Parts, ".")
	case *Unary:
		return "(" + x.Op + " " + s.canon(x.X, q) + ")"
	case *Binary:
		return "(" + s.canon(x.L, q) + " " + x.Op + " " + s.canon(x.R, q) + ")"
	case *IsNull:
		return fmt.Sprintf("(%s isnull %v)", s.canon(x.X, q), x.Not)
	case *Cast:
		return "(" + s.canon(x.X, q) + ")::" + x.To.String()
	case *FieldSel:
		return "(" + s.canon(x.X, q) + ")." + x.Field
	case *RowCtor:
		return "row(" + list(x.Fields) + ")"
	case *FuncCall:
		return fmt.Sprintf("%s(%s|%v|%v|%v|%s)", x.Name, list(x.Args), x.Star, x.Distinct, x.Over, strings.Join(x.ArgNames, ","))
	case *AnyOp:
		return "(" + s.canon(x.L, q) + " " + x.Op + " any " + s.canon(x.R, q) + ")"
	case *Case:
		out := "case " + s.canon(x.Operand, q)
		for _, w := range x.Whens {
			out += " when " + s.canon(w.Cond, q) + " then " + s.canon(w.Then, q)
		}
		return out + " else " + s.canon(x.Else, q) + " end"
	}
	return fmt.Sprintf("%T@%p", e, e) // subqueries: only identical nodes match
}

// resolveColumn finds the binding and column index an identifier denotes at query level q (nil if it is not a
// plain column of this level).
func resolveColumn(id *Ident, q *scope) (*binding, int) {
	var hit *binding
	at := -1
	for _, b := range q.binds {
		switch {
		case len(id.Parts) == 1 && !b.qualifiedOnly:
			for i, c := range b.cols {
				if c == id.Parts[0] {
					if hit != nil {
						return nil, -1 // ambiguous: evaluation will report it
					}
					hit, at = b, i
				}
			}
		case len(id.Parts) == 2 && b.alias == id.Parts[0]:
			for i, c := range b.cols {
				if c == id.Parts[1] {
					return b, i
				}
			}
		}
	}
	return hit, at
}
