package pgmini

import (
	"encoding/hex"
	"encoding/json"
	"math/big"
	"strings"
	"time"
	"unicode/utf8"
)

// castMode says in which context a conversion happens; each mode allows everything the previous ones allow.
type castMode int

const (
	castImplicit castMode = iota // function arguments, operators
	castAssign                   // INSERT / UPDATE column values
	castIO                       // unknown-typed string constants, COPY text input, PL/pgSQL variable assignment
	castExplicit                 // x::type
)

func cannotCast(v Value, to Type, mode castMode) error {
	if mode == castExplicit {
		return pgError("cannot cast type %s to %s", typeNameOf(v), to)
	}
	return pgError("value of type %s cannot be used where %s is expected (no implicit or assignment cast)", typeNameOf(v), to)
}

// cast converts v to type `to`. NULL casts to NULL of any type.
func (s *session) cast(v Value, to Type, mode castMode) (Value, error) {
	if v == nil {
		return nil, nil
	}
	if to.Array {
		arr, ok := v.(Array)
		if !ok {
			if _, isStr := v.(string); isStr && mode >= castIO {
				return nil, unsupported("array input syntax (%s)", to)
			}
			return nil, cannotCast(v, to, mode)
		}
		out := Array{Elems: make([]Value, len(arr.Elems))}
		elem := to
		elem.Array = false
		for i, e := range arr.Elems {
			var err error
			if out.Elems[i], err = s.cast(e, elem, mode); err != nil {
				return nil, err
			}
		}
		return out, nil
	}
	str, isStr := v.(string)
	fromText := isStr && mode >= castIO
	switch to.Name {
	case "anyelement", "anyarray", "anynonarray", "anycompatible", "record", "void", "any":
		return v, nil
	case "text":
		if !isStr {
			if mode < castAssign {
				return nil, cannotCast(v, to, mode)
			}
			if b, ok := v.(bool); ok { // bool::text spells the word out
				str = map[bool]string{true: "true", false: "false"}[b]
			} else {
				str = textOut(v)
			}
		}
		if to.Len > 0 && utf8.RuneCountInString(str) > to.Len {
			cut := string([]rune(str)[:to.Len])
			if mode != castExplicit && strings.TrimRight(str[len(cut):], " ") != "" {
				return nil, pgError("value too long for type character varying(%d)", to.Len)
			}
			str = cut
		}
		return str, nil
	case "numeric":
		switch x := v.(type) {
		case int64:
			return big.NewInt(x), nil
		case *big.Int:
			return x, nil
		case JSON:
			if n, ok := x.V.(json.Number); ok && mode == castExplicit && !x.plain {
				return parseNumeric(string(n))
			}
		}
		if fromText {
			return parseNumeric(str)
		}
	case "smallint", "integer", "bigint":
		switch x := v.(type) {
		case int64:
			return intInRange(big.NewInt(x), to.Name)
		case *big.Int:
			if mode >= castAssign {
				return intInRange(x, to.Name)
			}
		}
		if fromText {
			return parseInteger(str, to.Name)
		}
	case "timestamp":
		if t, ok := v.(time.Time); ok {
			return t, nil
		}
		if fromText {
			return parseTimestamp(str)
		}
	case "boolean":
		switch x := v.(type) {
		case bool:
			return x, nil
		case JSON:
			if b, ok := x.V.(bool); ok && mode == castExplicit && !x.plain {
				return b, nil
			}
		}
		if fromText {
			switch strings.ToLower(strings.TrimSpace(str)) {
			case "t", "true", "y", "yes", "on", "1":
				return true, nil
			case "f", "false", "n", "no", "off", "0":
				return false, nil
			}
			return nil, pgError("invalid input syntax for type boolean: %q", str)
		}
	case "jsonb":
		if j, ok := v.(JSON); ok && (!j.plain || mode >= castAssign) {
			return JSON{V: j.V}, nil
		}
		if fromText {
			return ParseJSON(str)
		}
	case "json":
		if j, ok := v.(JSON); ok && j.plain {
			return j, nil
		}
		return nil, unsupported("conversion of %s to json (json text is not preserved)", typeNameOf(v))
	case "jsonpath":
		if jp, ok := v.(jsonPathEq); ok {
			return jp, nil
		}
		if fromText {
			return parseJSONPath(str)
		}
	case "bytea":
		if b, ok := v.([]byte); ok {
			return b, nil
		}
		if fromText {
			if strings.HasPrefix(str, `\x`) {
				b, err := hex.DecodeString(str[2:])
				if err != nil {
					return nil, pgError("invalid hexadecimal data for type bytea")
				}
				return b, nil
			}
			if strings.Contains(str, `\`) {
				return nil, unsupported("bytea escape input format")
			}
			return []byte(str), nil
		}
	default:
		return s.castUserType(v, to, mode)
	}
	return nil, cannotCast(v, to, mode)
}

// castUserType handles enums and composite (or table row) types.
func (s *session) castUserType(v Value, to Type, mode castMode) (Value, error) {
	if labels, ok := s.enumLabels(to.Name); ok {
		// Enum values are held as strings; a text value that is not a constant would need an explicit cast in
		// PostgreSQL, which cannot be told apart here (documented leniency).
		str, isStr := v.(string)
		if !isStr {
			return nil, cannotCast(v, to, mode)
		}
		for _, l := range labels {
			if l == str {
				return str, nil
			}
		}
		return nil, pgError("invalid input value for enum %s: %q", to.Name, str)
	}
	fields, ok := s.compositeFields(to.Name)
	if !ok {
		return nil, unsupported("type %s", to.Name)
	}
	c, isComp := v.(Composite)
	if !isComp {
		if _, isStr := v.(string); isStr && mode >= castIO {
			return nil, unsupported("composite input syntax (%s)", to.Name)
		}
		return nil, cannotCast(v, to, mode)
	}
	if c.Type == to.Name {
		return c, nil
	}
	if c.Type != "" {
		return nil, cannotCast(v, to, mode)
	}
	if len(c.Fields) != len(fields) {
		return nil, pgError("cannot cast type record to %s: input has %d columns, type has %d", to.Name, len(c.Fields), len(fields))
	}
	out := Composite{Type: to.Name, Fields: make([]Value, len(fields))}
	for i, f := range fields {
		fm := mode
		if fm < castAssign {
			fm = castAssign
		}
		var err error
		if out.Fields[i], err = s.cast(c.Fields[i], f.Type, fm); err != nil {
			return nil, err
		}
	}
	return out, nil
}

// jsonPathEq is the one jsonpath form the interpreter understands: $[index] == "str" (lax mode).
type jsonPathEq struct {
	index int
	str   string
}

// parseJSONPath accepts exactly `$[<int>] == "<string>"`; every other jsonpath is outside the subset.
func parseJSONPath(text string) (Value, error) {
	fail := func() (Value, error) { return nil, unsupported("jsonpath other than $[N] == \"string\": %s", text) }
	t := strings.TrimSpace(text)
	if !strings.HasPrefix(t, "$[") {
		return fail()
	}
	t = t[2:]
	end := strings.IndexByte(t, ']')
	if end <= 0 {
		return fail()
	}
	index := 0
	for _, c := range t[:end] {
		if c < '0' || c > '9' || index > 1<<20 {
			return fail()
		}
		index = index*10 + int(c-'0')
	}
	t = strings.TrimSpace(t[end+1:])
	if !strings.HasPrefix(t, "==") {
		return fail()
	}
	t = strings.TrimSpace(t[2:])
	var str string
	if len(t) < 2 || t[0] != '"' || json.Unmarshal([]byte(t), &str) != nil {
		return fail()
	}
	return jsonPathEq{index: index, str: str}, nil
}

// jsonPathMatch implements jsonb @@ jsonpath for jsonPathEq in lax mode: a missing element makes the predicate
// false, JSON null never equals a string, a number or boolean compared with a string is "unknown" (SQL NULL).
func jsonPathMatch(doc any, jp jsonPathEq) (Value, error) {
	arr, isArr := doc.([]any)
	if !isArr {
		arr = []any{doc} // lax mode wraps a non-array before applying an array accessor
	}
	if jp.index >= len(arr) {
		return false, nil
	}
	switch elem := arr[jp.index].(type) {
	case string:
		return elem == jp.str, nil
	case nil:
		return false, nil
	case bool, json.Number:
		return nil, nil
	}
	return nil, unsupported("jsonpath comparison against a nested array or object")
}
