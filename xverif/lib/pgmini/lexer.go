package pgmini

import (
	"strings"
)

type tokKind int

const (
	tEOF    tokKind = iota
	tIdent          // unquoted identifier or keyword (lower-cased)
	tQIdent         // "quoted identifier" (case preserved, never a keyword)
	tNumber         // 12, 1.5
	tString         // 'text' or $tag$text$tag$ (text holds the decoded value)
	tParam          // $1
	tOp             // operator or punctuation
)

type token struct {
	kind tokKind
	text string
	pos  int
}

func (t token) String() string {
	if t.kind == tEOF {
		return "end of input"
	}
	return t.text
}

const opChars = "+-*/<>=~!@#%^&|`?"

// lex splits SQL text into tokens. Comments (-- and nested /* */) are skipped.
func lex(src string) ([]token, error) {
	var toks []token
	i := 0
	isIdentStart := func(c byte) bool {
		return c == '_' || (c >= 'a' && c <= 'z') || (c >= 'A' && c <= 'Z') || c >= 0x80
	}
	isDigit := func(c byte) bool { return c >= '0' && c <= '9' }
	for i < len(src) {
		c := src[i]
		start := i
		switch {
		case c == ' ' || c == '\t' || c == '\n' || c == '\r' || c == '\f':
			i++
		case c == '-' && strings.HasPrefix(src[i:], "--"):
			for i < len(src) && src[i] != '\n' {
				i++
			}
		case c == '/' && strings.HasPrefix(src[i:], "/*"):
			depth := 0
			for i < len(src) {
				if strings.HasPrefix(src[i:], "/*") {
					depth++
					i += 2
				} else if strings.HasPrefix(src[i:], "*/") {
					depth--
					i += 2
					if depth == 0 {
						break
					}
				} else {
					i++
				}
			}
			if depth != 0 {
				return nil, pgError("unterminated /* comment at offset %d", start)
			}
		case isIdentStart(c):
			for i < len(src) && (isIdentStart(src[i]) || isDigit(src[i]) || src[i] == '$') {
				i++
			}
			word := src[start:i]
			if (word == "e" || word == "E" || word == "b" || word == "B" || word == "x" || word == "X" || word == "n" || word == "N") &&
				i < len(src) && src[i] == '\'' {
				return nil, unsupported("%s'...' string constant", word)
			}
			toks = append(toks, token{tIdent, strings.ToLower(word), start})
		case c == '"':
			var sb strings.Builder
			i++
			for {
				if i >= len(src) {
					return nil, pgError("unterminated quoted identifier at offset %d", start)
				}
				if src[i] == '"' {
					if i+1 < len(src) && src[i+1] == '"' {
						sb.WriteByte('"')
						i += 2
						continue
					}
					i++
					break
				}
				sb.WriteByte(src[i])
				i++
			}
			toks = append(toks, token{tQIdent, sb.String(), start})
		case c == '\'':
			var sb strings.Builder
			i++
			for {
				if i >= len(src) {
					return nil, pgError("unterminated quoted string at offset %d", start)
				}
				if src[i] == '\'' {
					if i+1 < len(src) && src[i+1] == '\'' {
						sb.WriteByte('\'')
						i += 2
						continue
					}
					i++
					break
				}
				sb.WriteByte(src[i])
				i++
			}
			toks = append(toks, token{tString, sb.String(), start})
		case c == '$' && i+1 < len(src) && isDigit(src[i+1]):
			i++
			for i < len(src) && isDigit(src[i]) {
				i++
			}
			toks = append(toks, token{tParam, src[start:i], start})
		case c == '$':
			end := strings.IndexByte(src[i+1:], '$')
			if end < 0 {
				return nil, pgError("syntax error at or near \"$\" (offset %d)", start)
			}
			tag := src[i : i+end+2]
			for _, tc := range tag[1 : len(tag)-1] {
				if !(tc == '_' || (tc >= 'a' && tc <= 'z') || (tc >= 'A' && tc <= 'Z') || (tc >= '0' && tc <= '9')) {
					return nil, pgError("syntax error at or near \"$\" (offset %d)", start)
				}
			}
			body := src[i+len(tag):]
			closeAt := strings.Index(body, tag)
			if closeAt < 0 {
				return nil, pgError("unterminated dollar-quoted string at offset %d", start)
			}
			toks = append(toks, token{tString, body[:closeAt], start})
			i += len(tag) + closeAt + len(tag)
		case isDigit(c) || (c == '.' && i+1 < len(src) && isDigit(src[i+1])):
			for i < len(src) && isDigit(src[i]) {
				i++
			}
			if i < len(src) && src[i] == '.' && !(i+1 < len(src) && src[i+1] == '.') {
				i++
				for i < len(src) && isDigit(src[i]) {
					i++
				}
			}
			if i < len(src) && (src[i] == 'e' || src[i] == 'E') {
				j := i + 1
				if j < len(src) && (src[j] == '+' || src[j] == '-') {
					j++
				}
				if j < len(src) && isDigit(src[j]) {
					for j < len(src) && isDigit(src[j]) {
						j++
					}
					i = j
				}
			}
			toks = append(toks, token{tNumber, src[start:i], start})
		case strings.HasPrefix(src[i:], "::") || strings.HasPrefix(src[i:], ":=") || strings.HasPrefix(src[i:], ".."):
			i += 2
			toks = append(toks, token{tOp, src[start:i], start})
		case strings.IndexByte("(),;.[]:", c) >= 0:
			i++
			toks = append(toks, token{tOp, src[start:i], start})
		case strings.IndexByte(opChars, c) >= 0:
			for i < len(src) && strings.IndexByte(opChars, src[i]) >= 0 {
				if strings.HasPrefix(src[i:], "--") || strings.HasPrefix(src[i:], "/*") {
					break
				}
				i++
			}
			// A multi-character operator cannot end in + or - unless it contains one of ~!@#%^&|`?
			for i-start > 1 && (src[i-1] == '+' || src[i-1] == '-') && !strings.ContainsAny(src[start:i], "~!@#%^&|`?") {
				i--
			}
			toks = append(toks, token{tOp, src[start:i], start})
		default:
			return nil, pgError("syntax error at or near %q (offset %d)", string(c), start)
		}
	}
	toks = append(toks, token{tEOF, "", len(src)})
	return toks, nil
}
