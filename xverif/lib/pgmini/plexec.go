package pgmini

import "fmt"

// plReturn carries a RETURN out of nested statement lists.
type plReturn struct {
	done bool
	val  Value
}

// runPLFunction executes a PL/pgSQL body. frame holds the parameters (or NEW for a trigger).
func (s *session) runPLFunction(fn *CreateFunction, frame *scope) (Value, error) {
	if err := s.enter(fn); err != nil {
		return nil, err
	}
	defer func() { s.depth-- }()
	frame.plpgsql = true
	frame.vars["found"] = &variable{typ: Type{Name: "boolean"}, val: false}
	ret, err := s.execPLBlock(fn.PLBody, frame)
	if err != nil {
		return nil, fmt.Errorf("%w\nCONTEXT: PL/pgSQL function %s", err, fn.Name)
	}
	switch {
	case fn.Returns.Name == "void":
		if ret.val != nil {
			return nil, pgError("RETURN cannot have a parameter in function returning void")
		}
		return nil, nil
	case !ret.done:
		return nil, pgError("control reached end of function %s without RETURN", fn.Name)
	case fn.Returns.Name == "trigger":
		return ret.val, nil
	}
	return s.cast(ret.val, fn.Returns, castIO)
}

func (s *session) execPLBlock(b *PLBlock, outer *scope) (plReturn, error) {
	sc := &scope{outer: outer, vars: map[string]*variable{}, plpgsql: true}
	for _, d := range b.Decls {
		v := &variable{typ: d.Type}
		if !d.Type.Array {
			switch d.Type.Name { // fail early on types the interpreter cannot hold
			case "text", "numeric", "smallint", "integer", "bigint", "boolean", "timestamp", "jsonb", "bytea":
			default:
				_, isEnum := s.enumLabels(d.Type.Name)
				if _, isComp := s.compositeFields(d.Type.Name); !isEnum && !isComp {
					return plReturn{}, unsupported("variable of type %s", d.Type)
				}
			}
		}
		if d.Default != nil {
			val, err := s.eval(d.Default, sc)
			if err != nil {
				return plReturn{}, err
			}
			if v.val, err = s.cast(val, d.Type, castIO); err != nil {
				return plReturn{}, err
			}
		}
		if _, dup := sc.vars[d.Name]; dup {
			return plReturn{}, pgError("duplicate declaration of %q", d.Name)
		}
		sc.vars[d.Name] = v
	}
	return s.execPLStmts(b.Body, sc)
}

func (s *session) execPLStmts(stmts []PLStmt, sc *scope) (plReturn, error) {
	for _, st := range stmts {
		ret, err := s.execPLStmt(st, sc)
		if err != nil || ret.done {
			return ret, err
		}
	}
	return plReturn{}, nil
}

func (s *session) setFound(sc *scope, found bool) { sc.findVar("found").val = found }

func (s *session) execPLStmt(st PLStmt, sc *scope) (plReturn, error) {
	switch x := st.(type) {
	case *PLNull:
	case *PLAssign:
		v, err := s.eval(x.Expr, sc)
		if err != nil {
			return plReturn{}, err
		}
		return plReturn{}, s.assign(x.Target, v, sc)
	case *PLIf:
		for i, cond := range x.Conds {
			ok, err := s.isTrue(cond, sc) // a NULL condition is not taken
			if err != nil {
				return plReturn{}, err
			}
			if ok {
				return s.execPLStmts(x.Blocks[i], sc)
			}
		}
		return s.execPLStmts(x.Else, sc)
	case *PLForQuery:
		res, err := s.execSelect(x.Query, sc)
		if err != nil {
			return plReturn{}, err
		}
		for _, row := range res.rows {
			if err := s.assignRow(x.Targets, row, sc); err != nil {
				return plReturn{}, err
			}
			if ret, err := s.execPLStmts(x.Body, sc); err != nil || ret.done {
				return ret, err
			}
		}
		s.setFound(sc, len(res.rows) > 0)
	case *PLPerform:
		res, err := s.execSelect(x.Query, sc)
		if err != nil {
			return plReturn{}, err
		}
		s.setFound(sc, len(res.rows) > 0)
	case *PLSQL:
		res, err := s.execStmt(x.Stmt, sc)
		if err != nil {
			return plReturn{}, err
		}
		var into []Target
		found := res.tag > 0
		switch q := x.Stmt.(type) {
		case *Select:
			into, found = q.Into, len(res.rows) > 0
		case *Insert:
			into = q.Into
		}
		s.setFound(sc, found)
		if into != nil {
			var first []Value // no row: every target becomes NULL
			if len(res.rows) > 0 {
				first = res.rows[0]
			}
			return plReturn{}, s.assignRow(into, first, sc)
		}
	case *PLReturn:
		if x.Expr == nil {
			return plReturn{done: true}, nil
		}
		v, err := s.eval(x.Expr, sc)
		return plReturn{done: true, val: v}, err
	case *PLNested:
		return s.execPLBlock(x.Block, sc)
	default:
		return plReturn{}, unsupported("PL/pgSQL statement %s", describe(st))
	}
	return plReturn{}, nil
}

// assign stores v into a variable or into one field of a composite variable (PL/pgSQL coerces through text I/O
// when no assignment cast exists).
func (s *session) assign(t Target, v Value, sc *scope) error {
	vr := sc.findVar(t.Var)
	if vr == nil {
		return pgError("%q is not a known variable", t.Var)
	}
	var err error
	if t.Field == "" {
		vr.val, err = s.cast(v, vr.typ, castIO)
		return err
	}
	fields, ok := s.compositeFields(vr.typ.Name)
	if !ok {
		return pgError("variable %q is not of a composite type", t.Var)
	}
	updated := Composite{Type: vr.typ.Name, Fields: make([]Value, len(fields))} // a NULL variable is instantiated
	if cur, isComp := vr.val.(Composite); isComp {
		copy(updated.Fields, cur.Fields)
	}
	for i, f := range fields {
		if f.Name == t.Field {
			if updated.Fields[i], err = s.cast(v, f.Type, castIO); err != nil {
				return err
			}
			vr.val = updated
			return nil
		}
	}
	return pgError("record %q has no field %q", t.Var, t.Field)
}

// assignRow implements INTO / FOR targets. row == nil means "no row": all targets become NULL. A single target of
// composite type receives the columns field by field.
func (s *session) assignRow(targets []Target, row []Value, sc *scope) error {
	if len(targets) == 1 && targets[0].Field == "" {
		if vr := sc.findVar(targets[0].Var); vr != nil && !vr.typ.Array {
			if fields, isComp := s.compositeFields(vr.typ.Name); isComp {
				if row == nil {
					vr.val = nil
					return nil
				}
				if len(row) != len(fields) {
					return unsupported("INTO a composite variable with %d fields from %d columns", len(fields), len(row))
				}
				return s.assign(targets[0], Composite{Fields: row}, sc)
			}
		}
	}
	if row != nil && len(row) != len(targets) {
		return unsupported("INTO %d targets from %d columns", len(targets), len(row))
	}
	for i, t := range targets {
		var v Value
		if row != nil {
			v = row[i]
		}
		if err := s.assign(t, v, sc); err != nil {
			return err
		}
	}
	return nil
}
