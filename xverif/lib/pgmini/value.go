// Package pgmini interprets the subset of PostgreSQL SQL and PL/pgSQL used by the ledger's bucket schema.
//
// Layout: lexer.go (tokens), ast.go + parser*.go (recursive descent parser), value.go / json.go (values, text I/O),
// types.go (types and casts), db.go (catalog and storage), eval.go (expressions), funcs.go (built-in and user
// functions, aggregates), from.go (FROM items, LATERAL, WITH, expression canonicalisation), select.go (one SELECT arm:
// grouping, DISTINCT ON, ordering), exec.go (statement dispatch), dml.go (INSERT / UPDATE / COPY / triggers),
// plexec.go (PL/pgSQL statements), driver.go (database/sql driver).
//
// Anything outside the subset yields an ErrUnsupported naming the construct; nothing is guessed.
package pgmini

import (
	"encoding/hex"
	"fmt"
	"math"
	"math/big"
	"strings"
	"time"
)

// Value is one SQL value: nil (NULL), bool, *big.Int, *big.Rat (never produced today), string, time.Time, []byte, JSON,
// Composite or Array. Inside the interpreter integer-typed values (smallint/integer/bigint) are int64 and numeric
// values are *big.Int; the public API (Rows.Data, TableRows) shows both as *big.Int.
type Value = any

// Composite is a row value. Type is the composite / table type name, "" for an anonymous ROW(...).
type Composite struct {
	Type   string
	Fields []Value
}

// Array is a one-dimensional array.
type Array struct{ Elems []Value }

// ErrUnsupported is returned (possibly wrapped) for every construct outside the interpreted subset.
type ErrUnsupported struct{ What string }

func (e ErrUnsupported) Error() string { return "pgmini: unsupported: " + e.What }

func unsupported(format string, args ...any) error {
	return ErrUnsupported{What: fmt.Sprintf(format, args...)}
}

// pgError is an error PostgreSQL itself would raise (constraint violation, bad input syntax, ...).
func pgError(format string, args ...any) error { return fmt.Errorf("ERROR: "+format, args...) }

// ---------- numerics ----------

var (
	minInt64Big = big.NewInt(math.MinInt64)
	maxInt64Big = big.NewInt(math.MaxInt64)
)

func isNumber(v Value) bool {
	switch v.(type) {
	case int64, *big.Int:
		return true
	}
	return false
}

func toBig(v Value) *big.Int {
	switch x := v.(type) {
	case int64:
		return big.NewInt(x)
	case *big.Int:
		return x
	}
	return nil
}

// parseNumeric implements numeric_in for integral values. Fractions, exponents and NaN are valid PostgreSQL input
// but are outside the subset (a *big.Int cannot carry a display scale).
func parseNumeric(s string) (*big.Int, error) {
	t := strings.TrimSpace(s)
	digits := strings.TrimLeft(t, "+-")
	if len(t)-len(digits) > 1 || digits == "" {
		return nil, pgError("invalid input syntax for type numeric: %q", s)
	}
	for _, c := range digits {
		if c < '0' || c > '9' {
			low := strings.ToLower(digits)
			_, isRat := new(big.Rat).SetString(t)
			if (isRat && !strings.Contains(t, "/")) || low == "nan" || low == "infinity" || low == "inf" {
				return nil, unsupported("non-integral numeric value %q", s)
			}
			return nil, pgError("invalid input syntax for type numeric: %q", s)
		}
	}
	n, _ := new(big.Int).SetString(t, 10)
	return n, nil
}

func parseInteger(s, typ string) (int64, error) {
	t := strings.TrimSpace(s)
	n, ok := new(big.Int).SetString(t, 10)
	if !ok || t == "" || strings.HasPrefix(t, "+-") {
		return 0, pgError("invalid input syntax for type %s: %q", typ, s)
	}
	return intInRange(n, typ)
}

func intInRange(n *big.Int, typ string) (int64, error) {
	bits := map[string]uint{"smallint": 15, "integer": 31, "bigint": 63}[typ]
	limit := new(big.Int).Lsh(big.NewInt(1), bits)
	if n.Cmp(limit) >= 0 || n.Cmp(new(big.Int).Neg(limit)) < 0 {
		return 0, pgError("%s out of range", typ)
	}
	return n.Int64(), nil
}

// arith evaluates a + b, a - b, a * b, a / b, a % b on non-null numbers. Two integers give an integer (bigint
// overflow is an error); anything involving a numeric gives a numeric.
func arith(op string, a, b Value) (Value, error) {
	x, xi := a.(int64)
	y, yi := b.(int64)
	if xi && yi {
		r := new(big.Int)
		switch op {
		case "+":
			r.Add(big.NewInt(x), big.NewInt(y))
		case "-":
			r.Sub(big.NewInt(x), big.NewInt(y))
		case "*":
			r.Mul(big.NewInt(x), big.NewInt(y))
		case "/", "%":
			if y == 0 {
				return nil, pgError("division by zero")
			}
			if op == "/" {
				r.Quo(big.NewInt(x), big.NewInt(y))
			} else {
				r.Rem(big.NewInt(x), big.NewInt(y))
			}
		}
		if !r.IsInt64() {
			return nil, pgError("bigint out of range")
		}
		return r.Int64(), nil
	}
	p, q := toBig(a), toBig(b)
	switch op {
	case "+":
		return new(big.Int).Add(p, q), nil
	case "-":
		return new(big.Int).Sub(p, q), nil
	case "*":
		return new(big.Int).Mul(p, q), nil
	}
	return nil, unsupported("numeric operator %s (result may be non-integral)", op)
}

// ---------- timestamps ----------

// parseTimestamp implements timestamp_in (timestamp WITHOUT time zone) for ISO-style input:
// YYYY-MM-DD[(T| )HH:MM[:SS[.fraction]]][Z|(+|-)HH[:MM]]. A zone suffix is accepted and ignored: the wall-clock
// fields are kept as written. Fractions beyond microseconds are rounded to the nearest microsecond.
func parseTimestamp(s string) (time.Time, error) {
	bad := func() (time.Time, error) {
		return time.Time{}, pgError("invalid input syntax for type timestamp: %q", s)
	}
	t := strings.TrimSpace(s)
	num := func(n int) (int, bool) { // consume exactly n digits
		if len(t) < n {
			return 0, false
		}
		v := 0
		for i := 0; i < n; i++ {
			if t[i] < '0' || t[i] > '9' {
				return 0, false
			}
			v = v*10 + int(t[i]-'0')
		}
		t = t[n:]
		return v, true
	}
	lit := func(c byte) bool {
		if len(t) > 0 && t[0] == c {
			t = t[1:]
			return true
		}
		return false
	}
	var year, month, day, hour, min, sec int
	var ok bool
	if year, ok = num(4); !ok || !lit('-') {
		return bad()
	}
	if year == 0 {
		// PostgreSQL has no year zero (1 BC is written with a BC suffix)
		return time.Time{}, pgError("date/time field value out of range: %q", s)
	}
	if month, ok = num(2); !ok || !lit('-') {
		return bad()
	}
	if day, ok = num(2); !ok {
		return bad()
	}
	var micros int64
	if lit('T') || lit('t') || lit(' ') {
		if hour, ok = num(2); !ok || !lit(':') {
			return bad()
		}
		if min, ok = num(2); !ok {
			return bad()
		}
		if lit(':') {
			if sec, ok = num(2); !ok {
				return bad()
			}
			if lit('.') {
				i := 0
				for i < len(t) && t[i] >= '0' && t[i] <= '9' {
					i++
				}
				if i == 0 {
					return bad()
				}
				frac := t[:i] + "0000000"
				t = t[i:]
				for _, c := range frac[:6] {
					micros = micros*10 + int64(c-'0')
				}
				if frac[6] >= '5' {
					micros++ // may reach 1000000; time.Date/Add below carries it
				}
			}
		}
		// optional zone: ignored for timestamp without time zone
		t = strings.TrimLeft(t, " ")
		if lit('Z') || lit('z') {
		} else if lit('+') || lit('-') {
			if _, ok = num(2); !ok {
				return bad()
			}
			if lit(':') {
				if _, ok = num(2); !ok {
					return bad()
				}
			} else if len(t) >= 2 {
				if _, ok = num(2); !ok {
					return bad()
				}
			}
		}
	}
	if rest := strings.TrimSpace(t); rest != "" {
		if (rest[0] >= 'A' && rest[0] <= 'Z') || (rest[0] >= 'a' && rest[0] <= 'z') {
			return time.Time{}, unsupported("timestamp input with a named zone or era: %q", s)
		}
		return bad()
	}
	if month < 1 || month > 12 || day < 1 || hour > 24 || min > 59 || sec > 60 {
		return time.Time{}, pgError("date/time field value out of range: %q", s)
	}
	res := time.Date(year, time.Month(month), day, hour, min, sec, 0, time.UTC)
	if res.Day() != day && hour < 24 && sec < 60 {
		return time.Time{}, pgError("date/time field value out of range: %q", s)
	}
	return res.Add(time.Duration(micros) * time.Microsecond), nil
}

func normTime(t time.Time) time.Time {
	// keep the wall clock, drop the zone, round to microseconds
	y, mo, d := t.Date()
	h, mi, s := t.Clock()
	return time.Date(y, mo, d, h, mi, s, t.Nanosecond(), time.UTC).Round(time.Microsecond)
}

func formatTimestamp(t time.Time, sep string) string {
	s := t.Format("2006-01-02" + sep + "15:04:05.000000")
	s = strings.TrimRight(s, "0")
	return strings.TrimSuffix(s, ".")
}

// ---------- text output ----------

// textOut renders a non-null value with its type's output function (what `||` with text, COPY TO and composite
// output use).
func textOut(v Value) string {
	switch x := v.(type) {
	case bool:
		if x {
			return "t"
		}
		return "f"
	case int64:
		return fmt.Sprint(x)
	case *big.Int:
		return x.String()
	case string:
		return x
	case time.Time:
		return formatTimestamp(x, " ")
	case []byte:
		return `\x` + hex.EncodeToString(x)
	case JSON:
		return x.String()
	case Composite:
		parts := make([]string, len(x.Fields))
		for i, f := range x.Fields {
			if f != nil {
				parts[i] = quoteIfNeeded(textOut(f), `(),"\`, false)
			}
		}
		return "(" + strings.Join(parts, ",") + ")"
	case Array:
		parts := make([]string, len(x.Elems))
		for i, e := range x.Elems {
			if e == nil {
				parts[i] = "NULL"
			} else {
				parts[i] = quoteIfNeeded(textOut(e), `{},"\`, true)
			}
		}
		return "{" + strings.Join(parts, ",") + "}"
	}
	return fmt.Sprint(v)
}

// quoteIfNeeded applies the quoting rules of record_out (doubling) / array_out (backslash escaping).
func quoteIfNeeded(s, special string, array bool) string {
	need := s == "" || strings.ContainsAny(s, special) || strings.ContainsAny(s, " \t\n\r\v\f")
	if array && strings.EqualFold(s, "null") {
		need = true
	}
	if !need {
		return s
	}
	var sb strings.Builder
	sb.WriteByte('"')
	for _, c := range s {
		if c == '"' || c == '\\' {
			if array {
				sb.WriteByte('\\')
			} else {
				sb.WriteRune(c)
			}
		}
		sb.WriteRune(c)
	}
	sb.WriteByte('"')
	return sb.String()
}

// ---------- comparison ----------

// compareValues orders two non-null values of the same type family. Text is compared bytewise (collation "C").
func compareValues(a, b Value) (int, error) {
	switch x := a.(type) {
	case int64, *big.Int:
		if isNumber(b) {
			return toBig(a).Cmp(toBig(b)), nil
		}
	case string:
		if y, ok := b.(string); ok {
			return strings.Compare(x, y), nil
		}
	case time.Time:
		if y, ok := b.(time.Time); ok {
			return x.Compare(y), nil
		}
	case bool:
		if y, ok := b.(bool); ok {
			switch {
			case x == y:
				return 0, nil
			case !x:
				return -1, nil
			}
			return 1, nil
		}
	case []byte:
		if y, ok := b.([]byte); ok {
			return strings.Compare(string(x), string(y)), nil
		}
	case JSON:
		if y, ok := b.(JSON); ok && !x.plain && !y.plain {
			if jsonEqual(x.V, y.V) {
				return 0, nil
			}
			return 0, unsupported("ordering comparison of jsonb values")
		}
	case Composite, Array:
		return 0, unsupported("comparison of %s values", typeNameOf(a))
	}
	return 0, pgError("operator does not exist: %s <comparison> %s", typeNameOf(a), typeNameOf(b))
}

// typeNameOf names the dynamic type of a value for error messages.
func typeNameOf(v Value) string {
	switch x := v.(type) {
	case nil:
		return "unknown"
	case bool:
		return "boolean"
	case int64:
		return "bigint"
	case *big.Int:
		return "numeric"
	case string:
		return "text"
	case time.Time:
		return "timestamp without time zone"
	case []byte:
		return "bytea"
	case JSON:
		if x.plain {
			return "json"
		}
		return "jsonb"
	case Composite:
		if x.Type == "" {
			return "record"
		}
		return x.Type
	case Array:
		return "array"
	case jsonPathEq:
		return "jsonpath"
	}
	return fmt.Sprintf("%T", v)
}

// export converts an internal value to the public representation (integers become *big.Int).
func export(v Value) Value {
	switch x := v.(type) {
	case int64:
		return big.NewInt(x)
	case Composite:
		out := Composite{Type: x.Type, Fields: make([]Value, len(x.Fields))}
		for i, f := range x.Fields {
			out.Fields[i] = export(f)
		}
		return out
	case Array:
		out := Array{Elems: make([]Value, len(x.Elems))}
		for i, e := range x.Elems {
			out.Elems[i] = export(e)
		}
		return out
	}
	return v
}
