package pgmini

import (
	"encoding/hex"
	"fmt"
	"math/big"
	"time"
)

func (s *session) lookupTableSchema(qualifier, name string) (*table, *schema, error) {
	sc, err := s.schemaFor(qualifier)
	if err != nil {
		return nil, nil, err
	}
	t := sc.tables[name]
	if t == nil {
		return nil, nil, pgError("relation %q does not exist", name)
	}
	return t, sc, nil
}

// trigEvent is a queued AFTER ROW trigger firing. PostgreSQL queues these during the statement and fires them, in
// order, when the statement ends (before control returns to the caller of the statement).
type trigEvent struct {
	t      *table
	sc     *schema
	event  string
	newRow []Value
}

func (s *session) fireTriggers(events []trigEvent) error {
	for _, ev := range events {
		for _, tr := range ev.sc.triggers[ev.t.def.name] {
			if tr.Event != ev.event {
				continue
			}
			fn := ev.sc.funcs[tr.Func]
			if fn == nil || fn.Returns.Name != "trigger" || fn.Language != "plpgsql" {
				return pgError("function %s must return type trigger", tr.Func)
			}
			frame := &scope{vars: map[string]*variable{}, plpgsql: true}
			frame.vars["new"] = &variable{typ: Type{Name: ev.t.def.name}, val: Composite{Type: ev.t.def.name, Fields: ev.newRow}}
			if _, err := s.runPLFunction(fn, frame); err != nil {
				return err
			}
		}
	}
	return nil
}

// ---------- row construction and constraints ----------

// defaultFor computes the value of a column that was not supplied.
func (s *session) defaultFor(t *table, col ColumnDef) (Value, error) {
	if col.Serial {
		t.seqs[col.Name]++ // sequences are never rolled back
		return t.seqs[col.Name], nil
	}
	if col.Default == nil {
		return nil, nil
	}
	v, err := s.eval(col.Default, &scope{})
	if err != nil {
		return nil, err
	}
	mode := castAssign
	if _, isLit := col.Default.(*StringLit); isLit {
		mode = castIO
	}
	return s.cast(v, col.Type, mode)
}

// checkRow enforces NOT NULL and foreign keys on a new row version.
func (s *session) checkRow(t *table, sc *schema, row []Value) error {
	for i, col := range t.def.cols {
		if row[i] == nil {
			if col.NotNull {
				return pgError("null value in column %q of relation %q violates not-null constraint", col.Name, t.def.name)
			}
			continue
		}
		if col.Refs == nil {
			continue
		}
		ref := sc.tables[col.Refs.Table]
		if ref == nil {
			return pgError("relation %q does not exist", col.Refs.Table)
		}
		ri, err := referencedColumn(ref, col.Refs)
		if err != nil {
			return err
		}
		found := false
		for _, other := range ref.rows {
			if other[ri] != nil {
				if c, err := compareValues(row[i], other[ri]); err == nil && c == 0 {
					found = true
					break
				}
			}
		}
		if !found {
			return pgError("insert or update on table %q violates foreign key constraint \"%s_%s_fkey\"", t.def.name, t.def.name, col.Name)
		}
	}
	return nil
}

// referencedColumn resolves the column a foreign key points to (the primary key when none is named).
func referencedColumn(ref *table, fk *ForeignKey) (int, error) {
	if fk.Col == "" {
		if len(ref.def.uniques) == 0 || len(ref.def.uniques[0].cols) != 1 {
			return 0, unsupported("foreign key to table %s without a single-column primary key", ref.def.name)
		}
		return ref.def.uniques[0].cols[0], nil
	}
	ri, ok := ref.def.colIdx[fk.Col]
	if !ok {
		return 0, pgError("column %q referenced in foreign key constraint does not exist", fk.Col)
	}
	return ri, nil
}

func uniqueViolation(idx uniqueIndex) error {
	return pgError("duplicate key value violates unique constraint %q", idx.name)
}

// replaceRow installs a new version of row i after checking constraints, and queues the AFTER UPDATE event.
func (s *session) replaceRow(t *table, sc *schema, i int, newRow []Value, events *[]trigEvent) error {
	if err := s.checkRow(t, sc, newRow); err != nil {
		return err
	}
	old := t.rows[i]
	for ci, col := range t.def.cols {
		if c, err := compareNullable(old[ci], newRow[ci]); err == nil && c {
			continue
		}
		for _, other := range sc.tables { // changing a referenced key would need a reverse foreign-key check
			for _, oc := range other.def.cols {
				if oc.Refs == nil || oc.Refs.Table != t.def.name {
					continue
				}
				if ri, err := referencedColumn(t, oc.Refs); err != nil || ri == ci {
					return unsupported("update of column %s.%s, which a foreign key references", t.def.name, col.Name)
				}
			}
		}
	}
	for _, idx := range t.def.uniques {
		if t.findDuplicate(idx, newRow, i) >= 0 {
			return uniqueViolation(idx)
		}
	}
	s.db.logUndo(undoEntry{t: t, idx: i, old: old})
	t.rows[i] = newRow
	*events = append(*events, trigEvent{t: t, sc: sc, event: "update", newRow: newRow})
	return nil
}

// compareNullable reports whether two column values are identical (NULLs equal).
func compareNullable(a, b Value) (bool, error) {
	if a == nil || b == nil {
		return a == nil && b == nil, nil
	}
	switch a.(type) {
	case Composite, Array:
		return textOut(a) == textOut(b), nil
	}
	c, err := compareValues(a, b)
	return c == 0 && err == nil, err
}

func (s *session) appendRow(t *table, sc *schema, row []Value, events *[]trigEvent) {
	s.db.logUndo(undoEntry{t: t, idx: -1})
	t.rows = append(t.rows, row)
	*events = append(*events, trigEvent{t: t, sc: sc, event: "insert", newRow: row})
}

// ---------- INSERT ----------

func (s *session) execInsert(ins *Insert, outer *scope) (*resultSet, error) {
	t, sc, err := s.lookupTableSchema(ins.Schema, ins.Table)
	if err != nil {
		return nil, err
	}
	colNames := ins.Cols
	if colNames == nil {
		for _, c := range t.def.cols {
			colNames = append(colNames, c.Name)
		}
	}
	target := &binding{alias: ins.Table, rowType: t.def.name}
	for _, c := range t.def.cols {
		target.cols = append(target.cols, c.Name)
	}
	var arbiter *uniqueIndex
	if oc := ins.Conflict; oc != nil && oc.Cols != nil {
		want := map[int]bool{}
		for _, c := range oc.Cols {
			i, ok := t.def.colIdx[c]
			if !ok {
				return nil, pgError("column %q does not exist", c)
			}
			want[i] = true
		}
		for k, idx := range t.def.uniques {
			match := len(idx.cols) == len(want)
			for _, c := range idx.cols {
				match = match && want[c]
			}
			if match {
				arbiter = &t.def.uniques[k]
				break
			}
		}
		if arbiter == nil {
			return nil, pgError("there is no unique or exclusion constraint matching the ON CONFLICT specification")
		}
	}
	res := &resultSet{}
	for _, it := range ins.Returning {
		switch {
		case it.Star:
			res.cols = append(res.cols, target.cols...)
		case it.Alias != "":
			res.cols = append(res.cols, it.Alias)
		default:
			res.cols = append(res.cols, exprName(it.Expr))
		}
	}
	var events []trigEvent
	for _, exprs := range ins.Rows {
		if len(exprs) != len(colNames) {
			return nil, pgError("INSERT has %d expressions but %d target columns", len(exprs), len(colNames))
		}
		row := make([]Value, len(t.def.cols))
		given := make([]bool, len(t.def.cols))
		for k, name := range colNames {
			ci, ok := t.def.colIdx[name]
			if !ok {
				return nil, pgError("column %q of relation %q does not exist", name, t.def.name)
			}
			if given[ci] {
				return nil, pgError("column %q specified more than once", name)
			}
			if exprs[k] == nil { // DEFAULT
				continue
			}
			given[ci] = true
			v, err := s.eval(exprs[k], outer)
			if err != nil {
				return nil, err
			}
			mode := castAssign
			if _, isLit := exprs[k].(*StringLit); isLit {
				mode = castIO
			}
			if row[ci], err = s.cast(v, t.def.cols[ci].Type, mode); err != nil {
				return nil, fmt.Errorf("column %q: %w", name, err)
			}
		}
		for ci, col := range t.def.cols {
			if !given[ci] {
				if row[ci], err = s.defaultFor(t, col); err != nil {
					return nil, err
				}
			}
		}
		if err := s.checkRow(t, sc, row); err != nil {
			return nil, err
		}
		final, err := s.insertOrConflict(ins, t, sc, target, arbiter, row, outer, &events)
		if err != nil {
			return nil, err
		}
		if final == nil {
			continue
		}
		res.tag++
		if ins.Returning != nil {
			target.row = final
			out, err := s.projectRow(ins.Returning, target, outer)
			if err != nil {
				return nil, err
			}
			res.rows = append(res.rows, out)
		}
	}
	return res, s.fireTriggers(events)
}

// insertOrConflict stores the row, or applies ON CONFLICT. It returns the inserted / updated row, or nil when the
// conflict action left the table untouched.
func (s *session) insertOrConflict(ins *Insert, t *table, sc *schema, target *binding, arbiter *uniqueIndex, row []Value,
	outer *scope, events *[]trigEvent) ([]Value, error) {
	oc := ins.Conflict
	if oc != nil {
		conflict := -1
		if arbiter != nil {
			conflict = t.findDuplicate(*arbiter, row, -1)
		} else { // DO NOTHING without a target: any unique index
			for _, idx := range t.def.uniques {
				if conflict = t.findDuplicate(idx, row, -1); conflict >= 0 {
					break
				}
			}
		}
		if conflict >= 0 {
			if oc.Nothing {
				return nil, nil
			}
			existing := t.rows[conflict]
			target.row = existing
			excluded := &binding{alias: "excluded", cols: target.cols, row: row, rowType: t.def.name, qualifiedOnly: true}
			q := &scope{outer: outer, binds: []*binding{target, excluded}, queryLevel: true}
			if oc.Where != nil {
				ok, err := s.isTrue(oc.Where, q)
				if err != nil || !ok {
					return nil, err // WHERE not true: the existing row stays as it is and no trigger fires
				}
			}
			updated, err := s.applySet(t, oc.Set, existing, q)
			if err != nil {
				return nil, err
			}
			return updated, s.replaceRow(t, sc, conflict, updated, events)
		}
	}
	for _, idx := range t.def.uniques {
		if t.findDuplicate(idx, row, -1) >= 0 {
			return nil, uniqueViolation(idx)
		}
	}
	s.appendRow(t, sc, row, events)
	return row, nil
}

// applySet computes the new version of a row; every SET expression sees the old version.
func (s *session) applySet(t *table, set []SetClause, old []Value, q *scope) ([]Value, error) {
	updated := append([]Value(nil), old...)
	seen := map[int]bool{}
	for _, sc := range set {
		ci, ok := t.def.colIdx[sc.Col]
		if !ok {
			return nil, pgError("column %q of relation %q does not exist", sc.Col, t.def.name)
		}
		if seen[ci] {
			return nil, pgError("multiple assignments to same column %q", sc.Col)
		}
		seen[ci] = true
		v, err := s.eval(sc.Expr, q)
		if err != nil {
			return nil, err
		}
		mode := castAssign
		if _, isLit := sc.Expr.(*StringLit); isLit {
			mode = castIO
		}
		if updated[ci], err = s.cast(v, t.def.cols[ci].Type, mode); err != nil {
			return nil, fmt.Errorf("column %q: %w", sc.Col, err)
		}
	}
	return updated, nil
}

// projectRow evaluates a RETURNING list against target.row.
func (s *session) projectRow(items []SelItem, target *binding, outer *scope) ([]Value, error) {
	q := &scope{outer: outer, binds: []*binding{target}, queryLevel: true}
	var out []Value
	for _, it := range items {
		if it.Star {
			out = append(out, target.row...)
			continue
		}
		v, err := s.eval(it.Expr, q)
		if err != nil {
			return nil, err
		}
		out = append(out, v)
	}
	return out, nil
}

// ---------- UPDATE ----------

func (s *session) execUpdate(up *Update, outer *scope) (*resultSet, error) {
	t, sc, err := s.lookupTableSchema(up.Schema, up.Table)
	if err != nil {
		return nil, err
	}
	target := &binding{alias: up.Alias, rowType: t.def.name}
	if target.alias == "" {
		target.alias = up.Table
	}
	for _, c := range t.def.cols {
		target.cols = append(target.cols, c.Name)
	}
	q := &scope{outer: outer, binds: []*binding{target}, queryLevel: true}
	res := &resultSet{}
	var events []trigEvent
	for i, n := 0, len(t.rows); i < n; i++ { // the statement sees the rows as they were when it started
		target.row = t.rows[i]
		if up.Where != nil {
			ok, err := s.isTrue(up.Where, q)
			if err != nil {
				return nil, err
			}
			if !ok {
				continue
			}
		}
		updated, err := s.applySet(t, up.Set, t.rows[i], q)
		if err != nil {
			return nil, err
		}
		if err := s.replaceRow(t, sc, i, updated, &events); err != nil {
			return nil, err
		}
		res.tag++
	}
	return res, s.fireTriggers(events)
}

// ---------- COPY ----------

// copyText renders a client-side value the way the COPY text protocol transmits it.
func copyText(v any) (string, bool, error) {
	switch x := v.(type) {
	case nil:
		return "", false, nil
	case string:
		return x, true, nil
	case []byte:
		return `\x` + hex.EncodeToString(x), true, nil
	case int64, int, bool, *big.Int:
		return fmt.Sprint(x), true, nil
	case time.Time:
		return x.Format("2006-01-02 15:04:05.999999999Z07:00"), true, nil
	case JSON:
		return x.String(), true, nil
	}
	return "", false, unsupported("COPY value of Go type %T", v)
}

func (s *session) copyIn(schemaName, tableName string, cols []string, rows [][]any) error {
	t, sc, err := s.lookupTableSchema(schemaName, tableName)
	if err != nil {
		return err
	}
	if cols == nil {
		for _, c := range t.def.cols {
			cols = append(cols, c.Name)
		}
	}
	var events []trigEvent
	for n, in := range rows {
		if len(in) != len(cols) {
			return pgError("COPY row %d: %d values for %d columns", n+1, len(in), len(cols))
		}
		row := make([]Value, len(t.def.cols))
		given := make([]bool, len(t.def.cols))
		for k, name := range cols {
			ci, ok := t.def.colIdx[name]
			if !ok {
				return pgError("column %q of relation %q does not exist", name, t.def.name)
			}
			if given[ci] {
				return pgError("column %q specified more than once", name)
			}
			given[ci] = true
			text, notNull, err := copyText(in[k])
			if err != nil {
				return err
			}
			if notNull {
				if row[ci], err = s.cast(text, t.def.cols[ci].Type, castIO); err != nil {
					return fmt.Errorf("%w (COPY %s, line %d, column %s)", err, t.def.name, n+1, name)
				}
			}
		}
		for ci, col := range t.def.cols {
			if !given[ci] {
				if row[ci], err = s.defaultFor(t, col); err != nil {
					return err
				}
			}
		}
		if err := s.checkRow(t, sc, row); err != nil {
			return err
		}
		for _, idx := range t.def.uniques {
			if t.findDuplicate(idx, row, -1) >= 0 {
				return uniqueViolation(idx)
			}
		}
		s.appendRow(t, sc, row, &events)
	}
	return s.fireTriggers(events)
}
