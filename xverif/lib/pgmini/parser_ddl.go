package pgmini

import (
	"strings"
)

func (p *parser) parseStatement() Stmt {
	switch {
	case p.isKw("select", "with"):
		return p.parseSelect()
	case p.isKw("insert"):
		return p.parseInsert()
	case p.isKw("update"):
		return p.parseUpdate()
	case p.isKw("copy"):
		return p.parseCopy()
	case p.isKw("create"):
		return p.parseCreate()
	}
	p.unsupported("statement %s", strings.ToUpper(p.peek().text))
	return nil
}

func (p *parser) parseCopy() Stmt {
	p.expectKw("copy")
	c := &CopyFrom{}
	c.Schema, c.Table = p.qualifiedName()
	if p.isOp("(") {
		c.Cols = p.identList()
	}
	if !p.acceptKw("from") || !p.acceptKw("stdin") {
		p.unsupported("COPY other than COPY ... FROM STDIN")
	}
	if p.peek().kind != tEOF && !p.isOp(";") {
		p.unsupported("COPY options")
	}
	return c
}

func (p *parser) parseCreate() Stmt {
	p.expectKw("create")
	replace := false
	if p.acceptKw("or") {
		p.expectKw("replace")
		replace = true
	}
	switch {
	case p.acceptKw("table"):
		return p.parseCreateTable()
	case p.isKw("unique", "index"):
		return p.parseCreateIndex()
	case p.acceptKw("type"):
		return p.parseCreateType()
	case p.acceptKw("aggregate"):
		return p.parseCreateAggregate()
	case p.acceptKw("function"):
		return p.parseCreateFunction(replace)
	case p.acceptKw("trigger"):
		return p.parseCreateTrigger()
	}
	p.unsupported("CREATE %s", strings.ToUpper(p.peek().text))
	return nil
}

func (p *parser) parseCreateTable() Stmt {
	if p.isKw("if") {
		p.unsupported("CREATE TABLE IF NOT EXISTS")
	}
	ct := &CreateTable{}
	schema, name := p.qualifiedName()
	if schema != "" {
		p.unsupported("schema-qualified CREATE TABLE")
	}
	ct.Name = name
	p.expectOp("(")
	for {
		switch {
		case p.isKw("primary"):
			p.pos++
			p.expectKw("key")
			ct.Uniques = append([][]string{p.identList()}, ct.Uniques...)
			ct.HasPK = true
		case p.isKw("unique"):
			p.pos++
			ct.Uniques = append(ct.Uniques, p.identList())
		case p.isKw("constraint", "foreign", "check", "exclude", "like"):
			p.unsupported("table constraint %s", strings.ToUpper(p.peek().text))
		default:
			ct.Cols = append(ct.Cols, p.parseColumnDef(ct))
		}
		if !p.acceptOp(",") {
			break
		}
	}
	p.expectOp(")")
	if p.peek().kind != tEOF && !p.isOp(";") {
		p.unsupported("CREATE TABLE option %s", strings.ToUpper(p.peek().text))
	}
	return ct
}

func (p *parser) parseColumnDef(ct *CreateTable) ColumnDef {
	col := ColumnDef{Name: p.ident()}
	col.Type = p.parseType()
	switch col.Type.Name {
	case "bigserial", "serial8":
		col.Type.Name, col.Serial, col.NotNull = "bigint", true, true
	case "serial", "serial4":
		col.Type.Name, col.Serial, col.NotNull = "integer", true, true
	}
	for {
		switch {
		case p.isKw("not") && p.isKwAt(1, "null"):
			p.pos += 2
			col.NotNull = true
		case p.acceptKw("null"):
		case p.acceptKw("default"):
			col.Default = p.parseOtherOp() // b_expr: stops before NOT NULL
		case p.isKw("primary"):
			p.pos++
			p.expectKw("key")
			ct.Uniques = append([][]string{{col.Name}}, ct.Uniques...)
			ct.HasPK = true
			col.NotNull = true
		case p.acceptKw("unique"):
			ct.Uniques = append(ct.Uniques, []string{col.Name})
		case p.acceptKw("references"):
			fk := &ForeignKey{}
			_, fk.Table = p.qualifiedName()
			if p.isOp("(") {
				cols := p.identList()
				if len(cols) != 1 {
					p.fail("wrong number of referenced columns")
				}
				fk.Col = cols[0]
			}
			if p.isKw("on", "match", "deferrable", "initially") {
				p.unsupported("foreign key option %s", strings.ToUpper(p.peek().text))
			}
			col.Refs = fk
		case p.isKw("check", "constraint", "generated", "collate"):
			p.unsupported("column constraint %s", strings.ToUpper(p.peek().text))
		default:
			return col
		}
	}
}

func (p *parser) parseCreateIndex() Stmt {
	ci := &CreateIndex{Unique: p.acceptKw("unique")}
	p.expectKw("index")
	if p.isKw("concurrently") || p.isKw("if") {
		p.unsupported("CREATE INDEX %s", strings.ToUpper(p.peek().text))
	}
	ci.Name = p.ident()
	p.expectKw("on")
	_, ci.Table = p.qualifiedName()
	if !ci.Unique { // plain indexes have no observable behaviour: skip the definition
		depth := 0
		for p.peek().kind != tEOF && !(depth == 0 && p.isOp(";")) {
			if p.isOp("(") {
				depth++
			} else if p.isOp(")") {
				depth--
			}
			p.pos++
		}
		return ci
	}
	if p.acceptKw("using") {
		if m := p.anyName(); m != "btree" {
			p.unsupported("unique index using %s", m)
		}
	}
	p.expectOp("(")
	for {
		if !p.isIdent() || (p.peekAt(1).text != "," && p.peekAt(1).text != ")" && !p.isKwAt(1, "asc") && !p.isKwAt(1, "desc")) {
			p.unsupported("unique index on an expression")
		}
		ci.Cols = append(ci.Cols, p.ident())
		if !p.acceptKw("asc") {
			p.acceptKw("desc")
		}
		if !p.acceptOp(",") {
			break
		}
	}
	p.expectOp(")")
	if p.acceptKw("include") {
		p.identList()
	}
	if p.isKw("nulls") {
		p.unsupported("NULLS NOT DISTINCT")
	}
	if p.isKw("where") {
		p.unsupported("partial unique index")
	}
	return ci
}

func (p *parser) parseCreateType() Stmt {
	ct := &CreateType{Name: p.ident()}
	p.expectKw("as")
	if p.acceptKw("enum") {
		ct.Enum = true
		p.expectOp("(")
		for !p.isOp(")") {
			t := p.next()
			if t.kind != tString {
				p.fail("expected enum label, found %q", t)
			}
			ct.Labels = append(ct.Labels, t.text)
			if !p.acceptOp(",") {
				break
			}
		}
		p.expectOp(")")
		return ct
	}
	if !p.isOp("(") {
		p.unsupported("CREATE TYPE ... AS %s", strings.ToUpper(p.peek().text))
	}
	p.expectOp("(")
	for {
		ct.Fields = append(ct.Fields, ColumnDef{Name: p.ident(), Type: p.parseType()})
		if !p.acceptOp(",") {
			break
		}
	}
	p.expectOp(")")
	return ct
}

func (p *parser) parseCreateAggregate() Stmt {
	ca := &CreateAggregate{Name: p.ident()}
	p.expectOp("(")
	p.parseType()
	if p.isOp(",") || p.isKw("order") {
		p.unsupported("aggregate with several arguments")
	}
	p.expectOp(")")
	p.expectOp("(")
	for {
		key := p.anyName()
		p.expectOp("=")
		switch key {
		case "sfunc":
			ca.SFunc = p.ident()
		case "stype":
			ca.SType = p.parseType()
		case "initcond":
			val := p.next()
			if val.kind != tString {
				p.fail("initcond must be a string constant")
			}
			ca.InitCond = &val.text
		case "parallel":
			p.anyName()
		default:
			p.unsupported("aggregate option %s", key)
		}
		if !p.acceptOp(",") {
			break
		}
	}
	p.expectOp(")")
	if ca.SFunc == "" {
		p.fail("aggregate sfunc must be specified")
	}
	return ca
}

func (p *parser) parseCreateFunction(replace bool) Stmt {
	cf := &CreateFunction{Replace: replace}
	schema, name := p.qualifiedName()
	if schema != "" {
		p.unsupported("schema-qualified CREATE FUNCTION")
	}
	cf.Name = name
	p.expectOp("(")
	for !p.isOp(")") {
		if p.isKw("out", "inout", "variadic") {
			p.unsupported("%s parameter", strings.ToUpper(p.peek().text))
		}
		p.acceptKw("in")
		var prm FuncParam
		nxt := p.peekAt(1)
		unnamed := nxt.text == "," || nxt.text == ")" || nxt.text == "[" || nxt.text == "(" ||
			(nxt.kind == tIdent && (nxt.text == "without" || nxt.text == "with" || nxt.text == "precision" || nxt.text == "varying" || nxt.text == "default"))
		if !unnamed {
			prm.Name = p.ident()
		}
		prm.Type = p.parseType()
		if p.acceptKw("default") || p.acceptOp("=") {
			prm.Default, prm.HasDef = p.parseExpr(), true
		}
		cf.Params = append(cf.Params, prm)
		if !p.acceptOp(",") {
			break
		}
	}
	p.expectOp(")")
	hasBody := false
	for p.peek().kind != tEOF && !p.isOp(";") {
		switch opt := p.anyName(); opt {
		case "returns":
			switch {
			case p.isKw("null"): // RETURNS NULL ON NULL INPUT
				p.pos++
				p.expectKw("on")
				p.expectKw("null")
				p.expectKw("input")
				cf.Strict = true
			case p.isKw("table"):
				p.unsupported("RETURNS TABLE")
			default:
				cf.SetOf = p.acceptKw("setof")
				cf.Returns = p.parseType()
			}
		case "language":
			if p.peek().kind == tString {
				cf.Language = strings.ToLower(p.next().text)
			} else {
				cf.Language = p.anyName()
			}
		case "immutable", "stable", "volatile", "leakproof":
		case "strict":
			cf.Strict = true
		case "called":
			p.expectKw("on")
			p.expectKw("null")
			p.expectKw("input")
		case "parallel", "security":
			p.anyName()
		case "cost", "rows":
			p.next()
		case "as":
			t := p.next()
			if t.kind != tString {
				p.fail("expected function body, found %q", t)
			}
			cf.Body, hasBody = t.text, true
		default:
			p.unsupported("function option %s", strings.ToUpper(opt))
		}
	}
	if !hasBody {
		p.unsupported("function without AS body")
	}
	switch cf.Language {
	case "sql":
		cf.SQLBody, cf.BodyError = parseStatements(cf.Body)
	case "plpgsql":
		cf.PLBody, cf.BodyError = parsePLBody(cf.Body)
	default:
		p.unsupported("function language %q", cf.Language)
	}
	return cf
}

func (p *parser) parseCreateTrigger() Stmt {
	tr := &CreateTrigger{Name: p.ident()}
	if !p.acceptKw("after") {
		p.unsupported("%s trigger", strings.ToUpper(p.peek().text))
	}
	tr.Event = p.anyName()
	if tr.Event != "insert" && tr.Event != "update" {
		p.unsupported("trigger on %s", strings.ToUpper(tr.Event))
	}
	if p.isKw("or") {
		p.unsupported("trigger on several events")
	}
	if p.isKw("of") {
		p.unsupported("UPDATE OF column trigger")
	}
	p.expectKw("on")
	_, tr.Table = p.qualifiedName()
	if p.isKw("referencing", "deferrable", "not", "initially", "from") {
		p.unsupported("trigger option %s", strings.ToUpper(p.peek().text))
	}
	if !p.acceptKw("for") {
		p.unsupported("statement-level trigger")
	}
	p.acceptKw("each")
	if !p.acceptKw("row") {
		p.unsupported("statement-level trigger")
	}
	if p.isKw("when") {
		p.unsupported("trigger WHEN condition")
	}
	p.expectKw("execute")
	if !p.acceptKw("procedure") {
		p.expectKw("function")
	}
	tr.Func = p.ident()
	p.expectOp("(")
	if !p.acceptOp(")") {
		p.unsupported("trigger arguments")
	}
	return tr
}

// ---------- PL/pgSQL ----------

// parsePLBody parses the body of a language plpgsql function.
func parsePLBody(src string) (block *PLBlock, err error) {
	toks, err := lex(src)
	if err != nil {
		return nil, err
	}
	defer recoverParse(&err)
	p := &parser{toks: toks, pl: true}
	block = p.parsePLBlock()
	p.acceptOp(";")
	if p.peek().kind != tEOF {
		p.fail("unexpected %q after end of function body", p.peek())
	}
	return block, nil
}

func (p *parser) parsePLBlock() *PLBlock {
	b := &PLBlock{}
	if p.isOp("<<") {
		p.unsupported("block label")
	}
	if p.acceptKw("declare") {
		for !p.isKw("begin") {
			d := PLDecl{Name: p.ident()}
			if p.isKw("constant", "alias", "cursor") {
				p.unsupported("DECLARE ... %s", strings.ToUpper(p.peek().text))
			}
			d.Type = p.parseType()
			if p.isKw("not") {
				p.unsupported("NOT NULL variable")
			}
			if p.acceptOp(":=") || p.acceptOp("=") || p.acceptKw("default") {
				d.Default = p.parseExpr()
			}
			p.expectOp(";")
			b.Decls = append(b.Decls, d)
		}
	}
	p.expectKw("begin")
	b.Body = p.parsePLStmts()
	if p.isKw("exception") {
		p.unsupported("EXCEPTION block")
	}
	p.expectKw("end")
	return b
}

// parsePLStmts parses statements up to (not including) END / ELSIF / ELSE / EXCEPTION.
func (p *parser) parsePLStmts() []PLStmt {
	var out []PLStmt
	for !p.isKw("end", "elsif", "elseif", "else", "exception") {
		if p.peek().kind == tEOF {
			p.fail("unexpected end of function body")
		}
		out = append(out, p.parsePLStmt())
	}
	return out
}

func (p *parser) parsePLStmt() PLStmt {
	var st PLStmt
	switch {
	case p.isKw("if"):
		st = p.parsePLIf()
	case p.isKw("for"):
		st = p.parsePLFor()
	case p.isKw("perform"):
		p.toks[p.pos].text = "select" // PERFORM query == SELECT query with the result discarded
		st = &PLPerform{Query: p.parseSelect()}
	case p.acceptKw("return"):
		if p.isKw("query", "next") {
			p.unsupported("RETURN %s", strings.ToUpper(p.peek().text))
		}
		r := &PLReturn{}
		if !p.isOp(";") {
			r.Expr = p.parseExpr()
		}
		st = r
	case p.isKw("select", "with"):
		sel := p.parseSelect()
		if sel.Into == nil {
			p.fail("query has no destination for result data")
		}
		st = &PLSQL{Stmt: sel}
	case p.isKw("insert"):
		st = &PLSQL{Stmt: p.parseInsert()}
	case p.isKw("update"):
		st = &PLSQL{Stmt: p.parseUpdate()}
	case p.isKw("begin", "declare"):
		st = &PLNested{Block: p.parsePLBlock()}
	case p.isKw("null") && p.peekAt(1).text == ";":
		p.pos++
		st = &PLNull{}
	case p.isKw("raise", "execute", "while", "loop", "exit", "continue", "foreach", "case", "get", "open", "fetch", "close",
		"call", "assert", "delete", "commit", "rollback", "move", "merge"):
		p.unsupported("PL/pgSQL statement %s", strings.ToUpper(p.peek().text))
	default:
		targets := p.parseTargets()
		if len(targets) != 1 || !(p.acceptOp(":=") || p.acceptOp("=")) {
			p.fail("unexpected %q", p.peek())
		}
		st = &PLAssign{Target: targets[0], Expr: p.parseExpr()}
	}
	p.expectOp(";")
	return st
}

func (p *parser) parsePLIf() PLStmt {
	p.expectKw("if")
	st := &PLIf{}
	for {
		cond := p.parseExpr()
		p.expectKw("then")
		st.Conds = append(st.Conds, cond)
		st.Blocks = append(st.Blocks, p.parsePLStmts())
		if !(p.acceptKw("elsif") || p.acceptKw("elseif")) {
			break
		}
	}
	if p.acceptKw("else") {
		st.Else = p.parsePLStmts()
	}
	p.expectKw("end")
	p.expectKw("if")
	return st
}

func (p *parser) parsePLFor() PLStmt {
	p.expectKw("for")
	st := &PLForQuery{Targets: p.parseTargets()}
	p.expectKw("in")
	switch {
	case p.isOp("(") && (p.isKwAt(1, "select") || p.isKwAt(1, "with")):
		p.pos++
		st.Query = p.parseSelect()
		p.expectOp(")")
	case p.isKw("select", "with"):
		st.Query = p.parseSelect()
	default:
		p.unsupported("FOR loop over anything but a query")
	}
	p.expectKw("loop")
	st.Body = p.parsePLStmts()
	p.expectKw("end")
	p.expectKw("loop")
	return st
}
