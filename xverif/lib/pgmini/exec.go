package pgmini

import (
	"sort"
)

// resultSet is the internal result of a query.
type resultSet struct {
	cols    []string
	rows    [][]Value
	rowType string // composite type of a row, when known (setof <composite> functions)
	tag     int64  // rows affected by DML
}

// execTop runs a top-level statement.
func (s *session) execTop(st Stmt) (*Rows, error) {
	switch st.(type) {
	case *Select, *Insert, *Update:
		res, err := s.execStmt(st, nil)
		if err != nil {
			return nil, err
		}
		return &Rows{Cols: res.cols, raw: res.rows, tag: res.tag}, nil
	case *CopyFrom:
		return nil, unsupported("COPY through Query (use CopyIn or the database/sql driver)")
	}
	return &Rows{}, s.execDDL(st)
}

// execStmt runs a SELECT / INSERT / UPDATE with `outer` as the enclosing scope (function variables).
func (s *session) execStmt(st Stmt, outer *scope) (*resultSet, error) {
	switch x := st.(type) {
	case *Select:
		return s.execSelect(x, outer)
	case *Insert:
		return s.execInsert(x, outer)
	case *Update:
		return s.execUpdate(x, outer)
	}
	return nil, unsupported("statement %s inside a function", describe(st))
}

func (s *session) execSelect(sel *Select, outer *scope) (*resultSet, error) {
	res, err := s.execCore(sel, outer)
	if err != nil {
		return nil, err
	}
	for arm := sel.UnionAll; arm != nil; arm = arm.UnionAll {
		more, err := s.execCore(arm, outer)
		if err != nil {
			return nil, err
		}
		if len(more.cols) != len(res.cols) {
			return nil, pgError("each UNION query must have the same number of columns")
		}
		res.rows = append(res.rows, more.rows...)
	}
	return res, nil
}

// fromResult is an evaluated FROM item: its bindings and, per joined row, one row slice per binding.
type fromResult struct {
	binds []*binding
	rows  [][][]Value
}

func (s *session) evalFrom(item FromItem, outer *scope, siblings []*binding) (*fromResult, error) {
	single := func(b *binding, rows [][]Value) *fromResult {
		fr := &fromResult{binds: []*binding{b}}
		for _, r := range rows {
			fr.rows = append(fr.rows, [][]Value{r})
		}
		return fr
	}
	switch x := item.(type) {
	case *TableRef:
		t, _, err := s.lookupTableSchema(x.Schema, x.Name)
		if err != nil {
			return nil, err
		}
		b := &binding{alias: x.Alias, rowType: t.def.name}
		if b.alias == "" {
			b.alias = x.Name
		}
		for _, c := range t.def.cols {
			b.cols = append(b.cols, c.Name)
		}
		return single(b, t.rows), nil
	case *SubqueryRef:
		if x.Lateral {
			return nil, unsupported("LATERAL")
		}
		res, err := s.execSelect(x.Sel, outer)
		if err != nil {
			return nil, err
		}
		return single(&binding{alias: x.Alias, cols: res.cols}, res.rows), nil
	case *FuncRef:
		for _, arg := range x.Call.Args { // a function in FROM may reference earlier FROM items: implicit LATERAL
			var lateral string
			walkExpr(arg, func(n Expr) bool {
				if id, ok := n.(*Ident); ok {
					for _, b := range siblings {
						for _, c := range b.cols {
							if b.alias == id.Parts[0] || (len(id.Parts) == 1 && c == id.Parts[0] && outer.findVar(c) == nil) {
								lateral = id.Parts[0]
							}
						}
					}
				}
				return true
			})
			if lateral != "" {
				return nil, unsupported("LATERAL reference to %q from a function in FROM", lateral)
			}
		}
		var res *resultSet
		scalar := true
		if s.isSRF(x.Call) {
			var err error
			if res, scalar, err = s.evalSRF(x.Call, outer); err != nil {
				return nil, err
			}
		} else {
			v, err := s.evalCall(x.Call, outer)
			if err != nil {
				return nil, err
			}
			res = &resultSet{cols: []string{x.Call.Name}, rows: [][]Value{{v}}}
			if c, ok := v.(Composite); ok && c.Type != "" {
				fields, _ := s.compositeFields(c.Type)
				res, scalar = &resultSet{rows: [][]Value{c.Fields}, rowType: c.Type}, false
				for _, f := range fields {
					res.cols = append(res.cols, f.Name)
				}
			}
		}
		b := &binding{alias: x.Alias, cols: append([]string(nil), res.cols...), rowType: res.rowType, scalar: scalar}
		if b.alias == "" {
			b.alias = x.Call.Name
		} else if scalar && (!builtinSRFs[x.Call.Name] || x.Call.Name == "unnest") {
			b.cols[0] = x.Alias // a scalar function column takes the alias; OUT-parameter names (value) stay
		}
		if len(x.ColAliases) > len(b.cols) {
			return nil, pgError("table %q has %d columns available but %d columns specified", b.alias, len(b.cols), len(x.ColAliases))
		}
		copy(b.cols, x.ColAliases)
		return single(b, res.rows), nil
	case *JoinRef:
		left, err := s.evalFrom(x.Left, outer, siblings)
		if err != nil {
			return nil, err
		}
		right, err := s.evalFrom(x.Right, outer, append(append([]*binding(nil), siblings...), left.binds...))
		if err != nil {
			return nil, err
		}
		out := &fromResult{binds: append(append([]*binding(nil), left.binds...), right.binds...)}
		sc := &scope{outer: outer, binds: out.binds}
		nulls := make([][]Value, len(right.binds))
		for i, b := range right.binds {
			nulls[i] = make([]Value, len(b.cols))
		}
		for _, l := range left.rows {
			matched := false
			for _, r := range right.rows {
				joined := append(append([][]Value(nil), l...), r...)
				if x.On != nil {
					setRows(out.binds, joined)
					ok, err := s.isTrue(x.On, sc)
					if err != nil {
						return nil, err
					}
					if !ok {
						continue
					}
				}
				matched = true
				out.rows = append(out.rows, joined)
			}
			if !matched && x.Kind == "left" {
				out.rows = append(out.rows, append(append([][]Value(nil), l...), nulls...))
			}
		}
		return out, nil
	}
	return nil, unsupported("FROM item %s", describe(item))
}

func setRows(binds []*binding, joined [][]Value) {
	for i, b := range binds {
		b.row = joined[i]
	}
}

// walkExpr visits e and its sub-expressions (not the bodies of subqueries); visit returns false to skip the children.
func walkExpr(e Expr, visit func(Expr) bool) {
	if e == nil || !visit(e) {
		return
	}
	var kids []Expr
	switch x := e.(type) {
	case *FuncCall:
		kids = x.Args
	case *Unary:
		kids = []Expr{x.X}
	case *Binary:
		kids = []Expr{x.L, x.R}
	case *IsNull:
		kids = []Expr{x.X}
	case *Cast:
		kids = []Expr{x.X}
	case *FieldSel:
		kids = []Expr{x.X}
	case *RowCtor:
		kids = x.Fields
	case *AnyOp:
		kids = []Expr{x.L, x.R}
	case *Case:
		kids = []Expr{x.Operand, x.Else}
		for _, w := range x.Whens {
			kids = append(kids, w.Cond, w.Then)
		}
	}
	for _, k := range kids {
		walkExpr(k, visit)
	}
}

// collectAggs finds the aggregate calls of this query level.
func (s *session) collectAggs(e Expr, out *[]*FuncCall) {
	walkExpr(e, func(n Expr) bool {
		if fc, ok := n.(*FuncCall); ok && s.isAggregate(fc) {
			*out = append(*out, fc)
			return false
		}
		return true
	})
}

// exprName derives the output column name of an unaliased select item.
func exprName(e Expr) string {
	switch x := e.(type) {
	case *Ident:
		return x.Parts[len(x.Parts)-1]
	case *FuncCall:
		return x.Name
	case *Cast:
		if n := exprName(x.X); n != "?column?" {
			return n
		}
		return x.To.Name
	case *FieldSel:
		return x.Field
	case *Case:
		return "case"
	case *Exists:
		return "exists"
	case *Subquery:
		if len(x.Sel.Items) == 1 && !x.Sel.Items[0].Star {
			if x.Sel.Items[0].Alias != "" {
				return x.Sel.Items[0].Alias
			}
			return exprName(x.Sel.Items[0].Expr)
		}
	case *RowCtor:
		return "row"
	case *Literal:
		if _, isBool := x.Val.(bool); isBool {
			return "bool"
		}
	}
	return "?column?"
}

// execCore evaluates one SELECT arm: FROM, WHERE, aggregates / select list, ORDER BY, OFFSET, LIMIT.
func (s *session) execCore(sel *Select, outer *scope) (*resultSet, error) {
	if sel.With != nil || sel.DistinctOn != nil || sel.GroupBy != nil { // phase-2 guard, removed once executed
		return nil, unsupported("WITH / DISTINCT ON / GROUP BY")
	}
	q := &scope{outer: outer, queryLevel: true}
	joined := [][][]Value{{}} // no FROM: a single empty row
	for _, item := range sel.From {
		fr, err := s.evalFrom(item, outer, q.binds)
		if err != nil {
			return nil, err
		}
		for _, nb := range fr.binds {
			for _, b := range q.binds {
				if b.alias == nb.alias {
					return nil, pgError("table name %q specified more than once", nb.alias)
				}
			}
		}
		q.binds = append(q.binds, fr.binds...)
		var product [][][]Value
		for _, l := range joined {
			for _, r := range fr.rows {
				product = append(product, append(append([][]Value(nil), l...), r...))
			}
		}
		joined = product
	}
	if sel.Where != nil {
		kept := joined[:0:0]
		for _, jr := range joined {
			setRows(q.binds, jr)
			ok, err := s.isTrue(sel.Where, q)
			if err != nil {
				return nil, err
			}
			if ok {
				kept = append(kept, jr)
			}
		}
		joined = kept
	}

	// output columns
	res := &resultSet{}
	type outCol struct {
		expr Expr     // nil for a star column
		bind *binding // star column source
		idx  int
		srf  bool
	}
	var outs []outCol
	for _, it := range sel.Items {
		if !it.Star {
			name := it.Alias
			if name == "" {
				name = exprName(it.Expr)
			}
			fc, isCall := it.Expr.(*FuncCall)
			outs = append(outs, outCol{expr: it.Expr, srf: isCall && s.isSRF(fc)})
			res.cols = append(res.cols, name)
			continue
		}
		found := false
		for _, b := range q.binds {
			if it.Qualifier != "" && b.alias != it.Qualifier {
				continue
			}
			found = true
			for i, c := range b.cols {
				outs = append(outs, outCol{bind: b, idx: i})
				res.cols = append(res.cols, c)
			}
		}
		if !found {
			if it.Qualifier == "" {
				return nil, pgError("SELECT * with no tables specified is not valid")
			}
			return nil, pgError("missing FROM-clause entry for table %q", it.Qualifier)
		}
	}

	// aggregate query (no GROUP BY): exactly one output row
	var aggCalls []*FuncCall
	for _, it := range sel.Items {
		s.collectAggs(it.Expr, &aggCalls)
	}
	for _, k := range sel.OrderBy {
		s.collectAggs(k.Expr, &aggCalls)
	}
	type sortRow struct{ out, keys []Value }
	var produced []sortRow
	if len(aggCalls) > 0 {
		q.aggs = map[*FuncCall]Value{}
		for _, fc := range aggCalls {
			if len(fc.Args) > 1 || (len(fc.Args) == 0) != fc.Star {
				return nil, pgError("function %s with %d arguments does not exist", fc.Name, len(fc.Args))
			}
			inputs := make([]Value, 0, len(joined))
			for _, jr := range joined {
				setRows(q.binds, jr)
				var v Value
				if !fc.Star {
					var err error
					if v, err = s.eval(fc.Args[0], q); err != nil {
						return nil, err
					}
				}
				inputs = append(inputs, v)
			}
			v, err := s.aggregate(fc, inputs)
			if err != nil {
				return nil, err
			}
			q.aggs[fc] = v
		}
		q.grouped = true
		row := make([]Value, len(outs))
		for i, oc := range outs {
			if oc.expr == nil {
				return nil, pgError("column %q must appear in the GROUP BY clause or be used in an aggregate function", res.cols[i])
			}
			if oc.srf {
				return nil, unsupported("set-returning function in an aggregate query")
			}
			var err error
			if row[i], err = s.eval(oc.expr, q); err != nil {
				return nil, err
			}
		}
		produced = []sortRow{{out: row}}
	} else {
		for n, jr := range joined {
			setRows(q.binds, jr)
			q.rowNumber = int64(n + 1)
			row := make([]Value, len(outs))
			var sets []*resultSet // set-returning select items, expanded in lockstep
			var setCols []int
			for i, oc := range outs {
				var err error
				switch {
				case oc.expr == nil:
					row[i] = oc.bind.row[oc.idx]
				case oc.srf:
					set, scalar, err := s.evalSRF(oc.expr.(*FuncCall), q)
					if err != nil {
						return nil, err
					}
					if !scalar {
						return nil, unsupported("composite set-returning function in a select list")
					}
					sets, setCols = append(sets, set), append(setCols, i)
				default:
					if row[i], err = s.eval(oc.expr, q); err != nil {
						return nil, err
					}
				}
			}
			keys, err := s.orderKeys(sel, q, res.cols, row, len(sets) > 0)
			if err != nil {
				return nil, err
			}
			if len(sets) == 0 {
				produced = append(produced, sortRow{out: row, keys: keys})
				continue
			}
			longest := 0
			for _, set := range sets {
				if len(set.rows) > longest {
					longest = len(set.rows)
				}
			}
			for k := 0; k < longest; k++ {
				expanded := append([]Value(nil), row...)
				for j, set := range sets {
					if k < len(set.rows) {
						expanded[setCols[j]] = set.rows[k][0]
					}
				}
				produced = append(produced, sortRow{out: expanded, keys: keys})
			}
		}
		if len(sel.OrderBy) > 0 {
			var sortErr error
			sort.SliceStable(produced, func(i, j int) bool {
				for k, key := range sel.OrderBy {
					a, b := produced[i].keys[k], produced[j].keys[k]
					c := 0
					switch {
					case a == nil && b == nil:
					case a == nil:
						c = 1 // NULL sorts as larger than any value
					case b == nil:
						c = -1
					default:
						var err error
						if c, err = compareValues(a, b); err != nil && sortErr == nil {
							sortErr = err
						}
					}
					if key.Desc {
						c = -c
					}
					if c != 0 {
						return c < 0
					}
				}
				return false
			})
			if sortErr != nil {
				return nil, sortErr
			}
		}
	}

	// OFFSET / LIMIT
	bound := func(e Expr, what string) (int, bool, error) {
		if e == nil {
			return 0, false, nil
		}
		v, err := s.eval(e, outer)
		if err != nil || v == nil {
			return 0, false, err
		}
		if lit, isLit := e.(*StringLit); isLit {
			if v, err = s.cast(lit.Val, Type{Name: "bigint"}, castIO); err != nil {
				return 0, false, err
			}
		}
		if !isNumber(v) {
			return 0, false, pgError("argument of %s must be type bigint, not type %s", what, typeNameOf(v))
		}
		n := toBig(v)
		if n.Sign() < 0 {
			return 0, false, pgError("%s must not be negative", what)
		}
		if !n.IsInt64() || n.Int64() > int64(len(produced)) {
			return len(produced), true, nil
		}
		return int(n.Int64()), true, nil
	}
	if off, ok, err := bound(sel.Offset, "OFFSET"); err != nil {
		return nil, err
	} else if ok {
		produced = produced[off:]
	}
	if lim, ok, err := bound(sel.Limit, "LIMIT"); err != nil {
		return nil, err
	} else if ok && lim < len(produced) {
		produced = produced[:lim]
	}
	for _, pr := range produced {
		res.rows = append(res.rows, pr.out)
	}
	return res, nil
}

// orderKeys evaluates the ORDER BY keys for the current row: a bare name matching exactly one output column (or an
// output position) refers to the output; everything else is an expression over the input columns.
func (s *session) orderKeys(sel *Select, q *scope, cols []string, row []Value, hasSets bool) ([]Value, error) {
	if len(sel.OrderBy) == 0 {
		return nil, nil
	}
	keys := make([]Value, len(sel.OrderBy))
	for i, k := range sel.OrderBy {
		if id, ok := k.Expr.(*Ident); ok && len(id.Parts) == 1 {
			matches, at := 0, 0
			for c, name := range cols {
				if name == id.Parts[0] {
					matches++
					at = c
				}
			}
			if matches > 1 {
				return nil, unsupported("ORDER BY name %q matching several output columns", id.Parts[0])
			}
			if matches == 1 {
				if hasSets {
					return nil, unsupported("ORDER BY over a set-returning select list")
				}
				keys[i] = row[at]
				continue
			}
		}
		if lit, ok := k.Expr.(*Literal); ok {
			n, isInt := lit.Val.(int64)
			if !isInt || n < 1 || int(n) > len(row) {
				return nil, pgError("ORDER BY position is not in select list")
			}
			keys[i] = row[n-1]
			continue
		}
		if _, ok := k.Expr.(*StringLit); ok {
			return nil, unsupported("ORDER BY a constant")
		}
		var err error
		if keys[i], err = s.eval(k.Expr, q); err != nil {
			return nil, err
		}
	}
	return keys, nil
}
