package pgmini

// resultSet is the internal result of a query.
type resultSet struct {
	cols    []string
	rows    [][]Value
	rowType string // composite type of a row, when known (setof <composite> functions)
	tag     int64  // rows affected by DML
}

// execTop runs a top-level statement.
func (s *session) execTop(st Stmt) (*Rows, error) {
	switch st.(type) {
	case *Select, *Insert, *Update:
		res, err := s.execStmt(st, nil)
		if err != nil {
			return nil, err
		}
		return &Rows{Cols: res.cols, raw: res.rows, tag: res.tag}, nil
	case *CopyFrom:
		return nil, unsupported("COPY through Query (use CopyIn or the database/sql driver)")
	}
	return &Rows{}, s.execDDL(st)
}

// execStmt runs a SELECT / INSERT / UPDATE with `outer` as the enclosing scope (function variables).
func (s *session) execStmt(st Stmt, outer *scope) (*resultSet, error) {
	switch x := st.(type) {
	case *Select:
		return s.execSelect(x, outer)
	case *Insert:
		return s.execInsert(x, outer)
	case *Update:
		return s.execUpdate(x, outer)
	}
	return nil, unsupported("statement %s inside a function", describe(st))
}

func (s *session) execSelect(sel *Select, outer *scope) (*resultSet, error) {
	if sel.With != nil {
		env, err := s.bindCTEs(sel, outer)
		if err != nil {
			return nil, err
		}
		outer = env
	}
	res, err := s.execCore(sel, outer)
	if err != nil {
		return nil, err
	}
	for arm := sel.UnionAll; arm != nil; arm = arm.UnionAll {
		more, err := s.execCore(arm, outer)
		if err != nil {
			return nil, err
		}
		if len(more.cols) != len(res.cols) {
			return nil, pgError("each UNION query must have the same number of columns")
		}
		res.rows = append(res.rows, more.rows...)
	}
	return res, nil
}

// walkExpr visits e and its sub-expressions (not the bodies of subqueries); visit returns false to skip the children.
func walkExpr(e Expr, visit func(Expr) bool) {
	if e == nil || !visit(e) {
		return
	}
	var kids []Expr
	switch x := e.(type) {
	case *FuncCall:
		kids = x.Args
	case *Unary:
		kids = []Expr{x.X}
	case *Binary:
		kids = []Expr{x.L, x.R}
	case *IsNull:
		kids = []Expr{x.X}
	case *Cast:
		kids = []Expr{x.X}
	case *FieldSel:
		kids = []Expr{x.X}
	case *RowCtor:
		kids = x.Fields
	case *AnyOp:
		kids = []Expr{x.L, x.R}
	case *Case:
		kids = []Expr{x.Operand, x.Else}
		for _, w := range x.Whens {
			kids = append(kids, w.Cond, w.Then)
		}
	}
	for _, k := range kids {
		walkExpr(k, visit)
	}
}

// collectAggs finds the aggregate calls of this query level.
func (s *session) collectAggs(e Expr, out *[]*FuncCall) {
	walkExpr(e, func(n Expr) bool {
		if fc, ok := n.(*FuncCall); ok && s.isAggregate(fc) {
			*out = append(*out, fc)
			return false
		}
		return true
	})
}

// exprName derives the output column name of an unaliased select item.
func exprName(e Expr) string {
	switch x := e.(type) {
	case *Ident:
		return x.Parts[len(x.Parts)-1]
	case *FuncCall:
		return x.Name
	case *Cast:
		if n := exprName(x.X); n != "?column?" {
			return n
		}
		return x.To.Name
	case *FieldSel:
		return x.Field
	case *Case:
		// PostgreSQL (FigureColname): a CASE takes the name of its ELSE result when that is a column or function, else "case"
		switch x.Else.(type) {
		case *Ident, *FuncCall, *FieldSel:
			return exprName(x.Else)
		}
		return "case"
	case *Exists:
		return "exists"
	case *Subquery:
		if len(x.Sel.Items) == 1 && !x.Sel.Items[0].Star {
			if x.Sel.Items[0].Alias != "" {
				return x.Sel.Items[0].Alias
			}
			return exprName(x.Sel.Items[0].Expr)
		}
	case *RowCtor:
		return "row"
	case *Literal:
		if _, isBool := x.Val.(bool); isBool {
			return "bool"
		}
	}
	return "?column?"
}
