// Package memstore: command.Store with the contract of the real (PostgreSQL) store:
// InsertLogs is one atomic step, reads see exactly the completed batches, derived state is a fold of the persisted log.
package memstore

import (
	"context"
	"crypto/sha256"
	"encoding/json"
	"fmt"
	"math/big"
	"sync"

	ledger "github.com/formancehq/ledger/internal"
	"github.com/formancehq/ledger/internal/storage/sqlutils"
	"github.com/formancehq/stack/libs/go-libs/metadata"
)

type Store struct {
	mu       sync.Mutex
	Logs     []*ledger.ChainedLog   // persisted entries in arrival order
	Batches  [][]*ledger.ChainedLog // batches as received
	Attempts int                    // InsertLogs calls (including failed ones)
	// Hook is called at the start of every store operation (scheduling point); a non-nil error fails the operation.
	Hook  func(op string) error
	Reads []string // read operations served, for diagnostics
	// Rejected: batches refused because they violate a uniqueness constraint of the schema (duplicate log id)
	Rejected []string
}

func New() *Store { return &Store{} }

func (s *Store) hook(op string) error {
	if s.Hook != nil {
		return s.Hook(op)
	}
	return nil
}

// hookCtx: a read - the scheduling / fault point first, then what database/sql does with a context that is already done
// (the statement is not run, the context's error is returned)
func (s *Store) hookCtx(ctx context.Context, op string) error {
	if err := s.hook(op); err != nil {
		return err
	}
	return ctx.Err()
}

// Seed persists logs directly (setup; no hook).
func (s *Store) Seed(logs ...*ledger.Log) {
	for _, l := range logs {
		var prev *ledger.ChainedLog
		if n := len(s.Logs); n > 0 {
			prev = s.Logs[n-1]
		}
		s.Logs = append(s.Logs, l.ChainLog(prev))
	}
}

func (s *Store) Len() int {
	s.mu.Lock()
	defer s.mu.Unlock()
	return len(s.Logs)
}

func (s *Store) Snapshot() []*ledger.ChainedLog {
	s.mu.Lock()
	defer s.mu.Unlock()
	return append([]*ledger.ChainedLog{}, s.Logs...)
}

func (s *Store) InsertLogs(ctx context.Context, logs ...*ledger.ChainedLog) error {
	s.mu.Lock()
	s.Attempts++
	s.mu.Unlock()
	if err := s.hook(fmt.Sprintf("InsertLogs n=%d", len(logs))); err != nil {
		return err
	}
	s.mu.Lock()
	defer s.mu.Unlock()
	// unique (ledger,id) and unique idempotency key, as the schema enforces: a violation aborts the whole batch
	ids := map[string]bool{}
	iks := map[string]bool{}
	for _, l := range s.Logs {
		ids[l.ID.String()] = true
		if l.IdempotencyKey != "" {
			iks[l.IdempotencyKey] = true
		}
	}
	for _, l := range logs {
		if ids[l.ID.String()] {
			s.Rejected = append(s.Rejected, fmt.Sprintf("log id %s already exists", l.ID))
			return fmt.Errorf("duplicate key value violates unique constraint logs(id): %s", l.ID)
		}
		ids[l.ID.String()] = true
	}
	// the real store serialises every entry inside this call: what is persisted is the content at this instant, whatever
	// the engine does to the objects afterwards
	cp := make([]*ledger.ChainedLog, len(logs))
	for i, l := range logs {
		cp[i] = deepCopyLog(l)
	}
	s.Logs = append(s.Logs, cp...)
	s.Batches = append(s.Batches, cp)
	return nil
}

type txState struct {
	tx ledger.Transaction
}

type fold struct {
	txs      map[string]*ledger.Transaction
	order    []string
	accMeta  map[string]metadata.Metadata
	balances map[string]*big.Int
}

func cpMeta(m metadata.Metadata) metadata.Metadata {
	out := metadata.Metadata{}
	for k, v := range m {
		out[k] = v
	}
	return out
}

func cpTx(t *ledger.Transaction) *ledger.Transaction {
	c := *t
	c.Postings = append(ledger.Postings{}, t.Postings...)
	c.Metadata = cpMeta(t.Metadata)
	c.ID = new(big.Int).Set(t.ID)
	return &c
}

func idKey(v any) string {
	switch x := v.(type) {
	case *big.Int:
		return x.String()
	default:
		return fmt.Sprint(x)
	}
}

// Fold replays logs (arrival order) into transactions, account metadata and balances.
func Fold(logs []*ledger.ChainedLog) *fold {
	f := &fold{txs: map[string]*ledger.Transaction{}, accMeta: map[string]metadata.Metadata{}, balances: map[string]*big.Int{}}
	addTx := func(t *ledger.Transaction) {
		k := t.ID.String()
		f.txs[k] = cpTx(t)
		f.order = append(f.order, k)
		for _, p := range t.Postings {
			sk, dk := p.Source+"|"+p.Asset, p.Destination+"|"+p.Asset
			if f.balances[sk] == nil {
				f.balances[sk] = new(big.Int)
			}
			if f.balances[dk] == nil {
				f.balances[dk] = new(big.Int)
			}
			f.balances[sk].Sub(f.balances[sk], p.Amount)
			f.balances[dk].Add(f.balances[dk], p.Amount)
		}
	}
	setAcc := func(acc string, m metadata.Metadata) {
		if f.accMeta[acc] == nil {
			f.accMeta[acc] = metadata.Metadata{}
		}
		for k, v := range m {
			f.accMeta[acc][k] = v
		}
	}
	for _, l := range logs {
		switch p := l.Data.(type) {
		case ledger.NewTransactionLogPayload:
			addTx(p.Transaction)
			for acc, m := range p.AccountMetadata {
				setAcc(acc, m)
			}
		case ledger.RevertedTransactionLogPayload:
			if t, ok := f.txs[p.RevertedTransactionID.String()]; ok {
				t.Reverted = true
			}
			addTx(p.RevertTransaction)
		case ledger.SetMetadataLogPayload:
			if p.TargetType == ledger.MetaTargetTypeAccount {
				setAcc(idKey(p.TargetID), p.Metadata)
			} else if t, ok := f.txs[idKey(p.TargetID)]; ok {
				for k, v := range p.Metadata {
					t.Metadata[k] = v
				}
			}
		case ledger.DeleteMetadataLogPayload:
			if p.TargetType == ledger.MetaTargetTypeAccount {
				delete(f.accMeta[idKey(p.TargetID)], p.Key)
			} else if t, ok := f.txs[idKey(p.TargetID)]; ok {
				delete(t.Metadata, p.Key)
			}
		}
	}
	return f
}

func (f *fold) Balance(acc, asset string) *big.Int {
	if b, ok := f.balances[acc+"|"+asset]; ok {
		return new(big.Int).Set(b)
	}
	return new(big.Int)
}

func (f *fold) Tx(id string) *ledger.Transaction { return f.txs[id] }
func (f *fold) TxIDs() []string                  { return f.order }
func (f *fold) AccountMeta(acc string) metadata.Metadata {
	return cpMeta(f.accMeta[acc])
}
func (f *fold) Balances() map[string]*big.Int { return f.balances }

func (s *Store) fold() *fold {
	s.mu.Lock()
	logs := append([]*ledger.ChainedLog{}, s.Logs...)
	s.mu.Unlock()
	return Fold(logs)
}

func (s *Store) GetBalance(ctx context.Context, address, asset string) (*big.Int, error) {
	if err := s.hookCtx(ctx, "GetBalance " + address + " " + asset); err != nil {
		return nil, err
	}
	return s.fold().Balance(address, asset), nil
}

func (s *Store) GetAccount(ctx context.Context, address string) (*ledger.Account, error) {
	if err := s.hookCtx(ctx, "GetAccount " + address); err != nil {
		return nil, err
	}
	return &ledger.Account{Address: address, Metadata: s.fold().AccountMeta(address)}, nil
}

func (s *Store) GetLastLog(ctx context.Context) (*ledger.ChainedLog, error) {
	if err := s.hookCtx(ctx, "GetLastLog"); err != nil {
		return nil, err
	}
	s.mu.Lock()
	defer s.mu.Unlock()
	var best *ledger.ChainedLog
	for _, l := range s.Logs {
		if best == nil || l.ID.Cmp(best.ID) > 0 {
			best = l
		}
	}
	if best == nil {
		return nil, sqlutils.ErrNotFound
	}
	c := *best
	return &c, nil
}

func (s *Store) GetLastTransaction(ctx context.Context) (*ledger.ExpandedTransaction, error) {
	if err := s.hookCtx(ctx, "GetLastTransaction"); err != nil {
		return nil, err
	}
	f := s.fold()
	var best *ledger.Transaction
	for _, t := range f.txs {
		if best == nil || t.ID.Cmp(best.ID) > 0 {
			best = t
		}
	}
	if best == nil {
		return nil, sqlutils.ErrNotFound
	}
	return &ledger.ExpandedTransaction{Transaction: *cpTx(best)}, nil
}

func (s *Store) ReadLogWithIdempotencyKey(ctx context.Context, key string) (*ledger.ChainedLog, error) {
	if err := s.hookCtx(ctx, "ReadLogWithIdempotencyKey " + key); err != nil {
		return nil, err
	}
	s.mu.Lock()
	defer s.mu.Unlock()
	var best *ledger.ChainedLog
	for _, l := range s.Logs {
		if l.IdempotencyKey == key && (best == nil || l.ID.Cmp(best.ID) > 0) {
			best = l
		}
	}
	if best == nil {
		return nil, sqlutils.ErrNotFound
	}
	c := *best
	return &c, nil
}

func (s *Store) GetTransactionByReference(ctx context.Context, ref string) (*ledger.ExpandedTransaction, error) {
	if err := s.hookCtx(ctx, "GetTransactionByReference " + ref); err != nil {
		return nil, err
	}
	f := s.fold()
	for _, k := range f.order {
		if t := f.txs[k]; t.Reference == ref {
			return &ledger.ExpandedTransaction{Transaction: *cpTx(t)}, nil
		}
	}
	return nil, sqlutils.ErrNotFound
}

func (s *Store) GetTransaction(ctx context.Context, txID *big.Int) (*ledger.Transaction, error) {
	if err := s.hookCtx(ctx, "GetTransaction " + txID.String()); err != nil {
		return nil, err
	}
	f := s.fold()
	if t, ok := f.txs[txID.String()]; ok {
		return cpTx(t), nil
	}
	return nil, sqlutils.ErrNotFound
}

func cpBig(n *big.Int) *big.Int {
	if n == nil {
		return nil
	}
	return new(big.Int).Set(n)
}

func deepTx(t *ledger.Transaction) *ledger.Transaction {
	if t == nil {
		return nil
	}
	c := *t
	c.ID = cpBig(t.ID)
	c.Metadata = cpMeta(t.Metadata)
	if t.Metadata == nil {
		c.Metadata = nil
	}
	c.Postings = make(ledger.Postings, len(t.Postings))
	for i, p := range t.Postings {
		c.Postings[i] = ledger.Posting{Source: p.Source, Destination: p.Destination, Asset: p.Asset, Amount: cpBig(p.Amount)}
	}
	if t.Postings == nil {
		c.Postings = nil
	}
	return &c
}

func cpTarget(v any) any {
	if n, ok := v.(*big.Int); ok {
		return cpBig(n)
	}
	return v
}

// deepCopyLog: a copy that shares no mutable object with the original
func deepCopyLog(l *ledger.ChainedLog) *ledger.ChainedLog {
	c := *l
	c.ID = cpBig(l.ID)
	c.Hash = append([]byte(nil), l.Hash...)
	switch p := l.Data.(type) {
	case ledger.NewTransactionLogPayload:
		am := ledger.AccountMetadata(nil)
		if p.AccountMetadata != nil {
			am = ledger.AccountMetadata{}
			for k, v := range p.AccountMetadata {
				am[k] = cpMeta(v)
			}
		}
		c.Data = ledger.NewTransactionLogPayload{Transaction: deepTx(p.Transaction), AccountMetadata: am}
	case ledger.RevertedTransactionLogPayload:
		c.Data = ledger.RevertedTransactionLogPayload{RevertedTransactionID: cpBig(p.RevertedTransactionID), RevertTransaction: deepTx(p.RevertTransaction)}
	case ledger.SetMetadataLogPayload:
		md := cpMeta(p.Metadata)
		if p.Metadata == nil {
			md = nil
		}
		c.Data = ledger.SetMetadataLogPayload{TargetType: p.TargetType, TargetID: cpTarget(p.TargetID), Metadata: md}
	case ledger.DeleteMetadataLogPayload:
		c.Data = ledger.DeleteMetadataLogPayload{TargetType: p.TargetType, TargetID: cpTarget(p.TargetID), Key: p.Key}
	}
	return &c
}

// SpecHash: the digest the chain is defined by, written out independently of Log.ChainLog / ComputeHash: SHA-256 over the
// JSON of the previous entry's hash (when there is one) followed by the JSON of the entry with id 0 and no hash, each ended
// by a line feed. Only the payload ("data") is rendered by the repository's own marshalling.
func SpecHash(prev *ledger.ChainedLog, l *ledger.ChainedLog) []byte {
	type entry struct {
		Type           ledger.LogType `json:"type"`
		Data           any            `json:"data"`
		Date           ledger.Time    `json:"date"`
		IdempotencyKey string         `json:"idempotencyKey"`
		ID             *big.Int       `json:"id"`
		Hash           []byte         `json:"hash"`
	}
	h := sha256.New()
	enc := json.NewEncoder(h)
	if prev != nil {
		_ = enc.Encode(prev.Hash)
	}
	_ = enc.Encode(entry{Type: l.Type, Data: l.Data, Date: l.Date, IdempotencyKey: l.IdempotencyKey, ID: big.NewInt(0)})
	return h.Sum(nil)
}
