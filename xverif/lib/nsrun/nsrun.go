// Package nsrun runs a Numscript text + input on the repository's compiler and VM and classifies the outcome.
package nsrun

import (
	"context"
	"errors"
	"fmt"
	"math/big"
	"runtime/debug"

	ledger "github.com/formancehq/ledger/internal"
	"github.com/formancehq/ledger/internal/machine"
	"github.com/formancehq/ledger/internal/machine/script/compiler"
	"github.com/formancehq/ledger/internal/machine/vm"
	"github.com/formancehq/ledger/internal/machine/vm/program"
	"github.com/formancehq/ledger/xverif/lib/nsgen"
	"github.com/formancehq/stack/libs/go-libs/metadata"
)

type Store struct {
	In       *nsgen.Input
	Served   map[string]*big.Int // balances actually served, acc|asset
}

func (s *Store) GetBalance(ctx context.Context, address, asset string) (*big.Int, error) {
	b := s.In.Balance(address, asset)
	if s.Served != nil {
		s.Served[address+"|"+asset] = b
	}
	return new(big.Int).Set(b), nil
}

func (s *Store) GetAccount(ctx context.Context, address string) (*ledger.Account, error) {
	md := metadata.Metadata{}
	for k, v := range s.In.Meta[address] {
		md[k] = v
	}
	return &ledger.Account{Address: address, Metadata: md}, nil
}

type Result struct {
	Class    string
	Phase    string // compile | vars | resources | balances | run
	Err      string
	Panic    string
	Stack    string
	Postings []nsgen.Posting
	TxMeta   map[string]string
	AccMeta  map[string]map[string]string
	Served   map[string]*big.Int
	IsInsufficient bool
}

func classify(err error) string {
	switch {
	case machine.IsInsufficientFundError(err):
		return nsgen.ClsInsufficient
	case errors.Is(err, &machine.ErrInvalidScript{}):
		return nsgen.ClsInvalidScript
	case errors.Is(err, &machine.ErrNegativeAmount{}):
		return nsgen.ClsNegBalance
	case errors.Is(err, &machine.ErrMissingMetadata{}):
		return nsgen.ClsMissingMeta
	case errors.Is(err, &machine.ErrInvalidVars{}):
		return nsgen.ClsInvalidVars
	case machine.IsMetadataOverride(err):
		return nsgen.ClsMetaOverride
	case errors.Is(err, machine.ErrScriptFailed):
		return nsgen.ClsFail
	}
	return nsgen.ClsOther
}

func discardPrinter(c chan machine.Value) {
	for range c {
	}
}

// CompileFn lets callers route compilation through the engine's cache.
type CompileFn func(string) (*program.Program, error)

func Run(text string, in *nsgen.Input) *Result {
	return RunWith(compiler.Compile, text, in)
}

// Compiled is the outcome of the compile phase (kept so many inputs can run on one compiled program).
type Compiled struct {
	Text string
	Prog *program.Program
	Fail *Result
}

func Compile(compile CompileFn, text string) (c *Compiled) {
	c = &Compiled{Text: text}
	defer func() {
		if e := recover(); e != nil {
			c.Fail = &Result{Class: nsgen.ClsPanic, Phase: "compile", Panic: fmt.Sprint(e), Stack: string(debug.Stack())}
		}
	}()
	prog, err := compile(text)
	if err != nil {
		c.Fail = &Result{Class: nsgen.ClsCompile, Phase: "compile", Err: err.Error()}
		return c
	}
	c.Prog = prog
	return c
}

func RunWith(compile CompileFn, text string, in *nsgen.Input) (res *Result) {
	return Compile(compile, text).Exec(in)
}

func (c *Compiled) Exec(in *nsgen.Input) (res *Result) {
	if c.Fail != nil {
		return c.Fail
	}
	text, prog := c.Text, c.Prog
	res = &Result{}
	defer func() {
		if e := recover(); e != nil {
			res.Class = nsgen.ClsPanic
			res.Panic = fmt.Sprint(e)
			res.Stack = string(debug.Stack())
		}
	}()
	m := vm.NewMachine(*prog)
	m.Printer = discardPrinter
	res.Phase = "vars"
	vars := map[string]string{}
	for k, v := range in.Vars {
		vars[k] = v
	}
	if err := m.SetVarsFromJSON(vars); err != nil {
		res.Class = classify(err)
		res.Err = err.Error()
		return res
	}
	st := &Store{In: in, Served: map[string]*big.Int{}}
	res.Served = st.Served
	res.Phase = "resources"
	if _, _, err := m.ResolveResources(context.Background(), st); err != nil {
		res.Class = classify(err)
		res.Err = err.Error()
		return res
	}
	res.Phase = "balances"
	if err := m.ResolveBalances(context.Background(), st); err != nil {
		res.Class = classify(err)
		res.Err = err.Error()
		return res
	}
	res.Phase = "run"
	md := metadata.Metadata{}
	for k, v := range in.ReqMeta {
		md[k] = v
	}
	r, err := vm.Run(m, ledger.RunScript{Script: ledger.Script{Plain: text, Vars: vars}, Metadata: md})
	if err != nil {
		res.Class = classify(err)
		res.IsInsufficient = machine.IsInsufficientFundError(err)
		res.Err = err.Error()
		return res
	}
	res.Class = nsgen.ClsOK
	for _, p := range r.Postings {
		res.Postings = append(res.Postings, nsgen.Posting{Src: p.Source, Dst: p.Destination, Asset: p.Asset, Amt: new(big.Int).Set(p.Amount)})
	}
	res.TxMeta = map[string]string{}
	for k, v := range r.Metadata {
		res.TxMeta[k] = v
	}
	res.AccMeta = map[string]map[string]string{}
	for a, mm := range r.AccountMetadata {
		res.AccMeta[a] = map[string]string{}
		for k, v := range mm {
			res.AccMeta[a][k] = v
		}
	}
	return res
}

// Stepper runs the five public phases one at a time so two executions can be interleaved.
type Stepper struct {
	c     *Compiled
	in    *nsgen.Input
	m     *vm.Machine
	st    *Store
	vars  map[string]string
	phase int
	Res   *Result
}

func (c *Compiled) Stepper(in *nsgen.Input) *Stepper {
	return &Stepper{c: c, in: in, Res: &Result{}}
}

// Step executes the next phase; returns true when the execution is finished.
func (s *Stepper) Step() (done bool) {
	if s.c.Fail != nil {
		s.Res = s.c.Fail
		return true
	}
	res := s.Res
	defer func() {
		if e := recover(); e != nil {
			res.Class = nsgen.ClsPanic
			res.Panic = fmt.Sprint(e)
			res.Stack = string(debug.Stack())
			done = true
		}
	}()
	fail := func(err error) bool {
		res.Class = classify(err)
		res.Err = err.Error()
		res.IsInsufficient = machine.IsInsufficientFundError(err)
		return true
	}
	s.phase++
	switch s.phase {
	case 1:
		s.m = vm.NewMachine(*s.c.Prog)
		s.m.Printer = discardPrinter
	case 2:
		res.Phase = "vars"
		s.vars = map[string]string{}
		for k, v := range s.in.Vars {
			s.vars[k] = v
		}
		if err := s.m.SetVarsFromJSON(s.vars); err != nil {
			return fail(err)
		}
	case 3:
		res.Phase = "resources"
		s.st = &Store{In: s.in, Served: map[string]*big.Int{}}
		if _, _, err := s.m.ResolveResources(context.Background(), s.st); err != nil {
			return fail(err)
		}
	case 4:
		res.Phase = "balances"
		if err := s.m.ResolveBalances(context.Background(), s.st); err != nil {
			return fail(err)
		}
	case 5:
		res.Phase = "run"
		md := metadata.Metadata{}
		for k, v := range s.in.ReqMeta {
			md[k] = v
		}
		r, err := vm.Run(s.m, ledger.RunScript{Script: ledger.Script{Plain: s.c.Text, Vars: s.vars}, Metadata: md})
		if err != nil {
			return fail(err)
		}
		res.Class = nsgen.ClsOK
		for _, p := range r.Postings {
			res.Postings = append(res.Postings, nsgen.Posting{Src: p.Source, Dst: p.Destination, Asset: p.Asset, Amt: new(big.Int).Set(p.Amount)})
		}
		res.TxMeta = map[string]string{}
		for k, v := range r.Metadata {
			res.TxMeta[k] = v
		}
		res.AccMeta = map[string]map[string]string{}
		for a, mm := range r.AccountMetadata {
			res.AccMeta[a] = map[string]string{}
			for k, v := range mm {
				res.AccMeta[a][k] = v
			}
		}
		return true
	}
	return false
}
