// Package recbackend: a recording backend.Backend / backend.Ledger for driving the real HTTP routers.
package recbackend

import (
	"context"
	"fmt"
	"math/big"
	"sync"

	ledger "github.com/formancehq/ledger/internal"
	"github.com/formancehq/ledger/internal/api/backend"
	"github.com/formancehq/ledger/internal/engine"
	"github.com/formancehq/ledger/internal/engine/command"
	"github.com/formancehq/ledger/internal/storage/driver"
	"github.com/formancehq/ledger/internal/storage/ledgerstore"
	"github.com/formancehq/ledger/internal/storage/sqlutils"
	"github.com/formancehq/ledger/internal/storage/systemstore"
	sharedapi "github.com/formancehq/stack/libs/go-libs/api"
	"github.com/formancehq/stack/libs/go-libs/metadata"
	"github.com/formancehq/stack/libs/go-libs/migrations"
)

type Call struct {
	Method string
	Ledger string
	Args   string
}

// Writes is the write half of backend.Ledger (a real command.Commander satisfies it).
type Writes interface {
	CreateTransaction(ctx context.Context, parameters command.Parameters, data ledger.RunScript) (*ledger.Transaction, error)
	RevertTransaction(ctx context.Context, parameters command.Parameters, id *big.Int, force bool) (*ledger.Transaction, error)
	SaveMeta(ctx context.Context, parameters command.Parameters, targetType string, targetID any, m metadata.Metadata) error
	DeleteMetadata(ctx context.Context, parameters command.Parameters, targetType string, targetID any, key string) error
}

// Reads lets a check plug the real store in for list methods.
type Reads struct {
	GetAccountsWithVolumes    func(ctx context.Context, q ledgerstore.GetAccountsQuery) (*sharedapi.Cursor[ledger.ExpandedAccount], error)
	CountAccounts             func(ctx context.Context, q ledgerstore.GetAccountsQuery) (int, error)
	GetAggregatedBalances     func(ctx context.Context, q ledgerstore.GetAggregatedBalanceQuery) (ledger.BalancesByAssets, error)
	GetLogs                   func(ctx context.Context, q ledgerstore.GetLogsQuery) (*sharedapi.Cursor[ledger.ChainedLog], error)
	CountTransactions         func(ctx context.Context, q ledgerstore.GetTransactionsQuery) (int, error)
	GetTransactions           func(ctx context.Context, q ledgerstore.GetTransactionsQuery) (*sharedapi.Cursor[ledger.ExpandedTransaction], error)
	GetAccountWithVolumes     func(ctx context.Context, q ledgerstore.GetAccountQuery) (*ledger.ExpandedAccount, error)
	GetTransactionWithVolumes func(ctx context.Context, q ledgerstore.GetTransactionQuery) (*ledger.ExpandedTransaction, error)
}

type Ledger struct {
	Name string
	B    *Backend
	W    Writes
	R    Reads
	rSet bool
}

type Backend struct {
	mu       sync.Mutex
	Calls    []Call
	Ledgers  map[string]*Ledger // existing ledgers
	MkWrites func(name string) Writes
	R        Reads
	// AnyLedger: a ledger of any name exists
	AnyLedger bool
}

func New(existing ...string) *Backend {
	b := &Backend{Ledgers: map[string]*Ledger{}}
	for _, n := range existing {
		b.Ledgers[n] = &Ledger{Name: n, B: b}
	}
	return b
}

func (b *Backend) rec(method, l, args string) {
	b.mu.Lock()
	b.Calls = append(b.Calls, Call{method, l, args})
	b.mu.Unlock()
}

func (b *Backend) Reset() {
	b.mu.Lock()
	b.Calls = nil
	b.mu.Unlock()
}

func (b *Backend) Snapshot() []Call {
	b.mu.Lock()
	defer b.mu.Unlock()
	return append([]Call{}, b.Calls...)
}

var WriteMethods = map[string]bool{"CreateTransaction": true, "RevertTransaction": true, "SaveMeta": true, "DeleteMetadata": true}

func (b *Backend) WriteCalls() []Call {
	var out []Call
	for _, c := range b.Snapshot() {
		if WriteMethods[c.Method] {
			out = append(out, c)
		}
	}
	return out
}

func (b *Backend) GetLedgerEngine(ctx context.Context, name string) (backend.Ledger, error) {
	b.mu.Lock()
	l, ok := b.Ledgers[name]
	if !ok && b.AnyLedger {
		// every ledger name exists (names are not validated anywhere and the v1 API creates ledgers on first use)
		l = &Ledger{Name: name, B: b}
		b.Ledgers[name] = l
		ok = true
	}
	if ok && !l.rSet {
		l.R, l.rSet = b.R, true // once, under the lock: handlers read it without one
	}
	b.mu.Unlock()
	if !ok {
		return nil, sqlutils.ErrNotFound
	}
	return l, nil
}

func (b *Backend) GetLedger(ctx context.Context, name string) (*systemstore.Ledger, error) {
	b.mu.Lock()
	_, ok := b.Ledgers[name]
	b.mu.Unlock()
	if !ok {
		return nil, sqlutils.ErrNotFound
	}
	return &systemstore.Ledger{Name: name, Bucket: name}, nil
}

func (b *Backend) ListLedgers(ctx context.Context, query systemstore.ListLedgersQuery) (*sharedapi.Cursor[systemstore.Ledger], error) {
	return &sharedapi.Cursor[systemstore.Ledger]{Data: []systemstore.Ledger{}}, nil
}

func (b *Backend) CreateLedger(ctx context.Context, name string, configuration driver.LedgerConfiguration) error {
	b.rec("CreateLedger", name, "")
	b.mu.Lock()
	l := &Ledger{Name: name, B: b}
	if b.MkWrites != nil {
		l.W = b.MkWrites(name)
	}
	b.Ledgers[name] = l
	b.mu.Unlock()
	return nil
}

func (b *Backend) GetVersion() string { return "verif" }

var _ backend.Backend = (*Backend)(nil)
var _ backend.Ledger = (*Ledger)(nil)

func (l *Ledger) GetAccountWithVolumes(ctx context.Context, query ledgerstore.GetAccountQuery) (*ledger.ExpandedAccount, error) {
	l.B.rec("GetAccountWithVolumes", l.Name, "")
	if l.R.GetAccountWithVolumes != nil {
		return l.R.GetAccountWithVolumes(ctx, query)
	}
	a := ledger.NewExpandedAccount(query.Addr)
	return &a, nil
}

func (l *Ledger) GetAccountsWithVolumes(ctx context.Context, query ledgerstore.GetAccountsQuery) (*sharedapi.Cursor[ledger.ExpandedAccount], error) {
	l.B.rec("GetAccountsWithVolumes", l.Name, "")
	if l.R.GetAccountsWithVolumes != nil {
		return l.R.GetAccountsWithVolumes(ctx, query)
	}
	return &sharedapi.Cursor[ledger.ExpandedAccount]{Data: []ledger.ExpandedAccount{}}, nil
}

func (l *Ledger) CountAccounts(ctx context.Context, query ledgerstore.GetAccountsQuery) (int, error) {
	l.B.rec("CountAccounts", l.Name, "")
	if l.R.CountAccounts != nil {
		return l.R.CountAccounts(ctx, query)
	}
	return 0, nil
}

func (l *Ledger) GetAggregatedBalances(ctx context.Context, q ledgerstore.GetAggregatedBalanceQuery) (ledger.BalancesByAssets, error) {
	l.B.rec("GetAggregatedBalances", l.Name, "")
	if l.R.GetAggregatedBalances != nil {
		return l.R.GetAggregatedBalances(ctx, q)
	}
	return ledger.BalancesByAssets{}, nil
}

func (l *Ledger) GetMigrationsInfo(ctx context.Context) ([]migrations.Info, error) {
	l.B.rec("GetMigrationsInfo", l.Name, "")
	return nil, nil
}

func (l *Ledger) Stats(ctx context.Context) (engine.Stats, error) {
	l.B.rec("Stats", l.Name, "")
	return engine.Stats{}, nil
}

func (l *Ledger) GetLogs(ctx context.Context, query ledgerstore.GetLogsQuery) (*sharedapi.Cursor[ledger.ChainedLog], error) {
	l.B.rec("GetLogs", l.Name, "")
	if l.R.GetLogs != nil {
		return l.R.GetLogs(ctx, query)
	}
	return &sharedapi.Cursor[ledger.ChainedLog]{Data: []ledger.ChainedLog{}}, nil
}

func (l *Ledger) CountTransactions(ctx context.Context, query ledgerstore.GetTransactionsQuery) (int, error) {
	l.B.rec("CountTransactions", l.Name, "")
	if l.R.CountTransactions != nil {
		return l.R.CountTransactions(ctx, query)
	}
	return 0, nil
}

func (l *Ledger) GetTransactions(ctx context.Context, query ledgerstore.GetTransactionsQuery) (*sharedapi.Cursor[ledger.ExpandedTransaction], error) {
	l.B.rec("GetTransactions", l.Name, "")
	if l.R.GetTransactions != nil {
		return l.R.GetTransactions(ctx, query)
	}
	return &sharedapi.Cursor[ledger.ExpandedTransaction]{Data: []ledger.ExpandedTransaction{}}, nil
}

func (l *Ledger) GetTransactionWithVolumes(ctx context.Context, query ledgerstore.GetTransactionQuery) (*ledger.ExpandedTransaction, error) {
	l.B.rec("GetTransactionWithVolumes", l.Name, "")
	if l.R.GetTransactionWithVolumes != nil {
		return l.R.GetTransactionWithVolumes(ctx, query)
	}
	return &ledger.ExpandedTransaction{Transaction: *ledger.NewTransaction()}, nil
}

func (l *Ledger) CreateTransaction(ctx context.Context, parameters command.Parameters, data ledger.RunScript) (*ledger.Transaction, error) {
	l.B.rec("CreateTransaction", l.Name, fmt.Sprintf("dry=%v ik=%s ref=%s", parameters.DryRun, parameters.IdempotencyKey, data.Reference))
	if l.W != nil {
		// (errors of the engine reach the handlers wrapped, as engine.Ledger wraps them)
		tx, err := l.W.CreateTransaction(ctx, parameters, data)
		if err != nil {
			return nil, engine.NewCommandError(err)
		}
		return tx, nil
	}
	return ledger.NewTransaction(), nil
}

func (l *Ledger) RevertTransaction(ctx context.Context, parameters command.Parameters, id *big.Int, force bool) (*ledger.Transaction, error) {
	l.B.rec("RevertTransaction", l.Name, fmt.Sprintf("dry=%v ik=%s id=%v force=%v", parameters.DryRun, parameters.IdempotencyKey, id, force))
	if l.W != nil {
		tx, err := l.W.RevertTransaction(ctx, parameters, id, force)
		if err != nil {
			return nil, engine.NewCommandError(err)
		}
		return tx, nil
	}
	return ledger.NewTransaction(), nil
}

func (l *Ledger) SaveMeta(ctx context.Context, parameters command.Parameters, targetType string, targetID any, m metadata.Metadata) error {
	l.B.rec("SaveMeta", l.Name, fmt.Sprintf("dry=%v ik=%s %s %v", parameters.DryRun, parameters.IdempotencyKey, targetType, targetID))
	if l.W != nil {
		return engine.NewCommandError(l.W.SaveMeta(ctx, parameters, targetType, targetID, m))
	}
	return nil
}

func (l *Ledger) DeleteMetadata(ctx context.Context, parameters command.Parameters, targetType string, targetID any, key string) error {
	l.B.rec("DeleteMetadata", l.Name, fmt.Sprintf("dry=%v ik=%s %s %v %s", parameters.DryRun, parameters.IdempotencyKey, targetType, targetID, key))
	if l.W != nil {
		return engine.NewCommandError(l.W.DeleteMetadata(ctx, parameters, targetType, targetID, key))
	}
	return nil
}

func (l *Ledger) IsDatabaseUpToDate(ctx context.Context) (bool, error) { return true, nil }
