package nsgen

import (
	"fmt"
	"math/big"
	"regexp"
	"sort"
	"strings"
)

// Reference semantics of Numscript (DESIGN.md Appendix A). Big-step evaluation over the AST,
// no byte code, no stack. Defines only what the language defines; declines (Skip) on the
// documented undefined corners.

type Input struct {
	Vars     map[string]string            `json:"vars,omitempty"`
	Balances map[string]map[string]string `json:"balances,omitempty"` // account -> asset -> decimal
	Meta     map[string]map[string]string `json:"meta,omitempty"`     // account -> key -> value
	ReqMeta  map[string]string            `json:"req_meta,omitempty"`
}

func (in *Input) Balance(acc, asset string) *big.Int {
	if m, ok := in.Balances[acc]; ok {
		if s, ok := m[asset]; ok {
			n, _ := new(big.Int).SetString(s, 10)
			return n
		}
	}
	return new(big.Int)
}

type Posting struct {
	Src   string   `json:"source"`
	Dst   string   `json:"destination"`
	Asset string   `json:"asset"`
	Amt   *big.Int `json:"amount"`
}

func (p Posting) String() string { return fmt.Sprintf("%s->%s %s %s", p.Src, p.Dst, p.Asset, p.Amt) }

const (
	ClsOK          = "ok"
	ClsCompile     = "compile"
	ClsInvalidVars = "invalid_vars"
	ClsMissingMeta = "missing_meta"
	ClsNegBalance  = "negative_balance"
	ClsInsufficient = "insufficient"
	ClsInvalidScript = "invalid_script"
	ClsMetaOverride = "meta_override"
	ClsFail        = "fail"
	ClsOther       = "other"
	ClsPanic       = "panic"
)

// SendInfo describes one executed send (for the C03 oracles).
type SendInfo struct {
	Stmt     int
	Asset    string
	All      bool
	Stated   *big.Int // stated amount (nil for [A *])
	Offered  *big.Int // for [A *]: everything the sources provide
	Kept     *big.Int
	HasKept  bool
	Postings []Posting
}

type Outcome struct {
	Class     string
	Loose     bool // only "rejected" is demanded, not the class
	Skip      string // non-empty: the reference declines to judge this case (reason)
	Ambiguous bool   // capped-entry-after-kept: the reference result or insufficient funds are both accepted
	Postings  []Posting
	TxMeta    map[string]string
	AccMeta   map[string]map[string]string
	Sends     []SendInfo
	// Grants: largest overdraft the program grants each account per asset ("inf" for unbounded); for C01.
	Grants map[string]string
}

type rerr struct {
	class string
	loose bool
	skip  string
}

type val struct {
	ty    string
	s     string
	n     *big.Int
	asset string
	rat   *big.Rat
}

func (v val) render() string {
	switch v.ty {
	case "account", "asset", "string":
		return v.s
	case "number":
		return v.n.String()
	case "monetary":
		return v.asset + " " + v.n.String()
	case "portion":
		return v.rat.String()
	}
	return "?"
}

var accRe = regexp.MustCompile(`^[a-zA-Z0-9_]+(:[a-zA-Z0-9_]+)*$`)
var assetRe = regexp.MustCompile(`^[A-Z][A-Z0-9]{0,16}(/\d{1,6})?$`)
var pctRe = regexp.MustCompile(`^([0-9]+)(?:[.]([0-9]+))?[%]$`)
var fracRe = regexp.MustCompile(`^([0-9]+)\s?[/]\s?([0-9]+)$`)

func parsePortion(s string) (*big.Rat, bool) {
	var r *big.Rat
	if m := pctRe.FindStringSubmatch(s); m != nil {
		x, ok := new(big.Rat).SetString(m[1] + "." + m[2])
		if m[2] == "" {
			x, ok = new(big.Rat).SetString(m[1])
		}
		if !ok {
			return nil, false
		}
		r = x.Mul(x, big.NewRat(1, 100))
	} else if m := fracRe.FindStringSubmatch(s); m != nil {
		if strings.Trim(m[2], "0") == "" {
			return nil, false
		}
		x, ok := new(big.Rat).SetString(m[1] + "/" + m[2])
		if !ok {
			return nil, false
		}
		r = x
	} else {
		return nil, false
	}
	if r.Sign() < 0 || r.Cmp(big.NewRat(1, 1)) > 0 {
		return nil, false
	}
	return r, true
}

// parseVal parses the textual form the API / metadata store supplies for a declared type.
func parseVal(ty, s string) (val, bool) {
	switch ty {
	case "account":
		if !accRe.MatchString(s) {
			return val{}, false
		}
		return val{ty: ty, s: s}, true
	case "asset":
		if !assetRe.MatchString(s) {
			return val{}, false
		}
		return val{ty: ty, s: s}, true
	case "string":
		return val{ty: ty, s: s}, true
	case "number":
		n, ok := new(big.Int).SetString(s, 10)
		if !ok {
			return val{}, false
		}
		return val{ty: ty, n: n}, true
	case "monetary":
		parts := strings.SplitN(s, " ", 2)
		if len(parts) != 2 || !assetRe.MatchString(parts[0]) {
			return val{}, false
		}
		n, ok := new(big.Int).SetString(parts[1], 10)
		if !ok || n.Sign() < 0 {
			return val{}, false
		}
		return val{ty: ty, asset: parts[0], n: n}, true
	case "portion":
		r, ok := parsePortion(s)
		if !ok {
			return val{}, false
		}
		return val{ty: ty, rat: r}, true
	}
	return val{}, false
}

// ---------------------------------------------------------------------------------------------
// static rules

type checker struct {
	vars map[string]string // name -> type
}

type staticErr struct{ msg string }

func serr(f string, a ...interface{}) { panic(staticErr{fmt.Sprintf(f, a...)}) }

func (c *checker) typeOf(e *Expr) string {
	switch e.K {
	case EAcc:
		return "account"
	case EAsset:
		return "asset"
	case ENum:
		return "number"
	case EStr:
		return "string"
	case EPortion:
		if _, ok := parsePortion(e.S); !ok {
			serr("bad portion literal %s", e.S)
		}
		return "portion"
	case EMon:
		if c.typeOf(e.A) != "asset" {
			serr("monetary literal asset is not an asset")
		}
		return "monetary"
	case EVar:
		t, ok := c.vars[e.S]
		if !ok {
			serr("variable $%s not declared", e.S)
		}
		return t
	case EAdd, ESub:
		l := c.typeOf(e.L)
		if l != "number" && l != "monetary" {
			serr("arithmetic on %s", l)
		}
		if r := c.typeOf(e.R); r != l {
			serr("arithmetic on %s and %s", l, r)
		}
		return l
	}
	serr("bad expression")
	return ""
}

func (c *checker) want(e *Expr, ty, what string) {
	if got := c.typeOf(e); got != ty {
		serr("%s: expected %s, got %s", what, ty, got)
	}
}

func resKey(e *Expr) string {
	if e.K == EVar {
		return "$" + e.S
	}
	return "@" + e.S
}

func isWorldLit(e *Expr) bool { return e.K == EAcc && e.S == "world" }

// source returns (emptied resource keys, has fallback)
func (c *checker) source(s *Source, isAll bool) (map[string]bool, bool) {
	emptied := map[string]bool{}
	switch s.K {
	case SAcc:
		c.want(s.Acc, "account", "source")
		fb := isWorldLit(s.Acc)
		switch s.Ov {
		case OvBounded:
			if isWorldLit(s.Acc) {
				serr("@world is already unbounded")
			}
			c.want(s.Up, "monetary", "overdraft")
		case OvUnbounded:
			if isWorldLit(s.Acc) {
				serr("@world is already unbounded")
			}
			fb = true
		}
		if fb && isAll {
			serr("cannot take all balance of an unbounded source")
		}
		emptied[resKey(s.Acc)] = true
		return emptied, fb
	case SMax:
		c.source(s.Sub, false)
		c.want(s.Max, "monetary", "max")
		return emptied, false
	case SOrder:
		fb := false
		for i, sub := range s.List {
			e, f := c.source(sub, isAll)
			fb = f
			if f && i != len(s.List)-1 {
				serr("an unbounded subsource can only be in last position")
			}
			for k := range e {
				if emptied[k] {
					serr("%s is already empty at this stage", k)
				}
				emptied[k] = true
			}
		}
		return emptied, fb
	}
	serr("bad source")
	return nil, false
}

func (c *checker) allotment(ps []Portion) {
	total := new(big.Rat)
	hasVar, hasRem := false, false
	for i := len(ps) - 1; i >= 0; i-- {
		p := ps[i]
		switch p.K {
		case PLit:
			r, ok := parsePortion(p.S)
			if !ok {
				serr("bad portion %s", p.S)
			}
			total.Add(total, r)
		case PVar:
			t, ok := c.vars[p.S]
			if !ok {
				serr("variable $%s not declared", p.S)
			}
			if t != "portion" {
				serr("portion variable has type %s", t)
			}
			hasVar = true
		case PRemaining:
			if hasRem {
				serr("two uses of remaining")
			}
			hasRem = true
		}
	}
	one := big.NewRat(1, 1)
	switch total.Cmp(one) {
	case 1:
		serr("sum of known portions > 100%%")
	case -1:
		if !hasRem && !hasVar {
			serr("sum of portions might be less than 100%%")
		}
		// NOTE: with a variable and no remaining the compiler also refuses ("might be less") — see below
		if !hasRem {
			serr("sum of portions might be less than 100%%")
		}
	case 0:
		if hasVar {
			serr("sum of portions might be greater than 100%%")
		}
		if hasRem {
			serr("known portions are already equal to 100%%")
		}
	}
}

func (c *checker) kd(k KD) {
	if !k.Kept {
		c.dest(k.D)
	}
}

func (c *checker) dest(d *Dest) {
	switch d.K {
	case DAcc:
		c.want(d.Acc, "account", "destination")
	case DOrder:
		for i, cp := range d.Caps {
			c.want(cp, "monetary", "max")
			c.kd(d.Items[i])
		}
		c.kd(d.Rem)
	case DAllot:
		c.allotment(d.Portions)
		for _, it := range d.Items {
			c.kd(it)
		}
	}
}

func (c *checker) stmt(st *Stmt) {
	switch st.K {
	case StSend:
		isAll := st.All != nil
		if isAll {
			c.want(st.All, "asset", "send all")
		} else {
			c.want(st.Mon, "monetary", "send")
		}
		if st.Src.Portions != nil {
			if isAll {
				serr("cannot take all balance of an allotment source")
			}
			c.allotment(st.Src.Portions)
			for _, s := range st.Src.Srcs {
				c.source(s, false)
			}
		} else {
			c.source(st.Src.Src, isAll)
		}
		c.dest(st.Dst)
	case StSetTxMeta:
		c.typeOf(st.Val)
	case StSetAccMeta:
		c.typeOf(st.Val)
		c.want(st.Acc, "account", "set_account_meta")
	case StSave:
		if st.All != nil {
			c.want(st.All, "asset", "save all")
		} else {
			c.want(st.Mon, "monetary", "save")
		}
		c.want(st.Acc, "account", "save")
	case StPrint:
		c.typeOf(st.Val)
	}
}

// StaticReject reports whether the language rejects the program (and why).
func StaticReject(p *Program) (rejected bool, why string) {
	defer func() {
		if e := recover(); e != nil {
			if se, ok := e.(staticErr); ok {
				rejected, why = true, se.msg
				return
			}
			panic(e)
		}
	}()
	c := &checker{vars: map[string]string{}}
	for _, v := range p.Vars {
		if _, dup := c.vars[v.Name]; dup {
			serr("duplicate variable $%s", v.Name)
		}
		switch v.Origin {
		case OrMeta:
			c.want(v.OAcc, "account", "meta()")
		case OrBalance:
			if v.Ty != "monetary" {
				serr("balance() variable must be monetary")
			}
			c.want(v.OAcc, "account", "balance()")
			c.want(v.OAsset, "asset", "balance()")
		}
		c.vars[v.Name] = v.Ty
	}
	for _, st := range p.Stmts {
		c.stmt(st)
	}
	return false, ""
}

// ---------------------------------------------------------------------------------------------
// dynamic semantics

type part struct {
	acc string
	amt *big.Int
}

type run struct {
	in   *Input
	env  map[string]val
	bal  map[string]*big.Int // key acc|asset
	out  *Outcome
	grants map[string]*big.Int // acc|asset -> largest bounded overdraft; nil value = unbounded
}

func bkey(acc, asset string) string { return acc + "|" + asset }

func (r *run) getBal(acc, asset string) *big.Int {
	k := bkey(acc, asset)
	if b, ok := r.bal[k]; ok {
		return b
	}
	b := r.in.Balance(acc, asset)
	if acc == "world" {
		b = new(big.Int)
	}
	r.bal[k] = b
	return b
}

func (r *run) addBal(acc, asset string, d *big.Int) {
	if acc == "world" {
		return
	}
	b := r.getBal(acc, asset)
	r.bal[bkey(acc, asset)] = new(big.Int).Add(b, d)
}

func reject(class string) { panic(rerr{class: class}) }
func rejectLoose()        { panic(rerr{class: ClsOther, loose: true}) }
func skip(why string)     { panic(rerr{skip: why}) }

func (r *run) eval(e *Expr) val {
	switch e.K {
	case EAcc:
		return val{ty: "account", s: e.S}
	case EAsset:
		return val{ty: "asset", s: e.S}
	case ENum:
		return val{ty: "number", n: e.N}
	case EStr:
		return val{ty: "string", s: e.S}
	case EPortion:
		rat, _ := parsePortion(e.S)
		return val{ty: "portion", rat: rat}
	case EMon:
		a := r.eval(e.A)
		return val{ty: "monetary", asset: a.s, n: e.N}
	case EVar:
		return r.env[e.S]
	case EAdd, ESub:
		l, rr := r.eval(e.L), r.eval(e.R)
		if l.ty == "number" {
			if e.K == EAdd {
				return val{ty: "number", n: new(big.Int).Add(l.n, rr.n)}
			}
			return val{ty: "number", n: new(big.Int).Sub(l.n, rr.n)}
		}
		if l.asset != rr.asset {
			if e.K == EAdd {
				reject(ClsInvalidScript)
			}
			reject(ClsOther)
		}
		if e.K == EAdd {
			return val{ty: "monetary", asset: l.asset, n: new(big.Int).Add(l.n, rr.n)}
		}
		return val{ty: "monetary", asset: l.asset, n: new(big.Int).Sub(l.n, rr.n)}
	}
	panic("bad expr")
}

func total(ps []part) *big.Int {
	t := new(big.Int)
	for _, p := range ps {
		t.Add(t, p.amt)
	}
	return t
}

// take splits the first n units off ps. short = units missing.
func take(ps []part, n *big.Int) (taken, rest []part, short *big.Int) {
	need := new(big.Int).Set(n)
	for _, p := range ps {
		if need.Sign() <= 0 {
			rest = append(rest, p)
			continue
		}
		if p.amt.Cmp(need) > 0 {
			taken = append(taken, part{p.acc, new(big.Int).Set(need)})
			rest = append(rest, part{p.acc, new(big.Int).Sub(p.amt, need)})
			need = new(big.Int)
		} else {
			taken = append(taken, p)
			need = new(big.Int).Sub(need, p.amt)
		}
	}
	return taken, rest, need
}

func (r *run) repay(ps []part, asset string) {
	for _, p := range ps {
		r.addBal(p.acc, asset, p.amt)
	}
}

func (r *run) grant(acc, asset string, up *big.Int) {
	if acc == "world" {
		return
	}
	k := bkey(acc, asset)
	cur, ok := r.grants[k]
	if up == nil {
		r.grants[k] = nil
		return
	}
	if ok && cur == nil {
		return
	}
	if !ok || up.Cmp(cur) > 0 {
		r.grants[k] = up
	}
}

// offer evaluates a source: everything it can give (withdrawn from bal), and its fallback account.
func (r *run) offer(s *Source, asset string, isAll bool) ([]part, *string) {
	switch s.K {
	case SAcc:
		acc := r.eval(s.Acc).s
		if acc == "world" && !isWorldLit(s.Acc) {
			skip("account variable bound to world used as a source")
		}
		ov := new(big.Int)
		var fb *string
		if isWorldLit(s.Acc) {
			fb = &acc
		}
		switch s.Ov {
		case OvBounded:
			m := r.eval(s.Up)
			if m.asset != asset {
				if isAll {
					skip("overdraft asset differs from send-all asset")
				}
				reject(ClsInvalidScript)
			}
			ov = m.n
			r.grant(acc, asset, ov)
		case OvUnbounded:
			fb = &acc
			r.grant(acc, asset, nil)
		}
		b := r.getBal(acc, asset)
		t := new(big.Int).Add(b, ov)
		if t.Sign() > 0 {
			r.bal[bkey(acc, asset)] = new(big.Int).Neg(ov)
			return []part{{acc, t}}, fb
		}
		return []part{{acc, new(big.Int)}}, fb
	case SMax:
		ps, fb := r.offer(s.Sub, asset, false)
		m := r.eval(s.Max)
		if m.n.Sign() < 0 {
			rejectLoose()
		}
		if m.asset != asset {
			reject(ClsInvalidScript)
		}
		taken, rest, short := take(ps, m.n)
		r.repay(rest, asset)
		if fb != nil {
			r.addBal(*fb, asset, new(big.Int).Neg(short))
			taken = append(taken, part{*fb, short})
		}
		return taken, nil
	case SOrder:
		var all []part
		var fb *string
		for _, sub := range s.List {
			ps, f := r.offer(sub, asset, isAll)
			all = append(all, ps...)
			fb = f
		}
		return all, fb
	}
	panic("bad source")
}

// takeFrom is a send-like take of a units out of an offer.
func (r *run) takeFrom(ps []part, fb *string, a *big.Int, asset string) []part {
	if a.Sign() < 0 {
		rejectLoose()
	}
	taken, rest, short := take(ps, a)
	if fb == nil {
		if short.Sign() > 0 {
			reject(ClsInsufficient)
		}
		r.repay(rest, asset)
		return taken
	}
	r.repay(rest, asset)
	r.addBal(*fb, asset, new(big.Int).Neg(short))
	return append(taken, part{*fb, short})
}

func (r *run) resolvePortions(ps []Portion) []*big.Rat {
	out := make([]*big.Rat, len(ps))
	sum := new(big.Rat)
	rem := -1
	hasVar := false
	for i, p := range ps {
		switch p.K {
		case PLit:
			out[i], _ = parsePortion(p.S)
		case PVar:
			out[i] = r.env[p.S].rat
			hasVar = true
		case PRemaining:
			rem = i
			continue
		}
		sum.Add(sum, out[i])
	}
	one := big.NewRat(1, 1)
	if sum.Cmp(one) > 0 {
		reject(ClsInvalidScript)
	}
	if rem >= 0 {
		out[rem] = new(big.Rat).Sub(one, sum)
	} else if hasVar && sum.Cmp(one) < 0 {
		skip("variable portions sum to less than 100% without remaining")
	}
	return out
}

// Allocate: floor of each share, leftover units one each from the first entry.
func Allocate(a *big.Int, ps []*big.Rat) []*big.Int {
	out := make([]*big.Int, len(ps))
	sum := new(big.Int)
	for i, p := range ps {
		x := new(big.Int).Mul(a, p.Num())
		x.Div(x, p.Denom())
		out[i] = x
		sum.Add(sum, x)
	}
	left := new(big.Int).Sub(a, sum)
	for i := 0; i < len(out) && left.Sign() > 0; i++ {
		out[i] = new(big.Int).Add(out[i], big.NewInt(1))
		left.Sub(left, big.NewInt(1))
	}
	return out
}

type delivery struct {
	acc string
	amt *big.Int
}

// deliver computes the delivery list and the kept total for amount T offered to d.
func (r *run) deliver(d *Dest, T *big.Int, asset string) ([]delivery, *big.Int) {
	switch d.K {
	case DAcc:
		return []delivery{{r.eval(d.Acc).s, T}}, new(big.Int)
	case DAllot:
		shares := Allocate(T, r.resolvePortions(d.Portions))
		var list []delivery
		K := new(big.Int)
		for i, it := range d.Items {
			if it.Kept {
				K.Add(K, shares[i])
				continue
			}
			l, k := r.deliver(it.D, shares[i], asset)
			list = append(list, l...)
			K.Add(K, k)
		}
		return list, K
	case DOrder:
		rest := new(big.Int).Set(T)
		K := new(big.Int)
		var list []delivery
		one := func(it KD, amt *big.Int) {
			if it.Kept {
				K.Add(K, amt)
				return
			}
			l, k := r.deliver(it.D, amt, asset)
			list = append(list, l...)
			K.Add(K, k)
		}
		for i, cp := range d.Caps {
			m := r.eval(cp)
			if m.n.Sign() < 0 {
				rejectLoose()
			}
			if m.asset != asset {
				reject(ClsInvalidScript)
			}
			ti := m.n
			if ti.Cmp(rest) > 0 {
				if K.Sign() > 0 {
					r.out.Ambiguous = true
				}
				ti = rest
			}
			rest = new(big.Int).Sub(rest, ti)
			one(d.Items[i], ti)
		}
		one(d.Rem, rest)
		return list, K
	}
	panic("bad dest")
}

func hasKept(d *Dest) bool {
	switch d.K {
	case DAcc:
		return false
	case DOrder:
		if d.Rem.Kept || (d.Rem.D != nil && hasKept(d.Rem.D)) {
			return true
		}
	}
	for _, it := range d.Items {
		if it.Kept || (it.D != nil && hasKept(it.D)) {
			return true
		}
	}
	return false
}

func (r *run) send(idx int, st *Stmt) {
	var asset string
	var F []part
	info := SendInfo{Stmt: idx}
	if st.All != nil {
		asset = r.eval(st.All).s
		info.All = true
		F, _ = r.offer(st.Src.Src, asset, true)
		info.Offered = total(F)
	} else {
		m := r.eval(st.Mon)
		asset = m.asset
		info.Stated = m.n
		if st.Src.Portions != nil {
			if m.n.Sign() < 0 {
				rejectLoose()
			}
			shares := Allocate(m.n, r.resolvePortions(st.Src.Portions))
			for i, s := range st.Src.Srcs {
				ps, fb := r.offer(s, asset, false)
				F = append(F, r.takeFrom(ps, fb, shares[i], asset)...)
			}
		} else {
			ps, fb := r.offer(st.Src.Src, asset, false)
			F = r.takeFrom(ps, fb, m.n, asset)
		}
	}
	info.Asset = asset
	T := total(F)
	list, K := r.deliver(st.Dst, T, asset)
	info.Kept = K
	info.HasKept = hasKept(st.Dst)
	moved := new(big.Int).Sub(T, K)
	front, tail, _ := take(F, moved)
	// zip front units against deliveries in written order
	for _, d := range list {
		var got []part
		got, front, _ = take(front, d.amt)
		for _, p := range got {
			po := Posting{Src: p.acc, Dst: d.acc, Asset: asset, Amt: p.amt}
			r.out.Postings = append(r.out.Postings, po)
			info.Postings = append(info.Postings, po)
			r.addBal(d.acc, asset, p.amt)
		}
	}
	r.repay(tail, asset)
	r.out.Sends = append(r.out.Sends, info)
}

// Eval runs the reference semantics.
func Eval(p *Program, in *Input) (out *Outcome) {
	out = &Outcome{Class: ClsOK, TxMeta: map[string]string{}, AccMeta: map[string]map[string]string{}}
	if rej, _ := StaticReject(p); rej {
		out.Class = ClsCompile
		return out
	}
	r := &run{in: in, env: map[string]val{}, bal: map[string]*big.Int{}, out: out, grants: map[string]*big.Int{}}
	defer func() {
		if e := recover(); e != nil {
			re, ok := e.(rerr)
			if !ok {
				panic(e)
			}
			amb := out.Ambiguous
			*out = Outcome{Class: re.class, Loose: re.loose, Skip: re.skip, Ambiguous: amb}
		}
	}()
	// plain variables
	declared := map[string]bool{}
	for _, v := range p.Vars {
		if v.Origin != OrNone {
			continue
		}
		declared[v.Name] = true
		s, ok := in.Vars[v.Name]
		if !ok {
			reject(ClsInvalidVars)
		}
		x, ok := parseVal(v.Ty, s)
		if !ok {
			reject(ClsInvalidVars)
		}
		r.env[v.Name] = x
	}
	for name := range in.Vars {
		if !declared[name] {
			reject(ClsInvalidVars)
		}
	}
	// looked-up variables, in declaration order (metadata first pass, balances checked after)
	type pendingBal struct{ name, acc, asset string }
	var pbs []pendingBal
	for _, v := range p.Vars {
		switch v.Origin {
		case OrMeta:
			acc := r.eval(v.OAcc).s
			s, ok := in.Meta[acc][v.OKey]
			if !ok {
				reject(ClsMissingMeta)
			}
			x, ok := parseVal(v.Ty, s)
			if !ok {
				reject(ClsOther)
			}
			r.env[v.Name] = x
		case OrBalance:
			acc := r.eval(v.OAcc).s
			asset := r.eval(v.OAsset).s
			pbs = append(pbs, pendingBal{v.Name, acc, asset})
			// value filled below; an expression cannot use it before resolution (only statements do)
			r.env[v.Name] = val{ty: "monetary", asset: asset, n: new(big.Int)}
		}
	}
	for _, pb := range pbs {
		b := in.Balance(pb.acc, pb.asset)
		if b.Sign() < 0 {
			reject(ClsNegBalance)
		}
		r.env[pb.name] = val{ty: "monetary", asset: pb.asset, n: b}
	}
	for i, st := range p.Stmts {
		switch st.K {
		case StSend:
			r.send(i, st)
		case StSetTxMeta:
			out.TxMeta[st.Key] = r.eval(st.Val).render()
		case StSetAccMeta:
			acc := r.eval(st.Acc).s
			if out.AccMeta[acc] == nil {
				out.AccMeta[acc] = map[string]string{}
			}
			out.AccMeta[acc][st.Key] = r.eval(st.Val).render()
		case StSave:
			acc := r.eval(st.Acc).s
			if st.All != nil {
				asset := r.eval(st.All).s
				// saving everything leaves nothing to spend; a negative balance stays negative
				if acc != "world" && r.getBal(acc, asset).Sign() > 0 {
					r.bal[bkey(acc, asset)] = new(big.Int)
				}
			} else {
				m := r.eval(st.Mon)
				if m.n.Sign() < 0 {
					rejectLoose() // a negative save would raise the spendable balance
				}
				r.addBal(acc, m.asset, new(big.Int).Neg(m.n))
			}
		case StFail:
			reject(ClsFail)
		case StPrint:
			r.eval(st.Val)
		}
	}
	keys := make([]string, 0, len(in.ReqMeta))
	for k := range in.ReqMeta {
		keys = append(keys, k)
	}
	sort.Strings(keys)
	for _, k := range keys {
		if _, ok := out.TxMeta[k]; ok {
			reject(ClsMetaOverride)
		}
	}
	for _, k := range keys {
		out.TxMeta[k] = in.ReqMeta[k]
	}
	out.Grants = map[string]string{}
	for k, g := range r.grants {
		if g == nil {
			out.Grants[k] = "inf"
		} else {
			out.Grants[k] = g.String()
		}
	}
	return out
}

// NormalForm drops zero-amount postings and merges adjacent postings with equal (src,dst,asset).
func NormalForm(ps []Posting) []Posting {
	var out []Posting
	for _, p := range ps {
		if p.Amt.Sign() == 0 {
			continue
		}
		if n := len(out); n > 0 && out[n-1].Src == p.Src && out[n-1].Dst == p.Dst && out[n-1].Asset == p.Asset {
			out[n-1].Amt = new(big.Int).Add(out[n-1].Amt, p.Amt)
			continue
		}
		out = append(out, Posting{p.Src, p.Dst, p.Asset, new(big.Int).Set(p.Amt)})
	}
	return out
}

func PostingsEqual(a, b []Posting) bool {
	if len(a) != len(b) {
		return false
	}
	for i := range a {
		if a[i].Src != b[i].Src || a[i].Dst != b[i].Dst || a[i].Asset != b[i].Asset || a[i].Amt.Cmp(b[i].Amt) != 0 {
			return false
		}
	}
	return true
}


// StaticGrants: the largest overdraft any source clause of p grants each (account|asset), evaluated under in
// without running the program ("inf" for unbounded). Best effort: clauses whose expressions cannot be evaluated grant nothing.
func StaticGrants(p *Program, in *Input) map[string]*big.Int {
	env := map[string]val{}
	for _, v := range p.Vars {
		switch v.Origin {
		case OrNone:
			if s, ok := in.Vars[v.Name]; ok {
				if x, ok := parseVal(v.Ty, s); ok {
					env[v.Name] = x
				}
			}
		}
	}
	r := &run{in: in, env: env, bal: map[string]*big.Int{}, out: &Outcome{}, grants: map[string]*big.Int{}}
	ev := func(e *Expr) (v val, ok bool) {
		defer func() {
			if recover() != nil {
				ok = false
			}
		}()
		v = r.eval(e)
		return v, v.ty != ""
	}
	for _, v := range p.Vars {
		switch v.Origin {
		case OrMeta:
			if a, ok := ev(v.OAcc); ok {
				if s, ok := in.Meta[a.s][v.OKey]; ok {
					if x, ok := parseVal(v.Ty, s); ok {
						env[v.Name] = x
					}
				}
			}
		case OrBalance:
			a, ok1 := ev(v.OAcc)
			as, ok2 := ev(v.OAsset)
			if ok1 && ok2 {
				env[v.Name] = val{ty: "monetary", asset: as.s, n: in.Balance(a.s, as.s)}
			}
		}
	}
	out := map[string]*big.Int{}
	inf := map[string]bool{}
	var walk func(s *Source, asset string)
	walk = func(s *Source, asset string) {
		if s == nil {
			return
		}
		switch s.K {
		case SAcc:
			a, ok := ev(s.Acc)
			if !ok || a.ty != "account" {
				return
			}
			switch s.Ov {
			case OvUnbounded:
				inf[bkey(a.s, asset)] = true
			case OvBounded:
				if m, ok := ev(s.Up); ok && m.ty == "monetary" {
					k := bkey(a.s, m.asset)
					if cur, ok := out[k]; !ok || m.n.Cmp(cur) > 0 {
						out[k] = m.n
					}
				}
			}
		case SMax:
			walk(s.Sub, asset)
		case SOrder:
			for _, c := range s.List {
				walk(c, asset)
			}
		}
	}
	for _, st := range p.Stmts {
		if st.K != StSend {
			continue
		}
		asset := ""
		if st.All != nil {
			if a, ok := ev(st.All); ok {
				asset = a.s
			}
		} else if m, ok := ev(st.Mon); ok {
			asset = m.asset
		}
		walk(st.Src.Src, asset)
		for _, s := range st.Src.Srcs {
			walk(s, asset)
		}
	}
	for k := range inf {
		out[k] = nil
	}
	return out
}

// Prefix returns the program made of the first k statements (same declarations).
func (p *Program) Prefix(k int) *Program {
	return &Program{Vars: p.Vars, Stmts: p.Stmts[:k]}
}
