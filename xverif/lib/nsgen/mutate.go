package nsgen

import "math/big"

// Ill-typed variants: every well-typed program with one expression slot replaced by an expression of another type,
// wrong clause kinds, bad portion sums, duplicate / undeclared variables.

func (e *Expr) clone() *Expr {
	if e == nil {
		return nil
	}
	c := *e
	c.A, c.L, c.R = e.A.clone(), e.L.clone(), e.R.clone()
	return &c
}

func (s *Source) clone() *Source {
	if s == nil {
		return nil
	}
	c := *s
	c.Acc, c.Up, c.Max, c.Sub = s.Acc.clone(), s.Up.clone(), s.Max.clone(), s.Sub.clone()
	c.List = nil
	for _, x := range s.List {
		c.List = append(c.List, x.clone())
	}
	return &c
}

func (k KD) clone() KD {
	if k.Kept {
		return k
	}
	return KD{D: k.D.clone()}
}

func (d *Dest) clone() *Dest {
	if d == nil {
		return nil
	}
	c := *d
	c.Acc = d.Acc.clone()
	c.Caps = nil
	for _, x := range d.Caps {
		c.Caps = append(c.Caps, x.clone())
	}
	c.Items = nil
	for _, x := range d.Items {
		c.Items = append(c.Items, x.clone())
	}
	if d.K == DOrder {
		c.Rem = d.Rem.clone()
	}
	c.Portions = append([]Portion{}, d.Portions...)
	return &c
}

func (p *Program) Clone() *Program {
	c := &Program{Vars: append([]VarDecl{}, p.Vars...)}
	for i := range c.Vars {
		c.Vars[i].OAcc = c.Vars[i].OAcc.clone()
		c.Vars[i].OAsset = c.Vars[i].OAsset.clone()
	}
	for _, st := range p.Stmts {
		s := *st
		s.Mon, s.All, s.Val, s.Acc = st.Mon.clone(), st.All.clone(), st.Val.clone(), st.Acc.clone()
		s.Dst = st.Dst.clone()
		s.Src = VSource{Src: st.Src.Src.clone(), Portions: append([]Portion(nil), st.Src.Portions...)}
		for _, x := range st.Src.Srcs {
			s.Src.Srcs = append(s.Src.Srcs, x.clone())
		}
		c.Stmts = append(c.Stmts, &s)
	}
	return c
}

// Slots returns pointers to every top-level expression slot of p (in a fixed traversal order).
func (p *Program) Slots() []**Expr {
	var out []**Expr
	add := func(e **Expr) {
		if *e != nil {
			out = append(out, e)
		}
	}
	var src func(s *Source)
	src = func(s *Source) {
		if s == nil {
			return
		}
		add(&s.Acc)
		add(&s.Up)
		add(&s.Max)
		src(s.Sub)
		for _, c := range s.List {
			src(c)
		}
	}
	var dst func(d *Dest)
	kd := func(k KD) {
		if !k.Kept {
			dst(k.D)
		}
	}
	dst = func(d *Dest) {
		if d == nil {
			return
		}
		add(&d.Acc)
		for i := range d.Caps {
			add(&d.Caps[i])
		}
		for _, it := range d.Items {
			kd(it)
		}
		if d.K == DOrder {
			kd(d.Rem)
		}
	}
	for i := range p.Vars {
		add(&p.Vars[i].OAcc)
		add(&p.Vars[i].OAsset)
	}
	for _, st := range p.Stmts {
		add(&st.Mon)
		add(&st.All)
		add(&st.Acc)
		if st.K == StSetAccMeta {
			// value may be of any type: no ill-typed variant
		}
		src(st.Src.Src)
		for _, s := range st.Src.Srcs {
			src(s)
		}
		dst(st.Dst)
	}
	return out
}

func typeSamples() map[string]*Expr {
	return map[string]*Expr{
		"account":  Acc("z"),
		"asset":    Asset("X"),
		"number":   Num(4),
		"string":   Str("s"),
		"portion":  PortionLit("1/2"),
		"monetary": X(4),
	}
}

type Mutant struct {
	P    *Program
	What string
}

// IllTyped returns the ill-typed single-slot variants of a well-typed program.
func IllTyped(p *Program) []Mutant {
	var out []Mutant
	base := p.Clone()
	n := len(base.Slots())
	c := &checker{vars: map[string]string{}}
	for _, v := range p.Vars {
		c.vars[v.Name] = v.Ty
	}
	for i := 0; i < n; i++ {
		orig := *base.Slots()[i]
		var ty string
		func() {
			defer func() { recover() }()
			ty = c.typeOf(orig)
		}()
		if ty == "" {
			continue
		}
		for t, e := range typeSamples() {
			if t == ty {
				continue
			}
			m := p.Clone()
			*m.Slots()[i] = e.clone()
			out = append(out, Mutant{m, "slot " + itoa(i) + " of type " + ty + " replaced by " + t})
		}
		// arithmetic between different types
		m := p.Clone()
		*m.Slots()[i] = Add(orig.clone(), Str("s"))
		out = append(out, Mutant{m, "slot " + itoa(i) + " + string"})
	}
	// undeclared variable
	for i := 0; i < n; i++ {
		m := p.Clone()
		*m.Slots()[i] = Var("undeclared")
		out = append(out, Mutant{m, "slot " + itoa(i) + " undeclared variable"})
	}
	// duplicate declaration
	if len(p.Vars) > 0 {
		m := p.Clone()
		m.Vars = append(m.Vars, m.Vars[0])
		out = append(out, Mutant{m, "duplicate variable"})
	}
	// use before declaration (looked-up variable referring to a later one)
	m := p.Clone()
	m.Vars = append([]VarDecl{{Ty: "monetary", Name: "early", Origin: OrBalance, OAcc: Var("late"), OAsset: Asset("X")}, {Ty: "account", Name: "late"}}, m.Vars...)
	out = append(out, Mutant{m, "variable used before its declaration"})
	// balance() declared with a non-monetary type
	m = p.Clone()
	m.Vars = append(m.Vars, VarDecl{Ty: "number", Name: "nb", Origin: OrBalance, OAcc: Acc("a"), OAsset: Asset("X")})
	out = append(out, Mutant{m, "balance() variable of type number"})
	// bad portion sums on every allotment
	lit := func(s string) Portion { return Portion{K: PLit, S: s} }
	bad := [][]Portion{{lit("1/2"), lit("1/3")}, {lit("2/3"), lit("2/3")}, {lit("1/2"), lit("1/2"), {K: PRemaining}}, {{K: PRemaining}, {K: PRemaining}}}
	for si, st := range p.Stmts {
		if st.K != StSend {
			continue
		}
		for _, b := range bad {
			if st.Src.Portions != nil && len(st.Src.Portions) == len(b) {
				m := p.Clone()
				m.Stmts[si].Src.Portions = b
				out = append(out, Mutant{m, "source allotment with bad portions"})
			}
			if st.Dst.K == DAllot && len(st.Dst.Portions) == len(b) {
				m := p.Clone()
				m.Stmts[si].Dst.Portions = b
				out = append(out, Mutant{m, "destination allotment with bad portions"})
			}
		}
		// send-all from an allotment / unbounded source
		if st.Src.Portions != nil && st.All == nil {
			m := p.Clone()
			m.Stmts[si].All, m.Stmts[si].Mon = Asset("X"), nil
			out = append(out, Mutant{m, "send all from an allotment source"})
		}
		if st.Src.Src != nil {
			m := p.Clone()
			m.Stmts[si].Src.Src = SrcOrder(SrcAcc(Acc("world")), st.Src.Src.clone())
			out = append(out, Mutant{m, "unbounded source not in last position"})
			m = p.Clone()
			m.Stmts[si].Src.Src = SrcOv(Acc("world"), X(1))
			out = append(out, Mutant{m, "overdraft on @world"})
		}
	}
	_ = big.NewInt
	return out
}

func itoa(i int) string {
	if i == 0 {
		return "0"
	}
	s := ""
	for i > 0 {
		s = string(rune('0'+i%10)) + s
		i /= 10
	}
	return s
}
