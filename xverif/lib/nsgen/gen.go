package nsgen

import (
	"fmt"
	"math/big"
	"sort"
)

// Bounded-exhaustive program space. Components (amounts, sources, destinations, extra statements)
// are materialised as lists, simplest first; a program is a point of their product.

var Big70 = new(big.Int).Lsh(big.NewInt(1), 70)

// Near63: fits a signed 64-bit word, but its product with a small numerator does not (word-size shortcuts)
var Near63 = big.NewInt(9000000000000000000)

type Amount struct {
	Mon *Expr
	All *Expr
}

type Bounds struct {
	SrcDepth    int  // nesting depth of sources (0 = leaves only)
	DstDepth    int  // nesting depth of destinations
	Vars        bool // variable leaves (account/monetary/portion/asset variables, meta(), balance())
	ThreeWay    bool // ordered lists / allotments of three entries
	SecondAsset bool
	Wide        bool // wider amount / cap alphabets
}

func X(n int64) *Expr { return Mon("X", n) }

func (b Bounds) Amounts() []Amount {
	out := []Amount{{Mon: X(7)}, {Mon: X(0)}, {All: Asset("X")}, {Mon: X(100)}, {Mon: MonBig(Asset("X"), Big70)}, {Mon: MonBig(Asset("X"), Near63)}}
	if b.Wide {
		out = append(out, Amount{Mon: X(1)}, Amount{Mon: Add(X(7), X(1))}, Amount{Mon: Sub(X(7), X(1))}, Amount{Mon: Sub(X(1), X(7))})
	}
	if b.Vars {
		out = append(out, Amount{Mon: Var("m")}, Amount{Mon: Var("bal")}, Amount{Mon: MonBig(Var("ass"), big.NewInt(7))}, Amount{All: Var("ass")})
		if b.Wide {
			out = append(out, Amount{Mon: Sub(Var("bal"), X(1))}, Amount{Mon: Add(Var("m"), X(1))})
		}
	}
	if b.SecondAsset {
		out = append(out, Amount{Mon: Mon("Y/2", 7)}, Amount{Mon: Add(X(7), Mon("Y/2", 1))})
	}
	return out
}

func (b Bounds) srcLeaves() []*Source {
	out := []*Source{
		SrcAcc(Acc("a")), SrcAcc(Acc("b")), SrcAcc(Acc("world")),
		SrcOv(Acc("a"), X(5)), SrcUnb(Acc("a")),
	}
	if b.Wide {
		out = append(out, SrcOv(Acc("b"), MonBig(Asset("X"), Big70)), SrcOv(Acc("world"), X(5)), SrcUnb(Acc("world")))
	}
	if b.Vars {
		out = append(out, SrcAcc(Var("acc")), SrcAcc(Var("macc")), SrcOv(Acc("a"), Var("m")))
	}
	if b.SecondAsset {
		out = append(out, SrcOv(Acc("a"), Mon("Y/2", 5)))
	}
	return out
}

func (b Bounds) caps() []*Expr {
	out := []*Expr{X(3)}
	if b.Wide {
		out = append(out, X(100), X(0))
	}
	if b.Vars {
		out = append(out, Var("m"))
	}
	return out
}

func (b Bounds) sourcesAt(depth int) []*Source {
	if depth == 0 {
		return b.srcLeaves()
	}
	prev := b.sourcesAt(depth - 1)
	leaves := b.srcLeaves()
	out := append([]*Source{}, prev...)
	// only build on top of what is new at depth-1 to avoid duplicates: simple approach — build on all of prev,
	// duplicates across depths are avoided because prev itself is included once.
	var lower []*Source
	if depth == 1 {
		lower = prev
	} else {
		lower = prev[len(b.sourcesAt(depth-2)):]
	}
	for _, m := range b.caps() {
		for _, s := range lower {
			out = append(out, SrcMax(m, s))
		}
	}
	// ordered pairs: at least one element from `lower` (new), the other a leaf or new
	pairPool := lower
	if depth > 1 {
		pairPool = append(append([]*Source{}, leaves...), lower...)
	}
	seen := map[string]bool{}
	add := func(l ...*Source) {
		s := SrcOrder(l...)
		k := srcKey(s)
		if !seen[k] {
			seen[k] = true
			out = append(out, s)
		}
	}
	for _, s1 := range lower {
		for _, s2 := range pairPool {
			add(s1, s2)
			if depth > 1 {
				add(s2, s1)
			}
		}
	}
	if depth == 1 {
		// singletons and (when enabled) triples of leaves
		for _, s := range leaves {
			add(s)
		}
		if b.ThreeWay {
			for _, s1 := range leaves {
				for _, s2 := range leaves {
					for _, s3 := range leaves {
						add(s1, s2, s3)
					}
				}
			}
		}
	}
	return out
}

func srcKey(s *Source) string {
	var bld = new(stringsBuilder)
	s.write(&bld.Builder, 0)
	return bld.String()
}

func (b Bounds) portionSets() [][]Portion {
	lit := func(s string) Portion { return Portion{K: PLit, S: s} }
	rem := Portion{K: PRemaining}
	out := [][]Portion{
		{lit("1/2"), lit("1/2")},
		{lit("1/3"), lit("2/3")},
		{lit("10%"), rem},
		{rem, lit("33.3%")},
		{lit("0%"), lit("100%")},
	}
	if b.Vars {
		out = append(out, []Portion{{K: PVar, S: "p"}, rem})
	}
	if b.ThreeWay {
		out = append(out, []Portion{lit("1/3"), lit("1/3"), lit("1/3")}, []Portion{lit("1/4"), rem, lit("1/4")})
		if b.Vars {
			out = append(out, []Portion{{K: PVar, S: "p"}, lit("1/4"), rem})
		}
	}
	return out
}

// Sources: plain sources up to the depth bound plus allotment sources over shallower sources.
func (b Bounds) Sources() []VSource {
	var out []VSource
	for _, s := range b.sourcesAt(b.SrcDepth) {
		out = append(out, VSource{Src: s})
	}
	inner := b.srcLeaves()
	if b.SrcDepth >= 2 {
		inner = b.sourcesAt(1)
	}
	for _, ps := range b.portionSets() {
		if len(ps) == 2 {
			for _, s1 := range inner {
				for _, s2 := range b.srcLeaves() {
					out = append(out, VSource{Portions: ps, Srcs: []*Source{s1, s2}})
				}
			}
		} else {
			l := b.srcLeaves()
			for _, s1 := range l[:3] {
				for _, s2 := range l[:3] {
					for _, s3 := range l {
						out = append(out, VSource{Portions: ps, Srcs: []*Source{s1, s2, s3}})
					}
				}
			}
		}
	}
	return out
}

func (b Bounds) dstLeaves() []*Dest {
	out := []*Dest{DstAcc(Acc("c")), DstAcc(Acc("a")), DstAcc(Acc("world"))}
	if b.Vars {
		out = append(out, DstAcc(Var("acc")))
	}
	return out
}

func (b Bounds) destsAt(depth int) []*Dest {
	if depth == 0 {
		return b.dstLeaves()
	}
	prev := b.destsAt(depth - 1)
	var lower []*Dest
	if depth == 1 {
		lower = prev
	} else {
		lower = prev[len(b.destsAt(depth-2)):]
	}
	leaves := b.dstLeaves()
	out := append([]*Dest{}, prev...)
	// KD options: kept, or to d
	kdLower := []KD{}
	for _, d := range lower {
		kdLower = append(kdLower, To(d))
	}
	kdAny := []KD{Kept()}
	for _, d := range leaves[:2] {
		kdAny = append(kdAny, To(d))
	}
	if depth == 1 {
		kdLower = append([]KD{Kept()}, kdLower...)
		kdAny = kdLower
	}
	// ordered: one or two capped entries + remaining
	for _, c1 := range b.caps() {
		for _, k1 := range kdLower {
			for _, kr := range kdAny {
				out = append(out, &Dest{K: DOrder, Caps: []*Expr{c1}, Items: []KD{k1}, Rem: kr})
			}
		}
		if depth > 1 {
			for _, k1 := range kdAny {
				for _, kr := range kdLower {
					if !kr.Kept {
						out = append(out, &Dest{K: DOrder, Caps: []*Expr{c1}, Items: []KD{k1}, Rem: kr})
					}
				}
			}
		}
	}
	if b.ThreeWay || depth == 1 {
		caps := b.caps()
		c2 := X(100)
		for _, c1 := range caps[:1] {
			for _, k1 := range kdLower {
				for _, k2 := range kdAny {
					for _, kr := range kdAny {
						out = append(out, &Dest{K: DOrder, Caps: []*Expr{c1, c2}, Items: []KD{k1, k2}, Rem: kr})
					}
				}
			}
		}
	}
	for _, ps := range b.portionSets() {
		if len(ps) == 2 {
			for _, k1 := range kdLower {
				for _, k2 := range kdAny {
					out = append(out, &Dest{K: DAllot, Portions: ps, Items: []KD{k1, k2}})
					if depth > 1 && !k1.Kept {
						out = append(out, &Dest{K: DAllot, Portions: ps, Items: []KD{k2, k1}})
					}
				}
			}
		} else if depth == 1 {
			for _, k1 := range kdAny {
				for _, k2 := range kdAny {
					for _, k3 := range kdAny {
						out = append(out, &Dest{K: DAllot, Portions: ps, Items: []KD{k1, k2, k3}})
					}
				}
			}
		}
	}
	return out
}

func (b Bounds) Dests() []*Dest { return b.destsAt(b.DstDepth) }

// Extras: statements that may precede or follow the send under test (interaction through balances / metadata).
func (b Bounds) Extras() []*Stmt {
	send := func(m *Expr, s *Source, d *Dest) *Stmt {
		return &Stmt{K: StSend, Mon: m, Src: VSource{Src: s}, Dst: d}
	}
	out := []*Stmt{
		send(X(3), SrcAcc(Acc("a")), DstAcc(Acc("b"))),
		send(X(3), SrcAcc(Acc("world")), DstAcc(Acc("a"))),
		{K: StSave, Mon: X(2), Acc: Acc("a")},
		{K: StSave, All: Asset("X"), Acc: Acc("a")},
		{K: StSetTxMeta, Key: "k", Val: X(5)},
		{K: StSetAccMeta, Acc: Acc("a"), Key: "k", Val: PortionLit("2/4")},
		{K: StSave, Mon: Sub(X(1), X(7)), Acc: Acc("a")},
		{K: StSave, Mon: Add(X(1), X(1)), Acc: Acc("a")},
	}
	if b.Wide {
		out = append(out,
			&Stmt{K: StSend, All: Asset("X"), Src: VSource{Src: SrcAcc(Acc("b"))}, Dst: DstAcc(Acc("a"))},
			send(X(3), SrcAcc(Acc("c")), DstAcc(Acc("a"))),
			&Stmt{K: StFail},
			&Stmt{K: StPrint, Val: Add(Num(1), Num(2))},
			&Stmt{K: StSetTxMeta, Key: "k", Val: Sub(Num(1), Num(2))},
			&Stmt{K: StSave, Mon: X(2), Acc: Acc("c")},
			&Stmt{K: StSetAccMeta, Acc: Acc("c"), Key: "j", Val: Acc("a")},
		)
	}
	return out
}

// VarRegistry: declarations for the variable names the generator uses.
var VarRegistry = []VarDecl{
	{Ty: "account", Name: "acc"},
	{Ty: "asset", Name: "ass"},
	{Ty: "monetary", Name: "m"},
	{Ty: "portion", Name: "p"},
	{Ty: "number", Name: "n"},
	{Ty: "string", Name: "s"},
	{Ty: "account", Name: "macc", Origin: OrMeta, OAcc: Acc("cfg"), OKey: "k"},
	{Ty: "monetary", Name: "bal", Origin: OrBalance, OAcc: Acc("a"), OAsset: Asset("X")},
}

// VarDomains: bindings tried for each plain variable.
var VarDomains = map[string][]string{
	"acc": {"a", "b", "c"},
	"ass": {"X"},
	"m":   {"X 7", "X 0"},
	"p":   {"1/2", "0%", "100%"},
	"n":   {"3"},
	"s":   {"hello"},
}

func (p *Program) UsedVars() map[string]bool {
	used := map[string]bool{}
	var ex func(e *Expr)
	ex = func(e *Expr) {
		if e == nil {
			return
		}
		if e.K == EVar {
			used[e.S] = true
		}
		ex(e.A)
		ex(e.L)
		ex(e.R)
	}
	var src func(s *Source)
	src = func(s *Source) {
		if s == nil {
			return
		}
		ex(s.Acc)
		ex(s.Up)
		ex(s.Max)
		src(s.Sub)
		for _, c := range s.List {
			src(c)
		}
	}
	ports := func(ps []Portion) {
		for _, q := range ps {
			if q.K == PVar {
				used[q.S] = true
			}
		}
	}
	var dst func(d *Dest)
	kd := func(k KD) {
		if !k.Kept {
			dst(k.D)
		}
	}
	dst = func(d *Dest) {
		if d == nil {
			return
		}
		ex(d.Acc)
		for _, c := range d.Caps {
			ex(c)
		}
		ports(d.Portions)
		for _, it := range d.Items {
			kd(it)
		}
		if d.K == DOrder {
			kd(d.Rem)
		}
	}
	for _, st := range p.Stmts {
		ex(st.Mon)
		ex(st.All)
		ex(st.Val)
		ex(st.Acc)
		src(st.Src.Src)
		ports(st.Src.Portions)
		for _, s := range st.Src.Srcs {
			src(s)
		}
		dst(st.Dst)
	}
	return used
}

// AutoVars declares (in registry order) every variable the program uses.
func (p *Program) AutoVars() {
	used := p.UsedVars()
	p.Vars = nil
	for _, d := range VarRegistry {
		if used[d.Name] {
			p.Vars = append(p.Vars, d)
		}
	}
}

// Block is a product of component lists; a Space is a union of blocks (simplest first).
type Block struct {
	Name    string
	Amounts []Amount
	Sources []VSource
	Dests   []*Dest
	Extras  []*Stmt // when non-empty: programs `send`, `extra; send`, `send; extra`
}

func (b *Block) slots() int { return 1 + 2*len(b.Extras) }

func (b *Block) Size() int {
	return len(b.Amounts) * len(b.Sources) * len(b.Dests) * b.slots()
}

func (b *Block) Program(i int) *Program {
	nd, ns, na := len(b.Dests), len(b.Sources), len(b.Amounts)
	par := i
	d := b.Dests[i%nd]
	i /= nd
	src := b.Sources[i%ns]
	i /= ns
	a := b.Amounts[i%na]
	i /= na
	send := &Stmt{K: StSend, Mon: a.Mon, All: a.All, Src: src, Dst: d, DestFirst: par%5 == 3}
	p := &Program{}
	switch {
	case i == 0:
		p.Stmts = []*Stmt{send}
	case i%2 == 1:
		p.Stmts = []*Stmt{b.Extras[(i-1)/2], send}
	default:
		p.Stmts = []*Stmt{send, b.Extras[(i-1)/2]}
	}
	p.AutoVars()
	return p
}

// ProgBlock: any enumerable family of programs.
type ProgBlock interface {
	Size() int
	Program(i int) *Program
	Describe() string
}

func (b *Block) Describe() string {
	return fmt.Sprintf("%s: amounts=%d x sources=%d x dests=%d x slots=%d = %d", b.Name, len(b.Amounts), len(b.Sources), len(b.Dests), b.slots(), b.Size())
}

// SeqBlock: every sequence of exactly Len statements over an alphabet of simple statements (interaction across statements).
type SeqBlock struct {
	Name     string
	Alphabet []*Stmt
	Len      int
}

func (b *SeqBlock) Size() int {
	n := 1
	for i := 0; i < b.Len; i++ {
		n *= len(b.Alphabet)
	}
	return n
}

func (b *SeqBlock) Program(i int) *Program {
	p := &Program{}
	for k := 0; k < b.Len; k++ {
		p.Stmts = append(p.Stmts, b.Alphabet[i%len(b.Alphabet)])
		i /= len(b.Alphabet)
	}
	p.AutoVars()
	return p
}

func (b *SeqBlock) Describe() string {
	return fmt.Sprintf("%s: all sequences of %d statements over %d simple statements = %d", b.Name, b.Len, len(b.Alphabet), b.Size())
}

// simpleSends: sends of small amounts between plain accounts (routes that can repeat and refill each other)
func simpleSends() []*Stmt {
	var out []*Stmt
	for _, amt := range []int64{50, 3} {
		for _, src := range []string{"a", "b", "world"} {
			for _, dst := range []string{"a", "b", "c"} {
				if src == dst {
					continue
				}
				out = append(out, &Stmt{K: StSend, Mon: X(amt), Src: VSource{Src: SrcAcc(Acc(src))}, Dst: DstAcc(Acc(dst))})
			}
		}
	}
	return out
}

// zeroPortionBlock: three-way allotments (sources and destinations) in which a portion is zero - literally or through a
// variable - at every position, with amounts that do not divide evenly: who gets the units left after flooring?
func zeroPortionBlock(base Bounds) *Block {
	lit := func(s string) Portion { return Portion{K: PLit, S: s} }
	rem := Portion{K: PRemaining}
	pv := Portion{K: PVar, S: "p"}
	sets := [][]Portion{
		{lit("0%"), lit("1/3"), rem}, {lit("1/3"), lit("0%"), rem}, {lit("1/3"), rem, lit("0%")}, {lit("0%"), lit("0%"), lit("100%")},
		{lit("0%"), rem, lit("1/3")}, {pv, lit("1/3"), rem}, {lit("1/3"), pv, rem}, {lit("0/7"), lit("2/3"), lit("1/3")},
	}
	kd := func(a string) KD { return To(DstAcc(Acc(a))) }
	var dests []*Dest
	var srcs []VSource
	for _, ps := range sets {
		dests = append(dests, &Dest{K: DAllot, Portions: ps, Items: []KD{kd("c"), kd("a"), kd("b")}})
		dests = append(dests, &Dest{K: DAllot, Portions: ps, Items: []KD{kd("c"), Kept(), kd("b")}})
		srcs = append(srcs, VSource{Portions: ps, Srcs: []*Source{SrcAcc(Acc("a")), SrcAcc(Acc("b")), SrcAcc(Acc("world"))}})
		srcs = append(srcs, VSource{Portions: ps, Srcs: []*Source{SrcUnb(Acc("a")), SrcAcc(Acc("world")), SrcAcc(Acc("b"))}})
	}
	plain := []VSource{{Src: SrcAcc(Acc("world"))}, {Src: SrcAcc(Acc("a"))}, {Src: SrcUnb(Acc("a"))}}
	// (computed amounts too: the amount of a send from portioned sources is evaluated on another path than a literal)
	amounts := append(append([]Amount{}, base.Amounts()...), Amount{Mon: Add(X(7), X(1))}, Amount{Mon: Sub(X(100), X(40))}, Amount{Mon: Add(Var("m"), X(1))})
	return &Block{Name: "zero-portions", Amounts: amounts, Sources: append(plain, srcs...), Dests: append(dests, DstAcc(Acc("c")))}
}

// constantStmts: statements whose literals meet in the compiler's constant pool - numbers and amounts at the word-size
// boundaries (2^63, 2^64 and neighbours, congruent to the small integers the compiler itself emits), in either order with a send
func constantStmts() []*Stmt {
	pow := func(k uint, d int64) *big.Int {
		return new(big.Int).Add(new(big.Int).Lsh(big.NewInt(1), k), big.NewInt(d))
	}
	var out []*Stmt
	for _, n := range []*big.Int{big.NewInt(0), big.NewInt(1), big.NewInt(3), pow(63, 0), pow(64, -1), pow(64, 0), pow(64, 1), pow(64, 3), pow(70, 0)} {
		out = append(out, &Stmt{K: StSetTxMeta, Key: "k", Val: &Expr{K: ENum, N: n}})
	}
	out = append(out,
		&Stmt{K: StSetTxMeta, Key: "j", Val: Add(&Expr{K: ENum, N: pow(64, 1)}, Num(1))},
		&Stmt{K: StPrint, Val: Sub(&Expr{K: ENum, N: pow(64, 3)}, Num(3))},
		&Stmt{K: StSend, Mon: X(3), Src: VSource{Src: SrcAcc(Acc("world"))}, Dst: DstAcc(Acc("a"))},
		&Stmt{K: StSend, Mon: X(3), Src: VSource{Src: SrcAcc(Acc("a"))}, Dst: DstAcc(Acc("b"))},
		&Stmt{K: StSend, Mon: MonBig(Asset("X"), pow(64, 3)), Src: VSource{Src: SrcAcc(Acc("world"))}, Dst: DstAcc(Acc("a"))},
		&Stmt{K: StSend, Mon: X(3), Src: VSource{Src: SrcOv(Acc("a"), MonBig(Asset("X"), pow(64, 0)))}, Dst: DstAcc(Acc("c"))},
		&Stmt{K: StSetTxMeta, Key: "m", Val: MonBig(Asset("X"), pow(64, 0))},
		&Stmt{K: StSetTxMeta, Key: "m0", Val: X(0)},
		// an overdraft bound and a literal of the same asset that agree in their low 64 bits
		&Stmt{K: StSetTxMeta, Key: "m10", Val: MonBig(Asset("X"), pow(64, 10))},
		&Stmt{K: StSend, Mon: X(50), Src: VSource{Src: SrcOv(Acc("a"), X(10))}, Dst: DstAcc(Acc("c"))},
	)
	return out
}

// selfAndAllSends: what simpleSends leaves out - an account sending to itself, and "everything" sends; a later statement
// sees the balance they leave behind
func selfAndAllSends() []*Stmt {
	var out []*Stmt
	for _, acc := range []string{"a", "b"} {
		out = append(out, &Stmt{K: StSend, Mon: X(3), Src: VSource{Src: SrcAcc(Acc(acc))}, Dst: DstAcc(Acc(acc))})
		out = append(out, &Stmt{K: StSend, All: Asset("X"), Src: VSource{Src: SrcAcc(Acc(acc))}, Dst: DstAcc(Acc(acc))})
		for _, dst := range []string{"a", "b", "c"} {
			if dst != acc {
				out = append(out, &Stmt{K: StSend, All: Asset("X"), Src: VSource{Src: SrcAcc(Acc(acc))}, Dst: DstAcc(Acc(dst))})
			}
		}
	}
	// a source list naming the destination itself next to another account
	out = append(out, &Stmt{K: StSend, Mon: X(50), Src: VSource{Src: SrcOrder(SrcAcc(Acc("a")), SrcAcc(Acc("b")))}, Dst: DstAcc(Acc("a"))})
	return out
}

type Space struct {
	Blocks []ProgBlock
}

func (s *Space) Size() int {
	n := 0
	for _, b := range s.Blocks {
		n += b.Size()
	}
	return n
}

func (s *Space) Program(i int) *Program {
	for _, b := range s.Blocks {
		if i < b.Size() {
			return b.Program(i)
		}
		i -= b.Size()
	}
	panic("index out of range")
}

func (s *Space) Describe() []string {
	var out []string
	for _, b := range s.Blocks {
		out = append(out, b.Describe())
	}
	return out
}

func vs(l []*Source) []VSource {
	var out []VSource
	for _, s := range l {
		out = append(out, VSource{Src: s})
	}
	return out
}

// StandardSpace: the union of blocks explored by the Numscript checks.
// quick:    shallow x shallow (full product), variables x shallow, two-statement interaction, deep x leaf
// thorough: adds three-way lists, wide alphabets, depth-3 sources, second asset, variables at depth 2
func StandardSpace(thorough bool) *Space {
	base := Bounds{SrcDepth: 1, DstDepth: 1}
	vars := Bounds{SrcDepth: 1, DstDepth: 1, Vars: true}
	deep := Bounds{SrcDepth: 2, DstDepth: 2}
	sp := &Space{}
	add := func(b ProgBlock) { sp.Blocks = append(sp.Blocks, b) }
	add(&Block{Name: "shallow", Amounts: base.Amounts(), Sources: base.Sources(), Dests: base.Dests()})
	add(&Block{Name: "vars-src", Amounts: vars.Amounts(), Sources: vars.Sources(), Dests: vars.dstLeaves()})
	add(&Block{Name: "vars-dst", Amounts: vars.Amounts(), Sources: vs(vars.srcLeaves()), Dests: vars.Dests()})
	add(&Block{Name: "two-stmt", Amounts: base.Amounts()[:3], Sources: base.Sources(), Dests: base.dstLeaves()[:2], Extras: base.Extras()})
	add(&Block{Name: "two-stmt-dst", Amounts: base.Amounts()[:3], Sources: vs(base.srcLeaves()), Dests: base.Dests(), Extras: base.Extras()[:4]})
	add(&Block{Name: "deep-src", Amounts: base.Amounts()[:3], Sources: vs(deep.sourcesAt(2)), Dests: base.dstLeaves()[:2]})
	add(&Block{Name: "deep-dst", Amounts: base.Amounts()[:3], Sources: vs(base.srcLeaves()[:4]), Dests: deep.Dests()})
	add(&SeqBlock{Name: "three-sends", Alphabet: simpleSends(), Len: 3})
	add(zeroPortionBlock(base))
	add(&SeqBlock{Name: "constant-pool", Alphabet: constantStmts(), Len: 2})
	add(&SeqBlock{Name: "three-sends-self-and-all", Alphabet: append(simpleSends()[:6], selfAndAllSends()...), Len: 3})
	if thorough {
		wide := Bounds{SrcDepth: 1, DstDepth: 1, Wide: true, ThreeWay: true, SecondAsset: true, Vars: true}
		add(&Block{Name: "wide-src", Amounts: wide.Amounts(), Sources: wide.Sources(), Dests: wide.dstLeaves()})
		add(&Block{Name: "wide-dst", Amounts: wide.Amounts(), Sources: vs(wide.srcLeaves()), Dests: wide.Dests()})
		add(&Block{Name: "wide-mid", Amounts: wide.Amounts()[:6], Sources: base.Sources(), Dests: wide.Dests()})
		wide2 := Bounds{SrcDepth: 1, DstDepth: 1, Wide: true}
		add(&Block{Name: "wide-two-stmt", Amounts: wide2.Amounts()[:4], Sources: base.Sources(), Dests: base.dstLeaves()[:2], Extras: wide2.Extras()})
		deepv := Bounds{SrcDepth: 2, DstDepth: 2, Vars: true}
		add(&Block{Name: "deep-src-vars", Amounts: vars.Amounts(), Sources: vs(deepv.sourcesAt(2)), Dests: base.dstLeaves()[:1]})
		add(&Block{Name: "deep-dst-vars", Amounts: vars.Amounts()[:6], Sources: vs(base.srcLeaves()[:3]), Dests: deepv.Dests()})
		add(&SeqBlock{Name: "four-sends", Alphabet: simpleSends()[:9], Len: 4})
		add(&SeqBlock{Name: "three-statements-mixed", Alphabet: append(simpleSends()[:12], wide2.Extras()...), Len: 3})
	}
	return sp
}

// Inputs enumerates every input (variable binding x balance table x metadata) for a program.
type InputSpace struct {
	Balances []string // per-account balance alphabet (decimal)
}

var QuickBalances = []string{"0", "3", "100", "-5"}
var ThoroughBalances = []string{"0", "3", "100", "-5", "1180591620717411303424", "7"}

func (p *Program) Accounts() (srcs []string) {
	// accounts whose starting balance can matter: every literal account except world, plus variable targets
	set := map[string]bool{}
	var ex func(e *Expr)
	ex = func(e *Expr) {
		if e == nil {
			return
		}
		if e.K == EAcc && e.S != "world" && e.S != "cfg" {
			set[e.S] = true
		}
		ex(e.A)
		ex(e.L)
		ex(e.R)
	}
	var src func(s *Source)
	src = func(s *Source) {
		if s == nil {
			return
		}
		ex(s.Acc)
		src(s.Sub)
		for _, c := range s.List {
			src(c)
		}
	}
	for _, st := range p.Stmts {
		src(st.Src.Src)
		for _, s := range st.Src.Srcs {
			src(s)
		}
		if st.K == StSave {
			ex(st.Acc)
		}
	}
	for _, v := range p.Vars {
		if v.Origin == OrBalance {
			ex(v.OAcc)
		}
	}
	for a := range set {
		srcs = append(srcs, a)
	}
	sort.Strings(srcs)
	return
}

// EachInput calls f for every input of the bounded input space of p.
func (p *Program) EachInput(balAlphabet []string, f func(in *Input)) {
	accs := p.Accounts()
	used := p.UsedVars()
	// variable-bound accounts also need balances
	if used["acc"] || used["macc"] {
		for _, a := range []string{"a", "b"} {
			found := false
			for _, x := range accs {
				if x == a {
					found = true
				}
			}
			if !found {
				accs = append(accs, a)
			}
		}
		sort.Strings(accs)
	}
	var plain []string
	for _, d := range p.Vars {
		if d.Origin == OrNone {
			plain = append(plain, d.Name)
		}
	}
	metaOpts := []map[string]map[string]string{nil}
	if used["macc"] {
		metaOpts = []map[string]map[string]string{
			{"cfg": {"k": "a"}},
			{"cfg": {"k": "b"}},
			{"cfg": {"other": "a"}},
		}
	}
	assets := []string{"X"}
	var rec func(vi int, vars map[string]string)
	rec = func(vi int, vars map[string]string) {
		if vi < len(plain) {
			for _, v := range VarDomains[plain[vi]] {
				vars[plain[vi]] = v
				rec(vi+1, vars)
			}
			delete(vars, plain[vi])
			return
		}
		// balance tables
		n := len(accs)
		idx := make([]int, n)
		for {
			bal := map[string]map[string]string{}
			for i, a := range accs {
				bal[a] = map[string]string{}
				for _, as := range assets {
					bal[a][as] = balAlphabet[idx[i]]
				}
			}
			for _, mo := range metaOpts {
				in := &Input{Vars: map[string]string{}, Balances: bal, Meta: mo}
				for k, v := range vars {
					in.Vars[k] = v
				}
				f(in)
			}
			k := 0
			for k < n {
				idx[k]++
				if idx[k] < len(balAlphabet) {
					break
				}
				idx[k] = 0
				k++
			}
			if k == n {
				break
			}
		}
	}
	rec(0, map[string]string{})
}
