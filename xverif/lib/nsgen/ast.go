// Package nsgen: bounded-exhaustive Numscript program generator and reference semantics (DESIGN.md §4, Appendix A).
package nsgen

import (
	"fmt"
	"math/big"
	"strings"
)

type ExprKind int

const (
	EAcc ExprKind = iota // @name
	EAsset               // X
	ENum                 // 5
	EStr                 // "abc"
	EPortion             // 1/2, 10%
	EMon                 // [asset n]
	EVar                 // $name
	EAdd
	ESub
)

type Expr struct {
	K    ExprKind
	S    string   // account / asset / string / portion text / variable name (no sigil)
	N    *big.Int // number or monetary amount
	A    *Expr    // monetary asset expression
	L, R *Expr
}

func Acc(n string) *Expr            { return &Expr{K: EAcc, S: n} }
func Asset(n string) *Expr          { return &Expr{K: EAsset, S: n} }
func Num(n int64) *Expr             { return &Expr{K: ENum, N: big.NewInt(n)} }
func Str(s string) *Expr            { return &Expr{K: EStr, S: s} }
func PortionLit(s string) *Expr     { return &Expr{K: EPortion, S: s} }
func Var(n string) *Expr            { return &Expr{K: EVar, S: n} }
func Mon(asset string, n int64) *Expr { return &Expr{K: EMon, A: Asset(asset), N: big.NewInt(n)} }
func MonBig(asset *Expr, n *big.Int) *Expr {
	return &Expr{K: EMon, A: asset, N: n}
}
func Add(l, r *Expr) *Expr { return &Expr{K: EAdd, L: l, R: r} }
func Sub(l, r *Expr) *Expr { return &Expr{K: ESub, L: l, R: r} }

func (e *Expr) String() string {
	switch e.K {
	case EAcc:
		return "@" + e.S
	case EAsset:
		return e.S
	case ENum:
		return e.N.String()
	case EStr:
		return `"` + e.S + `"`
	case EPortion:
		return e.S
	case EMon:
		return "[" + e.A.String() + " " + e.N.String() + "]"
	case EVar:
		return "$" + e.S
	case EAdd:
		return e.L.String() + " + " + e.R.String()
	case ESub:
		return e.L.String() + " - " + e.R.String()
	}
	return "?"
}

const (
	OvNone = iota
	OvBounded
	OvUnbounded
)

type SrcKind int

const (
	SAcc SrcKind = iota
	SMax
	SOrder
)

type Source struct {
	K    SrcKind
	Acc  *Expr
	Ov   int
	Up   *Expr
	Max  *Expr
	Sub  *Source
	List []*Source
}

func SrcAcc(a *Expr) *Source                { return &Source{K: SAcc, Acc: a} }
func SrcOv(a *Expr, up *Expr) *Source       { return &Source{K: SAcc, Acc: a, Ov: OvBounded, Up: up} }
func SrcUnb(a *Expr) *Source                { return &Source{K: SAcc, Acc: a, Ov: OvUnbounded} }
func SrcMax(m *Expr, s *Source) *Source     { return &Source{K: SMax, Max: m, Sub: s} }
func SrcOrder(l ...*Source) *Source         { return &Source{K: SOrder, List: l} }

const (
	PLit = iota
	PVar
	PRemaining
)

type Portion struct {
	K int
	S string
}

func (p Portion) String() string {
	switch p.K {
	case PLit:
		return p.S
	case PVar:
		return "$" + p.S
	}
	return "remaining"
}

// VSource: value-aware source: either a plain source or an allotment of sources.
type VSource struct {
	Src      *Source
	Portions []Portion
	Srcs     []*Source
}

type DstKind int

const (
	DAcc DstKind = iota
	DOrder
	DAllot
)

type KD struct {
	Kept bool
	D    *Dest
}

type Dest struct {
	K        DstKind
	Acc      *Expr
	Caps     []*Expr
	Items    []KD
	Rem      KD
	Portions []Portion
}

func DstAcc(a *Expr) *Dest { return &Dest{K: DAcc, Acc: a} }
func To(d *Dest) KD         { return KD{D: d} }
func Kept() KD              { return KD{Kept: true} }

type StmtKind int

const (
	StSend StmtKind = iota
	StSetTxMeta
	StSetAccMeta
	StSave
	StFail
	StPrint
)

type Stmt struct {
	K         StmtKind
	Mon       *Expr // send / save amount (nil when All != nil)
	All       *Expr // asset expression of [A *]
	Src       VSource
	Dst       *Dest
	DestFirst bool
	Key       string
	Val       *Expr
	Acc       *Expr
}

const (
	OrNone = iota
	OrMeta
	OrBalance
)

type VarDecl struct {
	Ty     string
	Name   string
	Origin int
	OAcc   *Expr
	OKey   string
	OAsset *Expr
}

type Program struct {
	Vars  []VarDecl
	Stmts []*Stmt
}

func indent(b *strings.Builder, n int) {
	for i := 0; i < n; i++ {
		b.WriteString("  ")
	}
}

func (s *Source) write(b *strings.Builder, ind int) {
	switch s.K {
	case SAcc:
		b.WriteString(s.Acc.String())
		switch s.Ov {
		case OvBounded:
			b.WriteString(" allowing overdraft up to " + s.Up.String())
		case OvUnbounded:
			b.WriteString(" allowing unbounded overdraft")
		}
	case SMax:
		b.WriteString("max " + s.Max.String() + " from ")
		s.Sub.write(b, ind)
	case SOrder:
		b.WriteString("{\n")
		for _, c := range s.List {
			indent(b, ind+1)
			c.write(b, ind+1)
			b.WriteString("\n")
		}
		indent(b, ind)
		b.WriteString("}")
	}
}

func (v *VSource) write(b *strings.Builder, ind int) {
	if v.Portions == nil {
		v.Src.write(b, ind)
		return
	}
	b.WriteString("{\n")
	for i, p := range v.Portions {
		indent(b, ind+1)
		b.WriteString(p.String() + " from ")
		v.Srcs[i].write(b, ind+1)
		b.WriteString("\n")
	}
	indent(b, ind)
	b.WriteString("}")
}

func (k KD) write(b *strings.Builder, ind int) {
	if k.Kept {
		b.WriteString("kept")
		return
	}
	b.WriteString("to ")
	k.D.write(b, ind)
}

func (d *Dest) write(b *strings.Builder, ind int) {
	switch d.K {
	case DAcc:
		b.WriteString(d.Acc.String())
	case DOrder:
		b.WriteString("{\n")
		for i, c := range d.Caps {
			indent(b, ind+1)
			b.WriteString("max " + c.String() + " ")
			d.Items[i].write(b, ind+1)
			b.WriteString("\n")
		}
		indent(b, ind+1)
		b.WriteString("remaining ")
		d.Rem.write(b, ind+1)
		b.WriteString("\n")
		indent(b, ind)
		b.WriteString("}")
	case DAllot:
		b.WriteString("{\n")
		for i, p := range d.Portions {
			indent(b, ind+1)
			b.WriteString(p.String() + " ")
			d.Items[i].write(b, ind+1)
			b.WriteString("\n")
		}
		indent(b, ind)
		b.WriteString("}")
	}
}

func (st *Stmt) write(b *strings.Builder) {
	switch st.K {
	case StSend:
		b.WriteString("send ")
		if st.All != nil {
			b.WriteString("[" + st.All.String() + " *]")
		} else {
			b.WriteString(st.Mon.String())
		}
		b.WriteString(" (\n")
		src := func() {
			b.WriteString("  source = ")
			st.Src.write(b, 1)
			b.WriteString("\n")
		}
		dst := func() {
			b.WriteString("  destination = ")
			st.Dst.write(b, 1)
			b.WriteString("\n")
		}
		if st.DestFirst {
			dst()
			src()
		} else {
			src()
			dst()
		}
		b.WriteString(")")
	case StSetTxMeta:
		fmt.Fprintf(b, "set_tx_meta(\"%s\", %s)", st.Key, st.Val.String())
	case StSetAccMeta:
		fmt.Fprintf(b, "set_account_meta(%s, \"%s\", %s)", st.Acc.String(), st.Key, st.Val.String())
	case StSave:
		b.WriteString("save ")
		if st.All != nil {
			b.WriteString("[" + st.All.String() + " *]")
		} else {
			b.WriteString(st.Mon.String())
		}
		b.WriteString(" from " + st.Acc.String())
	case StFail:
		b.WriteString("fail")
	case StPrint:
		b.WriteString("print " + st.Val.String())
	}
}

// Text renders the program as Numscript source.
func (p *Program) Text() string {
	var b strings.Builder
	if len(p.Vars) > 0 {
		b.WriteString("vars {\n")
		for _, v := range p.Vars {
			b.WriteString("  " + v.Ty + " $" + v.Name)
			switch v.Origin {
			case OrMeta:
				fmt.Fprintf(&b, " = meta(%s, \"%s\")", v.OAcc.String(), v.OKey)
			case OrBalance:
				fmt.Fprintf(&b, " = balance(%s, %s)", v.OAcc.String(), v.OAsset.String())
			}
			b.WriteString("\n")
		}
		b.WriteString("}\n")
	}
	for i, st := range p.Stmts {
		if i > 0 {
			b.WriteString("\n")
		}
		st.write(&b)
	}
	b.WriteString("\n")
	return b.String()
}

type stringsBuilder struct{ strings.Builder }
