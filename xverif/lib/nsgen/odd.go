package nsgen

import "math/big"

// Meaningless-but-grammatical programs (C12 alphabet iii): unused and repeated declarations, several lookups on
// one account, saves on accounts that are never sources, portions that do not add up, negative arithmetic.

func oddDecls() []VarDecl {
	return []VarDecl{
		{Ty: "account", Name: "aa"},
		{Ty: "account", Name: "ab", Origin: OrMeta, OAcc: Acc("cfg"), OKey: "k"},
		{Ty: "account", Name: "ac", Origin: OrMeta, OAcc: Acc("cfg"), OKey: "k"},
		{Ty: "monetary", Name: "ba", Origin: OrBalance, OAcc: Acc("a"), OAsset: Asset("X")},
		{Ty: "monetary", Name: "bb", Origin: OrBalance, OAcc: Acc("a"), OAsset: Asset("X")},
		{Ty: "monetary", Name: "bc", Origin: OrBalance, OAcc: Acc("a"), OAsset: Asset("Y/2")},
		{Ty: "monetary", Name: "bd", Origin: OrBalance, OAcc: Acc("b"), OAsset: Asset("X")},
		{Ty: "monetary", Name: "be", Origin: OrBalance, OAcc: Var("aa"), OAsset: Asset("X")},
		{Ty: "monetary", Name: "bf", Origin: OrBalance, OAcc: Var("ab"), OAsset: Var("as")},
		{Ty: "asset", Name: "as"},
		{Ty: "portion", Name: "pa"},
		{Ty: "number", Name: "na"},
		{Ty: "string", Name: "sa"},
		{Ty: "monetary", Name: "ma"},
		{Ty: "account", Name: "ad", Origin: OrMeta, OAcc: Var("ab"), OKey: "k2"},
		{Ty: "monetary", Name: "mb", Origin: OrMeta, OAcc: Acc("cfg"), OKey: "mon"},
		{Ty: "portion", Name: "pb", Origin: OrMeta, OAcc: Acc("cfg"), OKey: "por"},
		{Ty: "string", Name: "bg", Origin: OrBalance, OAcc: Acc("a"), OAsset: Asset("X")}, // ill-typed on purpose
		{Ty: "number", Name: "nb", Origin: OrMeta, OAcc: Acc("cfg"), OKey: "num"},
		{Ty: "string", Name: "sb", Origin: OrMeta, OAcc: Acc("cfg"), OKey: "str"},
		{Ty: "asset", Name: "ab2", Origin: OrMeta, OAcc: Acc("cfg"), OKey: "ass"},
	}
}

func sendSimple(m *Expr, s *Source, d *Dest) *Stmt {
	return &Stmt{K: StSend, Mon: m, Src: VSource{Src: s}, Dst: d}
}

func oddBodies() [][]*Stmt {
	c := DstAcc(Acc("c"))
	return [][]*Stmt{
		{sendSimple(X(1), SrcAcc(Acc("world")), c)},
		{sendSimple(X(1), SrcAcc(Acc("a")), c)},
		{sendSimple(Var("ba"), SrcAcc(Acc("a")), c)},
		{sendSimple(Var("bd"), SrcAcc(Acc("a")), DstAcc(Var("aa")))},
		{sendSimple(Var("be"), SrcAcc(Var("aa")), c), {K: StSave, Mon: Var("bb"), Acc: Acc("a")}},
		{sendSimple(Var("ma"), SrcAcc(Var("ab")), DstAcc(Var("ad")))},
		{{K: StSetTxMeta, Key: "k", Val: Var("pa")}, {K: StSetAccMeta, Acc: Var("ac"), Key: "k", Val: Var("bf")}, {K: StPrint, Val: Var("sa")}},
		{sendSimple(MonBig(Var("as"), big.NewInt(3)), SrcOv(Acc("a"), Var("bc")), c), {K: StPrint, Val: Add(Var("na"), Num(1))}},
		{{K: StPrint, Val: Add(Var("nb"), Num(1))}, {K: StSetTxMeta, Key: "s", Val: Var("sb")}, sendSimple(MonBig(Var("ab2"), big.NewInt(1)), SrcAcc(Acc("world")), c)},
		{sendSimple(Var("mb"), SrcAcc(Acc("a")), &Dest{K: DAllot, Portions: []Portion{{K: PVar, S: "pb"}, {K: PRemaining}}, Items: []KD{To(c), Kept()}})},
	}
}

func seqs(n, maxLen int, f func(idx []int)) {
	var rec func(cur []int)
	rec = func(cur []int) {
		f(cur)
		if len(cur) == maxLen {
			return
		}
		for i := 0; i < n; i++ {
			rec(append(append([]int{}, cur...), i))
		}
	}
	rec(nil)
}

func OddPrograms(thorough bool) []*Program {
	var out []*Program
	decls := oddDecls()
	bodies := oddBodies()
	maxLen := 2
	if thorough {
		maxLen = 3
	}
	seqs(len(decls), maxLen, func(idx []int) {
		var vs []VarDecl
		for _, i := range idx {
			vs = append(vs, decls[i])
		}
		for _, b := range bodies {
			out = append(out, &Program{Vars: vs, Stmts: b})
		}
	})
	c := DstAcc(Acc("c"))
	lit := func(s string) Portion { return Portion{K: PLit, S: s} }
	rem := Portion{K: PRemaining}
	pv := Portion{K: PVar, S: "pa"}
	pdecl := []VarDecl{{Ty: "portion", Name: "pa"}}
	// portions that do not add up, in sources and destinations
	psets := [][]Portion{
		{lit("1/2"), lit("1/3")}, {lit("2/3"), lit("2/3")}, {lit("1/2")}, {lit("0%"), lit("0%")}, {lit("100%"), lit("100%")},
		{rem}, {rem, rem}, {pv, lit("1/2")}, {pv, rem, lit("1/2")}, {pv, pv}, {pv, rem}, {lit("100%")}, {lit("100%"), rem}, {lit("1/2"), rem, rem},
		{lit("3/2"), rem}, {lit("150%"), rem}, {lit("1/0"), rem}, {lit("0/1"), rem}, {lit("33.333%"), lit("66.667%")},
	}
	srcs := []*Source{SrcAcc(Acc("a")), SrcAcc(Acc("world")), SrcUnb(Acc("b")), SrcMax(X(3), SrcAcc(Acc("a")))}
	amts := []Amount{{Mon: X(7)}, {Mon: X(0)}, {All: Asset("X")}, {Mon: Sub(X(1), X(7))}}
	for _, ps := range psets {
		for _, a := range amts {
			for _, s0 := range srcs {
				ss := make([]*Source, len(ps))
				for i := range ss {
					ss[i] = srcs[(i+1)%len(srcs)]
				}
				ss[0] = s0
				out = append(out, &Program{Vars: pdecl, Stmts: []*Stmt{{K: StSend, Mon: a.Mon, All: a.All, Src: VSource{Portions: ps, Srcs: ss}, Dst: c}}})
				items := make([]KD, len(ps))
				for i := range items {
					if i%2 == 0 {
						items[i] = To(c)
					} else {
						items[i] = Kept()
					}
				}
				out = append(out, &Program{Vars: pdecl, Stmts: []*Stmt{{K: StSend, Mon: a.Mon, All: a.All, Src: VSource{Src: s0}, Dst: &Dest{K: DAllot, Portions: ps, Items: items}}}})
			}
		}
	}
	// saves everywhere: before / after / between sends, on sources, non-sources, world, other assets, negative and huge amounts
	saveAmts := []Amount{{Mon: X(2)}, {All: Asset("X")}, {Mon: Mon("Y/2", 1)}, {All: Asset("Y/2")}, {Mon: Sub(X(1), X(7))}, {Mon: MonBig(Asset("X"), Big70)}, {Mon: X(0)}}
	saveAccs := []*Expr{Acc("a"), Acc("c"), Acc("world"), Acc("zz")}
	sends := []*Stmt{
		sendSimple(X(7), SrcAcc(Acc("a")), c),
		sendSimple(X(7), SrcOv(Acc("a"), X(5)), c),
		sendSimple(X(7), SrcAcc(Acc("world")), DstAcc(Acc("a"))),
		{K: StSend, All: Asset("X"), Src: VSource{Src: SrcOv(Acc("a"), X(5))}, Dst: c},
		sendSimple(X(7), SrcOrder(SrcAcc(Acc("a")), SrcAcc(Acc("c"))), DstAcc(Acc("b"))),
	}
	for _, sa := range saveAmts {
		for _, acc := range saveAccs {
			sv := &Stmt{K: StSave, Mon: sa.Mon, All: sa.All, Acc: acc}
			out = append(out, &Program{Stmts: []*Stmt{sv}})
			for _, sd := range sends {
				out = append(out, &Program{Stmts: []*Stmt{sv, sd}}, &Program{Stmts: []*Stmt{sd, sv}}, &Program{Stmts: []*Stmt{sv, sv, sd}})
				for _, sd2 := range sends[:2] {
					out = append(out, &Program{Stmts: []*Stmt{sd, sv, sd2}})
				}
			}
		}
	}
	// negative / odd arithmetic in every monetary position
	neg := Sub(X(1), X(7))
	mix := Add(X(1), Mon("Y/2", 1))
	mixs := Sub(X(1), Mon("Y/2", 1))
	for _, e := range []*Expr{neg, mix, mixs, Add(neg, X(10)), Sub(Sub(X(9), X(1)), X(1))} {
		out = append(out,
			&Program{Stmts: []*Stmt{sendSimple(e, SrcAcc(Acc("a")), c)}},
			&Program{Stmts: []*Stmt{sendSimple(e, SrcAcc(Acc("world")), c)}},
			&Program{Stmts: []*Stmt{sendSimple(X(7), SrcOv(Acc("a"), e), c)}},
			&Program{Stmts: []*Stmt{sendSimple(X(7), SrcMax(e, SrcAcc(Acc("a"))), c)}},
			&Program{Stmts: []*Stmt{sendSimple(X(7), SrcMax(e, SrcAcc(Acc("world"))), c)}},
			&Program{Stmts: []*Stmt{sendSimple(X(7), SrcAcc(Acc("world")), &Dest{K: DOrder, Caps: []*Expr{e}, Items: []KD{To(c)}, Rem: Kept()})}},
			&Program{Stmts: []*Stmt{{K: StSetTxMeta, Key: "k", Val: e}}},
			&Program{Stmts: []*Stmt{{K: StPrint, Val: e}}},
			&Program{Stmts: []*Stmt{{K: StSetAccMeta, Acc: Acc("c"), Key: "k", Val: e}}},
		)
	}
	for _, e := range []*Expr{Sub(Num(1), Num(2)), Add(Num(1), Acc("a")), Add(Acc("a"), Acc("a")), Add(Str("x"), Str("y")), Add(PortionLit("1/2"), PortionLit("1/2")), Add(Asset("X"), Asset("X")),
		PortionLit("3/2"), PortionLit("1/0"), PortionLit("200%"), MonBig(Acc("a"), big.NewInt(1)), MonBig(Num(1), big.NewInt(1)), MonBig(X(1), big.NewInt(1)), Var("nope")} {
		out = append(out,
			&Program{Stmts: []*Stmt{{K: StSetTxMeta, Key: "k", Val: e}}},
			&Program{Stmts: []*Stmt{{K: StPrint, Val: e}}},
			&Program{Stmts: []*Stmt{{K: StSetAccMeta, Acc: e, Key: "k", Val: e}}},
			&Program{Stmts: []*Stmt{sendSimple(e, SrcAcc(e), DstAcc(e))}},
			&Program{Stmts: []*Stmt{{K: StSave, Mon: e, Acc: e}}},
		)
	}
	return out
}

var badValues = map[string][]string{
	"account":  {"", "a b", "@a", "a:", ":a", "a::b", "é"},
	"asset":    {"", "x", "X/", "X/1234567", "ABCDEFGHIJKLMNOPQRS"},
	"monetary": {"", "X", "X -1", "X 1.5", " 5", "X  5", "x 5", "X 5 6", "X 1180591620717411303424"},
	"portion":  {"", "3/2", "1/0", "abc", "-1/2", "150%", "1/2/3", "50", "0/0"},
	"number":   {"", "abc", "1.5", "-3", "1e3", "1180591620717411303424"},
	"string":   {"", "\x00", "é\"'"},
}

// texts that mean something to a JSON decoder: variable values and stored metadata pass through one on their way in
func init() {
	for ty := range badValues {
		badValues[ty] = append(badValues[ty], "null", "true", "[]", "{}", "\"3\"", " ", "0x10", "NaN")
	}
}

var goodValues = map[string]string{"account": "a", "asset": "X", "monetary": "X 7", "portion": "1/2", "number": "3", "string": "hi"}

// OddInputs: valid / missing / extraneous / ill-typed variable maps x three stores.
func OddInputs(p *Program) []*Input {
	var plain []VarDecl
	for _, v := range p.Vars {
		if v.Origin == OrNone {
			plain = append(plain, v)
		}
	}
	valid := map[string]string{}
	for _, v := range plain {
		valid[v.Name] = goodValues[v.Ty]
	}
	cp := func(m map[string]string) map[string]string {
		o := map[string]string{}
		for k, v := range m {
			o[k] = v
		}
		return o
	}
	maps := []map[string]string{cp(valid)}
	ext := cp(valid)
	ext["zzz"] = "1"
	maps = append(maps, ext)
	seen := map[string]bool{}
	for _, v := range plain {
		if seen[v.Name] {
			continue
		}
		seen[v.Name] = true
		m := cp(valid)
		delete(m, v.Name)
		maps = append(maps, m)
		for _, bad := range badValues[v.Ty] {
			m := cp(valid)
			m[v.Name] = bad
			maps = append(maps, m)
		}
		for ty, good := range goodValues {
			if ty != v.Ty {
				m := cp(valid)
				m[v.Name] = good
				maps = append(maps, m)
			}
		}
	}
	stores := []*Input{
		{},
		{Balances: map[string]map[string]string{"a": {"X": "100", "Y/2": "5"}, "b": {"X": "-5"}, "c": {"X": "1"}},
			Meta: map[string]map[string]string{"cfg": {"k": "a", "k2": "b", "mon": "X 3", "por": "1/3", "num": "4", "str": "hello", "ass": "X"}, "a": {"k2": "b", "k": "c"}, "b": {"k2": "a"}}},
		{Balances: map[string]map[string]string{"a": {"X": "-5", "Y/2": "-1"}, "b": {"X": "1180591620717411303424"}},
			Meta: map[string]map[string]string{"cfg": {"k": "!!", "mon": "X -3", "por": "3/2", "num": "-1", "str": "", "ass": "x"}}},
		{Balances: map[string]map[string]string{"a": {"X": "3"}},
			Meta: map[string]map[string]string{"cfg": {"k": "world", "mon": "Y/2 3", "por": "100%"}, "world": {"k2": "world"}}},
		{Balances: map[string]map[string]string{"a": {"X": "3"}},
			Meta: map[string]map[string]string{"cfg": {"k": "null", "k2": "null", "mon": "null", "por": "null", "num": "null", "str": "null", "ass": "null"}, "a": {"k": "null", "k2": "[]"}}},
	}
	var out []*Input
	for _, m := range maps {
		for _, s := range stores {
			out = append(out, &Input{Vars: cp(m), Balances: s.Balances, Meta: s.Meta})
		}
	}
	// request metadata colliding with script metadata
	out = append(out, &Input{Vars: cp(valid), Balances: stores[1].Balances, Meta: stores[1].Meta, ReqMeta: map[string]string{"k": "v"}})
	return out
}
