//go:build verif

// vrace: free-running harness bodies for the race detector (go build -race). The controlled scheduler serialises every
// step, which hides unsynchronised accesses from the detector; here the same components run on real goroutines and the
// detector judges every pair of conflicting accesses that is not ordered by synchronisation, whatever the interleaving.
// usage: vrace <component>   (router | commander | locker | compiler)
package main

import (
	"context"
	"fmt"
	"math/big"
	"net/http/httptest"
	"os"
	"strings"
	"sync"

	ledger "github.com/formancehq/ledger/internal"
	"github.com/formancehq/ledger/internal/api"
	"github.com/formancehq/ledger/internal/engine/command"
	"github.com/formancehq/ledger/internal/opentelemetry/metrics"
	"github.com/formancehq/ledger/xverif/lib/engineh"
	"github.com/formancehq/ledger/xverif/lib/memstore"
	"github.com/formancehq/ledger/xverif/lib/recbackend"
	"github.com/formancehq/stack/libs/go-libs/auth"
	"github.com/formancehq/stack/libs/go-libs/health"
	"github.com/formancehq/stack/libs/go-libs/metadata"
)

func postings(src, dst string, n int64) ledger.RunScript {
	return ledger.TxToScriptData(ledger.TransactionData{Postings: ledger.Postings{ledger.NewPosting(src, dst, "X", big.NewInt(n))}}, false)
}

func main() {
	if len(os.Args) < 2 {
		fmt.Println("usage: vrace router|commander|locker|compiler")
		os.Exit(3)
	}
	const workers, rounds = 8, 60
	var wg sync.WaitGroup
	run := func(f func(w, r int)) {
		for w := 0; w < workers; w++ {
			w := w
			wg.Add(1)
			go func() {
				defer wg.Done()
				for r := 0; r < rounds; r++ {
					f(w, r)
				}
			}()
		}
		wg.Wait()
	}
	switch os.Args[1] {
	case "router":
		// one read-only and one read-write router, shared by all workers (as a server shares its router)
		for _, ro := range []bool{true, false} {
			b := recbackend.New("l1")
			b.AnyLedger = true
			router := api.NewRouter(b, health.NewHealthController(nil), metrics.NewNoOpRegistry(), auth.NewNoAuth(), ro)
			reqs := []struct{ m, p, body string }{
				{"POST", "/api/ledger/v2/l1/transactions", `{"postings":[{"source":"world","destination":"a","amount":1,"asset":"X"}]}`},
				{"POST", "/api/ledger/l1/transactions", `{"postings":[{"source":"world","destination":"a","amount":1,"asset":"X"}]}`},
				{"POST", "/api/ledger/v2/l2/transactions/0/revert", ""},
				{"DELETE", "/api/ledger/v2/l1/accounts/a/metadata/k", ""},
				{"POST", "/api/ledger/v2/l1/_bulk", `[{"action":"ADD_METADATA","data":{"targetType":"ACCOUNT","targetId":"a","metadata":{"k":"v"}}}]`},
				{"GET", "/api/ledger/v2/l1/accounts", ""},
				{"GET", "/api/ledger/l1/transactions?pageSize=3", ""},
				{"HEAD", "/api/ledger/v2/l1/transactions", ""},
				{"OPTIONS", "/api/ledger/v2/l1/transactions", ""},
				{"PUT", "/api/ledger/v2/nowhere/at/all", ""},
			}
			run(func(w, r int) {
				q := reqs[(w+r)%len(reqs)]
				req := httptest.NewRequest(q.m, q.p, strings.NewReader(q.body)).WithContext(engineh.QuietCtx())
				router.ServeHTTP(httptest.NewRecorder(), req)
			})
		}
	case "commander":
		st := memstore.New()
		st.Seed(ledger.NewTransactionLog(ledger.NewTransaction().WithPostings(ledger.NewPosting("world", "a", "X", big.NewInt(1000000))).WithID(big.NewInt(0)), nil))
		eng := engineh.Start(st, nil)
		run(func(w, r int) {
			p := command.Parameters{}
			if r%5 == 0 {
				// (one key per kind of write: re-using a key across kinds panics in the engine, a known observation outside the properties)
				p.IdempotencyKey = fmt.Sprintf("k-%d-%d", (w+r)%6, r%7)
			}
			if r%11 == 0 {
				p.DryRun = true
			}
			switch (w + r) % 6 {
			case 0, 1:
				rs := postings("a", fmt.Sprintf("b%d", w), 1)
				if r%4 == 0 {
					rs.Reference = fmt.Sprintf("ref-%d", r%9)
				}
				_, _ = eng.Cmd.CreateTransaction(eng.Ctx(), p, rs)
			case 2:
				_, _ = eng.Cmd.CreateTransaction(eng.Ctx(), p, ledger.RunScript{Script: ledger.Script{Plain: "vars {\n account $s = meta(@cfg, \"src\")\n}\nsend [X 1] (\n source = $s\n destination = @c\n)\n", Vars: map[string]string{}}})
			case 3:
				_, _ = eng.Cmd.RevertTransaction(eng.Ctx(), p, big.NewInt(int64(r%20)), r%2 == 0)
			case 4:
				_ = eng.Cmd.SaveMeta(eng.Ctx(), p, ledger.MetaTargetTypeAccount, "cfg", metadata.Metadata{"src": "a"})
			case 5:
				_ = eng.Cmd.DeleteMetadata(eng.Ctx(), p, ledger.MetaTargetTypeAccount, "cfg", "other")
			}
		})
		eng.Stop()
	case "locker":
		l := command.NewDefaultLocker()
		shapes := []command.Accounts{{Write: []string{"a"}}, {Read: []string{"a"}}, {Read: []string{"a", "b"}, Write: []string{"a"}}, {Write: []string{"a", "b"}}, {Read: []string{"a", "a"}}, {Write: []string{"b"}}}
		run(func(w, r int) {
			ctx, cancel := context.WithCancel(engineh.QuietCtx())
			if r%7 == 0 {
				go cancel()
			}
			unlock, err := l.Lock(ctx, shapes[(w+r)%len(shapes)])
			if err == nil {
				unlock(ctx)
			}
			cancel()
		})
	case "compiler":
		c := command.NewCompiler(2)
		texts := []string{"send [X 1] (\n source = @world\n destination = @a\n)\n", "send [X 2] (\n source = @world\n destination = @b\n)\n", "send [X 3] (\n source = @world\n destination = @c\n)\n", "send [X 1] (", "vars {\n account $a\n}\nsend [X 1] (\n source = @world\n destination = $a\n)\n"}
		run(func(w, r int) { _, _ = c.Compile(texts[(w+r)%len(texts)]) })
	default:
		fmt.Println("unknown component")
		os.Exit(3)
	}
	fmt.Println("vrace", os.Args[1], "done")
}
