package main

import (
	"bytes"
	"context"
	"database/sql/driver"
	"errors"
	"fmt"
	"math/big"
	"sort"
	"strings"

	"github.com/alitto/pond"
	ledger "github.com/formancehq/ledger/internal"
	"github.com/formancehq/ledger/internal/bus"
	"github.com/formancehq/ledger/internal/engine/command"
	"github.com/formancehq/ledger/internal/machine"
	"github.com/formancehq/ledger/internal/storage/sqlutils"
	"github.com/formancehq/ledger/xverif/lib/engineh"
	"github.com/formancehq/ledger/xverif/lib/explore"
	"github.com/formancehq/ledger/xverif/lib/memstore"
	"github.com/formancehq/stack/libs/go-libs/metadata"
	"github.com/formancehq/stack/libs/go-libs/verifrt"
	"github.com/lib/pq"
)

var sharedCompiler = command.NewCompiler(1024)

var errInjected = errors.New("injected store failure")

// cancelKindError is what a store operation reports when its context is given up while the statement runs: an error
// that wraps context.Canceled. injectedError passes it through the tree's own sqlutils.PostgresError, as the real
// store does with every driver error, so a mapping that turns it into "not found" (or anything else) is part of the run.
type cancelKindError struct{}

func (cancelKindError) Error() string   { return "injected store failure: context canceled" }
func (cancelKindError) Unwrap() error   { return context.Canceled }
func (cancelKindError) Is(t error) bool { return t == errInjected }

// deadlineKindError: the same for an expired deadline.
type deadlineKindError struct{}

func (deadlineKindError) Error() string   { return "injected store failure: context deadline exceeded" }
func (deadlineKindError) Unwrap() error   { return context.DeadlineExceeded }
func (deadlineKindError) Is(t error) bool { return t == errInjected }

// faultKinds: what a PostgreSQL-backed store can report for an operation that did NOT do its work, besides a plain error: the
// context given up, and server / driver conditions (query cancelled, serialization failure, connection lost, relation or schema
// missing, bad connection). None of them means "no such row" (only sql.ErrNoRows does) and none means "done".
var faultKinds = []string{"cancel", "deadline", "pq:57014", "pq:40001", "pq:08006", "pq:42P01", "pq:3F000", "badconn"}

func injectedError(spec *worldSpec) error {
	kind := spec.FaultKind
	if spec.CancelKind {
		kind = "cancel"
	}
	switch {
	case kind == "":
		return errInjected
	case kind == "cancel":
		return sqlutils.PostgresError(cancelKindError{})
	case kind == "deadline":
		return sqlutils.PostgresError(deadlineKindError{})
	case kind == "badconn":
		return sqlutils.PostgresError(driver.ErrBadConn)
	case strings.HasPrefix(kind, "pq:"):
		return sqlutils.PostgresError(&pq.Error{Severity: "ERROR", Code: pq.ErrorCode(kind[3:]), Message: "injected store failure (" + kind + ")"})
	}
	panic("unknown fault kind " + kind)
}

func init() {
	pond.Spawn = func(f func()) { verifrt.Go(f) }
	pond.NewWaitGroup = func() pond.WG { return &verifrt.WaitGroup{} }
}

// reqKind: what a request thread does
type reqSpec struct {
	Name string
	Kind string // create | revert | savemeta | delmeta
	// create
	Script   string
	Vars     map[string]string
	Ref      string
	Postings ledger.Postings // alternative to Script: posting mode
	// declared overdraft per source account ("" = none; "inf"); used by the C02 oracle
	Overdraft map[string]string
	// revert
	TxID  int64
	Force bool
	// metadata
	TargetType string
	TargetID   any
	Meta       metadata.Metadata
	Key        string
	IK         string
	DryRun     bool
	// Cancellable: the request runs with a context that an extra thread cancels at any moment
	Cancellable bool
}

type reqResult struct {
	Spec               *reqSpec
	Answered           bool
	Err                error
	Class              string // ok | conflict | insufficient | already-reverted | revert-occurring | not-found | ik-taken | other-error | panic | unanswered
	Tx                 *ledger.Transaction
	Panic              interface{}
	LogsAtReturn       int // persisted log count when the request returned
	RowPresentAtReturn bool
	Gen                int
}

type worldSpec struct {
	Name          string
	Seed          func(st *memstore.Store)
	Gen1, Gen2    []reqSpec
	Crash         bool   // a crash may be injected at any point (one per execution)
	FaultInsert   bool   // InsertLogs may fail (one deviation each)
	StoreGoesDown bool   // from one InsertLogs on (one deviation) every InsertLogs fails
	ReadsGoDown   bool   // from one read on (one deviation) every read fails; insertions still work
	GracefulClose bool   // Commander.Close() is called at any moment
	FaultReads    bool   // store reads may fail
	FaultKind     string // "" (a plain error) or one of faultKinds: what the injected failures look like, after the tree's PostgresError
	CancelKind    bool   // injected failures are of the "context cancelled while the statement ran" kind, mapped by the tree's PostgresError
}

type worldRun struct {
	Spec        *worldSpec
	Store       *memstore.Store
	Pub         *engineh.Publisher
	Results     []*reqResult
	Reason1     verifrt.Reason
	Reason2     verifrt.Reason
	Crashed     bool // the process died (crash choice or daemon panic) during generation 1
	DaemonPanic interface{}
	Pending     []string
	SeedLen     int
	// restarts: start-up attempts with one read given up, and how many of them came up regardless
	InitFaultAttempts, InitSurvivedFault int
}

func classify(err error) string {
	switch {
	case err == nil:
		return "ok"
	case command.IsInvalidTransactionError(err, command.ErrInvalidTransactionCodeConflict):
		return "conflict"
	case machine.IsInsufficientFundError(err):
		return "insufficient"
	case command.IsRevertError(err, command.ErrRevertTransactionCodeAlreadyReverted):
		return "already-reverted"
	case command.IsRevertError(err, command.ErrRevertTransactionCodeOccurring):
		return "revert-occurring"
	case command.IsRevertError(err, command.ErrRevertTransactionCodeNotFound):
		return "not-found"
	case strings.Contains(err.Error(), "already taken"):
		return "ik-taken"
	case errors.Is(err, errInjected), errors.Is(err, driver.ErrBadConn), strings.Contains(err.Error(), "injected store failure"):
		return "store-error"
	}
	return "other-error"
}

func (rs *reqSpec) runScript() ledger.RunScript {
	if rs.Postings != nil {
		s := ledger.TxToScriptData(ledger.TransactionData{Postings: rs.Postings, Metadata: metadata.Metadata{"tag": rs.Name}, Reference: rs.Ref}, false)
		return s
	}
	vars := map[string]string{}
	for k, v := range rs.Vars {
		vars[k] = v
	}
	return ledger.RunScript{Script: ledger.Script{Plain: rs.Script, Vars: vars}, Metadata: metadata.Metadata{"tag": rs.Name}, Reference: rs.Ref}
}

// rowFor finds the persisted row produced by a request (by tag / target), among logs.
func rowFor(rs *reqSpec, logs []*ledger.ChainedLog, from int) []*ledger.ChainedLog {
	var out []*ledger.ChainedLog
	for _, l := range logs[from:] {
		switch p := l.Data.(type) {
		case ledger.NewTransactionLogPayload:
			if rs.Kind == "create" && p.Transaction.Metadata["tag"] == rs.Name {
				out = append(out, l)
			}
		case ledger.RevertedTransactionLogPayload:
			if rs.Kind == "revert" && p.RevertedTransactionID.Int64() == rs.TxID && (rs.IK == "" && l.IdempotencyKey == "" || l.IdempotencyKey == rs.IK) {
				out = append(out, l)
			}
		case ledger.SetMetadataLogPayload:
			if rs.Kind == "savemeta" && p.Metadata["tag"] == rs.Name {
				out = append(out, l)
			}
		case ledger.DeleteMetadataLogPayload:
			if rs.Kind == "delmeta" && p.Key == rs.Key {
				out = append(out, l)
			}
		}
	}
	return out
}

func (w *worldRun) exec(cmd *command.Commander, ctx context.Context, rs *reqSpec, gen int) *reqResult {
	res := &reqResult{Spec: rs, Gen: gen, Class: "unanswered"}
	w.Results = append(w.Results, res)
	return res
}

func runRequest(w *worldRun, cmd *command.Commander, ctx context.Context, res *reqResult) {
	rs := res.Spec
	defer func() {
		if e := recover(); e != nil {
			res.Panic = e
			res.Class = "panic"
			res.Answered = true
			res.LogsAtReturn = w.Store.Len()
		}
	}()
	p := command.Parameters{IdempotencyKey: rs.IK, DryRun: rs.DryRun}
	var err error
	var tx *ledger.Transaction
	switch rs.Kind {
	case "create":
		tx, err = cmd.CreateTransaction(ctx, p, rs.runScript())
	case "revert":
		tx, err = cmd.RevertTransaction(ctx, p, big.NewInt(rs.TxID), rs.Force)
	case "savemeta":
		m := metadata.Metadata{"tag": rs.Name}
		for k, v := range rs.Meta {
			m[k] = v
		}
		err = cmd.SaveMeta(ctx, p, rs.TargetType, rs.TargetID, m)
	case "delmeta":
		err = cmd.DeleteMetadata(ctx, p, rs.TargetType, rs.TargetID, rs.Key)
	}
	// no scheduling point between the return above and these reads
	res.Answered = true
	res.Err = err
	res.Tx = tx
	res.Class = classify(err)
	logs := w.Store.Snapshot()
	res.LogsAtReturn = len(logs)
	res.RowPresentAtReturn = len(rowFor(rs, logs, w.SeedLen)) > 0
}

var prewarmed = map[string]bool{}

// prewarm compiles every script the scenario can run into the process-wide compilation cache before exploration starts,
// so that cache hit / miss never differs between two executions of the same schedule (it would change the number of
// scheduling points in the statement-granularity build).
func prewarm(spec *worldSpec) {
	if prewarmed[spec.Name] {
		return
	}
	prewarmed[spec.Name] = true
	st := memstore.New()
	if spec.Seed != nil {
		spec.Seed(st)
	}
	f := memstore.Fold(st.Snapshot())
	for _, reqs := range [][]reqSpec{spec.Gen1, spec.Gen2} {
		for i := range reqs {
			rs := &reqs[i]
			switch rs.Kind {
			case "create":
				_, _ = sharedCompiler.Compile(rs.runScript().Plain)
			case "revert":
				if tx := f.Tx(fmt.Sprint(rs.TxID)); tx != nil {
					rt := tx.Reverse()
					for _, force := range []bool{false, true} {
						_, _ = sharedCompiler.Compile(ledger.TxToScriptData(ledger.TransactionData{Postings: rt.Postings}, force).Plain)
					}
				}
			}
		}
	}
}

func runWorld(spec *worldSpec, r *explore.Replayer) *worldRun {
	prewarm(spec)
	w := &worldRun{Spec: spec, Store: memstore.New()}
	if spec.Seed != nil {
		spec.Seed(w.Store)
	}
	w.SeedLen = w.Store.Len()
	w.Pub = &engineh.Publisher{Store: w.Store, Hook: func(topic string) { verifrt.Point("publish " + topic) }}
	storeDown := false
	readsDown := false
	inInit, initRead, initFaultAt, initFaultFired := false, 0, -1, false
	w.Store.Hook = func(op string) error {
		isInsert := strings.HasPrefix(op, "InsertLogs")
		if inInit {
			// start-up reads (outside the scheduler): the initFaultAt-th one is given up by a cancelled context
			n := initRead
			initRead++
			if n == initFaultAt {
				initFaultFired = true
				return sqlutils.PostgresError(cancelKindError{})
			}
			return nil
		}
		if isInsert && spec.StoreGoesDown {
			// the store fails from some insertion on and stays down (one deviation: where), unlike a transient fault
			if storeDown {
				verifrt.Point(op + " (store down)")
				return injectedError(spec)
			}
			if verifrt.Choice(op, 2) == 1 {
				storeDown = true
				return injectedError(spec)
			}
			return nil
		}
		if !isInsert && spec.ReadsGoDown {
			// reads fail from some read on and keep failing (an outage of the read path, unlike a single transient fault)
			if readsDown {
				verifrt.Point(op + " (reads down)")
				return injectedError(spec)
			}
			if verifrt.Choice(op, 2) == 1 {
				readsDown = true
				return injectedError(spec)
			}
			return nil
		}
		if (isInsert && spec.FaultInsert) || (!isInsert && spec.FaultReads) {
			if verifrt.Choice(op, 2) == 1 {
				return injectedError(spec)
			}
			return nil
		}
		verifrt.Point(op)
		return nil
	}
	ctx := quietCtx()
	generation := func(gen int, reqs []reqSpec, allowCrash bool) verifrt.Reason {
		s := verifrt.New(r)
		s.AllowCrash = allowCrash
		if gen > 1 {
			h := uint64(gen)
			// generation 2 starts from what is persisted AND from what generation 1's callers were told
			for _, c := range w.digest() + "||" + w.label() {
				h = h*1099511628211 ^ uint64(c)
			}
			s.Salt = h
		}
		// the process serves several ledgers through one publisher: another ledger's monitor exists before this one's
		_ = bus.NewLedgerMonitor(w.Pub, "other-ledger")
		cmd := command.New(w.Store, command.NewDefaultLocker(), sharedCompiler, command.NewReferencer(), bus.NewLedgerMonitor(w.Pub, "l1"))
		if gen > 1 {
			// a restart: before the start-up that succeeds, one attempt per start-up read in which that read is given up
			// (cancelled context). An attempt that reports an error is a process that did not come up (next attempt); an
			// attempt that comes up in spite of the failed read serves generation 2 and is judged by the scenario's oracle.
			for k := 0; ; k++ {
				c := command.New(w.Store, command.NewDefaultLocker(), sharedCompiler, command.NewReferencer(), bus.NewLedgerMonitor(w.Pub, "l1"))
				inInit, initRead, initFaultAt, initFaultFired = true, 0, k, false
				err := c.Init(ctx)
				inInit = false
				if !initFaultFired {
					break // fewer than k+1 start-up reads: every one has been tried
				}
				w.InitFaultAttempts++
				if err == nil {
					w.InitSurvivedFault++
					cmd = c
					break
				}
			}
			initFaultAt = -1
		}
		if !(gen > 1 && w.InitSurvivedFault > 0) {
			inInit, initRead, initFaultAt = true, 0, -1
			err := cmd.Init(ctx)
			inInit = false
			if err != nil {
				panic(err)
			}
		}
		s.Spawn("runner", true, func() { cmd.Run(ctx) })
		var cancels []context.CancelFunc
		for i := range reqs {
			res := w.exec(cmd, ctx, &reqs[i], gen)
			rctx := ctx
			if reqs[i].Cancellable {
				var cancel context.CancelFunc
				rctx, cancel = context.WithCancel(ctx)
				cancels = append(cancels, cancel)
				s.Spawn("cancel-"+reqs[i].Name, false, func() {
					verifrt.PointOn("cancel context", "real")
					cancel()
				})
			}
			s.Spawn(reqs[i].Name, false, func() { runRequest(w, cmd, rctx, res) })
		}
		if spec.GracefulClose && gen == 1 {
			// the engine is closed (graceful shutdown) at any moment while requests are in flight
			s.Spawn("closer", false, func() {
				verifrt.PointOn("close engine", "real")
				cmd.Close()
			})
		}
		defer func() {
			for _, c := range cancels {
				c()
			}
		}()
		reason := s.Run()
		if reason == verifrt.Deadlock {
			w.Pending = s.PendingDescs()
		}
		for _, t := range s.Threads() {
			if t.Daemon && t.Panic != nil {
				w.DaemonPanic = t.Panic
			}
		}
		s.KillAll()
		return reason
	}
	w.Reason1 = generation(1, spec.Gen1, spec.Crash)
	if w.Reason1 == verifrt.Crash || w.Reason1 == verifrt.DaemonPanic {
		w.Crashed = true
		w.Reason2 = generation(2, spec.Gen2, false)
	}
	return w
}

// digest of the persisted log: types, ids, tx ids, tags; batch sizes
func (w *worldRun) digest() string {
	var sb strings.Builder
	for _, l := range w.Store.Snapshot() {
		fmt.Fprintf(&sb, "%s:%s", l.ID, l.Type)
		switch p := l.Data.(type) {
		case ledger.NewTransactionLogPayload:
			fmt.Fprintf(&sb, "(tx%s %s)", p.Transaction.ID, p.Transaction.Metadata["tag"])
		case ledger.RevertedTransactionLogPayload:
			fmt.Fprintf(&sb, "(tx%s reverts %s)", p.RevertTransaction.ID, p.RevertedTransactionID)
		case ledger.SetMetadataLogPayload:
			fmt.Fprintf(&sb, "(%s)", p.Metadata["tag"])
		case ledger.DeleteMetadataLogPayload:
			fmt.Fprintf(&sb, "(%s)", p.Key)
		}
		sb.WriteString(" ")
	}
	sb.WriteString("batches=")
	for _, b := range w.Store.Batches {
		fmt.Fprintf(&sb, "%d,", len(b))
	}
	return sb.String()
}

func (w *worldRun) label() string {
	var parts []string
	for _, r := range w.Results {
		parts = append(parts, r.Spec.Name+"="+r.Class)
	}
	sort.Strings(parts)
	l := strings.Join(parts, " ")
	if w.Crashed {
		l += " [crashed:" + w.Reason1.String() + "]"
	}
	if w.Reason1 == verifrt.Deadlock || w.Reason2 == verifrt.Deadlock {
		l += " [deadlock]"
	}
	return l
}

type oracle func(w *worldRun) (why, key string)

func worldScenario(prop string, spec worldSpec, oracles ...oracle) *explore.Scenario {
	sp := spec
	return &explore.Scenario{Name: prop + "/" + spec.Name, Exec: func(r *explore.Replayer) explore.Outcome {
		w := runWorld(&sp, r)
		out := explore.Outcome{State: w.label() + " || " + w.digest(), Label: w.label()}
		for _, o := range oracles {
			if why, key := o(w); why != "" {
				out.Violation, out.VKey = why, key
				break
			}
		}
		if out.Violation == "" {
			for _, res := range w.Results {
				if res.Class == "panic" {
					out.Violation, out.VKey = fmt.Sprintf("request %s panicked: %v", res.Spec.Name, res.Panic), "request-panic"
				}
			}
		}
		return out
	}}
}

// ---------------------------------------------------------------------------------------------
// oracles

// chainOracle (C05): ids 0,1,2.. in arrival order, recomputed hash chain, tx ids +1 in log order.
func chainOracle(w *worldRun) (string, string) {
	if len(w.Store.Rejected) > 0 {
		return fmt.Sprintf("the engine tried to persist an entry whose id is already taken (%s): ids are not continued from the persisted head [%s | %s]", w.Store.Rejected[0], w.label(), w.digest()), "chain-duplicate-id"
	}
	logs := w.Store.Snapshot()
	var prev *ledger.ChainedLog
	nextTx := int64(-1)
	for i, l := range logs {
		if l.ID.Cmp(big.NewInt(int64(i))) != 0 {
			return fmt.Sprintf("entry at position %d of the persisted log carries id %s (ids must be 0,1,2,... in insertion order) [%s]", i, l.ID, w.digest()), "chain-id"
		}
		re := l.Log.ChainLog(prev)
		if !bytes.Equal(memstore.SpecHash(prev, l), l.Hash) {
			return fmt.Sprintf("entry %d: hash is not SHA-256 over the previous entry's hash and the whole entry (type, data, date, idempotency key) [%s]", i, w.digest()), "chain-hash-spec"
		}
		if !bytes.Equal(re.Hash, l.Hash) {
			return fmt.Sprintf("entry %d: hash is not the digest of the previous entry's hash and its content [%s]", i, w.digest()), "chain-hash"
		}
		var tx *ledger.Transaction
		switch p := l.Data.(type) {
		case ledger.NewTransactionLogPayload:
			tx = p.Transaction
		case ledger.RevertedTransactionLogPayload:
			tx = p.RevertTransaction
		}
		if tx != nil {
			if nextTx < 0 {
				nextTx = tx.ID.Int64()
			}
			if tx.ID.Int64() != nextTx {
				return fmt.Sprintf("transaction id %s at log position %d, expected %d (ids must increase by one in log order) [%s]", tx.ID, i, nextTx, w.digest()), "chain-txid"
			}
			nextTx++
		}
		prev = l
	}
	return "", ""
}

// ackOracle (C06): acknowledged => persisted (at return) with the returned content; rows <-> requests one to one; error => no row.
func ackOracle(w *worldRun) (string, string) {
	logs := w.Store.Snapshot()
	claimed := map[*ledger.ChainedLog]string{}
	for _, res := range w.Results {
		if res.Spec.DryRun {
			continue
		}
		rows := rowFor(res.Spec, logs, w.SeedLen)
		switch {
		case res.Class == "ok":
			if !res.RowPresentAtReturn {
				return fmt.Sprintf("%s was acknowledged before its log entry was persisted (a read started after the response would not see it)", res.Spec.Name), "ack-before-persist:" + res.Spec.Kind
			}
			if len(rows) != 1 {
				return fmt.Sprintf("%s succeeded but has %d log entries", res.Spec.Name, len(rows)), "ack-rows:" + res.Spec.Kind
			}
			if res.Tx != nil {
				var ptx *ledger.Transaction
				switch p := rows[0].Data.(type) {
				case ledger.NewTransactionLogPayload:
					ptx = p.Transaction
				case ledger.RevertedTransactionLogPayload:
					ptx = p.RevertTransaction
				}
				if ptx == nil || ptx.ID.Cmp(res.Tx.ID) != 0 || fmt.Sprint(ptx.Postings) != fmt.Sprint(res.Tx.Postings) {
					return fmt.Sprintf("%s: the caller got tx %v %v, the log entry holds %v", res.Spec.Name, res.Tx.ID, res.Tx.Postings, ptx), "ack-content:" + res.Spec.Kind
				}
			}
		case res.Answered && res.Class != "ok" && res.Class != "panic":
			if len(rows) != 0 && res.Spec.IK == "" {
				return fmt.Sprintf("%s reported an error (%s) but left a log entry", res.Spec.Name, res.Class), "error-with-row:" + res.Spec.Kind
			}
		default:
			if len(rows) > 1 {
				return fmt.Sprintf("%s (never answered) has %d log entries", res.Spec.Name, len(rows)), "unanswered-rows"
			}
		}
		for _, r := range rows {
			if other, dup := claimed[r]; dup && other != res.Spec.Name && res.Spec.IK == "" {
				return fmt.Sprintf("one log entry matches two requests (%s, %s)", other, res.Spec.Name), "row-shared"
			}
			claimed[r] = res.Spec.Name
		}
	}
	for _, l := range logs[w.SeedLen:] {
		if _, ok := claimed[l]; !ok {
			return fmt.Sprintf("log entry %s (%s) was produced by no request [%s]", l.ID, l.Type, w.digest()), "orphan-row"
		}
	}
	return "", ""
}

// spendOracle (C02, C10): log-order replay from the seed; every debit stays within the overdraft its request declared.
func spendOracle(w *worldRun) (string, string) {
	logs := w.Store.Snapshot()
	bal := map[string]*big.Int{}
	get := func(k string) *big.Int {
		if bal[k] == nil {
			bal[k] = new(big.Int)
		}
		return bal[k]
	}
	producer := func(l *ledger.ChainedLog) *reqSpec {
		for _, res := range w.Results {
			for _, r := range rowFor(res.Spec, logs, w.SeedLen) {
				if r == l {
					return res.Spec
				}
			}
		}
		return nil
	}
	for i, l := range logs {
		var tx *ledger.Transaction
		switch p := l.Data.(type) {
		case ledger.NewTransactionLogPayload:
			tx = p.Transaction
		case ledger.RevertedTransactionLogPayload:
			tx = p.RevertTransaction
		}
		if tx == nil {
			continue
		}
		var spec *reqSpec
		if i >= w.SeedLen {
			spec = producer(l)
		}
		for _, p := range tx.Postings {
			if p.Source != "world" {
				b := get(p.Source + "|" + p.Asset)
				b.Sub(b, p.Amount)
				if i >= w.SeedLen && p.Amount.Sign() > 0 {
					floor := new(big.Int)
					unbounded := false
					if spec != nil {
						if spec.Kind == "revert" && spec.Force {
							unbounded = true
						}
						if od, ok := spec.Overdraft[p.Source]; ok {
							if od == "inf" {
								unbounded = true
							} else {
								n, _ := new(big.Int).SetString(od, 10)
								floor.Neg(n)
							}
						}
					}
					if !unbounded && b.Cmp(floor) < 0 {
						who := "?"
						if spec != nil {
							who = spec.Name
						}
						return fmt.Sprintf("in log order, transaction %s (request %s) takes %s %s from %s leaving %s: the accepted history is not a serial execution (funds spent twice) [%s | %s]", tx.ID, who, p.Amount, p.Asset, p.Source, b, w.label(), w.digest()), "double-spend:" + w.Spec.Name
					}
				}
			}
			if p.Destination != "world" {
				b := get(p.Destination + "|" + p.Asset)
				b.Add(b, p.Amount)
			}
		}
	}
	for _, res := range w.Results {
		if res.Class == "ok" && !res.Spec.DryRun && len(rowFor(res.Spec, logs, w.SeedLen)) == 0 {
			return fmt.Sprintf("%s reported success but is not in the log", res.Spec.Name), "success-not-logged"
		}
	}
	return "", ""
}
