package main

import (
	"context"
	"fmt"
	"reflect"
	"strings"

	"github.com/formancehq/ledger/internal/engine/utils/batching"
	"github.com/formancehq/ledger/xverif/lib/explore"
	verifrt "github.com/formancehq/stack/libs/go-libs/verifrt"
)

// batcherScenario: the real batching.Batcher (instrumented) with a SMALL maximum batch size, fed by one or two producers
// while its single worker runs whenever the scheduler lets it. The production value (4096 entries per batch) is out of
// reach of a 3-request scenario; the batch-boundary logic is the same code with the parameter set to 2.
//   - every appended item is handed to the insert function exactly once, never in a batch larger than the maximum;
//   - items of one producer are inserted in the order it appended them (the log chains them in that order);
//   - an item's callback fires exactly once, and only after the insert call holding that item has returned.
func batcherScenario(name string, maxBatch int, producers [][]int, failAt int) *explore.Scenario {
	return &explore.Scenario{Name: name, Exec: func(r *explore.Replayer) explore.Outcome {
		s := verifrt.New(r)
		ctx, cancel := context.WithCancel(quietCtx())
		var inserted [][]int
		insertedDone := map[int]bool{}
		calls := 0
		viol, vkey := "", ""
		b := batching.NewBatcher(func(ctx context.Context, items ...int) error {
			verifrt.Point(fmt.Sprintf("insert n=%d", len(items)))
			calls++
			inserted = append(inserted, append([]int{}, items...))
			if len(items) > maxBatch && viol == "" {
				viol, vkey = fmt.Sprintf("a batch of %d items exceeds the maximum of %d", len(items), maxBatch), "batch-too-large"
			}
			for _, it := range items {
				insertedDone[it] = true
			}
			return nil
		}, 1, maxBatch)
		s.Spawn("runner", true, func() { b.Run(ctx) })
		acked := map[int]int{}
		for pi, items := range producers {
			items := items
			done := verifrt.MakeChan[int](len(items))
			s.Spawn(fmt.Sprintf("producer%d", pi), false, func() {
				for _, it := range items {
					it := it
					// (called through reflection: the callback's signature is the component's business - a tree that hands it
					// an error, say, must still be judged rather than fail to build)
					appendFn := reflect.ValueOf(b).MethodByName("Append")
					cbType := appendFn.Type().In(1)
					cb := reflect.MakeFunc(cbType, func([]reflect.Value) []reflect.Value {
						acked[it]++
						if !insertedDone[it] && viol == "" {
							viol, vkey = fmt.Sprintf("item %d was acknowledged before the insert call holding it returned", it), "ack-before-insert"
						}
						if acked[it] == 1 {
							done.Send(it)
						}
						out := make([]reflect.Value, cbType.NumOut())
						for i := range out {
							out[i] = reflect.Zero(cbType.Out(i))
						}
						return out
					})
					appendFn.Call([]reflect.Value{reflect.ValueOf(it), cb})
				}
				// like a request: wait until every item has been acknowledged
				for range items {
					done.Recv()
				}
			})
		}
		reason := s.Run()
		for _, t := range s.Threads() {
			if t.Panic != nil && viol == "" {
				viol, vkey = fmt.Sprintf("panic in %s: %v", t.Name, t.Panic), "panic"
			}
		}
		if viol == "" && reason == verifrt.Deadlock {
			viol, vkey = "the batcher stalls: "+strings.Join(s.PendingDescs(), " | "), "stall"
		}
		var flat []int
		for _, bt := range inserted {
			flat = append(flat, bt...)
		}
		if viol == "" && reason == verifrt.Quiescent {
			count := map[int]int{}
			for _, it := range flat {
				count[it]++
			}
			for _, items := range producers {
				last := -1
				for _, it := range items {
					if count[it] != 1 && viol == "" {
						viol, vkey = fmt.Sprintf("item %d was handed to the insert function %d times (batches %v)", it, count[it], inserted), "insert-count"
					}
					if acked[it] != 1 && viol == "" {
						viol, vkey = fmt.Sprintf("item %d was acknowledged %d times (batches %v)", it, acked[it], inserted), "ack-count"
					}
					pos := -1
					for i, f := range flat {
						if f == it {
							pos = i
						}
					}
					if pos < last && viol == "" {
						viol, vkey = fmt.Sprintf("items of one producer are inserted out of order: %v (appended %v)", inserted, items), "insert-order"
					}
					last = pos
				}
			}
		}
		s.KillAll()
		cancel()
		lab := fmt.Sprint(inserted)
		return explore.Outcome{State: lab, Label: lab, Violation: viol, VKey: vkey}
	}}
}

func init() {
	b05, b06 := plans["C05"], plans["C06"]
	mk := func(prop string) []planItem {
		return []planItem{
			{register(batcherScenario(prop+"/batcher-max2-one-producer-5", 2, [][]int{{1, 2, 3, 4, 5}}, -1)), 3, 4},
			{register(batcherScenario(prop+"/batcher-max1-one-producer-4", 1, [][]int{{1, 2, 3, 4}}, -1)), 3, 4},
			{register(batcherScenario(prop+"/batcher-max2-two-producers", 2, [][]int{{1, 2, 3}, {11, 12, 13}}, -1)), 2, 3},
		}
	}
	plans["C05"] = func() []planItem { return append(b05(), mk("C05")...) }
	plans["C06"] = func() []planItem { return append(b06(), mk("C06")...) }
}
