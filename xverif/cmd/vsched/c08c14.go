package main

import (
	"bytes"
	"fmt"
	"strings"

	ledger "github.com/formancehq/ledger/internal"
	"github.com/formancehq/ledger/internal/engine/command"
	"github.com/formancehq/ledger/internal/machine/script/compiler"
	"github.com/formancehq/ledger/internal/machine/vm/program"
	"github.com/formancehq/ledger/xverif/lib/explore"
	"github.com/formancehq/stack/libs/go-libs/verifrt"
)

func progSig(p *program.Program) string {
	if p == nil {
		return "<nil>"
	}
	var b bytes.Buffer
	fmt.Fprintf(&b, "%x|", p.Instructions)
	for _, r := range p.Resources {
		fmt.Fprintf(&b, "%v;", r)
	}
	return b.String()
}

// compilerScenario: concurrent Compile calls on one command.Compiler (statement-granularity build): whatever the
// interleaving and the cache size, each caller gets the program of ITS text, and so does every later caller.
func compilerScenario(name string, cacheSize int, texts []string) *explore.Scenario {
	want := make([]string, len(texts))
	return &explore.Scenario{Name: name, Exec: func(r *explore.Replayer) explore.Outcome {
		for i, t := range texts {
			if want[i] == "" {
				p, err := compiler.Compile(t)
				if err != nil {
					want[i] = "error"
				} else {
					want[i] = progSig(p)
				}
			}
		}
		s := verifrt.New(r)
		c := command.NewCompiler(cacheSize)
		got := make([]string, len(texts))
		for i, t := range texts {
			i, t := i, t
			s.Spawn(fmt.Sprintf("compile%d", i), false, func() {
				p, err := c.Compile(t)
				if err != nil {
					got[i] = "error"
				} else {
					got[i] = progSig(p)
				}
			})
		}
		reason := s.Run()
		viol, vkey := "", ""
		if reason != verifrt.Quiescent {
			viol, vkey = "concurrent compilation did not finish: "+reason.String(), "compile-stuck"
		}
		s.KillAll()
		for i := range texts {
			if viol == "" && got[i] != want[i] {
				viol = fmt.Sprintf("concurrent use of the compilation cache: the caller compiling script %d got the program of another text", i)
				vkey = "cache-concurrent-wrong-program"
			}
		}
		// afterwards (sequentially) every text must still map to its own program
		if viol == "" {
			for i, t := range texts {
				p, err := c.Compile(t)
				g := "error"
				if err == nil {
					g = progSig(p)
				}
				if g != want[i] {
					viol = fmt.Sprintf("after concurrent use, the cache serves another text's program for script %d", i)
					vkey = "cache-poisoned"
					break
				}
			}
		}
		lab := "ok"
		if viol != "" {
			lab = vkey
		}
		return explore.Outcome{State: strings.Join(got, "/"), Label: lab, Violation: viol, VKey: vkey}
	}}
}

// previewOracle (C14, concurrent part): a preview leaves no entry and no event, whatever runs beside it.
func previewOracle(w *worldRun) (string, string) {
	logs := w.Store.Snapshot()
	for _, res := range w.Results {
		if !res.Spec.DryRun {
			continue
		}
		if n := len(rowFor(res.Spec, logs, w.SeedLen)); n > 0 {
			return fmt.Sprintf("preview %s left %d log entries", res.Spec.Name, n), "preview-row"
		}
	}
	return "", ""
}

var (
	specPreviewRace = worldSpec{Name: "preview-vs-creates", Seed: seedA100,
		Gen1: []reqSpec{{Name: "p1", Kind: "create", Script: sendScript(5, "@world", "@b"), DryRun: true}, create("c1", 5, "@world", "@b"), create("c2", 5, "@world", "@c")}}
	specPreviewRevertRace = worldSpec{Name: "preview-revert-vs-create", Seed: seedTxs(ledger.Postings{post("world", "a", 100)}, ledger.Postings{post("world", "d", 7)}),
		Gen1: []reqSpec{{Name: "p1", Kind: "revert", TxID: 1, DryRun: true}, create("c1", 5, "@world", "@b"), {Name: "r0", Kind: "revert", TxID: 0}}}
	specPreviewMetaRace = worldSpec{Name: "preview-meta-vs-writes", Seed: seedA100,
		Gen1: []reqSpec{{Name: "p1", Kind: "savemeta", TargetType: "ACCOUNT", TargetID: "c", DryRun: true}, create("c1", 5, "@world", "@b"), {Name: "m1", Kind: "savemeta", TargetType: "ACCOUNT", TargetID: "c"}}}
)

func init() {
	a := "send [X 1] (\n  source = @world\n  destination = @a\n)\n"
	b := "send [X 2] (\n  source = @world\n  destination = @b\n)\n"
	c := "send [X 3] (\n  source = @world\n  destination = @c\n)\n"
	plans["C08"] = func() []planItem {
		return []planItem{
			{register(compilerScenario("C08/compile2-cache1", 1, []string{a, b})), 3, 4},
			{register(compilerScenario("C08/compile2-cache2", 2, []string{a, b})), 3, 4},
			{register(compilerScenario("C08/compile3-same-and-other", 2, []string{a, b, a})), 2, 3},
			{register(compilerScenario("C08/compile3-distinct", 2, []string{a, b, c})), 2, 3},
		}
	}
	plans["C14"] = func() []planItem {
		return []planItem{
			{register(worldScenario("C14", specPreviewRace, chainOracle, previewOracle, eventOracle, ackOracle)), 3, 4},
			{register(worldScenario("C14", specPreviewRevertRace, chainOracle, previewOracle, eventOracle, ackOracle)), 3, 4},
			{register(worldScenario("C14", specPreviewMetaRace, chainOracle, previewOracle, eventOracle, ackOracle)), 2, 3},
		}
	}
}
