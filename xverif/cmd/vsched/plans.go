package main

import (
	"bytes"
	"encoding/json"
	"fmt"
	"math/big"
	"strings"

	ledger "github.com/formancehq/ledger/internal"
	"github.com/formancehq/ledger/xverif/lib/memstore"
	"github.com/formancehq/stack/libs/go-libs/metadata"
)

func sendScript(amount int, src, dst string) string {
	return fmt.Sprintf("send [X %d] (\n  source = %s\n  destination = %s\n)\n", amount, src, dst)
}

func seedTxs(txs ...ledger.Postings) func(st *memstore.Store) {
	return func(st *memstore.Store) {
		for i, p := range txs {
			tx := ledger.NewTransaction().WithPostings(p...).WithID(big.NewInt(int64(i)))
			st.Seed(ledger.NewTransactionLog(tx, nil))
		}
	}
}

func post(src, dst string, amt int64) ledger.Posting {
	return ledger.NewPosting(src, dst, "X", big.NewInt(amt))
}

func create(name string, amount int, src, dst string) reqSpec {
	return reqSpec{Name: name, Kind: "create", Script: sendScript(amount, src, dst)}
}

var (
	specDisjoint3 = worldSpec{Name: "disjoint3",
		Gen1: []reqSpec{create("c1", 5, "@world", "@a"), create("c2", 5, "@world", "@b"), {Name: "m1", Kind: "savemeta", TargetType: ledger.MetaTargetTypeAccount, TargetID: "c"}},
	}
	specDisjoint3Crash = worldSpec{Name: "disjoint3-crash", Crash: true,
		Gen1: []reqSpec{create("c1", 5, "@world", "@a"), create("c2", 5, "@world", "@b"), {Name: "m1", Kind: "savemeta", TargetType: ledger.MetaTargetTypeAccount, TargetID: "c"}},
		Gen2: []reqSpec{create("c3", 5, "@world", "@a"), create("c4", 5, "@world", "@d")},
	}
	specMixed3 = worldSpec{Name: "mixed3", Crash: true,
		Seed: seedTxs(ledger.Postings{post("world", "a", 10)}),
		Gen1: []reqSpec{create("c1", 5, "@world", "@d"), {Name: "r0", Kind: "revert", TxID: 0}, {Name: "d1", Kind: "delmeta", TargetType: ledger.MetaTargetTypeAccount, TargetID: "a", Key: "d1"}},
		Gen2: []reqSpec{create("c3", 5, "@world", "@e")},
	}
	specTwoCreates = worldSpec{Name: "two-creates",
		Gen1: []reqSpec{create("c1", 5, "@world", "@a"), create("c2", 5, "@world", "@b")},
	}
	specFailRace = worldSpec{Name: "fail-race",
		Gen1: []reqSpec{create("bad", 5, "@poor", "@a"), create("good", 5, "@world", "@b"), {Name: "m1", Kind: "savemeta", TargetType: ledger.MetaTargetTypeTransaction, TargetID: big.NewInt(99)}},
	}
	specFaultInsert = worldSpec{Name: "fault-insert", FaultInsert: true,
		Gen1: []reqSpec{create("c1", 5, "@world", "@a"), create("c2", 5, "@world", "@b"), {Name: "m1", Kind: "savemeta", TargetType: ledger.MetaTargetTypeAccount, TargetID: "c"}},
		Gen2: []reqSpec{create("c3", 5, "@world", "@a")},
	}
	specFaultReads = worldSpec{Name: "fault-reads", FaultReads: true,
		Seed: seedTxs(ledger.Postings{post("world", "a", 10)}),
		Gen1: []reqSpec{create("c1", 5, "@a", "@b"), {Name: "r0", Kind: "revert", TxID: 0}},
	}
)

func init() {
	plans["C05"] = func() []planItem {
		return []planItem{
			{register(worldScenario("C05", specTwoCreates, chainOracle)), 3, 5},
			{register(worldScenario("C05", specDisjoint3, chainOracle)), 3, 4},
			{register(worldScenario("C05", specDisjoint3Crash, chainOracle)), 2, 4},
			{register(worldScenario("C05", specMixed3, chainOracle)), 2, 4},
		}
	}
	plans["C06"] = func() []planItem {
		return []planItem{
			{register(worldScenario("C06", specDisjoint3, ackOracle)), 2, 3},
			{register(worldScenario("C06", specFailRace, ackOracle)), 2, 3},
			{register(worldScenario("C06", specFaultInsert, ackOracle)), 1, 2},
			{register(worldScenario("C06", specFaultReads, ackOracle)), 1, 2},
			{register(worldScenario("C06", specDisjoint3Crash, ackOracle)), 1, 2},
			{register(worldScenario("C06", specMixed3, ackOracle)), 1, 2},
		}
	}
}

var _ = metadata.Metadata{}

func metaSrcScript(amount int, dst string) string {
	return fmt.Sprintf("vars {\n  account $s = meta(@cfg, \"src\")\n}\nsend [X %d] (\n  source = $s\n  destination = %s\n)\n", amount, dst)
}

func varSrcScript(amount int, dst string) string {
	return fmt.Sprintf("vars {\n  account $s\n}\nsend [X %d] (\n  source = $s\n  destination = %s\n)\n", amount, dst)
}

func seedA100(st *memstore.Store) {
	seedTxs(ledger.Postings{post("world", "a", 100)})(st)
}

func seedA100Cfg(st *memstore.Store) {
	seedA100(st)
	st.Seed(ledger.NewSetMetadataOnAccountLog(ledger.Now(), "cfg", metadata.Metadata{"src": "a"}))
}

var (
	specSpend2Lit = worldSpec{Name: "spend2-lit", Seed: seedA100,
		Gen1: []reqSpec{create("s1", 60, "@a", "@b"), create("s2", 60, "@a", "@c")}}
	specSpend2Var = worldSpec{Name: "spend2-var", Seed: seedA100,
		Gen1: []reqSpec{create("s1", 60, "@a", "@b"), {Name: "s2", Kind: "create", Script: varSrcScript(60, "@c"), Vars: map[string]string{"s": "a"}}}}
	specSpend2Meta = worldSpec{Name: "spend2-meta", Seed: seedA100Cfg,
		Gen1: []reqSpec{create("s1", 60, "@a", "@b"), {Name: "s2", Kind: "create", Script: metaSrcScript(60, "@c")}}}
	specSpend2MetaBoth = worldSpec{Name: "spend2-meta-both", Seed: seedA100Cfg,
		Gen1: []reqSpec{{Name: "s1", Kind: "create", Script: metaSrcScript(60, "@b")}, {Name: "s2", Kind: "create", Script: metaSrcScript(60, "@c")}}}
	specSpend2Postings = worldSpec{Name: "spend2-postings", Seed: seedA100,
		Gen1: []reqSpec{{Name: "s1", Kind: "create", Postings: ledger.Postings{post("a", "b", 60)}}, {Name: "s2", Kind: "create", Postings: ledger.Postings{post("a", "c", 60)}}}}
	specSpend3 = worldSpec{Name: "spend3", Seed: seedA100,
		Gen1: []reqSpec{create("s1", 40, "@a", "@b"), create("s2", 40, "@a", "@c"), create("s3", 40, "@a", "@d")}}
	specRevertSpend = worldSpec{Name: "revert-spend", Seed: seedA100,
		Gen1: []reqSpec{{Name: "r0", Kind: "revert", TxID: 0}, create("s2", 60, "@a", "@b")}}
	specRevert2Shared = worldSpec{Name: "revert2-shared",
		Seed: seedTxs(ledger.Postings{post("world", "b", 50)}, ledger.Postings{post("world", "b", 50)}, ledger.Postings{post("b", "c", 40)}),
		Gen1: []reqSpec{{Name: "r0", Kind: "revert", TxID: 0}, {Name: "r1", Kind: "revert", TxID: 1}}}
	specOverdraft = worldSpec{Name: "overdraft", Seed: seedTxs(ledger.Postings{post("world", "a", 10)}),
		Gen1: []reqSpec{{Name: "s1", Kind: "create", Script: sendScript(15, "@a allowing overdraft up to [X 10]", "@b"), Overdraft: map[string]string{"a": "10"}}, create("s2", 10, "@a", "@c")}}
	specDisjointSpend = worldSpec{Name: "disjoint-spend", Seed: seedTxs(ledger.Postings{post("world", "a", 100)}, ledger.Postings{post("world", "b", 100)}),
		Gen1: []reqSpec{create("s1", 60, "@a", "@c"), create("s2", 60, "@b", "@c")}}
	specChainSpend = worldSpec{Name: "chain-spend", Seed: seedA100,
		Gen1: []reqSpec{create("s1", 100, "@a", "@b"), create("s2", 100, "@b", "@c"), create("s3", 100, "@a", "@d")}}

	specRef2 = worldSpec{Name: "ref2", Seed: seedA100,
		Gen1: []reqSpec{{Name: "c1", Kind: "create", Script: sendScript(5, "@world", "@b"), Ref: "r"}, {Name: "c2", Kind: "create", Script: sendScript(5, "@world", "@c"), Ref: "r"}}}
	specRef3 = worldSpec{Name: "ref3",
		Gen1: []reqSpec{{Name: "c1", Kind: "create", Script: sendScript(5, "@world", "@b"), Ref: "r"}, {Name: "c2", Kind: "create", Script: sendScript(5, "@world", "@c"), Ref: "r"}, {Name: "c3", Kind: "create", Script: sendScript(5, "@world", "@d"), Ref: "r"}}}
	specRefFail = worldSpec{Name: "ref-competitor-fails",
		Gen1: []reqSpec{{Name: "bad", Kind: "create", Script: sendScript(5, "@poor", "@b"), Ref: "r"}, {Name: "good", Kind: "create", Script: sendScript(5, "@world", "@c"), Ref: "r"}}}
	specRefSeq = worldSpec{Name: "ref-crash-retry", Crash: true,
		Gen1: []reqSpec{{Name: "c1", Kind: "create", Script: sendScript(5, "@world", "@b"), Ref: "r"}},
		Gen2: []reqSpec{{Name: "c2", Kind: "create", Script: sendScript(5, "@world", "@b"), Ref: "r"}, {Name: "c3", Kind: "create", Script: sendScript(5, "@world", "@c"), Ref: "r"}}}
	specRefOther = worldSpec{Name: "ref-distinct",
		Gen1: []reqSpec{{Name: "c1", Kind: "create", Script: sendScript(5, "@world", "@b"), Ref: "r1"}, {Name: "c2", Kind: "create", Script: sendScript(5, "@world", "@c"), Ref: "r2"}}}

	specIK2 = worldSpec{Name: "ik2-create", Crash: true,
		Gen1: []reqSpec{{Name: "c1", Kind: "create", Script: sendScript(5, "@world", "@b"), IK: "k"}, {Name: "c1", Kind: "create", Script: sendScript(5, "@world", "@b"), IK: "k"}},
		Gen2: []reqSpec{{Name: "c1", Kind: "create", Script: sendScript(5, "@world", "@b"), IK: "k"}}}
	specIK3 = worldSpec{Name: "ik3-create",
		Gen1: []reqSpec{{Name: "c1", Kind: "create", Script: sendScript(5, "@world", "@b"), IK: "k"}, {Name: "c1", Kind: "create", Script: sendScript(5, "@world", "@b"), IK: "k"}, {Name: "c1", Kind: "create", Script: sendScript(5, "@world", "@b"), IK: "k"}}}
	specIKMeta = worldSpec{Name: "ik2-savemeta", Crash: true,
		Gen1: []reqSpec{{Name: "m1", Kind: "savemeta", TargetType: ledger.MetaTargetTypeAccount, TargetID: "c", IK: "k"}, {Name: "m1", Kind: "savemeta", TargetType: ledger.MetaTargetTypeAccount, TargetID: "c", IK: "k"}},
		Gen2: []reqSpec{{Name: "m1", Kind: "savemeta", TargetType: ledger.MetaTargetTypeAccount, TargetID: "c", IK: "k"}}}
	specIKDel = worldSpec{Name: "ik2-delmeta", Crash: true,
		Gen1: []reqSpec{{Name: "d1", Kind: "delmeta", TargetType: ledger.MetaTargetTypeAccount, TargetID: "c", Key: "d1", IK: "k"}, {Name: "d1", Kind: "delmeta", TargetType: ledger.MetaTargetTypeAccount, TargetID: "c", Key: "d1", IK: "k"}},
		Gen2: []reqSpec{{Name: "d1", Kind: "delmeta", TargetType: ledger.MetaTargetTypeAccount, TargetID: "c", Key: "d1", IK: "k"}}}
	specIKRevert = worldSpec{Name: "ik2-revert", Crash: true, Seed: seedA100,
		Gen1: []reqSpec{{Name: "r0", Kind: "revert", TxID: 0, IK: "k"}, {Name: "r0", Kind: "revert", TxID: 0, IK: "k"}},
		Gen2: []reqSpec{{Name: "r0", Kind: "revert", TxID: 0, IK: "k"}}}
	specIKDistinct = worldSpec{Name: "ik-distinct",
		Gen1: []reqSpec{{Name: "c1", Kind: "create", Script: sendScript(5, "@world", "@b"), IK: "k1"}, {Name: "c2", Kind: "create", Script: sendScript(5, "@world", "@c"), IK: "k2"}}}

	specRevertSame2 = worldSpec{Name: "revert-same2", Seed: seedA100, Crash: true,
		Gen1: []reqSpec{{Name: "r0a", Kind: "revert", TxID: 0}, {Name: "r0b", Kind: "revert", TxID: 0}},
		Gen2: []reqSpec{{Name: "r0c", Kind: "revert", TxID: 0}}}
	specRevertSame3 = worldSpec{Name: "revert-same3", Seed: seedA100,
		Gen1: []reqSpec{{Name: "r0a", Kind: "revert", TxID: 0}, {Name: "r0b", Kind: "revert", TxID: 0, Force: true}, {Name: "r0c", Kind: "revert", TxID: 0}}}
	specRevertMeta = worldSpec{Name: "revert-vs-savemeta", Seed: seedA100,
		Gen1: []reqSpec{{Name: "r0", Kind: "revert", TxID: 0}, {Name: "m1", Kind: "savemeta", TargetType: ledger.MetaTargetTypeTransaction, TargetID: big.NewInt(0)}}}
	specRevertMulti = worldSpec{Name: "revert-multi-posting",
		Seed: seedTxs(ledger.Postings{post("world", "a", 10), post("a", "b", 4), post("b", "c", 1)}),
		Gen1: []reqSpec{{Name: "r0", Kind: "revert", TxID: 0}, create("s1", 3, "@b", "@d")}}

	specEvents = worldSpec{Name: "events-all-kinds", Seed: seedA100,
		Gen1: []reqSpec{create("c1", 5, "@world", "@b"), {Name: "r0", Kind: "revert", TxID: 0}, {Name: "m1", Kind: "savemeta", TargetType: ledger.MetaTargetTypeAccount, TargetID: "c"}}}
	specEvents2 = worldSpec{Name: "events-meta", Seed: seedA100,
		Gen1: []reqSpec{{Name: "m0", Kind: "savemeta", TargetType: ledger.MetaTargetTypeTransaction, TargetID: big.NewInt(0)}, {Name: "d1", Kind: "delmeta", TargetType: ledger.MetaTargetTypeAccount, TargetID: "c", Key: "d1"}, {Name: "d2", Kind: "delmeta", TargetType: ledger.MetaTargetTypeTransaction, TargetID: big.NewInt(0), Key: "d2"}}}
	specEventsPreview = worldSpec{Name: "events-preview-and-replay", Seed: seedA100,
		Gen1: []reqSpec{{Name: "p1", Kind: "create", Script: sendScript(5, "@world", "@b"), DryRun: true}, {Name: "c1", Kind: "create", Script: sendScript(5, "@world", "@b"), IK: "k"}, {Name: "c1", Kind: "create", Script: sendScript(5, "@world", "@b"), IK: "k"}}}
	specEventsCrash = worldSpec{Name: "events-crash", Seed: seedA100, Crash: true,
		Gen1: []reqSpec{create("c1", 5, "@world", "@b"), {Name: "r0", Kind: "revert", TxID: 0}},
		Gen2: []reqSpec{create("c2", 5, "@world", "@b")}}
)

func init() {
	plans["C02"] = func() []planItem {
		var out []planItem
		for _, sp := range []worldSpec{specSpend2Lit, specSpend2Var, specSpend2Meta, specSpend2MetaBoth, specSpend2Postings, specRevertSpend, specRevert2Shared, specOverdraft, specDisjointSpend} {
			out = append(out, planItem{register(worldScenario("C02", sp, spendOracle)), 3, 4})
		}
		out = append(out, planItem{register(worldScenario("C02", specSpend3, spendOracle)), 2, 3})
		out = append(out, planItem{register(worldScenario("C02", specChainSpend, spendOracle)), 2, 3})
		return out
	}
	plans["C11"] = func() []planItem {
		return []planItem{
			{register(worldScenario("C11", specRef2, refOracle)), 3, 4},
			{register(worldScenario("C11", specRefFail, refOracle)), 3, 4},
			{register(worldScenario("C11", specRefOther, refOracle)), 2, 3},
			{register(worldScenario("C11", specRef3, refOracle)), 2, 3},
			{register(worldScenario("C11", specRefSeq, refOracle)), 2, 3},
		}
	}
	plans["C07"] = func() []planItem {
		var out []planItem
		for _, sp := range []worldSpec{specIK2, specIKMeta, specIKDel, specIKRevert} {
			out = append(out, planItem{register(worldScenario("C07", sp, ikOracle)), 3, 4})
		}
		out = append(out, planItem{register(worldScenario("C07", specIK3, ikOracle)), 2, 3})
		out = append(out, planItem{register(worldScenario("C07", specIKDistinct, ikOracle)), 2, 3})
		return out
	}
	plans["C10"] = func() []planItem {
		return []planItem{
			{register(worldScenario("C10", specRevertSame2, revertOracle, spendOracle)), 3, 4},
			{register(worldScenario("C10", specRevertSame3, revertOracle, spendOracle)), 2, 3},
			{register(worldScenario("C10", specRevertSpend, revertOracle, spendOracle)), 3, 4},
			{register(worldScenario("C10", specRevert2Shared, revertOracle, spendOracle)), 3, 4},
			{register(worldScenario("C10", specRevertMeta, revertOracle, spendOracle)), 3, 4},
			{register(worldScenario("C10", specRevertMulti, revertOracle, spendOracle)), 3, 4},
		}
	}
	plans["C16"] = func() []planItem {
		return []planItem{
			{register(worldScenario("C16", specEvents, eventOracle)), 2, 3},
			{register(worldScenario("C16", specEvents2, eventOracle)), 2, 3},
			{register(worldScenario("C16", specEventsPreview, eventOracle)), 2, 3},
			{register(worldScenario("C16", specEventsCrash, eventOracle)), 2, 3},
		}
	}
}

// variants in which the first request is abandoned by its caller (context cancelled) at any moment
func withCancel(sp worldSpec, names ...string) worldSpec {
	out := sp
	out.Name = sp.Name + "-cancel"
	out.Gen1 = append([]reqSpec{}, sp.Gen1...)
	for i := range out.Gen1 {
		for _, n := range names {
			if out.Gen1[i].Name == n {
				out.Gen1[i].Cancellable = true
			}
		}
	}
	return out
}

func init() {
	base02, base06, base11, base07, base10, base16, base05 := plans["C02"], plans["C06"], plans["C11"], plans["C07"], plans["C10"], plans["C16"], plans["C05"]
	plans["C02"] = func() []planItem {
		return append(base02(), planItem{register(worldScenario("C02", withCancel(specSpend2Lit, "s1"), spendOracle)), 3, 4},
			planItem{register(worldScenario("C02", withCancel(specRevertSpend, "r0"), spendOracle)), 3, 4})
	}
	plans["C05"] = func() []planItem {
		return append(base05(), planItem{register(worldScenario("C05", withCancel(specTwoCreates, "c1"), chainOracle)), 3, 4})
	}
	plans["C06"] = func() []planItem {
		return append(base06(), planItem{register(worldScenario("C06", withCancel(specTwoCreates, "c1"), ackOracle)), 3, 4},
			planItem{register(worldScenario("C06", withCancel(specDisjoint3, "m1"), ackOracle)), 2, 3})
	}
	plans["C11"] = func() []planItem {
		return append(base11(), planItem{register(worldScenario("C11", withCancel(specRef2, "c1"), refOracle)), 3, 4})
	}
	plans["C07"] = func() []planItem {
		sp := withCancel(specIK3, "c1")
		return append(base07(), planItem{register(worldScenario("C07", sp, ikOracle)), 2, 3})
	}
	plans["C10"] = func() []planItem {
		return append(base10(), planItem{register(worldScenario("C10", withCancel(specRevertSame3, "r0a"), revertOracle, spendOracle)), 2, 3})
	}
	plans["C16"] = func() []planItem {
		return append(base16(), planItem{register(worldScenario("C16", withCancel(specEvents, "c1", "r0"), eventOracle)), 2, 3})
	}
}

// variants in which any store read may fail (one deviation each)
func withReadFaults(sp worldSpec) worldSpec {
	out := sp
	out.Name = sp.Name + "-readfaults"
	out.FaultReads = true
	out.Crash = false
	out.Gen2 = nil
	return out
}

func init() {
	b02, b07, b10, b11 := plans["C02"], plans["C07"], plans["C10"], plans["C11"]
	plans["C07"] = func() []planItem {
		return append(b07(),
			planItem{register(worldScenario("C07", withReadFaults(specIK2), ikOracle)), 3, 4},
			planItem{register(worldScenario("C07", withReadFaults(specIKMeta), ikOracle)), 3, 4},
			planItem{register(worldScenario("C07", withReadFaults(specIKRevert), ikOracle)), 3, 4})
	}
	plans["C11"] = func() []planItem {
		return append(b11(), planItem{register(worldScenario("C11", withReadFaults(specRef2), refOracle)), 3, 4})
	}
	plans["C10"] = func() []planItem {
		return append(b10(), planItem{register(worldScenario("C10", withReadFaults(specRevertSame2), revertOracle, spendOracle)), 3, 4})
	}
	plans["C02"] = func() []planItem {
		return append(b02(), planItem{register(worldScenario("C02", withReadFaults(specSpend2Lit), spendOracle)), 3, 4},
			planItem{register(worldScenario("C02", withReadFaults(specSpend2Meta), spendOracle)), 2, 3})
	}
}

// a ledger that has only ever received metadata writes, stopped and started again
var specMetaOnlyRestart = worldSpec{Name: "meta-only-restart", Crash: true,
	Seed: func(st *memstore.Store) {
		st.Seed(ledger.NewSetMetadataOnAccountLog(ledger.Now(), "cfg", metadata.Metadata{"k": "v"}))
	},
	Gen1: []reqSpec{{Name: "m1", Kind: "savemeta", TargetType: ledger.MetaTargetTypeAccount, TargetID: "c"}, {Name: "d1", Kind: "delmeta", TargetType: ledger.MetaTargetTypeAccount, TargetID: "c", Key: "d1"}},
	Gen2: []reqSpec{{Name: "m2", Kind: "savemeta", TargetType: ledger.MetaTargetTypeAccount, TargetID: "c"}, create("c1", 5, "@world", "@a")},
}

func init() {
	b05, b06 := plans["C05"], plans["C06"]
	plans["C05"] = func() []planItem {
		return append(b05(), planItem{register(worldScenario("C05", specMetaOnlyRestart, chainOracle)), 3, 4})
	}
	plans["C06"] = func() []planItem {
		return append(b06(), planItem{register(worldScenario("C06", specMetaOnlyRestart, ackOracle)), 2, 3})
	}
}

var specEventsFault = worldSpec{Name: "events-fault-insert", Seed: seedA100, FaultInsert: true,
	Gen1: []reqSpec{create("c1", 5, "@world", "@b"), {Name: "r0", Kind: "revert", TxID: 0}},
	Gen2: []reqSpec{create("c2", 5, "@world", "@b")}}

func init() {
	b16 := plans["C16"]
	plans["C16"] = func() []planItem {
		return append(b16(), planItem{register(worldScenario("C16", specEventsFault, eventOracle)), 2, 3})
	}
}

// wave-3 additions: the account a script spends from is designated indirectly
func aliasScript(amount int, src, dst string) string {
	return fmt.Sprintf("vars {\n  account $x\n}\nset_tx_meta(\"who\", $x)\nsend [X %d] (\n  source = %s\n  destination = %s\n)\n", amount, src, dst)
}

func twoVarScript(amount int, dst string) string {
	return fmt.Sprintf("vars {\n  account $x\n  account $s\n}\nset_account_meta($x, \"seen\", \"y\")\nsend [X %d] (\n  source = $s\n  destination = %s\n)\n", amount, dst)
}

var (
	// the source is also named by a variable that is not itself a source
	specSpend2Alias = worldSpec{Name: "spend2-alias", Seed: seedA100,
		Gen1: []reqSpec{{Name: "s1", Kind: "create", Script: aliasScript(60, "@a", "@b"), Vars: map[string]string{"x": "a"}}, {Name: "s2", Kind: "create", Script: aliasScript(60, "@a", "@c"), Vars: map[string]string{"x": "a"}}}}
	specSpend2TwoVars = worldSpec{Name: "spend2-two-vars", Seed: seedA100,
		Gen1: []reqSpec{{Name: "s1", Kind: "create", Script: twoVarScript(60, "@b"), Vars: map[string]string{"x": "a", "s": "a"}}, {Name: "s2", Kind: "create", Script: twoVarScript(60, "@c"), Vars: map[string]string{"x": "a", "s": "a"}}}}
	// the metadata that designates the source is rewritten while the spender waits; a third request spends the new target
	specSpendMetaRepoint = worldSpec{Name: "spend-meta-repoint",
		Seed: func(st *memstore.Store) {
			seedTxs(ledger.Postings{post("world", "a", 100)}, ledger.Postings{post("world", "b", 100)})(st)
			st.Seed(ledger.NewSetMetadataOnAccountLog(ledger.Now(), "cfg", metadata.Metadata{"src": "a"}))
		},
		Gen1: []reqSpec{{Name: "s1", Kind: "create", Script: metaSrcScript(100, "@c")},
			{Name: "m1", Kind: "savemeta", TargetType: ledger.MetaTargetTypeAccount, TargetID: "cfg", Meta: metadata.Metadata{"src": "b"}},
			create("s2", 100, "@b", "@d")}}
)

func init() {
	b02 := plans["C02"]
	plans["C02"] = func() []planItem {
		return append(b02(),
			planItem{register(worldScenario("C02", specSpend2Alias, spendOracle)), 3, 4},
			planItem{register(worldScenario("C02", specSpend2TwoVars, spendOracle)), 3, 4},
			planItem{register(worldScenario("C02", specSpendMetaRepoint, spendOracle)), 3, 4})
	}
}

func init() {
	b06 := plans["C06"]
	plans["C06"] = func() []planItem {
		// a retried request (same idempotency key) while any store read may fail: still exactly one entry per request
		return append(b06(),
			planItem{register(worldScenario("C06", withReadFaults(specIK2), ackOracle)), 2, 3},
			planItem{register(worldScenario("C06", withReadFaults(specIKMeta), ackOracle)), 2, 3})
	}
}

// a preview carrying an idempotency key, then the real write with that key (and its retry after a restart)
var specIKPreview = worldSpec{Name: "ik-preview-then-write", Crash: true, Seed: seedA100,
	Gen1: []reqSpec{{Name: "p1", Kind: "create", Script: sendScript(5, "@world", "@b"), IK: "k", DryRun: true}, {Name: "c1", Kind: "create", Script: sendScript(5, "@world", "@b"), IK: "k"}},
	Gen2: []reqSpec{{Name: "c1", Kind: "create", Script: sendScript(5, "@world", "@b"), IK: "k"}}}

var specIKPreviewRevert = worldSpec{Name: "ik-preview-then-revert", Seed: seedA100,
	Gen1: []reqSpec{{Name: "p0", Kind: "revert", TxID: 0, IK: "k", DryRun: true}, {Name: "r0", Kind: "revert", TxID: 0, IK: "k"}, {Name: "r0", Kind: "revert", TxID: 0, IK: "k"}}}

func init() {
	b07, b16 := plans["C07"], plans["C16"]
	plans["C07"] = func() []planItem {
		return append(b07(),
			planItem{register(worldScenario("C07", specIKPreview, ikOracle)), 3, 4},
			planItem{register(worldScenario("C07", specIKPreviewRevert, ikOracle)), 2, 3})
	}
	plans["C16"] = func() []planItem {
		return append(b16(), planItem{register(worldScenario("C16", specIKPreview, eventOracle)), 2, 3})
	}
}

// references that differ from an ordinary identifier: surrounding white space, letter case
var (
	specRefPaddedSame = worldSpec{Name: "ref-padded-same",
		Gen1: []reqSpec{{Name: "c1", Kind: "create", Script: sendScript(5, "@world", "@b"), Ref: "r "}, {Name: "c2", Kind: "create", Script: sendScript(5, "@world", "@c"), Ref: "r "}}}
	specRefVariants = worldSpec{Name: "ref-variants",
		Gen1: []reqSpec{{Name: "c1", Kind: "create", Script: sendScript(5, "@world", "@b"), Ref: "r"}, {Name: "c2", Kind: "create", Script: sendScript(5, "@world", "@c"), Ref: " r"}, {Name: "c3", Kind: "create", Script: sendScript(5, "@world", "@d"), Ref: "R"}}}
	specRefPostingsPadded = worldSpec{Name: "ref-postings-padded",
		Gen1: []reqSpec{{Name: "c1", Kind: "create", Postings: ledger.Postings{post("world", "b", 5)}, Ref: "r\n"}, {Name: "c2", Kind: "create", Postings: ledger.Postings{post("world", "c", 5)}, Ref: "r\n"}}}
)

func init() {
	b11 := plans["C11"]
	plans["C11"] = func() []planItem {
		return append(b11(),
			planItem{register(worldScenario("C11", specRefPaddedSame, refOracle)), 3, 4},
			planItem{register(worldScenario("C11", specRefVariants, refOracle)), 2, 3},
			planItem{register(worldScenario("C11", specRefPostingsPadded, refOracle)), 2, 3})
	}
}

// C09, concurrent part: posting-mode requests of the same shape (their generated script text is identical, so they share
// one cached compiled program) on disjoint accounts; each must commit, and be answered with, exactly its own postings.
var (
	specPostingsSameShape2 = worldSpec{Name: "postings-same-shape2", Seed: seedA100,
		Gen1: []reqSpec{{Name: "p1", Kind: "create", Postings: ledger.Postings{post("world", "alice", 5)}}, {Name: "p2", Kind: "create", Postings: ledger.Postings{post("world", "bob", 7)}}}}
	specPostingsSameShape3 = worldSpec{Name: "postings-same-shape3", Seed: seedA100,
		Gen1: []reqSpec{{Name: "p1", Kind: "create", Postings: ledger.Postings{post("world", "alice", 5), post("alice", "carol", 2)}},
			{Name: "p2", Kind: "create", Postings: ledger.Postings{post("world", "bob", 7), post("bob", "dave", 3)}},
			{Name: "p3", Kind: "create", Postings: ledger.Postings{post("a", "erin", 9), post("erin", "frank", 4)}}}}
	specPostingsMixedShape = worldSpec{Name: "postings-script-and-postings", Seed: seedA100,
		Gen1: []reqSpec{{Name: "p1", Kind: "create", Postings: ledger.Postings{post("a", "alice", 60)}}, {Name: "p2", Kind: "create", Postings: ledger.Postings{post("a", "bob", 60)}}, create("s3", 5, "@world", "@carol")}}
)

// postingsOracle: every accepted posting-mode request has one row holding exactly its postings, and was answered with them.
func postingsOracle(w *worldRun) (string, string) {
	logs := w.Store.Snapshot()
	for _, res := range w.Results {
		if res.Spec.Postings == nil || res.Class != "ok" {
			continue
		}
		rows := rowFor(res.Spec, logs, w.SeedLen)
		if len(rows) != 1 {
			return fmt.Sprintf("%s was accepted but has %d log entries", res.Spec.Name, len(rows)), "postings-rows"
		}
		ptx := txOfRow(rows[0])
		if ptx == nil || fmt.Sprint(ptx.Postings) != fmt.Sprint(res.Spec.Postings) {
			return fmt.Sprintf("%s asked for %v, the committed transaction holds %v", res.Spec.Name, res.Spec.Postings, ptx), "postings-committed"
		}
		if res.Tx != nil && fmt.Sprint(res.Tx.Postings) != fmt.Sprint(res.Spec.Postings) {
			return fmt.Sprintf("%s asked for %v, the answer holds %v", res.Spec.Name, res.Spec.Postings, res.Tx.Postings), "postings-answered"
		}
	}
	// nothing else was committed under a request's tag
	for _, l := range logs[w.SeedLen:] {
		if tx := txOfRow(l); tx != nil {
			found := false
			for _, res := range w.Results {
				if tx.Metadata["tag"] == res.Spec.Name {
					found = true
				}
			}
			if !found {
				return fmt.Sprintf("transaction %s belongs to no request", tx.ID), "postings-orphan"
			}
		}
	}
	return "", ""
}

func init() {
	plans["C09"] = func() []planItem {
		return []planItem{
			{register(worldScenario("C09", specPostingsSameShape2, postingsOracle, spendOracle)), 3, 4},
			{register(worldScenario("C09", specPostingsSameShape3, postingsOracle, spendOracle)), 2, 3},
			{register(worldScenario("C09", specPostingsMixedShape, postingsOracle, spendOracle)), 2, 3},
			{register(worldScenario("C09", specSpend2Postings, postingsOracle, spendOracle)), 3, 4},
		}
	}
}

// C14, concurrent part (continued): the preview shares a reservation key with the real writes racing beside it
var (
	specPreviewSharedRef = worldSpec{Name: "preview-shares-reference", Seed: seedA100,
		Gen1: []reqSpec{{Name: "p1", Kind: "create", Script: sendScript(5, "@world", "@b"), Ref: "r", DryRun: true},
			{Name: "c1", Kind: "create", Script: sendScript(5, "@world", "@c"), Ref: "r"}, {Name: "c2", Kind: "create", Script: sendScript(5, "@world", "@d"), Ref: "r"}}}
	specPreviewSharedIK = worldSpec{Name: "preview-shares-idempotency-key", Seed: seedA100,
		Gen1: []reqSpec{{Name: "p1", Kind: "create", Script: sendScript(5, "@world", "@b"), IK: "k", DryRun: true},
			{Name: "c1", Kind: "create", Script: sendScript(5, "@world", "@c"), IK: "k"}, {Name: "c1", Kind: "create", Script: sendScript(5, "@world", "@c"), IK: "k"}}}
	specPreviewSharedRevert = worldSpec{Name: "preview-shares-revert-target", Seed: seedA100,
		Gen1: []reqSpec{{Name: "p0", Kind: "revert", TxID: 0, IK: "kp", DryRun: true}, {Name: "r0a", Kind: "revert", TxID: 0}, {Name: "r0b", Kind: "revert", TxID: 0}}}
)

func init() {
	b14, b11 := plans["C14"], plans["C11"]
	plans["C14"] = func() []planItem {
		return append(b14(),
			planItem{register(worldScenario("C14", specPreviewSharedRef, chainOracle, previewOracle, eventOracle, ackOracle, refOracle)), 2, 3},
			planItem{register(worldScenario("C14", specPreviewSharedIK, chainOracle, previewOracle, eventOracle, ikOracle)), 2, 3},
			planItem{register(worldScenario("C14", specPreviewSharedRevert, chainOracle, previewOracle, eventOracle, revertOracle)), 2, 3})
	}
	plans["C11"] = func() []planItem {
		return append(b11(), planItem{register(worldScenario("C11", specPreviewSharedRef, refOracle)), 2, 3})
	}
}

// two "send everything" transactions on one account (the compiler treats [X *] sources apart from fixed amounts)
func sendAllScript(src, dst string) string {
	return fmt.Sprintf("send [X *] (\n  source = %s\n  destination = %s\n)\n", src, dst)
}

var (
	specSpend2All = worldSpec{Name: "spend2-all", Seed: seedA100,
		Gen1: []reqSpec{{Name: "s1", Kind: "create", Script: sendAllScript("@a", "@b")}, {Name: "s2", Kind: "create", Script: sendAllScript("@a", "@c")}}}
	specSpendAllVsFixed = worldSpec{Name: "spend-all-vs-fixed", Seed: seedA100,
		Gen1: []reqSpec{{Name: "s1", Kind: "create", Script: sendAllScript("{\n    @a\n    @z\n  }", "@b")}, create("s2", 60, "@a", "@c")}}
	specSpend2Max = worldSpec{Name: "spend2-max", Seed: seedA100,
		Gen1: []reqSpec{create("s1", 60, "max [X 60] from @a", "@b"), {Name: "s2", Kind: "create", Script: sendAllScript("max [X 60] from @a", "@c")}}}
)

func init() {
	b02 := plans["C02"]
	plans["C02"] = func() []planItem {
		return append(b02(),
			planItem{register(worldScenario("C02", specSpend2All, spendOracle)), 3, 4},
			planItem{register(worldScenario("C02", specSpendAllVsFixed, spendOracle)), 3, 4},
			planItem{register(worldScenario("C02", specSpend2Max, spendOracle)), 3, 4})
	}
}

// C05 on writes that carry idempotency keys (the key is part of the hashed content) and on a revert
var specKeyedAllKinds = worldSpec{Name: "keyed-all-kinds", Crash: true, Seed: seedA100,
	Gen1: []reqSpec{{Name: "c1", Kind: "create", Script: sendScript(5, "@world", "@b"), IK: "k1"},
		{Name: "m1", Kind: "savemeta", TargetType: ledger.MetaTargetTypeAccount, TargetID: "c", IK: "k2"},
		{Name: "d1", Kind: "delmeta", TargetType: ledger.MetaTargetTypeTransaction, TargetID: big.NewInt(0), Key: "d1", IK: "k3"}},
	Gen2: []reqSpec{{Name: "r0", Kind: "revert", TxID: 0, IK: "k4"}, {Name: "m2", Kind: "savemeta", TargetType: ledger.MetaTargetTypeTransaction, TargetID: big.NewInt(0), IK: "k5"}}}

func init() {
	b05 := plans["C05"]
	plans["C05"] = func() []planItem {
		return append(b05(),
			planItem{register(worldScenario("C05", specKeyedAllKinds, chainOracle)), 2, 3},
			planItem{register(worldScenario("C05", specIKMeta, chainOracle)), 2, 3},
			planItem{register(worldScenario("C05", specIKDel, chainOracle)), 2, 3})
	}
}

// a reference stays taken when its transaction is reverted (the reverted transaction is still a committed carrier)
var specRefAfterRevert = worldSpec{Name: "ref-after-revert", Crash: true,
	Seed: func(st *memstore.Store) {
		st.Seed(ledger.NewTransactionLog(ledger.NewTransaction().WithPostings(post("world", "a", 100)).WithID(big.NewInt(0)).WithReference("r"), nil))
	},
	Gen1: []reqSpec{{Name: "r0", Kind: "revert", TxID: 0}, {Name: "c1", Kind: "create", Script: sendScript(5, "@world", "@b"), Ref: "r"}},
	Gen2: []reqSpec{{Name: "c2", Kind: "create", Script: sendScript(5, "@world", "@c"), Ref: "r"}}}

func init() {
	b11 := plans["C11"]
	plans["C11"] = func() []planItem {
		return append(b11(), planItem{register(worldScenario("C11", specRefAfterRevert, refOracle)), 2, 3})
	}
}

// the store goes down for good at some insertion: nothing may be acknowledged or published for entries that never got in
var specStoreDown = worldSpec{Name: "store-goes-down", Seed: seedA100, StoreGoesDown: true,
	Gen1: []reqSpec{create("c1", 5, "@world", "@b"), {Name: "m1", Kind: "savemeta", TargetType: ledger.MetaTargetTypeAccount, TargetID: "c"}, {Name: "r0", Kind: "revert", TxID: 0}}}

func init() {
	b06, b16, b05 := plans["C06"], plans["C16"], plans["C05"]
	plans["C06"] = func() []planItem {
		return append(b06(), planItem{register(worldScenario("C06", specStoreDown, ackOracle)), 2, 3})
	}
	plans["C16"] = func() []planItem {
		return append(b16(), planItem{register(worldScenario("C16", specStoreDown, eventOracle)), 2, 3})
	}
	plans["C05"] = func() []planItem {
		return append(b05(), planItem{register(worldScenario("C05", specStoreDown, chainOracle)), 2, 3})
	}
}

// events with every field filled: script-written account and transaction metadata, a reference, an amount beyond 64 bits
var specEventsRich = worldSpec{Name: "events-rich-content", Seed: seedTxs(ledger.Postings{post("world", "a", 100)}),
	Gen1: []reqSpec{{Name: "c1", Kind: "create", Ref: "invoice-1",
		Script: "send [X 18446744073709551617] (\n  source = @world\n  destination = @rich\n)\nset_account_meta(@rich, \"vip\", \"yes\")\nset_tx_meta(\"note\", \"first\")\n"},
		{Name: "r0", Kind: "revert", TxID: 0},
		{Name: "m1", Kind: "savemeta", TargetType: ledger.MetaTargetTypeTransaction, TargetID: big.NewInt(0), Meta: metadata.Metadata{"a": "1", "b": "2"}}}}

func init() {
	b16 := plans["C16"]
	plans["C16"] = func() []planItem {
		return append(b16(), planItem{register(worldScenario("C16", specEventsRich, eventOracle)), 2, 3})
	}
}

// C05 with previews among the writers (a preview must leave the in-memory head of the chain alone)
var specChainPreviews = worldSpec{Name: "previews-among-writers", Crash: true, Seed: seedA100,
	Gen1: []reqSpec{{Name: "p1", Kind: "create", Script: sendScript(5, "@world", "@b"), DryRun: true}, create("c1", 5, "@world", "@b"),
		{Name: "pm", Kind: "savemeta", TargetType: ledger.MetaTargetTypeAccount, TargetID: "c", DryRun: true}},
	Gen2: []reqSpec{{Name: "pr", Kind: "revert", TxID: 0, DryRun: true}, {Name: "m2", Kind: "savemeta", TargetType: ledger.MetaTargetTypeAccount, TargetID: "c"}}}

func init() {
	b05 := plans["C05"]
	plans["C05"] = func() []planItem {
		return append(b05(), planItem{register(worldScenario("C05", specChainPreviews, chainOracle, previewOracle)), 2, 3})
	}
}

// the engine is closed while writes are in flight: what was not persisted must not be acknowledged (or published)
var specCloseInFlight = worldSpec{Name: "close-in-flight", Seed: seedA100, GracefulClose: true,
	Gen1: []reqSpec{create("c1", 5, "@world", "@b"), {Name: "m1", Kind: "savemeta", TargetType: ledger.MetaTargetTypeAccount, TargetID: "c"}, {Name: "r0", Kind: "revert", TxID: 0}}}

func init() {
	b06, b16 := plans["C06"], plans["C16"]
	plans["C06"] = func() []planItem {
		return append(b06(), planItem{register(worldScenario("C06", specCloseInFlight, ackOracle)), 2, 3})
	}
	plans["C16"] = func() []planItem {
		return append(b16(), planItem{register(worldScenario("C16", specCloseInFlight, eventOracle)), 2, 3})
	}
}

// C11: a refused duplicate changes nothing - in particular it consumes no transaction id (the next commit follows on)
var specRefThenPlain = worldSpec{Name: "ref-duplicate-then-plain", Crash: true,
	Gen1: []reqSpec{{Name: "c1", Kind: "create", Script: sendScript(5, "@world", "@b"), Ref: "r"}, {Name: "c2", Kind: "create", Script: sendScript(5, "@world", "@c"), Ref: "r"}, create("c3", 5, "@world", "@d")},
	Gen2: []reqSpec{{Name: "c4", Kind: "create", Script: sendScript(5, "@world", "@e"), Ref: "r"}, create("c5", 5, "@world", "@f")}}

// C02: an account already deeper in the red than the overdraft a script grants (after a forced revert, say)
var specDeepRed = worldSpec{Name: "already-below-overdraft",
	Seed: func(st *memstore.Store) {
		st.Seed(ledger.NewTransactionLog(ledger.NewTransaction().WithPostings(post("bank", "gone", 100)).WithID(big.NewInt(0)), nil))
	},
	Gen1: []reqSpec{{Name: "s1", Kind: "create", Overdraft: map[string]string{"bank": "50"},
		Script: "send [X 10] (\n  source = {\n    @bank\n    @world\n  }\n  destination = @x\n)\nsend [X 50] (\n  source = @bank allowing overdraft up to [X 50]\n  destination = @y\n)\n"},
		{Name: "s2", Kind: "create", Overdraft: map[string]string{"bank": "50"}, Script: sendScript(20, "@bank allowing overdraft up to [X 50]", "@z")}}}

func init() {
	b11, b02 := plans["C11"], plans["C02"]
	plans["C11"] = func() []planItem {
		items := b11()
		return append(items, planItem{register(worldScenario("C11", specRefThenPlain, refOracle, chainOracle)), 2, 3})
	}
	plans["C02"] = func() []planItem {
		return append(b02(), planItem{register(worldScenario("C02", specDeepRed, spendOracle)), 2, 3})
	}
}

// roundTripOracle (C13, on what a running engine persisted under faults and crashes): every stored entry, read back through
// the JSON codec, re-hashed over the previous STORED hash, gives its stored hash; ids follow on. An engine whose in-memory
// head runs ahead of the store (an entry it chained but never wrote) breaks exactly one link here.
func roundTripOracle(w *worldRun) (string, string) {
	if v, k := chainOracle(w); v != "" {
		return v, k
	}
	var prev *ledger.ChainedLog
	for i, l := range w.Store.Snapshot() {
		raw, err := json.Marshal(l)
		if err != nil {
			return fmt.Sprintf("entry %d cannot be written as JSON: %v", i, err), "rt-marshal"
		}
		back := &ledger.ChainedLog{}
		if err := json.Unmarshal(raw, back); err != nil {
			return fmt.Sprintf("entry %d cannot be read back: %v (%s)", i, err, raw), "rt-unmarshal"
		}
		if !bytes.Equal(memstore.SpecHash(prev, back), l.Hash) {
			return fmt.Sprintf("entry %d read back and re-hashed over the previous stored hash does not give its stored hash (%s) [%s]", i, raw, w.digest()), "rt-hash"
		}
		prev = l
	}
	return "", ""
}

var specFaultThenWrites = worldSpec{Name: "fault-then-writes", FaultInsert: true,
	Seed: seedTxs(ledger.Postings{post("world", "a", 10)}),
	Gen1: []reqSpec{create("c1", 5, "@world", "@a"), create("c2", 5, "@world", "@b"), {Name: "r0", Kind: "revert", TxID: 0}},
	Gen2: []reqSpec{create("c3", 5, "@world", "@a"), {Name: "m1", Kind: "savemeta", TargetType: ledger.MetaTargetTypeAccount, TargetID: "c"}},
}

func init() {
	plans["C13"] = func() []planItem {
		return []planItem{
			{register(worldScenario("C13", specFaultThenWrites, roundTripOracle)), 2, 3},
			{register(worldScenario("C13", specFaultInsert, roundTripOracle)), 2, 3},
			{register(worldScenario("C13", specMixed3, roundTripOracle)), 1, 2},
			{register(worldScenario("C13", specStoreDown, roundTripOracle)), 1, 2},
		}
	}
	b05 := plans["C05"]
	plans["C05"] = func() []planItem {
		return append(b05(),
			planItem{register(worldScenario("C05", specFaultInsert, chainOracle)), 2, 3},
			planItem{register(worldScenario("C05", specFaultThenWrites, chainOracle)), 2, 3})
	}
}

// C16: one idempotency key carried by two DIFFERENT requests of a kind (a client's mistake the engine does not refuse: the second
// is answered from the first one's entry). Whatever is published then must still describe an entry of the log.
var (
	specEventsKeyOtherRevert = worldSpec{Name: "events-key-reused-other-revert",
		Seed: seedTxs(ledger.Postings{post("world", "a", 100)}, ledger.Postings{post("world", "b", 50)}),
		Gen1: []reqSpec{{Name: "r0", Kind: "revert", TxID: 0, IK: "k"}, {Name: "r1", Kind: "revert", TxID: 1, IK: "k"}}}
	specEventsKeyOtherMeta = worldSpec{Name: "events-key-reused-other-meta", Seed: seedA100,
		Gen1: []reqSpec{{Name: "m1", Kind: "savemeta", TargetType: ledger.MetaTargetTypeAccount, TargetID: "c", IK: "k"},
			{Name: "m2", Kind: "savemeta", TargetType: ledger.MetaTargetTypeAccount, TargetID: "d", IK: "k"},
			{Name: "d1", Kind: "delmeta", TargetType: ledger.MetaTargetTypeAccount, TargetID: "c", Key: "d1", IK: "k2"},
			{Name: "d2", Kind: "delmeta", TargetType: ledger.MetaTargetTypeAccount, TargetID: "d", Key: "d2", IK: "k2"}}}
	specEventsKeyOtherCreate = worldSpec{Name: "events-key-reused-other-create", Seed: seedA100,
		Gen1: []reqSpec{{Name: "c1", Kind: "create", Script: sendScript(5, "@world", "@b"), IK: "k"}, {Name: "c2", Kind: "create", Script: sendScript(7, "@world", "@c"), IK: "k"}}}
)

func init() {
	b16 := plans["C16"]
	plans["C16"] = func() []planItem {
		return append(b16(),
			planItem{register(worldScenario("C16", specEventsKeyOtherRevert, eventOracle)), 2, 3},
			planItem{register(worldScenario("C16", specEventsKeyOtherMeta, eventOracle)), 1, 2},
			planItem{register(worldScenario("C16", specEventsKeyOtherCreate, eventOracle)), 2, 3})
	}
}

// C06: every store read of every kind of write may fail (one at a time): a write whose read fails AFTER its entry is persisted
// must not report an error. The writes do not compete for funds, so each succeeds in the default schedule and one deviation
// (the fault) reaches every read of each of them.
var specFaultReadsEachKind = worldSpec{Name: "fault-reads-each-kind", FaultReads: true,
	Seed: seedTxs(ledger.Postings{post("world", "a", 10)}, ledger.Postings{post("world", "b", 10)}),
	Gen1: []reqSpec{{Name: "r0", Kind: "revert", TxID: 0},
		{Name: "m1", Kind: "savemeta", TargetType: ledger.MetaTargetTypeTransaction, TargetID: big.NewInt(1)},
		{Name: "d1", Kind: "delmeta", TargetType: ledger.MetaTargetTypeTransaction, TargetID: big.NewInt(1), Key: "d1"}},
}

var specFaultReadsKeyed = worldSpec{Name: "fault-reads-keyed", FaultReads: true,
	Seed: seedTxs(ledger.Postings{post("world", "a", 10)}, ledger.Postings{post("world", "b", 10)}),
	Gen1: []reqSpec{{Name: "r0", Kind: "revert", TxID: 0, IK: "k1"}, {Name: "c1", Kind: "create", Script: sendScript(5, "@world", "@c"), IK: "k2"}},
}

func init() {
	b06, b16 := plans["C06"], plans["C16"]
	plans["C06"] = func() []planItem {
		return append(b06(),
			planItem{register(worldScenario("C06", specFaultReadsEachKind, ackOracle)), 1, 2},
			planItem{register(worldScenario("C06", specFaultReadsKeyed, ackOracle)), 1, 2})
	}
	plans["C16"] = func() []planItem {
		return append(b16(), planItem{register(worldScenario("C16", specFaultReadsEachKind, eventOracle)), 1, 2})
	}
}

// C02: two requests that both draw on one account through a BOUNDED overdraft (the third leaf form of a source, next to plain
// and unbounded): together they exceed balance + overdraft
var specOverdraftBoth = worldSpec{Name: "overdraft-both-bounded", Seed: seedTxs(ledger.Postings{post("world", "a", 10)}),
	Gen1: []reqSpec{{Name: "s1", Kind: "create", Script: sendScript(15, "@a allowing overdraft up to [X 10]", "@b"), Overdraft: map[string]string{"a": "10"}},
		{Name: "s2", Kind: "create", Script: sendScript(15, "@a allowing overdraft up to [X 10]", "@c"), Overdraft: map[string]string{"a": "10"}}}}

var specOverdraftEmpty = worldSpec{Name: "overdraft-empty-account",
	Gen1: []reqSpec{{Name: "s1", Kind: "create", Script: sendScript(100, "@payer allowing overdraft up to [X 100]", "@b"), Overdraft: map[string]string{"payer": "100"}},
		{Name: "s2", Kind: "create", Script: sendScript(100, "@payer allowing overdraft up to [X 100]", "@c"), Overdraft: map[string]string{"payer": "100"}},
		{Name: "s3", Kind: "create", Script: "send [X *] (\n  source = @payer allowing overdraft up to [X 100]\n  destination = @d\n)\n", Overdraft: map[string]string{"payer": "100"}}}}

func init() {
	b02 := plans["C02"]
	plans["C02"] = func() []planItem {
		items := b02()
		b, d := items[0].Quick, items[0].Thorough
		return append(items, planItem{register(worldScenario("C02", specOverdraftBoth, spendOracle)), b, d},
			planItem{register(worldScenario("C02", specOverdraftEmpty, spendOracle)), 2, 3})
	}
}

// C11 / C07: the reference (the idempotency key) is already in the store when the request arrives, and the store's read path
// fails for good from some read on, or the request's context is done by the time the lookup runs: a lookup that cannot be
// answered must fail the request, not pass for "not found".
func seedRefAndKey(st *memstore.Store) {
	tx := ledger.NewTransaction().WithPostings(post("world", "a", 10)).WithID(big.NewInt(0)).WithReference("r").WithMetadata(metadata.Metadata{"tag": "seeded"})
	st.Seed(ledger.NewTransactionLog(tx, map[string]metadata.Metadata{}).WithIdempotencyKey("k"))
}

var (
	specRefPersistedReadsDown = worldSpec{Name: "ref-persisted-reads-down", ReadsGoDown: true, Seed: seedRefAndKey,
		Gen1: []reqSpec{{Name: "c1", Kind: "create", Script: sendScript(5, "@world", "@b"), Ref: "r"}, create("c2", 5, "@world", "@c")}}
	specRefPersistedCancel = worldSpec{Name: "ref-persisted-cancel", Seed: seedRefAndKey,
		Gen1: []reqSpec{{Name: "c1", Kind: "create", Script: sendScript(5, "@world", "@b"), Ref: "r", Cancellable: true}, create("c2", 5, "@world", "@c")}}
	specKeyPersistedReadsDown = worldSpec{Name: "key-persisted-reads-down", ReadsGoDown: true, Seed: seedRefAndKey,
		Gen1: []reqSpec{{Name: "c1", Kind: "create", Script: sendScript(5, "@world", "@b"), IK: "k"}, create("c2", 5, "@world", "@c")}}
	specKeyPersistedCancel = worldSpec{Name: "key-persisted-cancel", Seed: seedRefAndKey,
		Gen1: []reqSpec{{Name: "c1", Kind: "create", Script: sendScript(5, "@world", "@b"), IK: "k", Cancellable: true}, create("c2", 5, "@world", "@c")}}
)

func init() {
	b07, b11 := plans["C07"], plans["C11"]
	plans["C11"] = func() []planItem {
		return append(b11(),
			planItem{register(worldScenario("C11", specRefPersistedReadsDown, refOracle)), 1, 2},
			planItem{register(worldScenario("C11", specRefPersistedCancel, refOracle)), 1, 2})
	}
	plans["C07"] = func() []planItem {
		return append(b07(),
			planItem{register(worldScenario("C07", specKeyPersistedReadsDown, ikOracle)), 1, 2},
			planItem{register(worldScenario("C07", specKeyPersistedCancel, ikOracle)), 1, 2})
	}
}

// C10: metadata writes on the transaction a revert is working on, and a second revert afterwards (funds for both are there):
// whatever the writes on T leave behind in the engine, T is reverted once
var specRevertMetaRevert = worldSpec{Name: "revert-meta-revert",
	Seed: seedTxs(ledger.Postings{post("world", "a", 10)}, ledger.Postings{post("world", "a", 10)}),
	Gen1: []reqSpec{{Name: "r0a", Kind: "revert", TxID: 0},
		{Name: "m0", Kind: "savemeta", TargetType: ledger.MetaTargetTypeTransaction, TargetID: big.NewInt(0)},
		{Name: "r0b", Kind: "revert", TxID: 0}},
	Gen2: []reqSpec{{Name: "r0c", Kind: "revert", TxID: 0}}}

var specRevertDelMetaRevert = worldSpec{Name: "revert-delmeta-revert-forced",
	Seed: seedTxs(ledger.Postings{post("world", "a", 10)}),
	Gen1: []reqSpec{{Name: "r0a", Kind: "revert", TxID: 0, Force: true},
		{Name: "d0", Kind: "delmeta", TargetType: ledger.MetaTargetTypeTransaction, TargetID: big.NewInt(0), Key: "d0"},
		{Name: "r0b", Kind: "revert", TxID: 0, Force: true}}}

func init() {
	b10 := plans["C10"]
	plans["C10"] = func() []planItem {
		return append(b10(),
			planItem{register(worldScenario("C10", specRevertMetaRevert, revertOracle)), 2, 3},
			planItem{register(worldScenario("C10", specRevertDelMetaRevert, revertOracle)), 2, 3})
	}
}

// C05 / C06: shutdown with writes in flight, also while the store refuses a batch: whatever the shutdown path does with what
// is queued, entries reach the store in id order and nothing is acknowledged that was not written
var specCloseInFlightFault = worldSpec{Name: "close-in-flight-fault", Seed: seedA100, GracefulClose: true, FaultInsert: true,
	Gen1: []reqSpec{create("c1", 5, "@world", "@b"), create("c2", 5, "@world", "@c"), {Name: "m1", Kind: "savemeta", TargetType: ledger.MetaTargetTypeAccount, TargetID: "c"}}}

func init() {
	b05, b06 := plans["C05"], plans["C06"]
	plans["C05"] = func() []planItem {
		return append(b05(),
			planItem{register(worldScenario("C05", specCloseInFlight, chainOracle)), 2, 3},
			planItem{register(worldScenario("C05", specCloseInFlightFault, chainOracle)), 2, 3})
	}
	plans["C06"] = func() []planItem {
		return append(b06(), planItem{register(worldScenario("C06", specCloseInFlightFault, ackOracle)), 2, 3})
	}
}

// the injected store failures of the "context cancelled while the statement ran" kind (an error wrapping context.Canceled, passed
// through the tree's own sqlutils.PostgresError): whatever special treatment cancellation gets anywhere between the store and the
// job runner, a failed insertion is not a persisted one and a failed read is not an empty result.
func withCancelKind(sp worldSpec) worldSpec {
	out := sp
	out.Name = sp.Name + "-cancelkind"
	out.CancelKind = true
	return out
}

func init() {
	b05, b06, b07 := plans["C05"], plans["C06"], plans["C07"]
	plans["C05"] = func() []planItem {
		return append(b05(),
			planItem{register(worldScenario("C05", withCancelKind(specFaultThenWrites), chainOracle)), 2, 3},
			planItem{register(worldScenario("C05", withCancelKind(specFaultInsert), chainOracle)), 2, 3})
	}
	plans["C06"] = func() []planItem {
		return append(b06(),
			planItem{register(worldScenario("C06", withCancelKind(specFaultInsert), ackOracle)), 1, 2},
			planItem{register(worldScenario("C06", withCancelKind(specFaultReadsEachKind), ackOracle)), 1, 2})
	}
	plans["C07"] = func() []planItem {
		return append(b07(), planItem{register(worldScenario("C07", withCancelKind(withReadFaults(specIK2)), ikOracle)), 2, 3})
	}
}

// every kind of failure a PostgreSQL-backed store reports (faultKinds) on the reads behind an idempotency key and a reference
func withFaultKind(sp worldSpec, kind string) worldSpec {
	out := sp
	out.Name = sp.Name + "-" + strings.ReplaceAll(kind, ":", "")
	out.FaultKind = kind
	return out
}

func init() {
	b07, b11, b10 := plans["C07"], plans["C11"], plans["C10"]
	plans["C07"] = func() []planItem {
		out := b07()
		for _, k := range faultKinds[1:] {
			out = append(out, planItem{register(worldScenario("C07", withFaultKind(withReadFaults(specIK2), k), ikOracle)), 2, 3})
		}
		return out
	}
	plans["C11"] = func() []planItem {
		out := b11()
		for _, k := range faultKinds {
			out = append(out, planItem{register(worldScenario("C11", withFaultKind(withReadFaults(specRef2), k), refOracle)), 2, 3})
		}
		return out
	}
	plans["C10"] = func() []planItem {
		out := b10()
		for _, k := range faultKinds {
			out = append(out, planItem{register(worldScenario("C10", withFaultKind(withReadFaults(specRevertSame2), k), revertOracle, spendOracle)), 2, 3})
		}
		return out
	}
}

// C07: shutdown with KEYED writes in flight: a success reported for a key is that key's effect, also when the engine is being closed
// (a write acknowledged from the queue without being persisted would be executed afresh by the client's retry after the restart)
func withKeys(sp worldSpec) worldSpec {
	out := sp
	out.Name = sp.Name + "-keyed"
	out.Gen1 = append([]reqSpec(nil), sp.Gen1...)
	for i := range out.Gen1 {
		out.Gen1[i].IK = fmt.Sprintf("key-%d", i)
	}
	return out
}

func init() {
	b07 := plans["C07"]
	plans["C07"] = func() []planItem {
		return append(b07(),
			planItem{register(worldScenario("C07", withKeys(specCloseInFlight), ikOracle)), 2, 3},
			planItem{register(worldScenario("C07", withKeys(specCloseInFlightFault), ikOracle)), 2, 3})
	}
}
