package main

import (
	"context"
	"fmt"
	"sort"
	"strings"

	"github.com/formancehq/ledger/internal/engine/command"
	"github.com/formancehq/ledger/xverif/lib/explore"
	"github.com/formancehq/stack/libs/go-libs/verifrt"
)

func init() { plans["C15"] = planC15 }

type lockReq struct {
	Name string
	Acc  command.Accounts
}

var lockShapes = []lockReq{
	{"W(a)", command.Accounts{Write: []string{"a"}}},
	{"R(a)", command.Accounts{Read: []string{"a"}}},
	{"W(b)", command.Accounts{Write: []string{"b"}}},
	{"R(a)W(b)", command.Accounts{Read: []string{"a"}, Write: []string{"b"}}},
	{"W(a,b)", command.Accounts{Write: []string{"a", "b"}}},
	{"R(a,b)", command.Accounts{Read: []string{"a", "b"}}},
	// what the Commander really asks for: every involved account for reading and the sources among them for writing too;
	// and the same account named twice (two resources of a script designating one account)
	{"R(a,b)W(a)", command.Accounts{Read: []string{"a", "b"}, Write: []string{"a"}}},
	{"R(a,a)", command.Accounts{Read: []string{"a", "a"}}},
	{"R(a,a,b)W(b,b)", command.Accounts{Read: []string{"a", "a", "b"}, Write: []string{"b", "b"}}},
	// read sets in the other order, and a reader of b alone: what happens at a release may depend on which account of the
	// set is looked at last
	{"R(b)", command.Accounts{Read: []string{"b"}}},
	{"R(b,a)", command.Accounts{Read: []string{"b", "a"}}},
}

// dependentShapes: the shapes the dependent scenarios range over
var dependentShapes = []int{0, 1, 2, 3, 4, 5, 9, 10}

func conflicts(x, y command.Accounts) bool {
	in := func(l []string, s string) bool {
		for _, e := range l {
			if e == s {
				return true
			}
		}
		return false
	}
	for _, w := range x.Write {
		if in(y.Write, w) || in(y.Read, w) {
			return true
		}
	}
	for _, w := range y.Write {
		if in(x.Read, w) {
			return true
		}
	}
	return false
}

// lockScenario: every thread does Lock -> (point) -> unlock; thread `cancelIdx` (if >= 0) has a cancellable context
// and an extra thread cancels it at any time. Afterwards a probe must get W(a,b) without blocking.
func lockScenario(name string, pop []int, cancelIdx int) *explore.Scenario {
	return &explore.Scenario{Name: name, Exec: func(r *explore.Replayer) explore.Outcome {
		s := verifrt.New(r)
		locker := command.NewDefaultLocker()
		ctx := quietCtx()
		holders := map[int]bool{}
		var order []string
		viol, vkey := "", ""
		results := make([]string, len(pop))
		var cancel context.CancelFunc
		for i, k := range pop {
			i, req := i, lockShapes[k]
			tctx := ctx
			if i == cancelIdx {
				tctx, cancel = context.WithCancel(ctx)
			}
			s.Spawn(fmt.Sprintf("T%d:%s", i, req.Name), false, func() {
				unlock, err := locker.Lock(tctx, req.Acc)
				if err != nil {
					results[i] = "cancelled"
					return
				}
				for j := range holders {
					if conflicts(req.Acc, lockShapes[pop[j]].Acc) && viol == "" {
						viol = fmt.Sprintf("%s was granted while %s still holds a conflicting lock", req.Name, lockShapes[pop[j]].Name)
						vkey = "overlap:" + pairKey(req.Name, lockShapes[pop[j]].Name)
					}
				}
				holders[i] = true
				order = append(order, fmt.Sprint(i))
				verifrt.Point("holding " + req.Name)
				delete(holders, i)
				unlock(tctx)
				results[i] = "granted"
			})
		}
		if cancelIdx >= 0 {
			c := cancel
			s.Spawn("canceller", false, func() {
				verifrt.PointOn("cancel context", "real")
				c()
			})
		}
		reason := s.Run()
		if reason == verifrt.Deadlock && viol == "" {
			viol = "deadlock: pending requests are never granted although no conflicting holder remains: " + strings.Join(s.PendingDescs(), " | ")
			vkey = "deadlock"
		}
		for _, t := range s.Threads() {
			if t.Panic != nil && viol == "" {
				viol = fmt.Sprintf("panic in %s: %v", t.Name, t.Panic)
				vkey = "panic"
			}
		}
		if reason == verifrt.Quiescent && viol == "" {
			// probe: everything must be free again
			got := false
			s.Spawn("probe", false, func() {
				unlock, err := locker.Lock(ctx, command.Accounts{Write: []string{"a", "b"}})
				if err == nil {
					got = true
					unlock(ctx)
				}
			})
			if pr := s.Run(); pr != verifrt.Quiescent || !got {
				cs := "no"
				if cancelIdx >= 0 {
					cs = results[cancelIdx]
				}
				viol = fmt.Sprintf("after every request finished (cancellable request: %s) a fresh W(a,b) request is not granted: a lock or a queued intent was left behind", cs)
				vkey = "leftover:" + cs
			}
		}
		s.KillAll()
		if cancel != nil {
			cancel()
		}
		lab := strings.Join(results, ",") + " order=" + strings.Join(order, "")
		sort.Strings(order)
		return explore.Outcome{State: lab, Label: lab, Violation: viol, VKey: vkey}
	}}
}

// barrierScenario: a release that unblocks several waiters must grant all of them. Holder H takes W(a,b); the waiters are
// mutually compatible and each, once granted, keeps its lock until every waiter has been granted (a barrier). With a correct
// locker this always completes whoever arrives first; if a release grants only some of the waiters it deadlocks.
func barrierScenario(name string, waiters []int) *explore.Scenario {
	return &explore.Scenario{Name: name, Exec: func(r *explore.Replayer) explore.Outcome {
		s := verifrt.New(r)
		locker := command.NewDefaultLocker()
		ctx := quietCtx()
		granted := 0
		var order []string
		all := verifrt.MakeChan[struct{}]()
		s.Spawn("H:W(a,b)", false, func() {
			unlock, err := locker.Lock(ctx, command.Accounts{Write: []string{"a", "b"}})
			if err != nil {
				return
			}
			order = append(order, "H")
			verifrt.Point("holding W(a,b)")
			unlock(ctx)
		})
		for i, k := range waiters {
			i, req := i, lockShapes[k]
			s.Spawn(fmt.Sprintf("W%d:%s", i, req.Name), false, func() {
				unlock, err := locker.Lock(ctx, req.Acc)
				if err != nil {
					return
				}
				order = append(order, fmt.Sprint(i))
				granted++
				if granted == len(waiters) {
					all.Close()
				}
				all.Recv() // barrier: wait until every waiter holds its lock
				unlock(ctx)
			})
		}
		reason := s.Run()
		viol, vkey := "", ""
		if reason == verifrt.Deadlock {
			viol = fmt.Sprintf("after the holder released, only %d of %d mutually compatible waiters were granted: a pending request is not granted although no conflicting holder remains (%s)", granted, len(waiters), strings.Join(s.PendingDescs(), " | "))
			vkey = "partial-grant"
		}
		for _, t := range s.Threads() {
			if t.Panic != nil && viol == "" {
				viol, vkey = fmt.Sprintf("panic in %s: %v", t.Name, t.Panic), "panic"
			}
		}
		s.KillAll()
		lab := "order=" + strings.Join(order, "")
		return explore.Outcome{State: lab, Label: lab, Violation: viol, VKey: vkey}
	}}
}

// dependentScenario: holder H1 keeps its lock UNTIL request X has been granted; holder H2 releases on its own. X conflicts
// with H2 only, so once H2 has released X must be granted - whatever else is queued (request B, blocked by H1, may sit in
// front of it). If X waits for H1 as well (for instance because the queue is served strictly in order) nothing moves.
func dependentScenario(name string, h1, h2, blocked, x int) *explore.Scenario {
	return &explore.Scenario{Name: name, Exec: func(r *explore.Replayer) explore.Outcome {
		s := verifrt.New(r)
		locker := command.NewDefaultLocker()
		ctx := quietCtx()
		xGranted := verifrt.MakeChan[struct{}]()
		holding := verifrt.MakeChan[struct{}]()
		held := verifrt.MakeChan[struct{}](2)
		var order []string
		s.Spawn("H1:"+lockShapes[h1].Name, false, func() {
			unlock, err := locker.Lock(ctx, lockShapes[h1].Acc)
			if err != nil {
				return
			}
			order = append(order, "H1")
			held.Send(struct{}{})
			holding.Recv() // both holders hold before anything is queued
			xGranted.Recv()
			unlock(ctx)
		})
		s.Spawn("H2:"+lockShapes[h2].Name, false, func() {
			unlock, err := locker.Lock(ctx, lockShapes[h2].Acc)
			if err != nil {
				return
			}
			order = append(order, "H2")
			held.Send(struct{}{})
			holding.Recv()
			verifrt.Point("holding " + lockShapes[h2].Name)
			unlock(ctx)
		})
		s.Spawn("gate", false, func() {
			// let the two holders in first: the queue is built while both hold
			held.Recv()
			held.Recv()
			holding.Close()
		})
		spawnWaiter := func(tag string, k int, signal bool) {
			s.Spawn(tag+":"+lockShapes[k].Name, false, func() {
				holding.Recv()
				unlock, err := locker.Lock(ctx, lockShapes[k].Acc)
				if err != nil {
					return
				}
				order = append(order, tag)
				if signal {
					xGranted.Close()
				}
				unlock(ctx)
			})
		}
		spawnWaiter("B", blocked, false)
		spawnWaiter("X", x, true)
		reason := s.Run()
		viol, vkey := "", ""
		if reason == verifrt.Deadlock {
			viol = fmt.Sprintf("request X=%s conflicts only with H2=%s, which has released, but is not granted while H1=%s still holds and B=%s is queued: a pending request is not granted although no conflicting holder remains (%s)", lockShapes[x].Name, lockShapes[h2].Name, lockShapes[h1].Name, lockShapes[blocked].Name, strings.Join(s.PendingDescs(), " | "))
			vkey = "not-granted-behind-blocked"
		}
		for _, t := range s.Threads() {
			if t.Panic != nil && viol == "" {
				viol, vkey = fmt.Sprintf("panic in %s: %v", t.Name, t.Panic), "panic"
			}
		}
		s.KillAll()
		lab := "order=" + strings.Join(order, ",")
		return explore.Outcome{State: lab, Label: lab, Violation: viol, VKey: vkey}
	}}
}

func pairKey(a, b string) string {
	if a > b {
		a, b = b, a
	}
	return a + "|" + b
}

func planC15() []planItem {
	var out []planItem
	n := len(lockShapes)
	// every multiset of 3 requests
	for i := 0; i < n; i++ {
		for j := i; j < n; j++ {
			for k := j; k < n; k++ {
				pop := []int{i, j, k}
				name := fmt.Sprintf("lock3-%d%d%d", i, j, k)
				out = append(out, planItem{register(lockScenario(name, pop, -1)), 2, 3})
				// one cancellable request, at each position whose shape is distinct
				for c := 0; c < 3; c++ {
					if c > 0 && pop[c] == pop[c-1] {
						continue
					}
					out = append(out, planItem{register(lockScenario(fmt.Sprintf("%s-cancel%d", name, c), pop, c)), 2, 3})
				}
			}
		}
	}
	// one release must grant every waiter it unblocks (waiter sets: mutually compatible shapes)
	for _, ws := range [][]int{{1, 2}, {1, 1}, {0, 2}, {1, 5}, {5, 5}, {1, 1, 2}, {1, 1, 5}, {3, 1}, {7, 1}, {7, 7}, {7, 5, 1}, {7, 2}} {
		out = append(out, planItem{register(barrierScenario(fmt.Sprintf("barrier-%v", ws), ws)), 3, 4})
	}
	// a request blocked by one holder must not keep back a request that only waited for another holder
	for _, h1 := range dependentShapes {
		for _, h2 := range dependentShapes {
			if conflicts(lockShapes[h1].Acc, lockShapes[h2].Acc) {
				continue
			}
			for _, b := range dependentShapes {
				if !conflicts(lockShapes[b].Acc, lockShapes[h1].Acc) {
					continue
				}
				for _, x := range dependentShapes {
					if !conflicts(lockShapes[x].Acc, lockShapes[h2].Acc) || conflicts(lockShapes[x].Acc, lockShapes[h1].Acc) {
						continue
					}
					out = append(out, planItem{register(dependentScenario(fmt.Sprintf("dependent-%d.%d.%d.%d", h1, h2, b, x), h1, h2, b, x)), 2, 3})
				}
			}
		}
	}
	// four requests (thorough)
	for i := 0; i < n; i++ {
		for j := i; j < n; j++ {
			for k := j; k < n; k++ {
				for l := k; l < n; l++ {
					out = append(out, planItem{register(lockScenario(fmt.Sprintf("lock4-%d%d%d%d", i, j, k, l), []int{i, j, k, l}, -1)), -1, 2})
				}
			}
		}
	}
	return out
}
