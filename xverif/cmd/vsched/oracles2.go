package main

import (
	"bytes"
	"encoding/json"
	"fmt"
	"github.com/formancehq/stack/libs/go-libs/metadata"
	"math/big"
	"strings"

	ledger "github.com/formancehq/ledger/internal"
	"github.com/formancehq/ledger/pkg/events"
)

func txOfRow(l *ledger.ChainedLog) *ledger.Transaction {
	switch p := l.Data.(type) {
	case ledger.NewTransactionLogPayload:
		return p.Transaction
	case ledger.RevertedTransactionLogPayload:
		return p.RevertTransaction
	}
	return nil
}

// ikOracle (C07): at most one row per idempotency key; every success returns that row's outcome.
func ikOracle(w *worldRun) (string, string) {
	logs := w.Store.Snapshot()
	byKey := map[string][]*ledger.ChainedLog{}
	for _, l := range logs {
		if l.IdempotencyKey != "" {
			byKey[l.IdempotencyKey] = append(byKey[l.IdempotencyKey], l)
		}
	}
	for k, rows := range byKey {
		if len(rows) > 1 {
			return fmt.Sprintf("idempotency key %q took effect %d times [%s | %s]", k, len(rows), w.label(), w.digest()), "ik-twice"
		}
	}
	// effects per key, counted through the requests that carry it (the entry itself may fail to record the key)
	effects := map[string]map[*ledger.ChainedLog]bool{}
	for _, res := range w.Results {
		if res.Spec.IK == "" || res.Spec.DryRun {
			continue
		}
		if effects[res.Spec.IK] == nil {
			effects[res.Spec.IK] = map[*ledger.ChainedLog]bool{}
		}
		for _, r := range rowFor(res.Spec, logs, w.SeedLen) {
			effects[res.Spec.IK][r] = true
		}
	}
	for k, rows := range effects {
		if len(rows) > 1 {
			return fmt.Sprintf("writes carrying idempotency key %q took effect %d times [%s | %s]", k, len(rows), w.label(), w.digest()), "ik-twice"
		}
	}
	for _, res := range w.Results {
		if res.Spec.IK == "" || res.Class != "ok" || res.Spec.DryRun {
			continue
		}
		var rows []*ledger.ChainedLog
		for r := range effects[res.Spec.IK] {
			rows = append(rows, r)
		}
		if len(rows) == 0 && len(byKey[res.Spec.IK]) == 1 {
			rows = byKey[res.Spec.IK] // the key's single effect predates the scenario (seeded entry): the request is a replay of it
		}
		if len(rows) == 0 {
			return fmt.Sprintf("%s reported success with key %q but nothing took effect [%s]", res.Spec.Name, res.Spec.IK, w.digest()), "ik-success-no-row"
		}
		if res.Tx != nil {
			ptx := txOfRow(rows[0])
			if ptx == nil || ptx.ID.Cmp(res.Tx.ID) != 0 || fmt.Sprint(ptx.Postings) != fmt.Sprint(res.Tx.Postings) {
				return fmt.Sprintf("%s (key %q) returned tx %v %v, the single effect of that key is %v", res.Spec.Name, res.Spec.IK, res.Tx.ID, res.Tx.Postings, ptx), "ik-different-outcome"
			}
		}
	}
	return "", ""
}

// refOracle (C11): at most one committed transaction per reference; losers report an error and leave nothing.
func refOracle(w *worldRun) (string, string) {
	logs := w.Store.Snapshot()
	byRef := map[string][]*ledger.Transaction{}
	for _, l := range logs {
		if tx := txOfRow(l); tx != nil && tx.Reference != "" {
			byRef[tx.Reference] = append(byRef[tx.Reference], tx)
		}
	}
	for ref, txs := range byRef {
		if len(txs) > 1 {
			return fmt.Sprintf("reference %q is carried by %d committed transactions [%s | %s]", ref, len(txs), w.label(), w.digest()), "ref-twice"
		}
	}
	for _, res := range w.Results {
		if res.Spec.Ref == "" || res.Spec.Kind != "create" || res.Spec.DryRun {
			continue
		}
		rows := rowFor(res.Spec, logs, w.SeedLen)
		committed := len(rows) > 0
		switch {
		case res.Class == "ok" && !committed:
			return fmt.Sprintf("%s reported success but did not commit", res.Spec.Name), "ref-ok-no-row"
		case res.Answered && res.Class != "ok" && committed:
			return fmt.Sprintf("%s reported %s but its transaction is committed", res.Spec.Name, res.Class), "ref-error-with-row"
		case res.Answered && res.Class != "ok" && res.Class != "conflict" && res.Class != "insufficient" && res.Class != "panic" &&
			!w.Spec.FaultReads && !w.Spec.ReadsGoDown && !w.Spec.FaultInsert && !res.Spec.Cancellable:
			// (an attempt that fails for its own reason - injected store failure, cancelled by its caller - keeps that reason)
			return fmt.Sprintf("%s lost the reference but reported %s (%v) instead of a conflict", res.Spec.Name, res.Class, res.Err), "ref-wrong-error"
		}
		// somebody else committed the reference and this attempt ran its check afterwards => conflict, nothing else
		if res.Class == "ok" && len(byRef[res.Spec.Ref]) == 1 && byRef[res.Spec.Ref][0].Metadata["tag"] != res.Spec.Name {
			return fmt.Sprintf("%s reported success but reference %q belongs to another transaction", res.Spec.Name, res.Spec.Ref), "ref-ok-foreign"
		}
	}
	return "", ""
}

// revertOracle (C10): <=1 REVERTED row per target, exact inverse, original flagged, at most one success per target.
func revertOracle(w *worldRun) (string, string) {
	logs := w.Store.Snapshot()
	orig := map[string]*ledger.Transaction{}
	reverts := map[string][]*ledger.Transaction{}
	for _, l := range logs {
		switch p := l.Data.(type) {
		case ledger.NewTransactionLogPayload:
			orig[p.Transaction.ID.String()] = p.Transaction
		case ledger.RevertedTransactionLogPayload:
			orig[p.RevertTransaction.ID.String()] = p.RevertTransaction
			k := p.RevertedTransactionID.String()
			reverts[k] = append(reverts[k], p.RevertTransaction)
		}
	}
	for k, rs := range reverts {
		if len(rs) > 1 {
			return fmt.Sprintf("transaction %s was reverted %d times [%s | %s]", k, len(rs), w.label(), w.digest()), "revert-twice"
		}
		o := orig[k]
		if o == nil {
			return fmt.Sprintf("revert of unknown transaction %s", k), "revert-unknown"
		}
		want := make(ledger.Postings, 0, len(o.Postings)) // written out: the oracle must not share code with the revert path
		for i := len(o.Postings) - 1; i >= 0; i-- {
			q := o.Postings[i]
			want = append(want, ledger.Posting{Source: q.Destination, Destination: q.Source, Asset: q.Asset, Amount: q.Amount})
		}
		if fmt.Sprint(want) != fmt.Sprint(rs[0].Postings) {
			return fmt.Sprintf("revert of %s has postings %v, the exact inverse is %v", k, rs[0].Postings, want), "revert-not-inverse"
		}
		if rs[0].Metadata[ledger.RevertMetadataSpecKey()] != k {
			return fmt.Sprintf("reverting transaction does not carry the revert marker for %s: %v", k, rs[0].Metadata), "revert-marker"
		}
	}
	okPerTarget := map[int64]int{}
	for _, res := range w.Results {
		if res.Spec.Kind == "revert" && res.Class == "ok" && !res.Spec.DryRun && res.Spec.IK == "" {
			okPerTarget[res.Spec.TxID]++
			if okPerTarget[res.Spec.TxID] > 1 {
				return fmt.Sprintf("two revert requests of transaction %d both reported success [%s]", res.Spec.TxID, w.label()), "revert-two-success"
			}
		}
	}
	return "", ""
}

// eventOracle (C16): every published message describes a row already persisted at publish time; every success is published.
func eventOracle(w *worldRun) (string, string) {
	logs := w.Store.Snapshot()
	type envelope struct {
		Type    string          `json:"type"`
		Payload json.RawMessage `json:"payload"`
	}
	matched := map[*ledger.ChainedLog]int{}
	for _, m := range w.Pub.Snapshot() {
		var env envelope
		if err := json.Unmarshal(m.Payload, &env); err != nil {
			return "published message is not valid JSON: " + err.Error(), "event-json"
		}
		if m.Live != nil && !bytes.Equal(m.Live.Payload, m.Payload) {
			return fmt.Sprintf("the bytes of a published %s message changed after it was handed to the bus (a subscriber of a queueing bus reads them later): published %s, now %s", m.Topic, m.Payload, m.Live.Payload), "event-bytes-reused"
		}
		if m.Persisted > len(logs) {
			m.Persisted = len(logs)
		}
		visible := logs[:m.Persisted]
		found := false
		why := ""
		// every event names the ledger whose log holds the entry (another ledger of the process was opened before this one)
		var named struct {
			Ledger string `json:"ledger"`
		}
		_ = json.Unmarshal(env.Payload, &named)
		if named.Ledger != "l1" {
			return fmt.Sprintf("event %s names ledger %q, the entry it describes is in the log of ledger \"l1\" (payload %s)", env.Type, named.Ledger, env.Payload), "event-ledger:" + env.Type
		}
		switch env.Type {
		case events.EventTypeCommittedTransactions:
			var p struct {
				Transactions    []ledger.Transaction         `json:"transactions"`
				AccountMetadata map[string]metadata.Metadata `json:"accountMetadata"`
			}
			_ = json.Unmarshal(env.Payload, &p)
			if len(p.Transactions) != 1 {
				return "COMMITTED_TRANSACTIONS event without exactly one transaction", "event-shape"
			}
			for _, l := range visible {
				if np, ok := l.Data.(ledger.NewTransactionLogPayload); ok && np.Transaction.ID.Cmp(p.Transactions[0].ID) == 0 {
					if d := txDiff(np.Transaction, &p.Transactions[0]); d != "" {
						why = "content differs from the persisted entry: " + d
					} else if !accMetaEqual(np.AccountMetadata, p.AccountMetadata) {
						why = fmt.Sprintf("account metadata %v differs from the persisted entry's %v", p.AccountMetadata, np.AccountMetadata)
					} else {
						found = true
						matched[l]++
					}
				}
			}
		case events.EventTypeRevertedTransaction:
			var p struct {
				Reverted ledger.Transaction `json:"revertedTransaction"`
				Revert   ledger.Transaction `json:"revertTransaction"`
			}
			_ = json.Unmarshal(env.Payload, &p)
			for _, l := range visible {
				if rp, ok := l.Data.(ledger.RevertedTransactionLogPayload); ok {
					if rp.RevertedTransactionID.Cmp(p.Reverted.ID) == 0 && rp.RevertTransaction.ID.Cmp(p.Revert.ID) == 0 {
						orig := originalOf(visible, rp.RevertedTransactionID)
						if d := txDiff(rp.RevertTransaction, &p.Revert); d != "" {
							why = "the reverting transaction differs from the persisted entry: " + d
						} else if orig == nil || fmt.Sprint(orig.Postings) != fmt.Sprint(p.Reverted.Postings) || orig.Reference != p.Reverted.Reference {
							why = fmt.Sprintf("the reverted transaction in the event (%v) is not the persisted transaction %s (%v)", p.Reverted.Postings, rp.RevertedTransactionID, orig)
						} else {
							found = true
							matched[l]++
						}
					} else if rp.RevertTransaction.ID.Cmp(p.Reverted.ID) == 0 && rp.RevertedTransactionID.Cmp(p.Revert.ID) == 0 {
						why = fmt.Sprintf("the event says transaction %s was reverted by %s, the log says %s was reverted by %s (roles swapped)", p.Reverted.ID, p.Revert.ID, rp.RevertedTransactionID, rp.RevertTransaction.ID)
					}
				}
			}
		case events.EventTypeSavedMetadata:
			var p struct {
				TargetType string            `json:"targetType"`
				TargetID   string            `json:"targetId"`
				Metadata   map[string]string `json:"metadata"`
			}
			_ = json.Unmarshal(env.Payload, &p)
			for _, l := range visible {
				if sp, ok := l.Data.(ledger.SetMetadataLogPayload); ok && strings.EqualFold(sp.TargetType, p.TargetType) && fmt.Sprint(sp.TargetID) == p.TargetID && sp.Metadata["tag"] == p.Metadata["tag"] {
					if fmt.Sprint(map[string]string(sp.Metadata)) != fmt.Sprint(p.Metadata) {
						why = fmt.Sprintf("metadata %v differs from the persisted entry's %v", p.Metadata, sp.Metadata)
						continue
					}
					found = true
					matched[l]++
				}
			}
		case events.EventTypeDeletedMetadata:
			var p struct {
				TargetType string      `json:"targetType"`
				TargetID   interface{} `json:"targetId"`
				Key        string      `json:"key"`
			}
			_ = json.Unmarshal(env.Payload, &p)
			for _, l := range visible {
				if dp, ok := l.Data.(ledger.DeleteMetadataLogPayload); ok && strings.EqualFold(dp.TargetType, p.TargetType) && fmt.Sprint(dp.TargetID) == fmt.Sprint(p.TargetID) && dp.Key == p.Key {
					found = true
					matched[l]++
				}
			}
		default:
			return "unknown event type " + env.Type, "event-type"
		}
		if !found {
			if why == "" {
				why = "no entry persisted at publish time matches it"
			}
			return fmt.Sprintf("event %s published with %d entries persisted: %s (payload %s) [%s]", env.Type, m.Persisted, why, string(env.Payload), w.digest()), "event-unfaithful:" + env.Type
		}
	}
	if !w.Crashed && !w.Spec.GracefulClose {
		// every persisted change is published at least once (whatever its request was told) - as long as the process lives:
		// a crash, or a shutdown (Commander.Close) with writes in flight, ends it between persistence and publication, and
		// nothing in this architecture (no outbox) republishes afterwards; the "faithful" half above is still judged there
		for _, res := range w.Results {
			if res.Spec.DryRun {
				continue
			}
			for _, l := range rowFor(res.Spec, logs, w.SeedLen) {
				if matched[l] == 0 {
					return fmt.Sprintf("the change made by %s (answer: %s) is persisted but no event was published for it", res.Spec.Name, res.Class), "event-missing:" + res.Spec.Kind
				}
			}
		}
	}
	return "", ""
}

var _ = big.NewInt

// txDiff: what distinguishes the transaction an event carries from the persisted one ("" = nothing)
func txDiff(want, got *ledger.Transaction) string {
	switch {
	case want.ID.Cmp(got.ID) != 0:
		return fmt.Sprintf("id %s vs %s", got.ID, want.ID)
	case fmt.Sprint(want.Postings) != fmt.Sprint(got.Postings):
		return fmt.Sprintf("postings %v vs %v", got.Postings, want.Postings)
	case fmt.Sprint(map[string]string(want.Metadata)) != fmt.Sprint(map[string]string(got.Metadata)) && !(len(want.Metadata) == 0 && len(got.Metadata) == 0):
		return fmt.Sprintf("metadata %v vs %v", got.Metadata, want.Metadata)
	case want.Reference != got.Reference:
		return fmt.Sprintf("reference %q vs %q", got.Reference, want.Reference)
	case !want.Timestamp.Time.Equal(got.Timestamp.Time):
		return fmt.Sprintf("timestamp %s vs %s", got.Timestamp.Time, want.Timestamp.Time)
	}
	return ""
}

func accMetaEqual(a map[string]metadata.Metadata, b map[string]metadata.Metadata) bool {
	norm := func(m map[string]metadata.Metadata) string {
		out := map[string]map[string]string{}
		for k, v := range m {
			if len(v) > 0 {
				out[k] = v
			}
		}
		return fmt.Sprint(out)
	}
	return norm(a) == norm(b)
}

func originalOf(logs []*ledger.ChainedLog, id *big.Int) *ledger.Transaction {
	for _, l := range logs {
		if tx := txOfRow(l); tx != nil && tx.ID.Cmp(id) == 0 {
			return tx
		}
	}
	return nil
}
