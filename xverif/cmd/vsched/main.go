// vsched: checks that run the repository's concurrent core under the controlled scheduler (instrumented build).
package main

import (
	"fmt"
	"os"
	"runtime"
	"sort"
	"strings"
	"time"

	"github.com/formancehq/ledger/xverif/lib/evid"
	"github.com/formancehq/ledger/xverif/lib/explore"
)

// registry of scenarios (shared by coordinator and workers)
var scenarios = map[string]*explore.Scenario{}

func register(sc *explore.Scenario) *explore.Scenario {
	scenarios[sc.Name] = sc
	return sc
}

// plan of one property check: scenarios with their bound per tier
type planItem struct {
	Sc              *explore.Scenario
	Quick, Thorough int // deviation bounds (-1 = skip in that tier)
}

var plans = map[string]func() []planItem{}

func main() {
	if len(os.Args) < 2 {
		fmt.Println("usage: vsched <Cxx> | worker | replay <scenario> <choices>")
		os.Exit(3)
	}
	for _, f := range plans {
		f() // registers scenarios
	}
	switch os.Args[1] {
	case "worker":
		explore.WorkerMain(scenarios)
		return
	case "replay":
		os.Exit(replayMain(os.Args[2:]))
	}
	prop := os.Args[1]
	mk, ok := plans[prop]
	if !ok {
		fmt.Println("no such check:", prop)
		os.Exit(3)
	}
	os.Exit(runPlan(prop, mk()))
}

func runPlan(prop string, plan []planItem) int {
	rep := evid.NewReporter(prop, "model_checking")
	pool, err := explore.NewPool(runtime.NumCPU())
	if err != nil {
		fmt.Println("cannot start workers:", err)
		return 3
	}
	defer pool.Close()
	budget := 100 * time.Second
	if rep.Thorough() {
		budget = 11 * time.Minute
	}
	// statement-granularity pass (thorough, second run on the -stmt build): every statement of the instrumented files is a
	// scheduling point, so unsynchronised accesses to shared state become visible; smaller deviation bound
	stmtPass := os.Getenv("VERIF_STMT") != ""
	if stmtPass {
		budget = 10 * time.Minute
	}
	deadline := time.Now().Add(budget)
	var states, transitions, traces int64
	var samples []interface{}
	perScenario := map[string]interface{}{}
	complete := true
	minBound := -1
	for _, pi := range plan {
		bound := pi.Quick
		if rep.Thorough() {
			bound = pi.Thorough
		}
		if bound < 0 {
			continue
		}
		if stmtPass && strings.Contains(pi.Sc.Name, "/real-store-") {
			// (the store's files at statement granularity cost ~600-900 points per execution; these scenarios are about the
			// store's synchronisation operations and run in the first pass only)
			continue
		}
		if stmtPass && prop != "C08" {
			if bound > 2 {
				bound = 2
			}
			if strings.Contains(pi.Sc.Name, "3") || strings.Contains(pi.Sc.Name, "lock4") {
				bound = 1 // three or more request threads: ~400 points per execution
			}
		}
		// iterate the bound 0,1,..,bound so the first counterexample has the fewest deviations
		var last explore.Result
		completed := -1
		for b := 0; b <= bound; b++ {
			if b < bound && b > 0 && bound-b >= 2 {
				continue // 0, then bound-1, then bound
			}
			r := pool.Explore(pi.Sc, b, deadline)
			if r.Internal != "" {
				fmt.Println("INTERNAL ERROR:", r.Internal)
				return 3
			}
			last = r
			for _, v := range r.Violations {
				rep.Violation(v.Scenario+"/"+v.Key, fmt.Sprintf("[%s, %d deviations allowed] %s", v.Scenario, b, v.Why),
					map[string]interface{}{"engine": "gosched", "scenario": v.Scenario, "choices": v.Choices, "trace": v.Trace})
			}
			if !r.Complete {
				complete = false
				break
			}
			completed = b
			if len(r.Violations) > 0 {
				break
			}
		}
		states += int64(last.States)
		transitions += last.Points
		traces += last.Execs
		labels := []string{}
		for k, v := range last.Labels {
			labels = append(labels, fmt.Sprintf("%s=%d", k, v))
			if strings.HasPrefix(k, "undecided:") {
				rep.Undecide(pi.Sc.Name + ": " + strings.TrimPrefix(k, "undecided:"))
			}
		}
		sort.Strings(labels)
		scName := pi.Sc.Name
		if stmtPass {
			scName += " [stmt granularity]"
		}
		perScenario[scName] = map[string]interface{}{"bound_completed": completed, "executions": last.Execs, "scheduling_points": last.Points, "max_depth": last.MaxDepth, "distinct_end_states": last.States, "outcomes": labels, "wall_s": last.Wall, "hb_pruned_subtrees": last.Pruned}
		fmt.Printf("  %-28s bound=%d execs=%d pruned=%d points=%d states=%d depth=%d wall=%.1fs outcomes: %s\n", pi.Sc.Name, completed, last.Execs, last.Pruned, last.Points, last.States, last.MaxDepth, last.Wall, strings.Join(labels, " "))
		if len(last.Labels) < 2 {
			fmt.Printf("  note: scenario %s shows a single outcome (does not count as non-trivial)\n", pi.Sc.Name)
		}
		if minBound < 0 || completed < minBound {
			minBound = completed
		}
		for _, s := range last.Samples {
			if len(samples) < 5 {
				samples = append(samples, s)
			}
		}
	}
	if len(samples) == 0 {
		samples = append(samples, "no schedule with a non-empty prefix was needed")
	}
	if states == 0 {
		states = 1
	}
	cov := evid.Coverage{
		"states":                        int(states),
		"transitions":                   int(transitions),
		"traces_validated_against_impl": int(traces),
		"samples":                       samples,
		"exhaustive":                    complete,
		"bound_completed_min":           minBound,
		"scenarios":                     perScenario,
		"rule":                          "stateless DFS by prefix replay over the instrumented implementation under a controlled scheduler; a deviation is any departure from the default schedule (default = keep running the current thread, else the lowest-numbered enabled thread, first ready select case, no fault, no crash): a preemption, another thread at a blocking point, a non-first select case, an injected store fault or a crash each cost one; states = distinct canonical end states, transitions = scheduling points executed, traces = complete executions (every one runs the repository's code)",
	}
	if !complete {
		rep.Undecide("wall-clock cap reached before the scenario list was finished at the planned bound; see bound_completed per scenario")
	}
	rep.Assume = []string{"instrumented packages communicate only through shim objects and harness points", "<=3-4 request threads, the stated deviation bound and the scenario list", "memstore.InsertLogs is atomic (the real one is one SQL transaction)"}
	return rep.Finish(cov)
}

func replayMain(args []string) int {
	if len(args) < 2 {
		fmt.Println("usage: vsched replay <scenario> <comma-separated choices>")
		return 3
	}
	sc := scenarios[args[0]]
	if sc == nil {
		fmt.Println("unknown scenario")
		return 3
	}
	var choices []int
	for _, f := range strings.Split(strings.Trim(args[1], "[]"), ",") {
		f = strings.TrimSpace(f)
		if f == "" {
			continue
		}
		var n int
		fmt.Sscan(f, &n)
		choices = append(choices, n)
	}
	r := &explore.Replayer{Prefix: choices, KeepDescs: true}
	out := sc.Exec(r)
	for i, d := range r.Descs {
		fmt.Printf("%3d  %s\n", i, d)
	}
	fmt.Printf("label=%s\nstate=%s\nviolation=%s\n", out.Label, out.State, out.Violation)
	return 0
}
