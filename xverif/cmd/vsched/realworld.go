package main

import (
	"context"
	"fmt"
	"math/big"
	"os"
	"strings"
	"sync"

	ledger "github.com/formancehq/ledger/internal"
	"github.com/formancehq/ledger/internal/bus"
	"github.com/formancehq/ledger/internal/engine/command"
	"github.com/formancehq/ledger/internal/storage/ledgerstore"
	"github.com/formancehq/ledger/xverif/lib/engineh"
	"github.com/formancehq/ledger/xverif/lib/explore"
	"github.com/formancehq/ledger/xverif/lib/pgmini"
	"github.com/formancehq/stack/libs/go-libs/metadata"
	verifrt "github.com/formancehq/stack/libs/go-libs/verifrt"
	"github.com/uptrace/bun"
	"github.com/uptrace/bun/dialect/pgdialect"
)

// realStoreScenario: the engine on the REAL ledgerstore.Store (instrumented like the engine: its synchronisation operations,
// if it has any, are scheduling points) over the interpreted schema, under the controlled scheduler. The unchanged store keeps no
// state between calls, so its calls are atomic steps; a store that memoises, pools or batches is explored like the engine.
//
//	phase 1 (concurrent): the given requests; phase 2 (after all of them returned): a spend of everything account a must hold.
//
// Oracle: the spend succeeds, and the store's balance of a is 0 afterwards.
const rwSchemaFile = "/repo/internal/storage/ledgerstore/migrations/0-init-schema.sql"

var (
	rwTemplateOnce sync.Once
	rwTemplate     *pgmini.DB
	rwTemplateErr  error
)

// rwPrewarmOnce: once per scenario name
type onceByName struct {
	mu   sync.Mutex
	done map[string]bool
}

func (o *onceByName) Do(f func(), name string) {
	o.mu.Lock()
	defer o.mu.Unlock()
	if o.done == nil {
		o.done = map[string]bool{}
	}
	if !o.done[name] {
		o.done[name] = true
		f()
	}
}

var rwPrewarmOnce onceByName

func rwSpendAll(amount int64) string {
	return fmt.Sprintf("send [X %d] (\n  source = @a\n  destination = @sink\n)\n", amount)
}

type rwReq struct {
	Name    string
	Script  string
	DryRun  bool
	Deposit int64 // what the request adds to account a when it succeeds for real
}

func rwStore(db *pgmini.DB) *ledgerstore.Store {
	bdb := bun.NewDB(pgmini.OpenSQL(db, "b1"), pgdialect.New(), bun.WithDiscardUnknownColumns())
	return ledgerstore.VerifNewStore(bdb, "b1", "l1")
}

func realStoreScenario(name string, reqs []rwReq) *explore.Scenario {
	return &explore.Scenario{Name: name, Exec: func(r *explore.Replayer) explore.Outcome {
		rwTemplateOnce.Do(func() {
			ddl, err := os.ReadFile(rwSchemaFile)
			if err != nil {
				rwTemplateErr = err
				return
			}
			db := pgmini.New()
			if err := db.LoadSchema("b1", string(ddl)); err != nil {
				rwTemplateErr = err
				return
			}
			// a holds 100 X
			st := rwStore(db)
			tx := ledger.NewTransaction().WithID(big.NewInt(0)).WithPostings(ledger.NewPosting("world", "a", "X", big.NewInt(100)))
			l := ledger.NewTransactionLog(tx, map[string]metadata.Metadata{}).ChainLog(nil)
			if err := st.InsertLogs(context.Background(), l); err != nil {
				rwTemplateErr = err
				return
			}
			_ = st.GetDB().Close()
			rwTemplate = db
		})
		if rwTemplateErr != nil {
			msg := "undecided: the interpreter cannot load the schema / build the fixture: " + rwTemplateErr.Error()
			return explore.Outcome{State: msg, Label: msg}
		}
		// every script the execution can meet is compiled beforehand: a cache miss takes another path through the (instrumented)
		// compiler than a hit, and which of the two an execution sees must not depend on what ran before it in the process
		rwPrewarmOnce.Do(func() {
			sums := map[int64]bool{100: true}
			for _, rq := range reqs {
				_, _ = sharedCompiler.Compile(rq.Script)
				for v := range sums {
					sums[v+rq.Deposit] = true
				}
			}
			for v := range sums {
				_, _ = sharedCompiler.Compile(rwSpendAll(v))
			}
		}, name)
		s := verifrt.New(r)
		store := rwStore(rwTemplate.Clone())
		defer func() { _ = store.GetDB().Close() }()
		ctx := quietCtx()
		cmd := command.New(store, command.NewDefaultLocker(), sharedCompiler, command.NewReferencer(), bus.NewLedgerMonitor(&engineh.Publisher{}, "l1"))
		if err := cmd.Init(ctx); err != nil {
			return explore.Outcome{State: "init", Label: "init", Violation: "the engine cannot be initialised from the store: " + err.Error(), VKey: "real-init"}
		}
		s.Spawn("runner", true, func() { cmd.Run(ctx) })
		answers := make([]string, len(reqs))
		done := verifrt.MakeChan[int](len(reqs))
		expect := int64(100)
		for i := range reqs {
			i, rq := i, reqs[i]
			s.Spawn(rq.Name, false, func() {
				defer done.Send(i)
				defer func() {
					if p := recover(); p != nil {
						answers[i] = fmt.Sprint("panic: ", p)
					}
				}()
				_, err := cmd.CreateTransaction(ctx, command.Parameters{DryRun: rq.DryRun}, ledger.RunScript{Script: ledger.Script{Plain: rq.Script, Vars: map[string]string{}}})
				if err != nil {
					answers[i] = "error: " + err.Error()
				} else {
					answers[i] = "ok"
				}
			})
		}
		final := ""
		s.Spawn("then-spend-all", false, func() {
			for range reqs {
				done.Recv()
			}
			for i, rq := range reqs {
				if answers[i] == "ok" && !rq.DryRun {
					expect += rq.Deposit
				}
			}
			script := rwSpendAll(expect)
			_, err := cmd.CreateTransaction(ctx, command.Parameters{}, ledger.RunScript{Script: ledger.Script{Plain: script, Vars: map[string]string{}}})
			if err != nil {
				final = "error: " + err.Error()
			} else {
				final = "ok"
			}
		})
		reason := s.Run()
		viol, vkey := "", ""
		label := strings.Join(answers, " ") + " | then " + final
		switch {
		case reason == verifrt.Deadlock:
			viol, vkey = "the requests do not finish: "+strings.Join(s.PendingDescs(), " | "), "real-deadlock"
		case strings.HasPrefix(final, "error"):
			viol, vkey = fmt.Sprintf("after %s account a holds %d X (what the store wrote), but spending them is refused: %s", strings.Join(answers, ", "), expect, final), "real-stale-balance"
		default:
			if bal, err := store.GetBalance(context.Background(), "a", "X"); err == nil && final == "ok" && bal.Sign() != 0 {
				viol, vkey = fmt.Sprintf("after everything of a was spent the store reports a balance of %s", bal), "real-balance"
			}
		}
		for _, t := range s.Threads() {
			if t.Panic != nil && viol == "" {
				viol, vkey = fmt.Sprintf("panic in %s: %v", t.Name, t.Panic), "panic"
			}
		}
		s.KillAll()
		return explore.Outcome{State: label, Label: label, Violation: viol, VKey: vkey}
	}}
}

func init() {
	// (a is only READ by the preview - a balance() argument, not a source - so a deposit on a may overlap with it)
	previewBalance := "vars {\n  monetary $b = balance(@a, X)\n}\nsend $b (\n  source = @world\n  destination = @c\n)\n"
	deposit := "send [X 50] (\n  source = @world\n  destination = @a\n)\n"
	readAll := "send [X *] (\n  source = @a\n  destination = @c\n)\n"
	mk := func(prop string) []planItem {
		return []planItem{
			{register(realStoreScenario(prop+"/real-store-preview-vs-deposit", []rwReq{{Name: "p", Script: previewBalance, DryRun: true}, {Name: "d", Script: deposit, Deposit: 50}})), 2, 3},
			{register(realStoreScenario(prop+"/real-store-preview-deposit-spend", []rwReq{{Name: "p", Script: previewBalance, DryRun: true}, {Name: "d", Script: deposit, Deposit: 50},
				{Name: "s", Script: "send [X 120] (\n  source = @a\n  destination = @b\n)\n", Deposit: -120}})), 1, 2},
			{register(realStoreScenario(prop+"/real-store-previews-vs-deposits", []rwReq{{Name: "p1", Script: previewBalance, DryRun: true}, {Name: "p2", Script: readAll, DryRun: true}, {Name: "d", Script: deposit, Deposit: 50}})), 1, 2},
		}
	}
	b14, b02 := plans["C14"], plans["C02"]
	plans["C14"] = func() []planItem { return append(b14(), mk("C14")...) }
	plans["C02"] = func() []planItem { return append(b02(), mk("C02")...) }
}
