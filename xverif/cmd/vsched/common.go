package main

import (
	"context"
	"io"

	"github.com/formancehq/stack/libs/go-libs/logging"
	"github.com/sirupsen/logrus"
)

var quietLogger = func() logging.Logger {
	l := logrus.New()
	l.SetOutput(io.Discard)
	l.SetLevel(logrus.PanicLevel)
	return logging.NewLogrus(l)
}()

func quietCtx() context.Context {
	return logging.ContextWithLogger(context.Background(), quietLogger)
}
