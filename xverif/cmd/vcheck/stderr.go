package main

import (
	"os"
	"syscall"
)

// silenceStderr: third-party loggers (bun's internal warnings) write to fd 2 directly; checks report on stdout only.
func silenceStderr() {
	if f, err := os.OpenFile("/verif/.work/vcheck.stderr", os.O_CREATE|os.O_WRONLY|os.O_TRUNC, 0o644); err == nil {
		_ = syscall.Dup2(int(f.Fd()), 2)
	}
}
