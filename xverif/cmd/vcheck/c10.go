package main

import (
	"encoding/json"
	"fmt"
	"github.com/formancehq/ledger/xverif/lib/recbackend"
	"math/big"
	"net/http/httptest"
	"strings"
	"sync/atomic"

	ledger "github.com/formancehq/ledger/internal"
	"github.com/formancehq/ledger/internal/engine/command"
	"github.com/formancehq/ledger/xverif/lib/engineh"
	"github.com/formancehq/ledger/xverif/lib/evid"
	"github.com/formancehq/ledger/xverif/lib/memstore"
)

func init() { checks["C10"] = c10 }

// sequential part of C10: every committed transaction shape x later history x forced / unforced, then a second revert.
func c10() int {
	rep := evid.NewReporter("C10", "model_checking")
	accounts := []string{"a", "b", "world"}
	amounts := []*big.Int{big.NewInt(0), big.NewInt(1), big.NewInt(5)}
	if rep.Thorough() {
		amounts = append(amounts, new(big.Int).Lsh(big.NewInt(1), 70))
	}
	var single []ledger.Posting
	for _, s := range accounts {
		for _, d := range accounts {
			for _, am := range amounts {
				single = append(single, ledger.NewPosting(s, d, "X", am))
			}
		}
	}
	var lists []ledger.Postings
	for _, p1 := range single {
		lists = append(lists, ledger.Postings{p1})
		for _, p2 := range single {
			lists = append(lists, ledger.Postings{p1, p2})
			if rep.Thorough() {
				for _, p3 := range single[:9] {
					lists = append(lists, ledger.Postings{p1, p2, p3})
				}
			}
		}
	}
	// longer lists (3..6 postings): a chain in which every posting spends what the previous one brought, and a fan of
	// pairwise distinct postings - the reverse of either is only right if every position is mirrored
	names := []string{"world", "a", "b", "c", "d", "e", "f"}
	for n := 3; n <= 6; n++ {
		var chain, fan ledger.Postings
		for i := 0; i < n; i++ {
			chain = append(chain, ledger.NewPosting(names[i], names[i+1], "X", big.NewInt(5)))
			fan = append(fan, ledger.NewPosting("world", names[1+i%3], "X", big.NewInt(int64(i+1))))
		}
		lists = append(lists, chain, fan)
	}
	// what happens between the original and its revert
	laters := []struct {
		name string
		ps   ledger.Postings
	}{
		{"nothing", nil},
		{"unrelated traffic", ledger.Postings{ledger.NewPosting("world", "z", "X", big.NewInt(3))}},
		{"funds moved on (all of b)", ledger.Postings{ledger.NewPosting("b", "z", "X", big.NewInt(5))}},
		{"funds partly moved on", ledger.Postings{ledger.NewPosting("b", "z", "X", big.NewInt(1))}},
		{"funds moved on from a", ledger.Postings{ledger.NewPosting("a", "z", "X", big.NewInt(5))}},
	}
	bals := []*big.Int{big.NewInt(0), big.NewInt(5)}
	var states, transitions, reverted, refused int64
	var samples evid.Samples
	samples.N = 4
	evid.ParallelFor(len(lists), workers(), func(w, li int) {
		orig := lists[li]
		for _, ba := range bals {
			for _, bb := range bals {
				for _, later := range laters {
					for _, fe := range []struct {
						force bool
						entry string
					}{{false, "commander"}, {true, "commander"}, {false, "v2"}, {true, "v2"}, {false, "v1"}, {true, "v1"}, {false, "v2-force-false"}, {false, "v2-force-garbage"}, {false, "bulk-after-forced"}} {
						force, entry := fe.force, fe.entry
						if entry != "commander" && (li%4 != 0 && len(orig) < 3) {
							continue // the HTTP entries are exercised on every fourth short list and on all long ones
						}
						st := seedBalances(ba, bb)
						eng := engineh.Start(st, nil)
						tx, err := eng.Cmd.CreateTransaction(eng.Ctx(), command.Parameters{}, ledger.TxToScriptData(ledger.TransactionData{Postings: orig}, false))
						atomic.AddInt64(&transitions, 1)
						if err != nil {
							eng.Stop()
							continue // the original is not a committed transaction
						}
						before := memstore.Fold(st.Snapshot()[:st.Len()-1]).Balances()
						if later.ps != nil {
							if _, err := eng.Cmd.CreateTransaction(eng.Ctx(), command.Parameters{}, ledger.TxToScriptData(ledger.TransactionData{Postings: later.ps}, false)); err != nil {
								eng.Stop()
								continue // this later history is not possible from here
							}
							atomic.AddInt64(&transitions, 1)
						}
						atomic.AddInt64(&states, 1)
						logsBefore := st.Len()
						replay := map[string]interface{}{"engine": "revertseq", "original": fmt.Sprint(orig), "balance_a": ba.String(), "balance_b": bb.String(), "later": later.name, "force": force, "entry": entry}
						viol := func(kind, why string) {
							rep.Violation(kind+":"+c09Shape(orig)+"/"+later.name, fmt.Sprintf("%s [original %v, a=%s b=%s, then %s, force=%v, via %s]", why, orig, ba, bb, later.name, force, entry), replay)
						}
						extra := 0
						rtx, rerr := c10Revert(eng, entry, tx.ID, force, st, &extra)
						atomic.AddInt64(&transitions, 1)
						// would the exact inverse overdraw somebody? (log-order replay of the inverse on the current balances)
						cur := memstore.Fold(st.Snapshot()[:logsBefore])
						sim := map[string]*big.Int{}
						get := func(acc string) *big.Int {
							if sim[acc] == nil {
								sim[acc] = cur.Balance(acc, "X")
							}
							return sim[acc]
						}
						inv := inversePostings(orig) // written out here: the oracle must not share code with the revert path
						overdraws := false
						for _, p := range inv {
							if p.Source != "world" {
								b := get(p.Source)
								b.Sub(b, p.Amount)
								if b.Sign() < 0 {
									overdraws = true
								}
							}
							if p.Destination != "world" {
								get(p.Destination).Add(get(p.Destination), p.Amount)
							}
						}
						if rerr != nil {
							atomic.AddInt64(&refused, 1)
							if st.Len() != logsBefore+extra {
								viol("refused-with-entry", "a refused revert left a log entry")
							}
							if force || !overdraws {
								viol("refused", "a revert that overdraws nobody (or is forced) was refused: "+rerr.Error())
							}
						} else {
							atomic.AddInt64(&reverted, 1)
							if !force && overdraws {
								viol("overdraw", "an unforced revert was accepted although it overdraws an account")
							}
							if st.Len() != logsBefore+1+extra {
								viol("entries", fmt.Sprintf("%d entries appended by one revert", st.Len()-logsBefore-extra))
							}
							if fmt.Sprint(rtx.Postings) != fmt.Sprint(inv) {
								viol("not-inverse", fmt.Sprintf("revert has postings %v, the exact inverse is %v", rtx.Postings, inv))
							}
							got, gerr := st.GetTransaction(eng.Ctx(), tx.ID)
							if gerr != nil || !got.Reverted {
								viol("not-flagged", "the original is not marked as reverted")
							}
							if later.ps == nil {
								after := memstore.Fold(st.Snapshot()).Balances()
								for k, v := range after {
									b := before[k]
									if b == nil {
										b = new(big.Int)
									}
									if !strings.HasPrefix(k, "world|") && v.Cmp(b) != 0 {
										viol("not-restored", fmt.Sprintf("%s stands at %s after the revert, it stood at %s before the original", k, v, b))
									}
								}
							}
							// once only
							keys := []string{""}
							if entry == "commander" {
								keys = []string{"", "fresh-key-1", "fresh-key-2"}
							}
							for _, key := range keys {
								_, err2 := eng.Cmd.RevertTransaction(eng.Ctx(), command.Parameters{IdempotencyKey: key}, tx.ID, true)
								atomic.AddInt64(&transitions, 1)
								if err2 == nil {
									viol("twice", fmt.Sprintf("the same transaction was reverted a second time (second request with idempotency key %q)", key))
									break
								}
							}
						}
						eng.Stop()
						samples.Offer(func() interface{} { return replay })
					}
				}
			}
		}
	})
	cov := evid.Coverage{
		"states":                        int(states),
		"transitions":                   int(transitions),
		"traces_validated_against_impl": int(states),
		"samples":                       samples.Got,
		"exhaustive":                    true,
		"rule":                          fmt.Sprintf("sequential part: every committed transaction shape (posting lists of length 1..2 [3 in thorough] over {a,b,world} x amounts, plus chains and fans of 3..6 postings) x starting balances x 5 later histories x forced/unforced, reverted on the real Commander over memstore, then reverted again; states = (original, history) pairs reached, transitions = engine operations; %d reverts accepted, %d refused", reverted, refused),
		"reverted":                      int(reverted),
		"refused":                       int(refused),
	}
	// the engine on the real store, against the stand-in the enumeration above ran on (realstore.go)
	rsH, rsS := realStoreConformance(rep, "")
	cov["realstore_histories"], cov["realstore_steps"] = rsH, rsS
	return rep.Finish(cov)
}

// inversePostings: the postings in reverse order, each with source and destination exchanged.
func inversePostings(ps ledger.Postings) ledger.Postings {
	out := make(ledger.Postings, 0, len(ps))
	for i := len(ps) - 1; i >= 0; i-- {
		out = append(out, ledger.Posting{Source: ps[i].Destination, Destination: ps[i].Source, Asset: ps[i].Asset, Amount: ps[i].Amount})
	}
	return out
}

// c10Revert reverts through the engine API or through the HTTP endpoint that a client uses (v1: disableChecks, v2: force)
func c10Revert(eng *engineh.Engine, entry string, id *big.Int, force bool, st *memstore.Store, extra *int) (*ledger.Transaction, error) {
	if entry == "commander" {
		return eng.Cmd.RevertTransaction(eng.Ctx(), command.Parameters{}, id, force)
	}
	b := recbackend.New("l1")
	b.Ledgers["l1"].W = eng.Cmd
	if entry == "bulk-after-forced" {
		// an unrelated transaction, reverted with force in the element before: the flag belongs to that element only
		other, err := eng.Cmd.CreateTransaction(eng.Ctx(), command.Parameters{}, ledger.TxToScriptData(ledger.TransactionData{Postings: ledger.Postings{ledger.NewPosting("world", "unrelated", "X", big.NewInt(1))}}, false))
		if err != nil {
			return nil, fmt.Errorf("harness: %w", err)
		}
		*extra = 2 // the unrelated transaction and its forced revert are the harness's, not part of the judged history
		before := st.Len()
		body := fmt.Sprintf(`[{"action":"REVERT_TRANSACTION","data":{"id":%s,"force":true}},{"action":"REVERT_TRANSACTION","data":{"id":%s}}]`, other.ID, id)
		req := httptest.NewRequest("POST", "/api/ledger/v2/l1/_bulk?continueOnFailure=true", strings.NewReader(body)).WithContext(eng.Ctx())
		w := httptest.NewRecorder()
		newRouter(b, false).ServeHTTP(w, req)
		var resp struct {
			Data []struct {
				ErrorCode        string `json:"errorCode"`
				ErrorDescription string `json:"errorDescription"`
			} `json:"data"`
		}
		_ = json.Unmarshal(w.Body.Bytes(), &resp)
		if len(resp.Data) != 2 {
			return nil, fmt.Errorf("bulk answered %d results (http %d)", len(resp.Data), w.Code)
		}
		logs := st.Snapshot()
		// the harness's own forced revert is not part of the judged history: drop its entry from the store view
		if resp.Data[0].ErrorCode != "" || len(logs) < before+1 {
			return nil, fmt.Errorf("harness: the forced revert of the unrelated transaction failed: %s", resp.Data[0].ErrorCode)
		}
		_ = before
		if resp.Data[1].ErrorCode != "" {
			return nil, fmt.Errorf("bulk element refused: %s %s", resp.Data[1].ErrorCode, resp.Data[1].ErrorDescription)
		}
		logs = st.Snapshot()
		if p, ok := logs[len(logs)-1].Data.(ledger.RevertedTransactionLogPayload); ok {
			return p.RevertTransaction, nil
		}
		return nil, fmt.Errorf("bulk element accepted but the appended entry is not a revert")
	}
	target := "/api/ledger/v2/l1/transactions/" + id.String() + "/revert"
	switch entry {
	case "v1":
		target = "/api/ledger/l1/transactions/" + id.String() + "/revert"
		if force {
			target += "?disableChecks=true"
		}
	case "v2":
		if force {
			target += "?force=true"
		}
	case "v2-force-false":
		target += "?force=false"
	case "v2-force-garbage":
		target += "?force=no&forced=true&disableChecks=true"
	}
	before := st.Len()
	req := httptest.NewRequest("POST", target, nil).WithContext(eng.Ctx())
	w := httptest.NewRecorder()
	newRouter(b, false).ServeHTTP(w, req)
	if w.Code >= 300 {
		return nil, fmt.Errorf("http %d: %s", w.Code, strings.TrimSpace(w.Body.String()))
	}
	logs := st.Snapshot()
	if len(logs) == before {
		return nil, fmt.Errorf("http %d but nothing was appended", w.Code)
	}
	if p, ok := logs[len(logs)-1].Data.(ledger.RevertedTransactionLogPayload); ok {
		// what the client is told must be the reverting transaction that was persisted
		var body struct {
			Data struct {
				ID   *big.Int `json:"id"`
				TxID *big.Int `json:"txid"`
			} `json:"data"`
		}
		_ = json.Unmarshal(w.Body.Bytes(), &body)
		got := body.Data.ID
		if got == nil {
			got = body.Data.TxID
		}
		if got == nil || got.Cmp(p.RevertTransaction.ID) != 0 {
			return nil, fmt.Errorf("the response names transaction %v, the persisted reverting transaction is %s", got, p.RevertTransaction.ID)
		}
		return p.RevertTransaction, nil
	}
	return nil, fmt.Errorf("http %d but the appended entry is not a revert", w.Code)
}
