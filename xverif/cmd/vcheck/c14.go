package main

import (
	"bytes"
	"encoding/json"
	"fmt"
	"math/big"
	"strings"
	"sync/atomic"

	ledger "github.com/formancehq/ledger/internal"
	"github.com/formancehq/ledger/internal/engine/command"
	"github.com/formancehq/ledger/xverif/lib/engineh"
	"github.com/formancehq/ledger/xverif/lib/evid"
	"github.com/formancehq/ledger/xverif/lib/memstore"
	"github.com/formancehq/stack/libs/go-libs/metadata"
)

func init() { checks["C14"] = c14 }

// an operation on the engine: returns a normalised response
type engOp struct {
	Name string
	Run  func(e *engineh.Engine, p command.Parameters) string
}

func txResp(tx *ledger.Transaction, err error) string {
	if err != nil {
		return "error:" + errClass(err)
	}
	return fmt.Sprintf("tx id=%s postings=%v meta=%v ref=%s reverted=%v", tx.ID, tx.Postings, sortedMeta(tx.Metadata), tx.Reference, tx.Reverted)
}

func sortedMeta(m metadata.Metadata) string {
	b, _ := json.Marshal(m) // encoding/json sorts map keys
	return string(b)
}

func errClass(err error) string {
	s := err.Error()
	// keep the class, drop volatile detail
	for _, k := range []string{"insufficient", "no more fund", "already reverted", "not found", "conflict", "compil", "already taken", "occurring", "no postings"} {
		if strings.Contains(strings.ToLower(s), k) {
			return k
		}
	}
	if len(s) > 60 {
		s = s[:60]
	}
	return s
}

func errResp(err error) string {
	if err != nil {
		return "error:" + errClass(err)
	}
	return "ok"
}

func engOps() []engOp {
	return []engOp{
		{"create-ok", func(e *engineh.Engine, p command.Parameters) string {
			return txResp(e.Cmd.CreateTransaction(e.Ctx(), p, postingsScript("world", "bank", 10)))
		}},
		{"create-spend", func(e *engineh.Engine, p command.Parameters) string {
			return txResp(e.Cmd.CreateTransaction(e.Ctx(), p, postingsScript("bank", "alice", 7)))
		}},
		{"create-script-meta", func(e *engineh.Engine, p command.Parameters) string {
			return txResp(e.Cmd.CreateTransaction(e.Ctx(), p, ledger.RunScript{Script: ledger.Script{Plain: "send [USD 1] (\n source = @world\n destination = @carol\n)\nset_account_meta(@carol, \"vip\", \"yes\")\nset_tx_meta(\"t\", 3)\n", Vars: map[string]string{}}, Reference: "r1"}))
		}},
		{"revert-0", func(e *engineh.Engine, p command.Parameters) string {
			return txResp(e.Cmd.RevertTransaction(e.Ctx(), p, big.NewInt(0), false))
		}},
		{"revert-1-force", func(e *engineh.Engine, p command.Parameters) string {
			return txResp(e.Cmd.RevertTransaction(e.Ctx(), p, big.NewInt(1), true))
		}},
		{"meta-account", func(e *engineh.Engine, p command.Parameters) string {
			return errResp(e.Cmd.SaveMeta(e.Ctx(), p, ledger.MetaTargetTypeAccount, "bank", metadata.Metadata{"k": "v"}))
		}},
		{"meta-tx-0", func(e *engineh.Engine, p command.Parameters) string {
			return errResp(e.Cmd.SaveMeta(e.Ctx(), p, ledger.MetaTargetTypeTransaction, big.NewInt(0), metadata.Metadata{"k": "v"}))
		}},
		{"delete-meta-account", func(e *engineh.Engine, p command.Parameters) string {
			return errResp(e.Cmd.DeleteMetadata(e.Ctx(), p, ledger.MetaTargetTypeAccount, "bank", "k"))
		}},
		{"delete-meta-tx-0", func(e *engineh.Engine, p command.Parameters) string {
			return errResp(e.Cmd.DeleteMetadata(e.Ctx(), p, ledger.MetaTargetTypeTransaction, big.NewInt(0), "k"))
		}},
	}
}

func stripDates(v interface{}) interface{} {
	switch x := v.(type) {
	case map[string]interface{}:
		out := map[string]interface{}{}
		for k, e := range x {
			if k == "timestamp" || k == "date" {
				continue
			}
			out[k] = stripDates(e)
		}
		return out
	case []interface{}:
		for i := range x {
			x[i] = stripDates(x[i])
		}
	}
	return v
}

func normJSON(raw []byte) string {
	var v interface{}
	dec := json.NewDecoder(bytes.NewReader(raw))
	dec.UseNumber()
	if err := dec.Decode(&v); err != nil {
		return string(raw)
	}
	b, _ := json.Marshal(stripDates(v))
	return string(b)
}

// storeDigest: log types, ids, payloads (dates erased); the chain is re-verified.
func storeDigest(st *memstore.Store) (string, string) {
	var sb strings.Builder
	var prev *ledger.ChainedLog
	chainErr := ""
	for i, l := range st.Snapshot() {
		data, _ := json.Marshal(l.Data)
		fmt.Fprintf(&sb, "%d:id=%s type=%s ik=%s data=%s\n", i, l.ID, l.Type, l.IdempotencyKey, normJSON(data))
		re := l.Log.ChainLog(prev)
		if !bytes.Equal(re.Hash, l.Hash) || re.ID.Cmp(l.ID) != 0 {
			chainErr = fmt.Sprintf("entry %d does not chain to its predecessor", i)
		}
		prev = l
	}
	return sb.String(), chainErr
}

func eventsDigest(e *engineh.Engine) string {
	var sb strings.Builder
	for _, m := range e.Pub.Snapshot() {
		fmt.Fprintf(&sb, "%s persisted=%d %s\n", m.Topic, m.Persisted, normJSON(m.Payload))
	}
	return sb.String()
}

type c14Step struct {
	Op      int // index into ops, -1 = restart
	Preview bool
	IK      string
}

type c14Run struct {
	responses []string
	store     string
	events    string
	chainErr  string
	eventsN   []int // events count after each step
	logsN     []int
}

func c14Exec(ops []engOp, steps []c14Step) (r c14Run) {
	st := memstore.New()
	e := engineh.Start(st, nil)
	defer func() { e.Stop() }()
	for _, s := range steps {
		if s.Op < 0 {
			e = e.Restart()
			r.responses = append(r.responses, "restart")
		} else {
			resp := func() (out string) {
				defer func() {
					if p := recover(); p != nil {
						out = fmt.Sprint("panic:", p)
					}
				}()
				return ops[s.Op].Run(e, command.Parameters{DryRun: s.Preview, IdempotencyKey: s.IK})
			}()
			r.responses = append(r.responses, resp)
		}
		r.eventsN = append(r.eventsN, len(e.Pub.Snapshot()))
		r.logsN = append(r.logsN, st.Len())
	}
	r.store, r.chainErr = storeDigest(st)
	r.events = eventsDigest(e)
	return r
}

func c14() int {
	silenceStderr() // the router's recoverer prints the stack of handler panics (v1 delete transaction metadata)
	rep := evid.NewReporter("C14", "model_checking")
	ops := engOps()
	maxLen := 3
	if rep.Thorough() {
		maxLen = 4
	}
	// histories: sequences over ops + restart
	var hists [][]int
	var rec func(cur []int)
	rec = func(cur []int) {
		hists = append(hists, append([]int{}, cur...))
		if len(cur) == maxLen {
			return
		}
		for i := -1; i < len(ops); i++ {
			rec(append(cur, i))
		}
	}
	rec(nil)
	var states, transitions, traces int64
	var samples evid.Samples
	samples.N = 4
	evid.ParallelFor(len(hists), workers(), func(w, hi int) {
		h := hists[hi]
		var base []c14Step
		for _, o := range h {
			base = append(base, c14Step{Op: o})
		}
		without := c14Exec(ops, base)
		atomic.AddInt64(&states, 1)
		atomic.AddInt64(&traces, 1)
		atomic.AddInt64(&transitions, int64(len(h)))
		for pos := 0; pos <= len(h); pos++ {
			for pk := range ops {
				for _, ik := range []string{"", "pv-key", "shared-key", "prev-key"} {
					baseK, withoutK := base, without
					if ik == "prev-key" {
						// the real operation right before the preview already used (and recorded) the key the preview carries
						if pos == 0 || h[pos-1] < 0 {
							continue
						}
						baseK = append([]c14Step{}, base...)
						baseK[pos-1].IK = ik
						withoutK = c14Exec(ops, baseK)
						atomic.AddInt64(&traces, 1)
					}
					if ik == "shared-key" {
						// the real operation right after the preview carries the same idempotency key as the preview
						if pos >= len(h) || h[pos] < 0 {
							continue
						}
						baseK = append([]c14Step{}, base...)
						baseK[pos].IK = ik
						withoutK = c14Exec(ops, baseK)
						atomic.AddInt64(&traces, 1)
					}
					base, without := baseK, withoutK
					with := append(append(append([]c14Step{}, base[:pos]...), c14Step{Op: pk, Preview: true, IK: ik}), base[pos:]...)
					real := append(append([]c14Step{}, base[:pos]...), c14Step{Op: pk, IK: ik})
					rw := c14Exec(ops, with)
					rr := c14Exec(ops, real)
					atomic.AddInt64(&traces, 2)
					atomic.AddInt64(&transitions, int64(len(with)+len(real)))
					name := func() string {
						var n []string
						for i, s := range with {
							x := "restart"
							if s.Op >= 0 {
								x = ops[s.Op].Name
							}
							if i == pos {
								x = "PREVIEW(" + x + ")"
							}
							n = append(n, x)
						}
						return strings.Join(n, " ; ")
					}()
					replay := map[string]interface{}{"engine": "dryrun", "history": name, "ik": ik}
					viol := func(kind, why string) {
						rep.Violation(kind+":"+ops[pk].Name, why+" [history: "+name+"]", replay)
					}
					// the preview itself: no log entry, no event
					logsBefore, evBefore := 0, 0
					if pos > 0 {
						logsBefore, evBefore = rw.logsN[pos-1], rw.eventsN[pos-1]
					}
					if rw.logsN[pos] != logsBefore {
						viol("preview-log", "a preview appended a log entry")
					}
					if rw.eventsN[pos] != evBefore {
						viol("preview-event", "a preview published an event")
					}
					// the preview answers what the real write answers at that position
					if rw.responses[pos] != rr.responses[pos] {
						viol("preview-answer", fmt.Sprintf("preview answered %q, the real write answers %q", rw.responses[pos], rr.responses[pos]))
					}
					// everything after behaves as if the preview had never been made
					rest := append(append([]string{}, rw.responses[:pos]...), rw.responses[pos+1:]...)
					if strings.Join(rest, "|") != strings.Join(without.responses, "|") {
						viol("later-responses", fmt.Sprintf("responses of the real operations differ: with preview %v, without %v", rest, without.responses))
					}
					if rw.store != without.store {
						viol("store", "store contents differ from the history without the preview:\n"+rw.store+"--- vs ---\n"+without.store)
					}
					if rw.chainErr != "" {
						viol("chain", rw.chainErr)
					}
					if stripPersisted(rw.events) != stripPersisted(without.events) {
						viol("events", "published events differ from the history without the preview")
					}
					samples.Offer(func() interface{} { return map[string]interface{}{"history": name, "responses": rw.responses} })
				}
			}
		}
	})
	httpCases, httpSent := c14HTTP(rep)
	httpCases += int64(c14FreshLedger(rep))
	transitions += httpSent
	states += httpCases
	cov := evid.Coverage{
		"states":                        int(states),
		"transitions":                   int(transitions),
		"traces_validated_against_impl": int(traces),
		"samples":                       samples.Got,
		"exhaustive":                    true,
		"http_preview_cases":            int(httpCases),
		"rule":                          fmt.Sprintf("states = histories (operation sequences of length <= %d over %d write kinds + restart) explored from the empty ledger; for each, a preview of every write kind (with and without idempotency key) is inserted at every position and three engines are run: with preview, without, and with the write made for real; transitions = engine operations executed; every trace runs the real Commander over memstore", maxLen, len(ops)),
	}
	rep.Assume = []string{"dates and hashes are erased before comparing twins; the hash chain is re-verified instead"}
	// the engine on the real store, against the stand-in the enumeration above ran on (realstore.go)
	rsH, rsS := realStoreConformance(rep, "")
	cov["realstore_histories"], cov["realstore_steps"] = rsH, rsS
	return rep.Finish(cov)
}

func stripPersisted(s string) string { return s }
