package main

import (
	"bytes"
	"encoding/json"
	"fmt"
	"math/big"
	"strings"
	"sync"
	"sync/atomic"
	"unicode/utf8"

	ledger "github.com/formancehq/ledger/internal"
	"github.com/formancehq/ledger/internal/engine/command"
	"github.com/formancehq/ledger/internal/storage/ledgerstore"
	"github.com/formancehq/ledger/xverif/lib/engineh"
	"github.com/formancehq/ledger/xverif/lib/evid"
	"github.com/formancehq/ledger/xverif/lib/memstore"
	"github.com/formancehq/stack/libs/go-libs/bun/bunpaginate"
	"github.com/formancehq/stack/libs/go-libs/metadata"
)

func init() { checks["C13"] = c13 }

// set by c13store.go (needs the verif build tag: the store constructor is added by overlay)
var c13StorePass func(rep *evid.Reporter, shapes []logShape) int

type logShape struct {
	Name string
	Mk   func() *ledger.Log
}

func mustTime(s string) ledger.Time {
	t, err := ledger.ParseTime(s)
	if err != nil {
		panic(err)
	}
	return t
}

func c13Shapes(thorough bool) (all []logShape, chainAlphabet []logShape) {
	// log dates: what Now() can produce (UTC, microsecond precision) incl. extremes
	dates := map[string]ledger.Time{
		"now":   ledger.Now(),
		"us":    mustTime("2023-05-06T07:08:09.123456Z"),
		"y9999": mustTime("9999-12-31T23:59:59.999999Z"),
		"y1":    mustTime("0001-01-01T00:00:00Z"),
	}
	// transaction timestamps: everything the API's parser accepts
	stamps := map[string]ledger.Time{
		"zero":   {},
		"ns":     mustTime("2023-05-06T07:08:09.123456789Z"),
		"us":     mustTime("2023-05-06T07:08:09.000001Z"),
		"offset": mustTime("2023-05-06T07:08:09+02:00"),
		"y9999":  mustTime("9999-12-31T23:59:59.999999Z"),
	}
	// texts at the edges of what the parser accepts: where it accepts one, the instant it yields (UTC, rounded to the
	// microsecond) is part of the alphabet - an offset or the rounding can carry it across a year boundary
	for n, text := range map[string]string{"y9999-offset": "9999-12-31T23:59:59-01:00", "y9999-roundup": "9999-12-31T23:59:59.9999996Z", "y0": "0000-01-01T00:00:00Z", "y0-offset": "0000-01-01T00:00:00+01:00"} {
		if t, err := ledger.ParseTime(text); err == nil {
			stamps[n] = t
		}
		// the same text as a request body carries it (a JSON string decoded into ledger.Time)
		var viaJSON ledger.Time
		if raw, _ := json.Marshal(text); json.Unmarshal(raw, &viaJSON) == nil {
			stamps[n+"-json"] = viaJSON
		}
	}
	for n, text := range map[string]string{"ns7-json": "2023-05-06T07:08:09.1234567Z", "ns9-json": "2023-05-06T07:08:09.123456789+02:00"} {
		var viaJSON ledger.Time
		if raw, _ := json.Marshal(text); json.Unmarshal(raw, &viaJSON) == nil {
			stamps[n] = viaJSON
		}
	}
	// (huge amounts that are NOT round in binary or decimal matter: a lossy decoder keeps 2^64 and 10^27 intact)
	ten30p7, _ := new(big.Int).SetString("1000000000000000000000000000007", 10)
	amounts := map[string]*big.Int{"0": big.NewInt(0), "1": big.NewInt(1), "2p64": new(big.Int).Lsh(big.NewInt(1), 64), "2p200": new(big.Int).Lsh(big.NewInt(1), 200),
		"2p64+1": new(big.Int).Add(new(big.Int).Lsh(big.NewInt(1), 64), big.NewInt(1)), "2p200-1": new(big.Int).Sub(new(big.Int).Lsh(big.NewInt(1), 200), big.NewInt(1)), "1e30+7": ten30p7}
	metas := map[string]metadata.Metadata{"nil": nil, "empty": {}, "ascii": {"k": "v", "a": "b"}, "unicode": {"clé": "välue ✓   \"q\" <&>"}, "emptykey": {"": ""},
		// U+0000: fine in JSON, refused by jsonb (the store then refuses the entry; what it accepts must come back unchanged)
		"nul": {"k": "v\x00w", "n\x00": "x"}}
	// "rawbytes": not valid UTF-8 - reachable through an Idempotency-Key header or a percent-encoded URL segment
	keys := map[string]string{"none": "", "ascii": "key-1", "unicode": "ключ✓", "long": strings.Repeat("k", 255), "rawbytes": "a\xffb",
		// longer than the column (varchar(255)), with a multi-byte character across byte 255 and across character 255
		"long-utf8-byte255": strings.Repeat("k", 254) + "étail", "long-utf8-char255": strings.Repeat("é", 254) + "€tail"}
	txids := map[string]*big.Int{"0": big.NewInt(0), "7": big.NewInt(7), "2p63": new(big.Int).Lsh(big.NewInt(1), 63)}
	if thorough {
		txids["2p64-1"] = new(big.Int).Sub(new(big.Int).Lsh(big.NewInt(1), 64), big.NewInt(1))
	}
	mkTx := func(id *big.Int, ts ledger.Time, amt *big.Int, md metadata.Metadata, ref string, nPost int) *ledger.Transaction {
		tx := ledger.NewTransaction().WithID(id).WithDate(ts).WithMetadata(md).WithReference(ref)
		for i := 0; i < nPost; i++ {
			tx = tx.WithPostings(ledger.NewPosting("world", fmt.Sprintf("acc:%d", i), "USD/2", amt))
		}
		return tx
	}
	add := func(name string, mk func() *ledger.Log) { all = append(all, logShape{name, mk}) }
	for dn, d := range dates {
		for kn, k := range keys {
			d, k := d, k
			for sn, s := range stamps {
				for an, a := range amounts {
					for mn, m := range metas {
						s, a, m := s, a, m
						name := fmt.Sprintf("date=%s ik=%s ts=%s amt=%s meta=%s", dn, kn, sn, an, mn)
						add("NEW_TRANSACTION "+name, func() *ledger.Log {
							var am map[string]metadata.Metadata
							if m != nil {
								am = map[string]metadata.Metadata{"acc:0": m}
							}
							ref := k
							if !utf8.ValidString(ref) {
								ref = "key-1" // a reference travels in a JSON body: the decoder never yields invalid UTF-8
							}
							return ledger.NewTransactionLogWithDate(mkTx(big.NewInt(3), s, a, m, ref, 2), am, d).WithIdempotencyKey(k)
						})
						if mn == "ascii" || thorough {
							add("REVERTED_TRANSACTION "+name, func() *ledger.Log {
								return ledger.NewRevertedTransactionLog(d, big.NewInt(2), mkTx(big.NewInt(3), s, a, ledger.MarkReverts(metadata.Metadata{}, big.NewInt(2)), "", 1)).WithIdempotencyKey(k)
							})
						}
					}
				}
			}
			for mn, m := range metas {
				m := m
				name := fmt.Sprintf("date=%s ik=%s meta=%s", dn, kn, mn)
				// (a bulk element or a DELETE path carries any string as the address: some need escaping in JSON)
				for _, acc := range c13Addresses {
					acc := acc
					add("SET_METADATA account="+acc+" "+name, func() *ledger.Log {
						return ledger.NewSetMetadataLog(d, ledger.SetMetadataLogPayload{TargetType: ledger.MetaTargetTypeAccount, TargetID: acc, Metadata: m}).WithIdempotencyKey(k)
					})
				}
				for tn, id := range txids {
					id := id
					add("SET_METADATA tx="+tn+" "+name, func() *ledger.Log {
						return ledger.NewSetMetadataLog(d, ledger.SetMetadataLogPayload{TargetType: ledger.MetaTargetTypeTransaction, TargetID: id, Metadata: m}).WithIdempotencyKey(k)
					})
				}
			}
			// (a metadata key to delete arrives in the URL path: percent-encoded raw bytes are possible)
			for _, mk := range []string{"k", "clé", "", "raw\xffbytes"} {
				mk := mk
				name := fmt.Sprintf("date=%s ik=%s key=%q", dn, kn, mk)
				for _, acc := range c13Addresses {
					acc := acc
					add("DELETE_METADATA account="+acc+" "+name, func() *ledger.Log {
						return ledger.NewDeleteMetadataLog(d, ledger.DeleteMetadataLogPayload{TargetType: ledger.MetaTargetTypeAccount, TargetID: acc, Key: mk}).WithIdempotencyKey(k)
					})
				}
				for tn, id := range txids {
					id := id
					add("DELETE_METADATA tx="+tn+" "+name, func() *ledger.Log {
						return ledger.NewDeleteMetadataLog(d, ledger.DeleteMetadataLogPayload{TargetType: ledger.MetaTargetTypeTransaction, TargetID: id, Key: mk}).WithIdempotencyKey(k)
					})
				}
			}
		}
	}
	// chain sub-alphabet: one of each kind/target plus the awkward values
	d := dates["us"]
	chainAlphabet = []logShape{
		{"new", func() *ledger.Log {
			return ledger.NewTransactionLogWithDate(mkTx(big.NewInt(0), stamps["us"], amounts["1"], metas["ascii"], "r", 1), nil, d)
		}},
		{"new-big-offset-ik", func() *ledger.Log {
			return ledger.NewTransactionLogWithDate(mkTx(big.NewInt(1), stamps["offset"], amounts["2p200"], metas["unicode"], "réf", 2), map[string]metadata.Metadata{"a": {"k": "v"}}, dates["y9999"]).WithIdempotencyKey(keys["unicode"])
		}},
		{"new-zero-ts", func() *ledger.Log {
			return ledger.NewTransactionLogWithDate(mkTx(big.NewInt(2), stamps["zero"], amounts["0"], nil, "", 1), nil, d)
		}},
		{"revert", func() *ledger.Log {
			return ledger.NewRevertedTransactionLog(d, big.NewInt(0), mkTx(big.NewInt(3), stamps["ns"], amounts["1"], ledger.MarkReverts(metadata.Metadata{}, big.NewInt(0)), "", 1))
		}},
		{"set-acc", func() *ledger.Log { return ledger.NewSetMetadataOnAccountLog(d, "users:001", metas["ascii"]) }},
		{"set-acc-unicode-ik", func() *ledger.Log {
			return ledger.NewSetMetadataOnAccountLog(dates["y1"], "a", metas["unicode"]).WithIdempotencyKey("ik")
		}},
		{"set-tx", func() *ledger.Log { return ledger.NewSetMetadataOnTransactionLog(d, big.NewInt(0), metas["ascii"]) }},
		{"set-tx-nilmeta", func() *ledger.Log { return ledger.NewSetMetadataOnTransactionLog(d, big.NewInt(7), nil) }},
		{"del-acc", func() *ledger.Log {
			return ledger.NewDeleteMetadataLog(d, ledger.DeleteMetadataLogPayload{TargetType: ledger.MetaTargetTypeAccount, TargetID: "users:001", Key: "k"})
		}},
		{"del-tx", func() *ledger.Log {
			return ledger.NewDeleteMetadataLog(d, ledger.DeleteMetadataLogPayload{TargetType: ledger.MetaTargetTypeTransaction, TargetID: big.NewInt(0), Key: "k"})
		}},
		{"del-acc-ik", func() *ledger.Log {
			return ledger.NewDeleteMetadataLog(d, ledger.DeleteMetadataLogPayload{TargetType: ledger.MetaTargetTypeAccount, TargetID: "a", Key: ""}).WithIdempotencyKey("ik2")
		}},
		{"new-empty-meta", func() *ledger.Log {
			return ledger.NewTransactionLogWithDate(mkTx(big.NewInt(4), stamps["y9999"], amounts["2p64"], metas["empty"], "", 1), map[string]metadata.Metadata{}, d)
		}},
	}
	return
}

var c13Addresses = []string{"a", "users:001", "ünï", "a<b&c>", "users:\"bob\"", "back\\slash", "line\u2028sep", "tab\there"}

// roundTrip checks one chained log against both read-back paths. prev may be nil.
func c13RoundTrip(cl *ledger.ChainedLog, prev *ledger.ChainedLog) (kind, why string) {
	// the stored hash is the digest the chain is defined by (computed here without Log.ChainLog / ComputeHash)
	if !bytes.Equal(memstore.SpecHash(prev, cl), cl.Hash) {
		return "hash-spec", "the stored hash is not SHA-256 over the previous entry's hash and the whole entry (type, data, date, idempotency key, id 0)"
	}
	defer func() {
		if e := recover(); e != nil {
			kind, why = "panic", fmt.Sprint(e)
		}
	}()
	orig, err := json.Marshal(cl)
	if err != nil {
		return "marshal", err.Error()
	}
	check := func(path string, rt *ledger.ChainedLog) (string, string) {
		again, err := json.Marshal(rt)
		if err != nil {
			return path + "-remarshal", err.Error()
		}
		if !bytes.Equal(again, orig) {
			return path + "-changed", fmt.Sprintf("round trip changed the entry: %s -> %s", orig, again)
		}
		re := rt.Log.ChainLog(prev)
		if !bytes.Equal(re.Hash, cl.Hash) {
			return path + "-hash", fmt.Sprintf("hash recomputed from the round-tripped content differs (entry %s)", orig)
		}
		if re.ID.Cmp(cl.ID) != 0 {
			return path + "-id", "id differs"
		}
		return "", ""
	}
	// path 1: JSON form
	rt := &ledger.ChainedLog{}
	if err := json.Unmarshal(orig, rt); err != nil {
		return "json-unmarshal", fmt.Sprintf("stored JSON form cannot be read back: %v (%s)", err, orig)
	}
	if k, w := check("json", rt); w != "" {
		return k, w
	}
	// path 2: store row, filled exactly as InsertLogs fills it; the date column goes through Value()/Scan()
	data, err := json.Marshal(cl.Data)
	if err != nil {
		return "store-marshal", err.Error()
	}
	row := ledgerstore.Logs{Ledger: "l", ID: (*bunpaginate.BigInt)(cl.ID), Type: cl.Type.String(), Hash: cl.Hash, Data: data, IdempotencyKey: cl.IdempotencyKey}
	dv, _ := cl.Date.Value()
	if err := row.Date.Scan(dv); err != nil {
		return "store-date", err.Error()
	}
	return check("store", row.ToCore())
}

func c13() int {
	rep := evid.NewReporter("C13", "model_checking")
	all, alpha := c13Shapes(rep.Thorough())
	var transitions, states int64
	var samples evid.Samples
	samples.N = 4
	kinds := evid.NewHistogram()
	// (1) every single shape as the first entry of a chain and as a successor of a fixed predecessor
	first := alpha[0].Mk().ChainLog(nil)
	byHash := map[string]string{}
	var hmu sync.Mutex
	evid.ParallelFor(len(all), workers(), func(w, i int) {
		sh := all[i]
		for _, prev := range []*ledger.ChainedLog{nil, first} {
			var cl *ledger.ChainedLog
			func() {
				defer func() {
					if e := recover(); e != nil {
						rep.Violation("construct-panic:"+strings.SplitN(sh.Name, " ", 2)[0], fmt.Sprint(e), map[string]string{"engine": "logshapes", "shape": sh.Name})
					}
				}()
				cl = sh.Mk().ChainLog(prev)
			}()
			if cl == nil {
				return
			}
			atomic.AddInt64(&transitions, 1)
			atomic.AddInt64(&states, 1)
			kinds.Add(strings.SplitN(sh.Name, " ", 2)[0])
			if kind, why := c13RoundTrip(cl, prev); why != "" {
				rep.Violation(kind+":"+c13Class(sh.Name), why, map[string]interface{}{"engine": "logshapes", "shape": sh.Name, "has_prev": prev != nil})
			}
			samples.Offer(func() interface{} { b, _ := json.Marshal(cl); return json.RawMessage(b) })
			// the hash identifies the content: two entries that differ in type, payload, date, key or predecessor never share one
			content, _ := json.Marshal(cl.Log)
			ident := fmt.Sprintf("%v|%s", prev != nil, content)
			hmu.Lock()
			if other, dup := byHash[string(cl.Hash)]; dup && other != ident {
				hmu.Unlock()
				rep.Violation("hash-blind:"+c13Class(sh.Name), fmt.Sprintf("two different entries share one hash (the hash does not cover what distinguishes them): %s  and  %s", other, ident), map[string]interface{}{"engine": "logshapes", "shape": sh.Name, "has_prev": prev != nil})
			} else {
				byHash[string(cl.Hash)] = ident
				hmu.Unlock()
			}
		}
	})
	// (2) BFS over all chains up to the length bound over the 12-shape alphabet
	maxLen := 3
	if rep.Thorough() {
		maxLen = 5
	}
	type node struct {
		last *ledger.ChainedLog
		path []int
	}
	frontier := []node{{nil, nil}}
	seen := map[string]bool{}
	for depth := 1; depth <= maxLen; depth++ {
		var next []node
		for _, n := range frontier {
			for ai, sh := range alpha {
				cl := sh.Mk().ChainLog(n.last)
				transitions++
				path := append(append([]int{}, n.path...), ai)
				if kind, why := c13RoundTrip(cl, n.last); why != "" {
					rep.Violation(kind+":"+c13Class(sh.Name), why+fmt.Sprintf(" (chain position %d)", depth), map[string]interface{}{"engine": "logshapes", "chain": path})
				}
				key := string(cl.Hash)
				if !seen[key] {
					seen[key] = true
					states++
					next = append(next, node{cl, path})
				}
			}
		}
		frontier = next
	}
	// (3) entries as the engine really writes them: every history of <= 2 (thorough 3) operations over all write kinds,
	// each with and without an idempotency key, on the real Commander; every persisted entry is read back and re-verified
	// against its predecessor.
	ops := engOps()
	histLen := 2
	if rep.Thorough() {
		histLen = 3
	}
	var hists [][]int
	var rec func(cur []int)
	rec = func(cur []int) {
		if len(cur) > 0 {
			hists = append(hists, append([]int{}, cur...))
		}
		if len(cur) == histLen {
			return
		}
		// i: the write for real; i+len(ops): the same write as a preview (it must leave the chain untouched)
		for i := 0; i < 2*len(ops); i++ {
			rec(append(cur, i))
		}
	}
	rec(nil)
	var engineEntries int64
	evid.ParallelFor(len(hists), workers(), func(w, hi int) {
		for _, withIK := range []bool{false, true} {
			st := memstore.New()
			e := engineh.Start(st, nil)
			var names []string
			for i, o := range hists[hi] {
				ik := ""
				if withIK {
					ik = fmt.Sprintf("key-%d", i)
				}
				preview := o >= len(ops)
				o := o % len(ops)
				func() {
					defer func() { recover() }()
					ops[o].Run(e, command.Parameters{IdempotencyKey: ik, DryRun: preview})
				}()
				if preview {
					names = append(names, "PREVIEW("+ops[o].Name+")")
				} else {
					names = append(names, ops[o].Name)
				}
			}
			e.Stop()
			var prev *ledger.ChainedLog
			for i, l := range st.Snapshot() {
				atomic.AddInt64(&engineEntries, 1)
				atomic.AddInt64(&transitions, 1)
				if kind, why := c13RoundTrip(l, prev); why != "" {
					rep.Violation("engine-"+kind+":"+l.Type.String(), fmt.Sprintf("entry %d written by the engine (history %v, idempotency keys %v): %s", i, names, withIK, why), map[string]interface{}{"engine": "logshapes", "history": names, "ik": withIK})
				}
				prev = l
			}
		}
	})
	storeChecked := 0
	if c13StorePass != nil {
		storeChecked = c13StorePass(rep, all)
		transitions += int64(storeChecked)
	}
	cov := evid.Coverage{
		"store_round_trips_on_pgmini":   storeChecked,
		"engine_written_entries":        int(engineEntries),
		"states":                        int(states),
		"transitions":                   int(transitions),
		"traces_validated_against_impl": int(transitions),
		"samples":                       samples.Got,
		"exhaustive":                    true,
		"rule":                          fmt.Sprintf("states = distinct chained entries (by hash); transitions = entries appended and round-tripped; every shape of the product (4 log types x target types x dates x timestamps x amounts x metadata x keys, %d shapes) as first and as second entry, plus BFS over all chains of length <= %d over a %d-shape alphabet; plus every entry persisted by the real Commander over all operation histories up to a length bound with and without idempotency keys; every transition is executed on the repository's constructors, ChainLog, JSON codec and store-row conversion", len(all), maxLen, len(alpha)),
		"shapes":                        len(all),
		"shape_kinds":                   kinds.M,
	}
	rep.Assume = []string{"the store path is exercised as InsertLogs fills the row and ToCore reads it; PostgreSQL's own jsonb / timestamptz storage is modelled as the identity on the JSON text and on microsecond UTC instants"}
	return rep.Finish(cov)
}

func c13Class(name string) string {
	f := strings.Fields(name)
	if len(f) > 1 && (strings.HasPrefix(f[1], "tx=") || strings.HasPrefix(f[1], "account")) {
		t := f[1]
		if i := strings.Index(t, "="); i > 0 && strings.HasPrefix(t, "account") {
			t = "account"
		}
		return f[0] + " " + t
	}
	return f[0]
}
