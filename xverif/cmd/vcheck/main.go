// vcheck: bounded-exhaustive checks that run on the plain (un-instrumented) build of the repository.
package main

import (
	"fmt"
	"os"
	"runtime"
	"runtime/debug"
)

var checks = map[string]func() int{}

func main() {
	debug.SetGCPercent(400)
	if len(os.Args) < 2 {
		fmt.Println("usage: vcheck <Cxx> | replay <file>")
		os.Exit(3)
	}
	if os.Args[1] == "replay" {
		os.Exit(replay(os.Args[2]))
	}
	f, ok := checks[os.Args[1]]
	if !ok {
		fmt.Println("no such check:", os.Args[1])
		os.Exit(3)
	}
	os.Exit(f())
}

func workers() int { return runtime.NumCPU() }
