// vcheck: bounded-exhaustive checks that run on the plain (un-instrumented) build of the repository.
package main

import (
	"fmt"
	"os"
	"runtime"
	"runtime/debug"
	"runtime/pprof"
	"time"
)

var checks = map[string]func() int{}

func main() {
	debug.SetGCPercent(400)
	// soft limit: checks that build many short-lived engines/routers keep garbage reachable through sync.Pool victim caches
	// for two GC cycles; near the limit the collector runs as often as needed instead of letting the heap grow
	debug.SetMemoryLimit(6 << 30)
	if len(os.Args) < 2 {
		fmt.Println("usage: vcheck <Cxx> | replay <file>")
		os.Exit(3)
	}
	if os.Args[1] == "replay" {
		os.Exit(replay(os.Args[2]))
	}
	if path := os.Getenv("VERIF_HEAPPROF"); path != "" {
		go func() {
			time.Sleep(15 * time.Second)
			if fh, err := os.Create(path); err == nil {
				runtime.GC()
				_ = pprof.WriteHeapProfile(fh)
				fmt.Fprintln(os.Stderr, "goroutines:", runtime.NumGoroutine())
				if g, err := os.Create(path + ".goroutines"); err == nil {
					_ = pprof.Lookup("goroutine").WriteTo(g, 1)
					g.Close()
				}
				fh.Close()
			}
		}()
	}
	f, ok := checks[os.Args[1]]
	if !ok {
		fmt.Println("no such check:", os.Args[1])
		os.Exit(3)
	}
	os.Exit(f())
}

func workers() int { return runtime.NumCPU() }
