//go:build verif

package main

import (
	"context"
	"encoding/json"
	"fmt"
	"math/big"
	"net/http/httptest"
	"net/url"
	"sort"
	"strings"
	"time"

	ledger "github.com/formancehq/ledger/internal"
	"github.com/formancehq/ledger/internal/storage/ledgerstore"
	"github.com/formancehq/ledger/xverif/lib/engineh"
	"github.com/formancehq/ledger/xverif/lib/evid"
	"github.com/formancehq/ledger/xverif/lib/memstore"
	"github.com/formancehq/ledger/xverif/lib/recbackend"
	"github.com/formancehq/stack/libs/go-libs/metadata"
	"github.com/formancehq/stack/libs/go-libs/query"
)

// c04Filters: on one ledger with multi-segment accounts of different depths, every address pattern over a small segment
// alphabet (every length 1..4, wildcards at every position) is sent through every read method that takes an address
// filter; the answer must be the accounts / transactions / balances a segment-by-segment matcher selects from the log.
func c04Filters(rep *evid.Reporter, root *c04State, thorough bool) (patterns, reads int) {
	type txd struct {
		ps []ledger.Posting
	}
	p := func(s, d string, n int64) ledger.Posting { return ledger.NewPosting(s, d, "X", big.NewInt(n)) }
	history := []txd{
		{[]ledger.Posting{p("world", "orders:7:pending", 10)}},
		{[]ledger.Posting{p("orders:7:pending", "orders:7:pending:fees", 1)}},
		{[]ledger.Posting{p("world", "orders:8:paid", 5)}},
		{[]ledger.Posting{p("world", "users:1", 3)}},
		{[]ledger.Posting{p("orders:8:paid", "orders", 2)}},
		{[]ledger.Posting{p("world", "orders:7", 4), p("orders:7", "fees", 1)}},
		{[]ledger.Posting{p("world", "pending:7:orders", 6)}},
	}
	st := root
	for i, h := range history {
		h := h
		op := c04Op{Name: fmt.Sprintf("filters-tx-%d", i), Ledger: "l1", Make: func(s *c04State) []*ledger.Log {
			t := ledger.NewTransaction().WithPostings(h.ps...).WithID(nextTxID(s.logs["l1"])).WithDate(c04T1)
			return []*ledger.Log{ledger.NewTransactionLogWithDate(t, map[string]metadata.Metadata{}, ledger.Time{})}
		}}
		n, errText := st.apply(op)
		if n == nil {
			if interpreterLimit(errText) {
				rep.Undecide("the interpreter cannot execute the schema / a statement: " + errText)
			} else {
				rep.Violation("insert-error:filters", "InsertLogs failed while building the filter fixture: "+errText, map[string]interface{}{"engine": "pgmini-filters"})
			}
			return 0, 0
		}
		st = n
	}
	// the same accounts on the second ledger of the bucket must never show up
	n2, _ := st.apply(c04Op{Name: "filters-l2", Ledger: "l2", Make: func(s *c04State) []*ledger.Log {
		t := ledger.NewTransaction().WithPostings(p("world", "orders:7:pending", 1000), p("world", "orders:9:pending", 1000)).WithID(nextTxID(s.logs["l2"])).WithDate(c04T1)
		return []*ledger.Log{ledger.NewTransactionLogWithDate(t, map[string]metadata.Metadata{}, ledger.Time{})}
	}})
	if n2 != nil {
		st = n2
	}
	logs := st.logs["l1"]
	exp := expectedMoves(logs)
	accSet := map[string]bool{}
	for _, e := range exp {
		accSet[e.acc] = true
	}
	var accounts []string
	for a := range accSet {
		accounts = append(accounts, a)
	}
	sort.Strings(accounts)
	match := func(pat, addr string) bool {
		ps, as := strings.Split(pat, ":"), strings.Split(addr, ":")
		if len(ps) != len(as) {
			return false
		}
		for i := range ps {
			if ps[i] != "" && ps[i] != as[i] {
				return false
			}
		}
		return true
	}
	segs := []string{"orders", "7", "pending", "fees", ""}
	if thorough {
		segs = []string{"orders", "7", "8", "pending", "fees", "users", ""}
	}
	var pats []string
	var gen func(prefix []string, left int)
	gen = func(prefix []string, left int) {
		if len(prefix) > 0 {
			pats = append(pats, strings.Join(prefix, ":"))
		}
		if left == 0 {
			return
		}
		for _, s := range segs {
			gen(append(append([]string{}, prefix...), s), left-1)
		}
	}
	gen(nil, 4)
	ctx := context.Background()
	s := st.store("l1")
	defer s.GetDB().Close()
	far := ledger.Time{Time: c04T2.Time.AddDate(1, 0, 0)}
	for _, pat := range pats {
		patterns++
		replay := map[string]interface{}{"engine": "pgmini-filters", "pattern": pat}
		viol := func(kind, why string) {
			rep.Violation("filter-"+kind+":"+patShape(pat), why+" [address pattern "+fmt.Sprintf("%q", pat)+"; accounts of the ledger: "+strings.Join(accounts, " ")+"]", replay)
		}
		var wantAccs []string
		for _, a := range accounts {
			if match(pat, a) {
				wantAccs = append(wantAccs, a)
			}
		}
		func() {
			defer func() {
				if r := recover(); r != nil {
					viol("panic", fmt.Sprint("a read method panics: ", r))
				}
			}()
			for _, pit := range []*ledger.Time{nil, &far} {
				qb, _ := query.ParseJSON(fmt.Sprintf(`{"$match":{"address":%q}}`, pat))
				opts := ledgerstore.NewPaginatedQueryOptions(ledgerstore.PITFilterWithVolumes{PITFilter: ledgerstore.PITFilter{PIT: pit}}).WithQueryBuilder(qb).WithPageSize(100)
				cur, err := s.GetAccountsWithVolumes(ctx, ledgerstore.NewGetAccountsQuery(opts))
				reads++
				if err != nil {
					if strings.Contains(err.Error(), "unsupported") {
						rep.Undecide("interpreter: " + err.Error())
					}
					return // the pattern is refused as an invalid filter: nothing is reported
				}
				var got []string
				for _, a := range cur.Data {
					got = append(got, a.Address)
				}
				if fmt.Sprint(got) != fmt.Sprint(wantAccs) {
					viol("accounts", fmt.Sprintf("the account listing (pit %s) answers %v, matching the pattern segment by segment selects %v", pitStr(pit), got, wantAccs))
					return
				}
				n, err := s.CountAccounts(ctx, ledgerstore.NewGetAccountsQuery(opts))
				reads++
				if err != nil || n != len(wantAccs) {
					viol("count-accounts", fmt.Sprintf("CountAccounts (pit %s) = %d (%v), %d accounts match", pitStr(pit), n, err, len(wantAccs)))
					return
				}
				bopts := ledgerstore.NewPaginatedQueryOptions(ledgerstore.PITFilter{PIT: pit}).WithQueryBuilder(qb)
				bal, err := s.GetAggregatedBalances(ctx, ledgerstore.NewGetAggregatedBalancesQuery(bopts))
				reads++
				if err != nil {
					viol("aggregated-error", "GetAggregatedBalances: "+err.Error())
					return
				}
				want := new(big.Int)
				for _, e := range exp {
					if match(pat, e.acc) {
						if e.isSource {
							want.Sub(want, e.amt)
						} else {
							want.Add(want, e.amt)
						}
					}
				}
				g := bal["X"]
				if g == nil {
					g = new(big.Int)
				}
				if g.Cmp(want) != 0 && !(len(wantAccs) == 0 && len(bal) == 0) {
					viol("aggregated", fmt.Sprintf("aggregated balance (pit %s) = %v, the matching accounts hold %s in total", pitStr(pit), bal, want))
					return
				}
			}
			for _, key := range []string{"account", "source", "destination"} {
				var wantTx []string
				fold := txIDsWhere(logs, func(ps ledger.Posting) bool {
					switch key {
					case "source":
						return match(pat, ps.Source)
					case "destination":
						return match(pat, ps.Destination)
					}
					return match(pat, ps.Source) || match(pat, ps.Destination)
				})
				wantTx = fold
				for _, pit := range []*ledger.Time{nil, &far} {
					qb, _ := query.ParseJSON(fmt.Sprintf(`{"$match":{%q:%q}}`, key, pat))
					opts := ledgerstore.NewPaginatedQueryOptions(ledgerstore.PITFilterWithVolumes{PITFilter: ledgerstore.PITFilter{PIT: pit}}).WithQueryBuilder(qb).WithPageSize(100)
					cur, err := s.GetTransactions(ctx, ledgerstore.NewGetTransactionsQuery(opts))
					reads++
					if err != nil {
						if strings.Contains(err.Error(), "unsupported") {
							rep.Undecide("interpreter: " + err.Error())
						}
						return
					}
					var got []string
					for _, t := range cur.Data {
						got = append(got, t.ID.String())
					}
					sort.Strings(got)
					if fmt.Sprint(got) != fmt.Sprint(wantTx) {
						viol("transactions-"+key, fmt.Sprintf("the transaction listing filtered on %s (pit %s) answers ids %v, the log has %v", key, pitStr(pit), got, wantTx))
						return
					}
					n, err := s.CountTransactions(ctx, ledgerstore.NewGetTransactionsQuery(opts))
					reads++
					if err != nil || n != len(wantTx) {
						viol("count-transactions-"+key, fmt.Sprintf("CountTransactions filtered on %s (pit %s) = %d (%v), the log has %d", key, pitStr(pit), n, err, len(wantTx)))
						return
					}
				}
			}
		}()
	}
	return patterns, reads
}

func txIDsWhere(logs []*ledger.ChainedLog, f func(ledger.Posting) bool) []string {
	var out []string
	for _, l := range logs {
		var tx *ledger.Transaction
		switch p := l.Data.(type) {
		case ledger.NewTransactionLogPayload:
			tx = p.Transaction
		case ledger.RevertedTransactionLogPayload:
			tx = p.RevertTransaction
		}
		if tx == nil {
			continue
		}
		for _, ps := range tx.Postings {
			if f(ps) {
				out = append(out, tx.ID.String())
				break
			}
		}
	}
	sort.Strings(out)
	return out
}

// patShape: which positions of the pattern are wildcards, and its length
func patShape(pat string) string {
	var b strings.Builder
	for _, s := range strings.Split(pat, ":") {
		if s == "" {
			b.WriteString("*")
		} else {
			b.WriteString("x")
		}
	}
	return b.String()
}

// c04ValueFilters: metadata, balance, reference and timestamp filters (every operator the builders accept, plain and under
// $not / $and / $or) through the account and transaction listings and counts, now and with a point in time; the answer must
// be what evaluating the filter on the fold of the log selects.
func c04ValueFilters(rep *evid.Reporter, root *c04State) (filters, reads int) {
	p := func(s, d string, n int64) ledger.Posting { return ledger.NewPosting(s, d, "X", big.NewInt(n)) }
	type step func(s *c04State) []*ledger.Log
	mkTx := func(ts ledger.Time, md metadata.Metadata, ref string, ps ...ledger.Posting) step {
		return func(s *c04State) []*ledger.Log {
			t := ledger.NewTransaction().WithPostings(ps...).WithID(nextTxID(s.logs["l1"])).WithDate(ts).WithMetadata(md)
			if ref != "" {
				t = t.WithReference(ref)
			}
			return []*ledger.Log{ledger.NewTransactionLogWithDate(t, map[string]metadata.Metadata{}, ledger.Time{})}
		}
	}
	steps := []step{
		mkTx(c04T1, metadata.Metadata{}, "", p("world", "orders:7", 10)),
		mkTx(c04T1, metadata.Metadata{"kind": "sale"}, "", p("orders:7", "users:1", 5)),
		mkTx(c04T0, metadata.Metadata{"kind": "refund"}, "r-1", p("world", "users:2", 3)),
		mkTx(c04T2, metadata.Metadata{}, "r-2", p("users:1", "orders", 5)),
		func(s *c04State) []*ledger.Log {
			return []*ledger.Log{ledger.NewSetMetadataOnAccountLog(ledger.Time{}, "users:1", metadata.Metadata{"tier": "gold"})}
		},
		func(s *c04State) []*ledger.Log {
			return []*ledger.Log{ledger.NewSetMetadataOnAccountLog(ledger.Time{}, "orders:7", metadata.Metadata{"tier": "silver"})}
		},
		func(s *c04State) []*ledger.Log {
			return []*ledger.Log{ledger.NewSetMetadataOnAccountLog(ledger.Time{}, "orders", metadata.Metadata{"tier": "gold", "vip": "yes"})}
		},
		func(s *c04State) []*ledger.Log {
			return []*ledger.Log{ledger.NewSetMetadataOnTransactionLog(ledger.Time{}, big.NewInt(0), metadata.Metadata{"kind": "sale"})}
		},
		func(s *c04State) []*ledger.Log {
			return []*ledger.Log{ledger.NewDeleteMetadataLog(ledger.Time{}, ledger.DeleteMetadataLogPayload{TargetType: ledger.MetaTargetTypeAccount, TargetID: "orders", Key: "vip"})}
		},
	}
	st := root
	for i, mk := range steps {
		n, errText := st.apply(c04Op{Name: fmt.Sprintf("valuefilters-%d", i), Ledger: "l1", Make: mk})
		if n == nil {
			if interpreterLimit(errText) {
				rep.Undecide("the interpreter cannot execute the schema / a statement: " + errText)
			} else {
				rep.Violation("insert-error:filters", "InsertLogs failed while building the filter fixture: "+errText, map[string]interface{}{"engine": "pgmini-filters"})
			}
			return 0, 0
		}
		st = n
	}
	// the other ledger of the bucket moves the same accounts afterwards (higher seq), to other balances and with other metadata
	for i, ps := range [][]ledger.Posting{{p("world", "users:1", 1000)}, {p("world", "orders:7", 1000)}, {p("users:2", "world", 500)}, {p("orders", "sink", 900)}} {
		ps := ps
		n, errText := st.apply(c04Op{Name: fmt.Sprintf("valuefilters-l2-%d", i), Ledger: "l2", Make: func(s *c04State) []*ledger.Log {
			t := ledger.NewTransaction().WithPostings(ps...).WithID(nextTxID(s.logs["l2"])).WithDate(c04T1).WithMetadata(metadata.Metadata{"kind": "sale"}).WithReference(fmt.Sprintf("r-%d", i+1))
			return []*ledger.Log{ledger.NewTransactionLogWithDate(t, map[string]metadata.Metadata{ps[0].Destination: {"tier": "gold", "vip": "yes"}}, ledger.Time{})}
		}})
		if n == nil {
			if interpreterLimit(errText) {
				rep.Undecide("the interpreter cannot execute the schema / a statement: " + errText)
			} else {
				rep.Violation("insert-error:filters", "InsertLogs failed while building the filter fixture: "+errText, map[string]interface{}{"engine": "pgmini-filters"})
			}
			return 0, 0
		}
		st = n
	}
	logs := st.logs["l1"]
	fold := memstore.Fold(logs)
	exp := expectedMoves(logs)
	accSet := map[string]bool{}
	for _, e := range exp {
		accSet[e.acc] = true
	}
	var accounts []string
	for a := range accSet {
		accounts = append(accounts, a)
	}
	sort.Strings(accounts)
	cmpInt := func(op string, a, b *big.Int) bool {
		c := a.Cmp(b)
		switch op {
		case "$match":
			return c == 0
		case "$lt":
			return c < 0
		case "$lte":
			return c <= 0
		case "$gt":
			return c > 0
		case "$gte":
			return c >= 0
		}
		return false
	}
	type filt struct {
		json string
		acc  func(a string) bool              // nil: not an account filter
		tx   func(t *ledger.Transaction) bool // nil: not a transaction filter
	}
	var leaves []filt
	ops := []string{"$match", "$lt", "$lte", "$gt", "$gte"}
	for _, op := range ops {
		for _, n := range []int64{0, 5, 10} {
			op, n := op, n
			leaves = append(leaves, filt{json: fmt.Sprintf(`{%q:{"balance[X]":%d}}`, op, n), acc: func(a string) bool {
				touched := false
				for _, e := range exp {
					if e.acc == a && e.asset == "X" {
						touched = true
					}
				}
				return touched && cmpInt(op, fold.Balance(a, "X"), big.NewInt(n))
			}})
		}
		for _, ts := range []ledger.Time{c04T0, c04T1, {Time: c04T1.Time.Add(time.Second)}} {
			op, ts := op, ts
			leaves = append(leaves, filt{json: fmt.Sprintf(`{%q:{"timestamp":%q}}`, op, ts.Time.UTC().Format(time.RFC3339Nano)), tx: func(t *ledger.Transaction) bool {
				return cmpInt(op, big.NewInt(t.Timestamp.Time.UnixMicro()), big.NewInt(ts.Time.UnixMicro()))
			}})
		}
	}
	for _, k := range []string{"tier", "vip", "nope"} {
		for _, v := range []string{"gold", "silver", "yes"} {
			k, v := k, v
			leaves = append(leaves, filt{json: fmt.Sprintf(`{"$match":{"metadata[%s]":%q}}`, k, v), acc: func(a string) bool { return fold.AccountMeta(a)[k] == v }})
		}
	}
	for _, v := range []string{"sale", "refund", "nope"} {
		v := v
		leaves = append(leaves, filt{json: fmt.Sprintf(`{"$match":{"metadata[kind]":%q}}`, v), tx: func(t *ledger.Transaction) bool { return t.Metadata["kind"] == v }})
	}
	for _, v := range []string{"r-1", "r-2", "nope"} {
		v := v
		leaves = append(leaves, filt{json: fmt.Sprintf(`{"$match":{"reference":%q}}`, v), tx: func(t *ledger.Transaction) bool { return t.Reference == v }})
	}
	addrLeaf := filt{json: `{"$match":{"address":"orders:"}}`, acc: func(a string) bool { return strings.HasPrefix(a, "orders:") && strings.Count(a, ":") == 1 }}
	srcLeaf := filt{json: `{"$match":{"source":"world"}}`, tx: func(t *ledger.Transaction) bool {
		for _, ps := range t.Postings {
			if ps.Source == "world" {
				return true
			}
		}
		return false
	}}
	all := append([]filt{}, leaves...)
	for _, l := range leaves {
		l := l
		if l.acc != nil {
			all = append(all,
				filt{json: `{"$not":` + l.json + `}`, acc: func(a string) bool { return !l.acc(a) }},
				filt{json: `{"$and":[` + addrLeaf.json + `,` + l.json + `]}`, acc: func(a string) bool { return addrLeaf.acc(a) && l.acc(a) }},
				filt{json: `{"$or":[` + addrLeaf.json + `,` + l.json + `]}`, acc: func(a string) bool { return addrLeaf.acc(a) || l.acc(a) }})
		} else {
			all = append(all,
				filt{json: `{"$not":` + l.json + `}`, tx: func(t *ledger.Transaction) bool { return !l.tx(t) }},
				filt{json: `{"$and":[` + srcLeaf.json + `,` + l.json + `]}`, tx: func(t *ledger.Transaction) bool { return srcLeaf.tx(t) && l.tx(t) }},
				filt{json: `{"$or":[` + srcLeaf.json + `,` + l.json + `]}`, tx: func(t *ledger.Transaction) bool { return srcLeaf.tx(t) || l.tx(t) }})
		}
	}
	ctx := context.Background()
	s := st.store("l1")
	defer s.GetDB().Close()
	far := ledger.Time{Time: c04T2.Time.AddDate(1, 0, 0)}
	for _, f := range all {
		filters++
		replay := map[string]interface{}{"engine": "pgmini-filters", "filter": f.json}
		viol := func(kind, why string) {
			rep.Violation("filter-"+kind+":"+filterShape(f.json), why+" [filter "+f.json+"]", replay)
		}
		func() {
			defer func() {
				if r := recover(); r != nil {
					viol("panic", fmt.Sprint("a read method panics: ", r))
				}
			}()
			for _, pit := range []*ledger.Time{nil, &far} {
				qb, err := query.ParseJSON(f.json)
				if err != nil {
					return
				}
				if f.acc != nil {
					var want []string
					for _, a := range accounts {
						if f.acc(a) {
							want = append(want, a)
						}
					}
					opts := ledgerstore.NewPaginatedQueryOptions(ledgerstore.PITFilterWithVolumes{PITFilter: ledgerstore.PITFilter{PIT: pit}}).WithQueryBuilder(qb).WithPageSize(100)
					cur, err := s.GetAccountsWithVolumes(ctx, ledgerstore.NewGetAccountsQuery(opts))
					reads++
					if err != nil {
						if strings.Contains(err.Error(), "unsupported") {
							rep.Undecide("interpreter: " + err.Error())
						}
						return // refused as an invalid filter
					}
					var got []string
					for _, a := range cur.Data {
						got = append(got, a.Address)
					}
					if fmt.Sprint(got) != fmt.Sprint(want) {
						viol("accounts", fmt.Sprintf("the account listing (pit %s) answers %v, evaluating the filter on the replayed log selects %v", pitStr(pit), got, want))
						return
					}
					n, err := s.CountAccounts(ctx, ledgerstore.NewGetAccountsQuery(opts))
					reads++
					if err != nil || n != len(want) {
						viol("count-accounts", fmt.Sprintf("CountAccounts (pit %s) = %d (%v), %d accounts satisfy the filter", pitStr(pit), n, err, len(want)))
						return
					}
				} else {
					var want []string
					for _, id := range fold.TxIDs() {
						if f.tx(fold.Tx(id)) {
							want = append(want, id)
						}
					}
					sort.Strings(want)
					opts := ledgerstore.NewPaginatedQueryOptions(ledgerstore.PITFilterWithVolumes{PITFilter: ledgerstore.PITFilter{PIT: pit}}).WithQueryBuilder(qb).WithPageSize(100)
					cur, err := s.GetTransactions(ctx, ledgerstore.NewGetTransactionsQuery(opts))
					reads++
					if err != nil {
						if strings.Contains(err.Error(), "unsupported") {
							rep.Undecide("interpreter: " + err.Error())
						}
						return
					}
					var got []string
					for _, t := range cur.Data {
						got = append(got, t.ID.String())
					}
					sort.Strings(got)
					if fmt.Sprint(got) != fmt.Sprint(want) {
						viol("transactions", fmt.Sprintf("the transaction listing (pit %s) answers ids %v, evaluating the filter on the replayed log selects %v", pitStr(pit), got, want))
						return
					}
					n, err := s.CountTransactions(ctx, ledgerstore.NewGetTransactionsQuery(opts))
					reads++
					if err != nil || n != len(want) {
						viol("count-transactions", fmt.Sprintf("CountTransactions (pit %s) = %d (%v), %d transactions satisfy the filter", pitStr(pit), n, err, len(want)))
						return
					}
				}
			}
		}()
	}
	// the v1 API spells its filters as query parameters: each is sent through the real router
	b := recbackend.New("l1")
	b.R = recbackend.Reads{GetAccountsWithVolumes: s.GetAccountsWithVolumes, CountAccounts: s.CountAccounts, GetAggregatedBalances: s.GetAggregatedBalances,
		GetLogs: s.GetLogs, CountTransactions: s.CountTransactions, GetTransactions: s.GetTransactions,
		GetAccountWithVolumes: s.GetAccountWithVolumes, GetTransactionWithVolumes: s.GetTransactionWithVolumes}
	router := newRouter(b, false)
	type v1f struct {
		params string
		acc    func(a string) bool
		tx     func(t *ledger.Transaction) bool
		// mayRefuse: the request may also be answered 4xx (a parameter without a defined reading); never by a listing
		// that ignores it
		mayRefuse bool
	}
	var v1 []v1f
	// a balance without operator (reading: equality, or refused), an unknown operator, a balance that is no number - alone
	// and next to another filter that must not be dropped with it
	for _, n := range []int64{0, 5} {
		n := n
		eq := func(a string) bool { return fold.Balance(a, "X").Cmp(big.NewInt(n)) == 0 }
		v1 = append(v1, v1f{params: fmt.Sprintf("balance=%d", n), acc: eq, mayRefuse: true})
		v1 = append(v1, v1f{params: fmt.Sprintf("balance=%d&address=users%%3A", n), acc: func(a string) bool { return eq(a) && strings.HasPrefix(a, "users:") && strings.Count(a, ":") == 1 }, mayRefuse: true})
	}
	for _, bad := range []string{"balance=abc", "balance=5&balanceOperator=between", "balance=abc&address=users%3A", "balance=1.5"} {
		v1 = append(v1, v1f{params: bad, acc: func(a string) bool { return false }, mayRefuse: true})
	}
	for _, op := range []string{"e", "ne", "lt", "lte", "gt", "gte"} {
		for _, n := range []int64{0, 5, 10} {
			op, n := op, n
			v1 = append(v1, v1f{params: fmt.Sprintf("balance=%d&balanceOperator=%s", n, op), acc: func(a string) bool {
				bal := fold.Balance(a, "X")
				c := bal.Cmp(big.NewInt(n))
				switch op {
				case "e":
					return c == 0
				case "ne":
					return c != 0
				case "lt":
					return c < 0
				case "lte":
					return c <= 0
				case "gt":
					return c > 0
				}
				return c >= 0
			}})
		}
	}
	for _, a := range []string{"orders:", "users:1", ":7", "orders"} {
		a := a
		m := func(addr string) bool {
			ps, as := strings.Split(a, ":"), strings.Split(addr, ":")
			if len(ps) != len(as) {
				return false
			}
			for i := range ps {
				if ps[i] != "" && ps[i] != as[i] {
					return false
				}
			}
			return true
		}
		v1 = append(v1, v1f{params: "address=" + url.QueryEscape(a), acc: m})
		v1 = append(v1, v1f{params: "account=" + url.QueryEscape(a), tx: func(t *ledger.Transaction) bool {
			for _, ps := range t.Postings {
				if m(ps.Source) || m(ps.Destination) {
					return true
				}
			}
			return false
		}})
		v1 = append(v1, v1f{params: "source=" + url.QueryEscape(a), tx: func(t *ledger.Transaction) bool {
			for _, ps := range t.Postings {
				if m(ps.Source) {
					return true
				}
			}
			return false
		}})
		v1 = append(v1, v1f{params: "destination=" + url.QueryEscape(a), tx: func(t *ledger.Transaction) bool {
			for _, ps := range t.Postings {
				if m(ps.Destination) {
					return true
				}
			}
			return false
		}})
	}
	for _, kv := range [][2]string{{"tier", "gold"}, {"tier", "silver"}, {"vip", "yes"}} {
		kv := kv
		v1 = append(v1, v1f{params: url.QueryEscape("metadata["+kv[0]+"]") + "=" + kv[1], acc: func(a string) bool { return fold.AccountMeta(a)[kv[0]] == kv[1] }})
	}
	for _, v := range []string{"sale", "refund"} {
		v := v
		v1 = append(v1, v1f{params: url.QueryEscape("metadata[kind]") + "=" + v, tx: func(t *ledger.Transaction) bool { return t.Metadata["kind"] == v }})
	}
	for _, v := range []string{"r-1", "nope"} {
		v := v
		v1 = append(v1, v1f{params: "reference=" + v, tx: func(t *ledger.Transaction) bool { return t.Reference == v }})
	}
	for _, ts := range []ledger.Time{c04T0, c04T1, {Time: c04T1.Time.Add(time.Second)}} {
		ts := ts
		enc := url.QueryEscape(ts.Time.UTC().Format(time.RFC3339Nano))
		v1 = append(v1, v1f{params: "start_time=" + enc, tx: func(t *ledger.Transaction) bool { return !t.Timestamp.Time.Before(ts.Time) }})
		v1 = append(v1, v1f{params: "end_time=" + enc, tx: func(t *ledger.Transaction) bool { return t.Timestamp.Time.Before(ts.Time) }})
		v1 = append(v1, v1f{params: "start_time=" + url.QueryEscape(c04T0.Time.UTC().Format(time.RFC3339Nano)) + "&end_time=" + enc, tx: func(t *ledger.Transaction) bool {
			return !t.Timestamp.Time.Before(c04T0.Time) && t.Timestamp.Time.Before(ts.Time)
		}})
	}
	for _, after := range []int64{0, 2, 3, 9} {
		after := after
		v1 = append(v1, v1f{params: fmt.Sprintf("after=%d", after), tx: func(t *ledger.Transaction) bool { return t.ID.Cmp(big.NewInt(after)) < 0 }})
	}
	// v1 logs: after / start_time / end_time (entries are dated c04Base + n seconds)
	type logf struct {
		params string
		sel    func(l *ledger.ChainedLog) bool
	}
	var lf []logf
	for _, after := range []int64{0, 3, 100} {
		after := after
		lf = append(lf, logf{fmt.Sprintf("after=%d", after), func(l *ledger.ChainedLog) bool { return l.ID.Cmp(big.NewInt(after)) < 0 }})
	}
	for _, n := range []int{0, 3, 100} {
		ts := c04Base.Add(time.Duration(n) * time.Second)
		enc := url.QueryEscape(ts.UTC().Format(time.RFC3339Nano))
		lf = append(lf, logf{"start_time=" + enc, func(l *ledger.ChainedLog) bool { return !l.Date.Time.Before(ts) }})
		lf = append(lf, logf{"end_time=" + enc, func(l *ledger.ChainedLog) bool { return l.Date.Time.Before(ts) }})
	}
	for _, f := range lf {
		filters++
		replay := map[string]interface{}{"engine": "pgmini-filters", "v1_logs_params": f.params}
		name := f.params[:strings.Index(f.params, "=")]
		req := httptest.NewRequest("GET", "/api/ledger/l1/logs?pageSize=100&"+f.params, nil).WithContext(engineh.QuietCtx())
		w := httptest.NewRecorder()
		panicked := false
		func() {
			defer func() {
				if r := recover(); r != nil {
					panicked = true
					rep.Violation("filter-v1-logs-panic:"+name, fmt.Sprintf("GET v1 logs?%s panics: %v", f.params, r), replay)
				}
			}()
			router.ServeHTTP(w, req)
		}()
		reads++
		if panicked {
			continue
		}
		var body struct {
			Cursor struct {
				Data []map[string]interface{} `json:"data"`
			} `json:"cursor"`
			ErrorMessage string `json:"errorMessage"`
		}
		_ = json.Unmarshal(w.Body.Bytes(), &body)
		if w.Code != 200 {
			rep.Violation("filter-v1-logs-error:"+name, fmt.Sprintf("GET v1 logs?%s answers %d %s", f.params, w.Code, body.ErrorMessage), replay)
			continue
		}
		var got, want []string
		for _, it := range body.Cursor.Data {
			got = append(got, fmt.Sprint(it["id"]))
		}
		for i := len(logs) - 1; i >= 0; i-- {
			if f.sel(logs[i]) {
				want = append(want, logs[i].ID.String())
			}
		}
		if fmt.Sprint(got) != fmt.Sprint(want) {
			rep.Violation("filter-v1-logs-result:"+name, fmt.Sprintf("GET v1 logs?%s lists ids %v, the log has %v (newest first)", f.params, got, want), replay)
		}
	}
	for _, f := range v1 {
		filters++
		replay := map[string]interface{}{"engine": "pgmini-filters", "v1_params": f.params}
		viol := func(kind, why string) {
			name := f.params
			if i := strings.IndexAny(name, "=&"); i > 0 {
				name = name[:i]
			}
			rep.Violation("filter-v1-"+kind+":"+name, why+" [GET v1 ...?"+f.params+"]", replay)
		}
		path := "accounts"
		if f.tx != nil {
			path = "transactions"
		}
		req := httptest.NewRequest("GET", "/api/ledger/l1/"+path+"?pageSize=100&"+f.params, nil).WithContext(engineh.QuietCtx())
		w := httptest.NewRecorder()
		func() {
			defer func() {
				if r := recover(); r != nil {
					viol("panic", fmt.Sprint("the endpoint panics: ", r))
				}
			}()
			router.ServeHTTP(w, req)
		}()
		reads++
		var body struct {
			Cursor struct {
				Data []map[string]interface{} `json:"data"`
			} `json:"cursor"`
			ErrorCode    string `json:"errorCode"`
			ErrorMessage string `json:"errorMessage"`
		}
		_ = json.Unmarshal(w.Body.Bytes(), &body)
		if w.Code >= 400 && w.Code < 500 && f.mayRefuse {
			continue
		}
		if w.Code != 200 {
			if strings.Contains(body.ErrorMessage, "pgmini: unsupported") {
				rep.Undecide("interpreter: " + body.ErrorMessage)
				continue
			}
			viol("error", fmt.Sprintf("a filter parameter the endpoint documents and parses is answered with %d %s %s", w.Code, body.ErrorCode, body.ErrorMessage))
			continue
		}
		var got, want []string
		if f.acc != nil {
			for _, it := range body.Cursor.Data {
				got = append(got, fmt.Sprint(it["address"]))
			}
			for _, a := range accounts {
				if f.acc(a) {
					want = append(want, a)
				}
			}
		} else {
			for _, it := range body.Cursor.Data {
				got = append(got, fmt.Sprint(it["txid"]))
			}
			for _, id := range fold.TxIDs() {
				if f.tx(fold.Tx(id)) {
					want = append(want, id)
				}
			}
			sort.Strings(got)
			sort.Strings(want)
		}
		if fmt.Sprint(got) != fmt.Sprint(want) {
			viol("result", fmt.Sprintf("the listing answers %v, evaluating the filter on the replayed log selects %v", got, want))
		}
		if f.mayRefuse {
			continue
		}
		// the count of the same request (HEAD): the number of items the filter selects
		hreq := httptest.NewRequest("HEAD", "/api/ledger/l1/"+path+"?"+f.params, nil).WithContext(engineh.QuietCtx())
		hw := httptest.NewRecorder()
		func() {
			defer func() {
				if r := recover(); r != nil {
					viol("count-panic", fmt.Sprint("HEAD panics: ", r))
				}
			}()
			router.ServeHTTP(hw, hreq)
		}()
		reads++
		if hw.Code >= 300 {
			if strings.Contains(hw.Body.String(), "pgmini: unsupported") {
				rep.Undecide("interpreter: " + hw.Body.String())
				continue
			}
			viol("count-error", fmt.Sprintf("HEAD with a filter parameter the listing accepts is answered with %d %s", hw.Code, hw.Body.String()))
		} else if c := hw.Header().Get("Count"); c != fmt.Sprint(len(want)) {
			viol("count", fmt.Sprintf("HEAD counts %s, evaluating the filter on the replayed log selects %d (%v)", c, len(want), want))
		}
	}
	return filters, reads
}

// filterShape: the filter with its values removed (keys and operators only)
func filterShape(js string) string {
	var b strings.Builder
	inStr := false
	depth := 0
	for i := 0; i < len(js); i++ {
		c := js[i]
		switch {
		case c == '"':
			inStr = !inStr
		case inStr:
			b.WriteByte(c)
		case c == '{' || c == '[':
			depth++
			b.WriteByte('(')
		case c == '}' || c == ']':
			depth--
			b.WriteByte(')')
		case c == ':':
			b.WriteByte(' ')
		}
	}
	s := b.String()
	for _, v := range []string{"gold", "silver", "yes", "sale", "refund", "nope", "r-1", "r-2"} {
		s = strings.ReplaceAll(s, " "+v, " _")
	}
	if len(s) > 80 {
		s = s[:80]
	}
	return s
}
