package main

import (
	"fmt"
	"strings"
	"sync/atomic"
	"time"

	"github.com/formancehq/ledger/internal/machine/script/compiler"
	"github.com/formancehq/ledger/xverif/lib/evid"
	"github.com/formancehq/ledger/xverif/lib/nsgen"
	"github.com/formancehq/ledger/xverif/lib/nsrun"
)

func init() { checks["C12"] = c12 }

// 27-byte alphabet for raw script texts
var c12Bytes = []string{"s", "e", "n", "d", " ", "\n", "[", "]", "(", ")", "{", "}", "@", "$", "a", "A", "1", "/", "%", "*", "\"", "=", "-", "+", "\x00", "\xff", "é"}

// one representative per lexer token (plus a few that the grammar combines)
var c12Tokens = []string{"\n", "vars", "meta", "set_tx_meta", "set_account_meta", "print", "fail", "send", "source", "from", "max", "destination", "to",
	"allocate", "+", "-", "(", ")", "[", "]", "{", "}", "=", "account", "asset", "number", "monetary", "portion", "string", "\"k\"", "1/2", "10%",
	"remaining", "kept", "balance", "save", "7", "%", "$v", "@a", "@world", "X", ",", "*", "allowing overdraft up to", "allowing unbounded overdraft", "// c\n", "/* c */"}

func panicKey(res *nsrun.Result) string {
	// fingerprint: panic message with digits/quoted parts abstracted + innermost repo frame
	msg := res.Panic
	if len(msg) > 80 {
		msg = msg[:80]
	}
	frame := ""
	for _, l := range strings.Split(res.Stack, "\n") {
		l = strings.TrimSpace(l)
		if strings.HasPrefix(l, "/repo/") {
			frame = l
			if i := strings.Index(frame, " "); i > 0 {
				frame = frame[:i]
			}
			// strip line numbers so unrelated edits do not change the fingerprint
			if i := strings.LastIndex(frame, ":"); i > 0 {
				frame = frame[:i]
			}
			break
		}
	}
	return "panic:" + msg + "@" + frame
}

func obsOf(res *nsrun.Result) string {
	// the error *text* is not part of the observation: which of two equally valid complaints a compile error names may depend on map iteration order
	return fmt.Sprintf("%s|%s|%v|%v|%v", res.Class, res.Phase, res.Postings, res.TxMeta, res.AccMeta)
}

// runText: compile + run a raw text on a few variable maps / stores; every phase must return.
func c12Text(rep *evid.Reporter, text string, st *nsStats, family string) {
	inputs := []*nsgen.Input{
		{},
		{Vars: map[string]string{"v": "a"}, Balances: map[string]map[string]string{"a": {"X": "-5", "A": "3"}}},
	}
	comp := nsrun.Compile(compiler.Compile, text)
	atomic.AddInt64(&st.programs, 1)
	for _, in := range inputs {
		res := comp.Exec(in)
		atomic.AddInt64(&st.cases, 1)
		if res.Class == nsgen.ClsPanic {
			rep.Violation(panicKey(res), "panic on a "+family+" text: "+res.Panic, nsReplay{Engine: "nsgen", Text: text, Input: in})
			return
		}
		if res.Class != nsgen.ClsCompile {
			atomic.AddInt64(&st.ntCount, 1)
		}
		if comp.Fail != nil {
			break
		}
	}
	st.classes.Add(family + ":" + func() string {
		if comp.Fail != nil {
			return "rejected"
		}
		return "compiled"
	}())
}

func enumStrings(alpha []string, maxLen int, f func(s string)) int {
	n := 0
	var rec func(prefix string, l int)
	rec = func(prefix string, l int) {
		if l > 0 {
			f(prefix)
			n++
		}
		if l == maxLen {
			return
		}
		for _, a := range alpha {
			rec(prefix+a, l+1)
		}
	}
	rec("", 0)
	return n
}

func c12() int {
	rep := evid.NewReporter("C12", "exploration")
	st := newStats()
	wd := newWatchdog(rep, 180*time.Second)

	// (i) byte strings, (ii) token strings
	byteLen, tokLen := 3, 3
	if rep.Thorough() {
		byteLen, tokLen = 4, 4
	}
	var texts []string
	enumStrings(c12Bytes, byteLen, func(s string) { texts = append(texts, s) })
	nBytes := len(texts)
	sep := func(alpha []string) []string {
		out := make([]string, len(alpha))
		for i, a := range alpha {
			out[i] = a + " "
		}
		return out
	}
	enumStrings(sep(c12Tokens), tokLen, func(s string) { texts = append(texts, s) })
	nToks := len(texts) - nBytes
	// (ii-b) what sits at the end of a line, under every line-end convention: positions reported by the lexer count the
	// bytes of the text as given, error messages are rendered from a normalised copy
	for _, prefix := range []string{"", "print ", "send ", "fail ", "vars{\n account ", "set_tx_meta(\"k\", ", "send [X 1] (\n source = ", "send [X 1] (\r\n source = @a\r\n destination = "} {
		for _, atom := range []string{"", "$", "@", "[", "\"", "1/", "x", "$v", "@a", "7", "[X", "%", "*", "é"} {
			for _, eol := range []string{"\n", "\r\n", "\r", "", " \r\n", "\t\n", "\t\r\n", "\r\n\r\n", "\n\r"} {
				for _, suffix := range []string{"", "}", ")"} {
					texts = append(texts, prefix+atom+eol+suffix)
				}
			}
		}
	}
	nLineEnds := len(texts) - nBytes - nToks
	evid.ParallelFor(len(texts), workers(), func(w, i int) {
		wd.begin(w, texts[i])
		fam := "byte-string"
		if i >= nBytes {
			fam = "token-string"
		}
		if i >= nBytes+nToks {
			fam = "line-end"
		}
		c12Text(rep, texts[i], st, fam)
		wd.end(w)
	})

	// (iii) the grammar space + meaningless-but-grammatical programs x variable maps x stores;
	// each program's inputs are run forward, then again in reverse order on a fresh compile: observations must agree.
	sp := nsgen.StandardSpace(rep.Thorough())
	odd := nsgen.OddPrograms(rep.Thorough())
	total := sp.Size() + len(odd)
	var nondet int64
	evid.ParallelFor(total, workers(), func(w, i int) {
		var p *nsgen.Program
		var inputs []*nsgen.Input
		if i < sp.Size() {
			p = sp.Program(i)
			p.EachInput(balAlphabet(rep), func(in *nsgen.Input) { inputs = append(inputs, in) })
		} else {
			p = odd[i-sp.Size()]
			inputs = nsgen.OddInputs(p)
		}
		text := p.Text()
		wd.begin(w, text)
		defer wd.end(w)
		comp := nsrun.Compile(compiler.Compile, text)
		atomic.AddInt64(&st.programs, 1)
		if comp.Fail != nil && comp.Fail.Class == nsgen.ClsPanic {
			rep.Violation(panicKey(comp.Fail), "panic while compiling: "+comp.Fail.Panic, nsReplay{Engine: "nsgen", Text: text, Input: &nsgen.Input{}})
			return
		}
		obs := make([]string, len(inputs))
		local := map[string]int{}
		for k, in := range inputs {
			res := comp.Exec(in)
			atomic.AddInt64(&st.cases, 1)
			local[res.Class]++
			obs[k] = obsOf(res)
			if res.Class == nsgen.ClsPanic {
				rep.Violation(panicKey(res), "panic in phase "+res.Phase+": "+res.Panic, nsReplay{Engine: "nsgen", Text: text, Input: in})
				continue
			}
			if res.Class != nsgen.ClsCompile {
				atomic.AddInt64(&st.ntCount, 1)
			}
			st.samples.Offer(func() interface{} {
				return map[string]interface{}{"program": text, "input": in, "class": res.Class, "err": res.Err}
			})
		}
		st.classes.Merge(local)
		// determinism / no residue: fresh compile, reverse order
		comp2 := nsrun.Compile(compiler.Compile, text)
		for k := len(inputs) - 1; k >= 0; k-- {
			res := comp2.Exec(inputs[k])
			if res.Class == nsgen.ClsPanic {
				continue
			}
			if o := obsOf(res); o != obs[k] && !strings.HasPrefix(obs[k], nsgen.ClsPanic) {
				atomic.AddInt64(&nondet, 1)
				rep.Violation("residue:"+shapeKey(p), "the same (script, variables, store) gave a different outcome when run again in another order", nsReplay{Engine: "nsgen", Text: text, Input: inputs[k], Observed: o, Expected: obs[k]})
			}
		}
	})
	// (iv) nothing left behind in the engine's compilation cache: near-duplicate texts in every order
	nearRuns := nearDuplicateCache(rep, "residue-")
	cov := st.coverage(sp, "(i) every byte string of length <= "+fmt.Sprint(byteLen)+" over a 27-byte alphabet; (ii) every token string of length <= "+fmt.Sprint(tokLen)+" over "+fmt.Sprint(len(c12Tokens))+" lexer-token representatives; (iii) "+nsRule+"; plus the enumerated family of meaningless-but-grammatical programs x valid/missing/extraneous/ill-typed variable maps x store contents. Every (program,input) is run twice (forward, and in reverse order on a fresh compile) and the two observations compared. Non-trivial = got past compilation")
	cov["byte_strings"] = nBytes
	cov["token_strings"] = nToks
	cov["line_end_texts"] = nLineEnds
	// scripts reading balances and metadata from the REAL store (realstore.go): the stand-in stores of the enumerations above
	// answer 0 for an account without moves, the real one answered NULL
	rsH, rsS := realStoreConformance(rep, "")
	cov["realstore_histories"], cov["realstore_steps"] = rsH, rsS
	cov["odd_programs"] = len(odd)
	cov["near_duplicate_cache_runs"] = nearRuns
	rep.Assume = []string{"termination is checked by a 180 s per-case watchdog (no case comes near it); the VM has no backward jumps"}
	// sequences of scripts through one Commander / one cache / two ledgers (scriptseq.go)
	seqN, seqSteps := scriptSequences(rep, "residue-")
	cov["script_sequences"], cov["script_sequence_steps"] = seqN, seqSteps
	return rep.Finish(cov)
}
