package main

import (
	"context"
	"encoding/json"
	"fmt"
	"math/big"
	"net/http"
	"net/http/httptest"
	"strings"
	"sync/atomic"

	ledger "github.com/formancehq/ledger/internal"
	v2 "github.com/formancehq/ledger/internal/api/v2"
	"github.com/formancehq/ledger/internal/engine/command"
	"github.com/formancehq/ledger/xverif/lib/engineh"
	"github.com/formancehq/ledger/xverif/lib/evid"
	"github.com/formancehq/ledger/xverif/lib/memstore"
	"github.com/formancehq/ledger/xverif/lib/recbackend"
	"github.com/formancehq/stack/libs/go-libs/metadata"
)

func init() { checks["C18"] = c18 }

type bulkKind struct {
	Name   string
	Action string
	Data   string
	// Apply performs the element's operation directly on a commander (twin); nil = cannot be executed (always fails)
	Apply func(ctx context.Context, c *command.Commander, p command.Parameters) error
}

func postingsScript(src, dst string, amt int64) ledger.RunScript {
	return ledger.TxToScriptData(ledger.TransactionData{Postings: ledger.Postings{ledger.NewPosting(src, dst, "USD", big.NewInt(amt))}}, false)
}

func bulkKinds() []bulkKind {
	return []bulkKind{
		{"create-ok", "CREATE_TRANSACTION", `{"postings":[{"source":"world","destination":"bank","amount":10,"asset":"USD"}]}`,
			func(ctx context.Context, c *command.Commander, p command.Parameters) error {
				_, err := c.CreateTransaction(ctx, p, postingsScript("world", "bank", 10))
				return err
			}},
		{"create-with-meta-ref", "CREATE_TRANSACTION", `{"postings":[{"source":"world","destination":"shop","amount":3,"asset":"USD"}],"metadata":{"campaign":"x"},"reference":"ref-a","timestamp":"2023-01-01T00:00:00Z"}`,
			func(ctx context.Context, c *command.Commander, p command.Parameters) error {
				ts, _ := ledger.ParseTime("2023-01-01T00:00:00Z")
				rs := ledger.TxToScriptData(ledger.TransactionData{Postings: ledger.Postings{ledger.NewPosting("world", "shop", "USD", big.NewInt(3))}, Metadata: metadata.Metadata{"campaign": "x"}, Reference: "ref-a", Timestamp: ts}, false)
				_, err := c.CreateTransaction(ctx, p, rs)
				return err
			}},
		{"create-insufficient", "CREATE_TRANSACTION", `{"postings":[{"source":"poor","destination":"bank","amount":10,"asset":"USD"}]}`,
			func(ctx context.Context, c *command.Commander, p command.Parameters) error {
				_, err := c.CreateTransaction(ctx, p, postingsScript("poor", "bank", 10))
				return err
			}},
		{"create-compile-error", "CREATE_TRANSACTION", `{"script":{"plain":"send [USD 1] ("}}`,
			func(ctx context.Context, c *command.Commander, p command.Parameters) error {
				_, err := c.CreateTransaction(ctx, p, ledger.RunScript{Script: ledger.Script{Plain: "send [USD 1] (", Vars: map[string]string{}}})
				return err
			}},
		{"add-metadata-account", "ADD_METADATA", `{"targetType":"ACCOUNT","targetId":"bank","metadata":{"k":"v"}}`,
			func(ctx context.Context, c *command.Commander, p command.Parameters) error {
				return c.SaveMeta(ctx, p, ledger.MetaTargetTypeAccount, "bank", metadata.Metadata{"k": "v"})
			}},
		{"add-metadata-missing-tx", "ADD_METADATA", `{"targetType":"TRANSACTION","targetId":999,"metadata":{"k":"v"}}`,
			func(ctx context.Context, c *command.Commander, p command.Parameters) error {
				return c.SaveMeta(ctx, p, ledger.MetaTargetTypeTransaction, big.NewInt(999), metadata.Metadata{"k": "v"})
			}},
		{"revert-0", "REVERT_TRANSACTION", `{"id":0}`,
			func(ctx context.Context, c *command.Commander, p command.Parameters) error {
				_, err := c.RevertTransaction(ctx, p, big.NewInt(0), false)
				return err
			}},
		// transactions 1 and 3 brought funds that have moved on since: reverting them overdraws unless forced
		{"revert-1-forced", "REVERT_TRANSACTION", `{"id":1,"force":true}`,
			func(ctx context.Context, c *command.Commander, p command.Parameters) error {
				_, err := c.RevertTransaction(ctx, p, big.NewInt(1), true)
				return err
			}},
		{"revert-3-unforced", "REVERT_TRANSACTION", `{"id":3}`,
			func(ctx context.Context, c *command.Commander, p command.Parameters) error {
				_, err := c.RevertTransaction(ctx, p, big.NewInt(3), false)
				return err
			}},
		{"delete-metadata", "DELETE_METADATA", `{"targetType":"ACCOUNT","targetId":"bank","key":"k"}`,
			func(ctx context.Context, c *command.Commander, p command.Parameters) error {
				return c.DeleteMetadata(ctx, p, ledger.MetaTargetTypeAccount, "bank", "k")
			}},
		{"unknown-action", "FROBNICATE", `{}`, nil},
		{"malformed-create", "CREATE_TRANSACTION", `{"postings":"nope"}`, nil},
		{"malformed-revert", "REVERT_TRANSACTION", `"x"`, nil},
		{"add-metadata-bad-target", "ADD_METADATA", `{"targetType":"TRANSACTION","targetId":"abc","metadata":{"k":"v"}}`, nil},
		{"add-metadata-numeric-account", "ADD_METADATA", `{"targetType":"ACCOUNT","targetId":5,"metadata":{"k":"v"}}`, nil},
		{"add-metadata-unknown-target-type", "ADD_METADATA", `{"targetType":"LEDGER","targetId":"a","metadata":{"k":"v"}}`, nil},
		{"delete-metadata-null-tx", "DELETE_METADATA", `{"targetType":"TRANSACTION","targetId":null,"key":"k"}`, nil},
		{"delete-metadata-bad-target", "DELETE_METADATA", `{"targetType":"TRANSACTION","targetId":{"x":1},"key":"k"}`, nil},
	}
}

func seedStore() *memstore.Store {
	st := memstore.New()
	tx := ledger.NewTransaction().WithPostings(ledger.NewPosting("world", "seed", "USD", big.NewInt(5))).WithID(big.NewInt(0))
	st.Seed(ledger.NewTransactionLog(tx, nil))
	for i, ps := range []ledger.Posting{ledger.NewPosting("world", "gone", "USD", big.NewInt(5)), ledger.NewPosting("gone", "far", "USD", big.NewInt(5)),
		ledger.NewPosting("world", "gone2", "USD", big.NewInt(5)), ledger.NewPosting("gone2", "far", "USD", big.NewInt(5))} {
		st.Seed(ledger.NewTransactionLog(ledger.NewTransaction().WithPostings(ps).WithID(big.NewInt(int64(i+1))), nil))
	}
	return st
}

func c18() int {
	rep := evid.NewReporter("C18", "exploration")
	kinds := bulkKinds()
	maxLen := 3
	if rep.Thorough() {
		maxLen = 4
	}
	var seqs [][]int
	var rec func(cur []int)
	rec = func(cur []int) {
		if len(cur) > 0 {
			seqs = append(seqs, append([]int{}, cur...))
		}
		if len(cur) == maxLen {
			return
		}
		for i := range kinds {
			rec(append(cur, i))
		}
	}
	rec(nil)
	var evals, nontrivial int64
	var samples evid.Samples
	samples.N = 4
	patterns := evid.NewHistogram()
	evid.ParallelFor(len(seqs), workers(), func(w, si int) {
		seq := seqs[si]
		for _, cof := range []bool{false, true} {
			for _, ikMode := range []string{"none", "distinct", "same-kind-dup", "even-only", "odd-only"} {
				for _, entry := range []string{"ProcessBulk", "HTTP"} {
					name := func() string {
						var n []string
						for _, k := range seq {
							n = append(n, kinds[k].Name)
						}
						return strings.Join(n, ",")
					}()
					iks := make([]string, len(seq))
					for i, k := range seq {
						switch ikMode {
						case "distinct":
							iks[i] = fmt.Sprintf("ik-%d", i)
						case "same-kind-dup":
							iks[i] = "ik-" + kinds[k].Name // equal kinds share a key: the later one is a replay
						case "even-only":
							if i%2 == 0 {
								iks[i] = fmt.Sprintf("ik-%d", i)
							}
						case "odd-only":
							if i%2 == 1 {
								iks[i] = fmt.Sprintf("ik-%d", i)
							}
						}
					}
					// twin: the intended operations, one by one, on an identically seeded engine.
					// An element that cannot be executed (unknown action / malformed data) may legitimately be treated as
					// (A) an ordinary failing element with an error result, honouring continueOnFailure,
					// (B) a hard stop of the whole request with an error result at its position, or
					// (B') a hard stop with no result for that element (results for the elements before it are still owed).
					type expectation struct {
						mode       string
						expectFail []bool
						processed  int // elements that were looked at
						results    int // results owed
						calls      []string
						digest     string
					}
					var exps []expectation
					for _, mode := range []string{"A", "B", "B'"} {
						twin := engineh.Start(seedStore(), nil)
						e := expectation{mode: mode, expectFail: make([]bool, len(seq))}
						for i, k := range seq {
							e.processed = i + 1
							e.results = i + 1
							if kinds[k].Apply == nil {
								e.expectFail[i] = true
								if mode != "A" {
									if mode == "B'" {
										e.results = i
									}
									break
								}
							} else {
								e.expectFail[i] = kinds[k].Apply(twin.Ctx(), twin.Cmd, command.Parameters{IdempotencyKey: iks[i]}) != nil
								e.calls = append(e.calls, map[string]string{"CREATE_TRANSACTION": "CreateTransaction", "ADD_METADATA": "SaveMeta", "REVERT_TRANSACTION": "RevertTransaction", "DELETE_METADATA": "DeleteMetadata"}[kinds[k].Action])
							}
							if e.expectFail[i] && !cof {
								break
							}
						}
						e.digest, _ = storeDigest(twin.Store)
						twin.Stop()
						exps = append(exps, e)
					}
					expectFail, processed := exps[0].expectFail, exps[0].processed
					anyFail := false
					for i := 0; i < processed; i++ {
						anyFail = anyFail || expectFail[i]
					}
					// implementation
					implStore := seedStore()
					seedLen := implStore.Len()
					eng := engineh.Start(implStore, nil)
					b := recbackend.New("l1")
					b.Ledgers["l1"].W = eng.Cmd
					var bulk v2.Bulk
					for i, k := range seq {
						bulk = append(bulk, v2.Element{Action: kinds[k].Action, IdempotencyKey: iks[i], Data: json.RawMessage(kinds[k].Data)})
					}
					var results []v2.Result
					var failedFlag bool
					var panicked interface{}
					status := 0
					func() {
						defer func() { panicked = recover() }()
						if entry == "ProcessBulk" {
							l, _ := b.GetLedgerEngine(context.Background(), "l1")
							var err error
							results, failedFlag, err = v2.ProcessBulk(eng.Ctx(), l, bulk, cof)
							if err != nil {
								failedFlag = true
							}
						} else {
							// the body as a client writes it: a field the element does not use is absent, not empty
							var elems []map[string]interface{}
							for _, el := range bulk {
								m := map[string]interface{}{"action": el.Action}
								if el.IdempotencyKey != "" {
									m["ik"] = el.IdempotencyKey
								}
								if len(el.Data) > 0 {
									m["data"] = el.Data
								}
								elems = append(elems, m)
							}
							body, _ := json.Marshal(elems)
							url := "/api/ledger/v2/l1/_bulk"
							if cof {
								url += "?continueOnFailure=true"
							}
							req := httptest.NewRequest("POST", url, strings.NewReader(string(body))).WithContext(eng.Ctx())
							w := httptest.NewRecorder()
							newRouter(b, false).ServeHTTP(w, req)
							status = w.Code
							failedFlag = w.Code != http.StatusOK
							var resp struct {
								Data []v2.Result `json:"data"`
							}
							_ = json.Unmarshal(w.Body.Bytes(), &resp)
							results = resp.Data
						}
					}()
					implDigest, _ := storeDigest(eng.Store)
					// the transaction-producing entries the request appended, in order (for the content of the results)
					var txEntries []*ledger.Transaction
					for _, l := range eng.Store.Snapshot()[seedLen:] {
						switch p := l.Data.(type) {
						case ledger.NewTransactionLogPayload:
							txEntries = append(txEntries, p.Transaction)
						case ledger.RevertedTransactionLogPayload:
							txEntries = append(txEntries, p.RevertTransaction)
						}
					}
					eng.Stop()
					atomic.AddInt64(&evals, 1)
					if anyFail {
						atomic.AddInt64(&nontrivial, 1)
					}
					pat := ""
					for i := 0; i < processed; i++ {
						if expectFail[i] {
							pat += "F"
						} else {
							pat += "S"
						}
					}
					patterns.Add(fmt.Sprintf("%s cof=%v", pat, cof))
					replay := map[string]interface{}{"engine": "bulk", "elements": name, "continueOnFailure": cof, "ik": ikMode, "entry": entry}
					viol := func(kind, why string) {
						// fingerprint: kind + the element kind at fault (not the whole sequence)
						rep.Violation(kind, fmt.Sprintf("%s [elements=%s cof=%v ik=%s via %s status=%d]", why, name, cof, ikMode, entry, status), replay)
					}
					if panicked != nil {
						viol("panic", fmt.Sprint("bulk processing panicked: ", panicked))
						continue
					}
					var gotCalls []string
					for _, c := range b.WriteCalls() {
						gotCalls = append(gotCalls, c.Method)
					}
					// judge against each acceptable reading; the request passes if one of them matches entirely
					judge := func(e expectation) (kind, why string) {
						if strings.Join(gotCalls, ",") != strings.Join(e.calls, ",") {
							culprit := "order"
							if len(gotCalls) > len(e.calls) {
								culprit = "executed-after-failure"
							} else if len(gotCalls) < len(e.calls) {
								culprit = "skipped:" + firstBadKind(seq, kinds, e.processed)
							}
							return "calls-" + culprit, fmt.Sprintf("backend saw %v, the request order and stop rule give %v", gotCalls, e.calls)
						}
						if len(results) != e.results {
							return "result-count:" + firstBadKind(seq, kinds, e.processed), fmt.Sprintf("%d results for %d processed elements", len(results), e.results)
						}
						fail := false
						for i := 0; i < e.processed; i++ {
							fail = fail || e.expectFail[i]
						}
						for i := 0; i < e.results; i++ {
							isErr := results[i].ResponseType == "ERROR" || results[i].ErrorCode != ""
							if isErr != e.expectFail[i] {
								return "result-position", fmt.Sprintf("result %d is error=%v but element %d (%s) fails=%v", i, isErr, i, kinds[seq[i]].Name, e.expectFail[i])
							}
							if !isErr && results[i].ResponseType != kinds[seq[i]].Action {
								return "result-type", fmt.Sprintf("result %d has type %s for an element of action %s", i, results[i].ResponseType, kinds[seq[i]].Action)
							}
						}
						// the result at a position is the outcome of the element at that position: the k-th result that carries a
						// transaction names the k-th transaction the request committed (only when no element replays another's key)
						if ikMode == "none" || ikMode == "distinct" {
							k := 0
							for i := 0; i < e.results; i++ {
								act := kinds[seq[i]].Action
								if e.expectFail[i] || (act != "CREATE_TRANSACTION" && act != "REVERT_TRANSACTION") {
									continue
								}
								raw, _ := json.Marshal(results[i].Data)
								var got struct {
									ID       *big.Int        `json:"id"`
									Postings ledger.Postings `json:"postings"`
								}
								_ = json.Unmarshal(raw, &got)
								if k >= len(txEntries) {
									return "result-content", fmt.Sprintf("result %d (%s) reports a transaction, the request committed only %d", i, kinds[seq[i]].Name, len(txEntries))
								}
								want := txEntries[k]
								k++
								if got.ID == nil || got.ID.Cmp(want.ID) != 0 || fmt.Sprint(got.Postings) != fmt.Sprint(want.Postings) {
									return "result-content", fmt.Sprintf("result %d (%s) carries transaction %v %v, the element at that position committed %s %v", i, kinds[seq[i]].Name, got.ID, got.Postings, want.ID, want.Postings)
								}
							}
						}
						if failedFlag != fail {
							return "failure-signal", fmt.Sprintf("response signals failure=%v but some processed element failed=%v", failedFlag, fail)
						}
						if implDigest != e.digest {
							return "effects", "the ledger does not hold what executing the processed elements one by one produces:\n" + implDigest + "--- expected ---\n" + e.digest
						}
						return "", ""
					}
					kind, why := judge(exps[0])
					for _, e := range exps[1:] {
						if k, _ := judge(e); k == "" {
							kind, why = "", ""
						}
					}
					if kind != "" {
						viol(kind, why)
					}
					samples.Offer(func() interface{} {
						return map[string]interface{}{"elements": name, "continueOnFailure": cof, "ik": ikMode, "entry": entry, "expected_pattern": pat, "results": len(results)}
					})
				}
			}
		}
	})
	brokenBodies := c18BrokenBodies(rep, kinds)
	cov := evid.Coverage{
		"broken_body_requests": brokenBodies,
		"evaluations":          int(evals),
		"distinct_nontrivial":  int(nontrivial),
		"rule":                 fmt.Sprintf("every sequence of length 1..%d over %d element kinds (3 create outcomes, add-metadata ok/missing target, revert, delete-metadata, unknown action, 2 malformed) x continueOnFailure x idempotency-key mode (none / distinct / equal kinds share a key) x entry point (ProcessBulk, POST /v2/{ledger}/_bulk), on a real Commander over memstore; a twin engine executing the same operations one by one predicts each outcome; non-trivial = at least one processed element fails", maxLen, len(kinds)),
		"samples":              samples.Got,
		"exhaustive":           true,
		"sequences":            len(seqs),
		"outcome_patterns":     len(patterns.M),
	}
	rep.Assume = []string{"an element that cannot be executed (unknown action, malformed data) counts as a failing element and is owed a result at its position"}
	// the engine on the real store, against the stand-in the enumeration above ran on (realstore.go)
	rsH, rsS := realStoreConformance(rep, "")
	cov["realstore_histories"], cov["realstore_steps"] = rsH, rsS
	return rep.Finish(cov)
}

func firstBadKind(seq []int, kinds []bulkKind, processed int) string {
	for i := 0; i < processed && i < len(seq); i++ {
		if kinds[seq[i]].Apply == nil {
			return kinds[seq[i]].Name
		}
	}
	return "none"
}

// c18BrokenBodies: request bodies that start as a well-formed bulk and stop being one (an upload cut short, a missing
// bracket, a later element that is not an element) through the HTTP route: whatever the handler does with such a body, every
// element it executed is owed a result - and executing nothing is the obvious way to owe nothing.
func c18BrokenBodies(rep *evid.Reporter, kinds []bulkKind) int {
	var good []bulkKind
	for _, k := range kinds {
		if k.Apply != nil {
			good = append(good, k)
		}
	}
	elem := func(k bulkKind) string {
		return fmt.Sprintf(`{"action":%q,"data":%s}`, k.Action, k.Data)
	}
	n := 0
	for _, a := range good {
		for _, b := range good {
			prefix := "[" + elem(a) + "," + elem(b)
			for name, body := range map[string]string{
				"cut-after-element":    prefix,
				"cut-after-comma":      prefix + ",",
				"cut-inside-element":   prefix + `,{"action":"CREATE_TRANSACTION","data":{"postings":[{"source":"wor`,
				"element-not-object":   prefix + `,12]`,
				"action-not-string":    prefix + `,{"action":12,"data":{}}]`,
				"syntax-error-later":   prefix + `,{]`,
				"first-element-broken": `[{"action":` + "," + elem(a) + `]`,
			} {
				for _, cof := range []bool{false, true} {
					n++
					eng := engineh.Start(seedStore(), nil)
					bk := recbackend.New("l1")
					bk.Ledgers["l1"].W = eng.Cmd
					url := "/api/ledger/v2/l1/_bulk"
					if cof {
						url += "?continueOnFailure=true"
					}
					req := httptest.NewRequest("POST", url, strings.NewReader(body)).WithContext(eng.Ctx())
					w := httptest.NewRecorder()
					var panicked interface{}
					func() {
						defer func() { panicked = recover() }()
						newRouter(bk, false).ServeHTTP(w, req)
					}()
					calls := len(bk.WriteCalls())
					eng.Stop()
					replay := map[string]interface{}{"engine": "bulk-broken-body", "body": body, "continueOnFailure": cof}
					if panicked != nil {
						rep.Violation("broken-body-panic:"+name, fmt.Sprintf("the handler panicked on a body that is %s: %v", name, panicked), replay)
						continue
					}
					var resp struct {
						Data []json.RawMessage `json:"data"`
					}
					_ = json.Unmarshal(w.Body.Bytes(), &resp)
					if calls != len(resp.Data) {
						rep.Violation("broken-body-results:"+name, fmt.Sprintf("body %s (%s, %s; continueOnFailure=%v): %d elements were executed, the answer (%d) carries %d results", name, a.Name, b.Name, cof, calls, w.Code, len(resp.Data)), replay)
					}
				}
			}
		}
	}
	return n
}
