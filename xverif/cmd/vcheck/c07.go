//go:build verif

package main

import (
	"encoding/json"
	"fmt"
	"math/big"
	"net/http/httptest"
	"strings"
	"sync/atomic"

	ledger "github.com/formancehq/ledger/internal"
	"github.com/formancehq/ledger/xverif/lib/engineh"
	"github.com/formancehq/ledger/xverif/lib/evid"
	"github.com/formancehq/ledger/xverif/lib/memstore"
	"github.com/formancehq/ledger/xverif/lib/recbackend"
)

func init() {
	checks["C07"] = func() int { return clientWrites("C07") }
	// C06 judges the same client-level sequences: every write that reports success has its entry, a refused one has none
	checks["C06"] = func() int { return clientWrites("C06") }
}

// one write as a client sends it
type c07Req struct {
	Name   string
	Method string
	Path   string // after /api/ledger/[v2/]l1/
	Body   string
	Kind   string // log type this write produces
	Bulk   bool   // the key travels inside the bulk element ("ik"), not in the header
	N      int    // entries a fresh, successful execution appends (0 = 1)
}

func c07Requests() []c07Req {
	tx := `{"postings":[{"source":"world","destination":"a","amount":5,"asset":"X"}],"metadata":{"k":"v"}}`
	tx2 := `{"postings":[{"source":"world","destination":"b","amount":7,"asset":"X"}]}`
	return []c07Req{
		{Name: "create", Method: "POST", Path: "transactions", Body: tx, Kind: "NEW_TRANSACTION"},
		{Name: "create-other", Method: "POST", Path: "transactions", Body: tx2, Kind: "NEW_TRANSACTION"},
		// scripts that compile and bind but are refused while running, each for another reason
		{Name: "script-fail", Method: "POST", Path: "transactions", Kind: "NEW_TRANSACTION", Body: `{"script":{"plain":"fail"}}`},
		{Name: "script-portions-over", Method: "POST", Path: "transactions", Kind: "NEW_TRANSACTION",
			Body: `{"script":{"plain":"vars {\n portion $p\n portion $q\n}\nsend [X 10] (\n source = @world\n destination = {\n  $p to @a\n  $q to @b\n }\n)\n","vars":{"p":"2/3","q":"2/3"}}}`},
		{Name: "script-poor", Method: "POST", Path: "transactions", Kind: "NEW_TRANSACTION", Body: `{"script":{"plain":"send [X 10] (\n source = @nobody\n destination = @a\n)\n"}}`},
		{Name: "script-ok", Method: "POST", Path: "transactions", Kind: "NEW_TRANSACTION", Body: `{"script":{"plain":"send [X 10] (\n source = @world\n destination = @a\n)\nset_tx_meta(\"k\", \"v\")\n"}}`},
		{Name: "revert-0", Method: "POST", Path: "transactions/0/revert", Kind: "REVERTED_TRANSACTION"},
		{Name: "meta-account", Method: "POST", Path: "accounts/a/metadata", Body: `{"m":"1"}`, Kind: "SET_METADATA"},
		{Name: "meta-tx-0", Method: "POST", Path: "transactions/0/metadata", Body: `{"m":"1"}`, Kind: "SET_METADATA"},
		{Name: "delete-meta-account", Method: "DELETE", Path: "accounts/a/metadata/m", Kind: "DELETE_METADATA"},
		{Name: "delete-meta-tx-0", Method: "DELETE", Path: "transactions/0/metadata/m", Kind: "DELETE_METADATA"},
		{Name: "bulk-create", Method: "POST", Path: "_bulk", Bulk: true, Kind: "NEW_TRANSACTION",
			Body: `[{"action":"CREATE_TRANSACTION","ik":"%KEY%","data":` + tx + `}]`},
		{Name: "bulk-meta", Method: "POST", Path: "_bulk", Bulk: true, Kind: "SET_METADATA",
			Body: `[{"action":"ADD_METADATA","ik":"%KEY%","data":{"targetType":"ACCOUNT","targetId":"a","metadata":{"m":"1"}}}]`},
		// a keyed element next to an element without key: the key belongs to its element only
		{Name: "bulk-keyed-then-plain", Method: "POST", Path: "_bulk", Bulk: true, Kind: "NEW_TRANSACTION", N: 2,
			Body: `[{"action":"CREATE_TRANSACTION","ik":"%KEY%","data":` + tx + `},{"action":"CREATE_TRANSACTION","data":` + tx2 + `}]`},
		{Name: "bulk-plain-then-keyed", Method: "POST", Path: "_bulk", Bulk: true, Kind: "NEW_TRANSACTION", N: 2,
			Body: `[{"action":"ADD_METADATA","data":{"targetType":"ACCOUNT","targetId":"a","metadata":{"m":"1"}}},{"action":"CREATE_TRANSACTION","ik":"%KEY%","data":` + tx + `}]`},
	}
}

type c07Step struct {
	Req     int
	Key     string // "" = no key
	Restart bool   // restart the engine before this step
}

type c07Answer struct {
	Status int
	TxID   string
	Body   string
}

// run one sequence on a fresh engine seeded with transaction 0; returns the answers and the persisted log
func c07Run(api string, reqs []c07Req, steps []c07Step, sent *int64) ([]c07Answer, []*ledger.ChainedLog, string) {
	st := memstore.New()
	st.Seed(ledger.NewTransactionLog(ledger.NewTransaction().WithPostings(ledger.NewPosting("world", "seed", "X", big.NewInt(100))).WithID(big.NewInt(0)), nil))
	eng := engineh.Start(st, nil)
	defer func() { eng.Stop() }()
	var answers []c07Answer
	for _, s := range steps {
		if s.Restart {
			eng = eng.Restart()
		}
		r := reqs[s.Req]
		if r.Bulk && api == "" {
			answers = append(answers, c07Answer{Status: -1})
			continue // v1 has no bulk endpoint
		}
		if r.Method == "DELETE" && api == "" && strings.Contains(r.Path, "transactions/") {
			// (v1 has the route as well; kept)
		}
		b := recbackend.New("l1")
		b.Ledgers["l1"].W = eng.Cmd
		body := strings.ReplaceAll(r.Body, "%KEY%", s.Key)
		if r.Bulk && s.Key == "" {
			body = strings.ReplaceAll(r.Body, `"ik":"%KEY%",`, "")
		}
		req := httptest.NewRequest(r.Method, "/api/ledger/"+api+"l1/"+r.Path, strings.NewReader(body)).WithContext(eng.Ctx())
		if s.Key != "" && !r.Bulk {
			req.Header.Set("Idempotency-Key", s.Key)
		}
		w := httptest.NewRecorder()
		var panicked interface{}
		func() {
			defer func() { panicked = recover() }()
			newRouter(b, false).ServeHTTP(w, req)
		}()
		atomic.AddInt64(sent, 1)
		if panicked != nil {
			return nil, nil, fmt.Sprint("panic: ", panicked)
		}
		a := c07Answer{Status: w.Code, Body: w.Body.String()}
		var parsed struct {
			Data json.RawMessage `json:"data"`
		}
		_ = json.Unmarshal(w.Body.Bytes(), &parsed)
		var one struct {
			ID   *big.Int `json:"id"`
			TxID *big.Int `json:"txid"`
		}
		var many []struct {
			ID   *big.Int `json:"id"`
			TxID *big.Int `json:"txid"`
			Data struct {
				ID *big.Int `json:"id"`
			} `json:"data"`
			ErrorCode string `json:"errorCode"`
		}
		if json.Unmarshal(parsed.Data, &one) == nil && (one.ID != nil || one.TxID != nil) {
			if one.ID != nil {
				a.TxID = one.ID.String()
			} else {
				a.TxID = one.TxID.String()
			}
		} else if json.Unmarshal(parsed.Data, &many) == nil && len(many) > 0 {
			switch {
			case many[0].TxID != nil:
				a.TxID = many[0].TxID.String()
			case many[0].ID != nil:
				a.TxID = many[0].ID.String()
			case many[0].Data.ID != nil:
				a.TxID = many[0].Data.ID.String()
			}
			if many[0].ErrorCode != "" {
				a.Status = 400
			}
		}
		answers = append(answers, a)
	}
	return answers, st.Snapshot(), ""
}

// c07: the key as a client sends it (Idempotency-Key header, "ik" of a bulk element) through the real v1 / v2 routers onto a
// real Commander: every pair (and triple, with a restart in between) of writes x key assignment.
func clientWrites(prop string) int {
	silenceStderr() // the router's recoverer prints the stack of every handler panic
	rep := evid.NewReporter(prop, "model_checking")
	reqs := c07Requests()
	var sent, states int64
	var samples evid.Samples
	samples.N = 4
	type seq struct {
		api   string
		steps []c07Step
	}
	var seqs []seq
	for _, api := range []string{"v2/", ""} {
		for i := range reqs {
			for j := range reqs {
				for _, keys := range [][2]string{{"k", "k"}, {"k", "K"}, {"k", "k "}, {"k", ""}, {"", ""}, {"k1", "k2"}, {"raw\xffkey", "raw\xffkey"}, {strings.Repeat("k", 255), strings.Repeat("k", 255)}, {strings.Repeat("k", 256), strings.Repeat("k", 256)}, {strings.Repeat("k", 300), strings.Repeat("k", 300)}} {
					for _, restart := range []bool{false, true} {
						seqs = append(seqs, seq{api, []c07Step{{Req: i, Key: keys[0]}, {Req: j, Key: keys[1], Restart: restart}}})
					}
				}
				if rep.Thorough() {
					for k := range reqs {
						seqs = append(seqs, seq{api, []c07Step{{Req: i, Key: "k"}, {Req: j, Key: "k2"}, {Req: k, Key: "k", Restart: true}}})
					}
				}
			}
		}
	}
	evid.ParallelFor(len(seqs), workers(), func(w, si int) {
		sq := seqs[si]
		answers, logs, fatal := c07Run(sq.api, reqs, sq.steps, &sent)
		atomic.AddInt64(&states, 1)
		var names []string
		for _, s := range sq.steps {
			n := reqs[s.Req].Name + "[" + s.Key + "]"
			if s.Restart {
				n = "restart;" + n
			}
			names = append(names, n)
		}
		label := "v1"
		if sq.api != "" {
			label = "v2"
		}
		desc := label + " " + strings.Join(names, " ; ")
		replay := map[string]interface{}{"engine": "ikhttp", "api": label, "steps": names}
		viol := func(kind, why string) {
			rep.Violation(kind+":"+reqs[sq.steps[len(sq.steps)-1].Req].Name, why+" ["+desc+"]", replay)
		}
		if fatal != "" {
			viol("panic", fatal)
			return
		}
		// effects per key among the entries appended after the seed
		byKey := map[string][]*ledger.ChainedLog{}
		for _, l := range logs[1:] {
			if l.IdempotencyKey != "" {
				byKey[l.IdempotencyKey] = append(byKey[l.IdempotencyKey], l)
			}
		}
		for k, ls := range byKey {
			if len(ls) > 1 {
				viol("ik-twice", fmt.Sprintf("idempotency key %q took effect %d times", k, len(ls)))
				return
			}
		}
		// requests per key: a key that was sent must be the key recorded (exactly as sent)
		firstOK := map[string]int{}
		for i, s := range sq.steps {
			a := answers[i]
			if a.Status < 0 || s.Key == "" {
				continue
			}
			ok := a.Status >= 200 && a.Status < 300
			if !ok {
				continue
			}
			// (the stored form of a key is JSON text: bytes that are not valid UTF-8 can only be kept as U+FFFD)
			rows := byKey[strings.ToValidUTF8(s.Key, "\uFFFD")]
			if len(rows) == 0 {
				viol("ik-not-recorded", fmt.Sprintf("step %d reported success with key %q but no entry carries that key (keys recorded: %v)", i, s.Key, keysOf(byKey)))
				return
			}
			if j, seen := firstOK[s.Key]; seen {
				// a later success with the same key answers the single effect of that key
				if answers[j].TxID != "" && a.TxID != "" && answers[j].TxID != a.TxID {
					viol("ik-different-outcome", fmt.Sprintf("steps %d and %d share key %q and both report success, with transactions %q and %q", j, i, s.Key, answers[j].TxID, a.TxID))
					return
				}
			} else {
				firstOK[s.Key] = i
			}
			if a.TxID != "" {
				if tx := txOfLog(rows[0]); tx == nil || tx.ID.String() != a.TxID {
					viol("ik-different-outcome", fmt.Sprintf("step %d (key %q) answers transaction %s, the single entry of that key holds %v", i, s.Key, a.TxID, tx))
					return
				}
			}
		}
		// distinct keys (or none) are independent: two successful writes without a shared key leave two entries
		if len(sq.steps) == 2 && sq.steps[0].Key != sq.steps[1].Key || (sq.steps[0].Key == "" && sq.steps[1].Key == "") {
			okN := 0
			for i := range sq.steps {
				if answers[i].Status >= 200 && answers[i].Status < 300 {
					n := reqs[sq.steps[i].Req].N
					if n == 0 {
						n = 1
					}
					okN += n
				}
			}
			if len(sq.steps) == 2 && len(logs)-1 != okN {
				viol("independent-keys", fmt.Sprintf("%d writes reported success, %d entries were appended", okN, len(logs)-1))
				return
			}
		}
		samples.Offer(func() interface{} { return desc })
	})
	cov := evid.Coverage{
		"states":                        int(states),
		"transitions":                   int(sent),
		"traces_validated_against_impl": int(states),
		"samples":                       samples.Got,
		"exhaustive":                    true,
		"rule":                          fmt.Sprintf("client-level part: every ordered pair of %d write requests (create, revert, set / delete metadata on accounts and transactions, bulk elements) x 10 key assignments (same key, case / padding variants, one keyed, none, distinct, a key that is not valid UTF-8, keys of 255 / 256 / 300 characters) x with/without a restart in between [thorough: + triples], sent through the real v1 and v2 routers (Idempotency-Key header, ik of a bulk element) onto a real Commander over memstore; states = sequences, transitions = requests", len(reqs)),
	}
	// the stand-in the scheduler part runs on, validated against the real store (realstore.go)
	rsH, rsS := realStoreConformance(rep, "")
	cov["realstore_histories"], cov["realstore_steps"] = rsH, rsS
	return rep.Finish(cov)
}

func keysOf(m map[string][]*ledger.ChainedLog) []string {
	var out []string
	for k := range m {
		out = append(out, fmt.Sprintf("%q", k))
	}
	return out
}

func txOfLog(l *ledger.ChainedLog) *ledger.Transaction {
	switch p := l.Data.(type) {
	case ledger.NewTransactionLogPayload:
		return p.Transaction
	case ledger.RevertedTransactionLogPayload:
		return p.RevertTransaction
	}
	return nil
}
