package main

import (
	"context"
	"encoding/json"
	"fmt"
	"math/big"
	"net/http/httptest"
	"reflect"
	"strings"
	"sync/atomic"
	"time"

	ledger "github.com/formancehq/ledger/internal"
	"github.com/formancehq/ledger/internal/engine/command"
	"github.com/formancehq/ledger/xverif/lib/engineh"
	"github.com/formancehq/ledger/xverif/lib/evid"
	"github.com/formancehq/ledger/xverif/lib/memstore"
	"github.com/formancehq/ledger/xverif/lib/nsgen"
	"github.com/formancehq/ledger/xverif/lib/recbackend"
	"github.com/formancehq/stack/libs/go-libs/metadata"
)

func init() { checks["C09"] = c09 }

type c09Case struct {
	Postings   ledger.Postings
	BalA, BalB *big.Int
	Meta       metadata.Metadata
	Ref        string
	TS         ledger.Time
	// TSRaw: the timestamp text as the client writes it (TS then holds the instant it denotes at the ledger's precision)
	TSRaw string
}

func seedBalances(a, b *big.Int) *memstore.Store {
	st := memstore.New()
	id := int64(0)
	for acc, n := range map[string]*big.Int{"a": a, "b": b} {
		_ = acc
		_ = n
	}
	for _, e := range []struct {
		acc string
		n   *big.Int
	}{{"a", a}, {"b", b}} {
		if e.n.Sign() > 0 {
			tx := ledger.NewTransaction().WithPostings(ledger.NewPosting("world", e.acc, "X", e.n)).WithID(big.NewInt(id))
			st.Seed(ledger.NewTransactionLog(tx, nil))
			id++
		}
	}
	return st
}

// expectAccept: sequential replay of the requested postings on the starting balances.
func c09Expect(c *c09Case) bool {
	bal := map[string]*big.Int{"a|X": new(big.Int).Set(c.BalA), "b|X": new(big.Int).Set(c.BalB)}
	get := func(k string) *big.Int {
		if bal[k] == nil {
			bal[k] = new(big.Int)
		}
		return bal[k]
	}
	for _, p := range c.Postings {
		if p.Source != "world" {
			b := get(p.Source + "|" + p.Asset)
			if b.Cmp(p.Amount) < 0 {
				return false
			}
			b.Sub(b, p.Amount)
		}
		if p.Destination != "world" {
			get(p.Destination+"|"+p.Asset).Add(get(p.Destination+"|"+p.Asset), p.Amount)
		}
	}
	return true
}

func postingsEq(a, b ledger.Postings) bool {
	if len(a) != len(b) {
		return false
	}
	for i := range a {
		if a[i].Source != b[i].Source || a[i].Destination != b[i].Destination || a[i].Asset != b[i].Asset || a[i].Amount.Cmp(b[i].Amount) != 0 {
			return false
		}
	}
	return true
}

func metaEqual(a, b metadata.Metadata) bool {
	if len(a) == 0 && len(b) == 0 {
		return true
	}
	return reflect.DeepEqual(a, b)
}

func c09() int {
	rep := evid.NewReporter("C09", "exploration")
	accounts := []string{"a", "b", "world"}
	big70 := nsgen.Big70
	amountsFull := []*big.Int{big.NewInt(0), big.NewInt(1), big.NewInt(5), big70}
	amountsSmall := []*big.Int{big.NewInt(1), big.NewInt(5)}
	mk := func(assets []string, amounts []*big.Int) []ledger.Posting {
		var out []ledger.Posting
		for _, s := range accounts {
			for _, d := range accounts {
				for _, as := range assets {
					for _, am := range amounts {
						out = append(out, ledger.NewPosting(s, d, as, am))
					}
				}
			}
		}
		return out
	}
	full := mk([]string{"X", "Y/2"}, amountsFull)
	small := mk([]string{"X"}, amountsSmall)
	var lists []ledger.Postings
	for _, p1 := range full {
		lists = append(lists, ledger.Postings{p1})
		for _, p2 := range full {
			lists = append(lists, ledger.Postings{p1, p2})
		}
	}
	third := small
	if rep.Thorough() {
		third = mk([]string{"X"}, amountsFull)
	}
	for _, p1 := range third {
		for _, p2 := range third {
			for _, p3 := range third {
				lists = append(lists, ledger.Postings{p1, p2, p3})
			}
		}
	}
	// longer lists (4..6 postings): chains (each posting spends what the previous one brought) and fans of distinct postings
	{
		names := []string{"world", "a", "b", "a", "b", "a", "b"}
		for n := 4; n <= 6; n++ {
			var chain, fan ledger.Postings
			for i := 0; i < n; i++ {
				chain = append(chain, ledger.NewPosting(names[i], names[i+1], "X", big.NewInt(5)))
				fan = append(fan, ledger.NewPosting("world", []string{"a", "b"}[i%2], "X", big.NewInt(int64(i+1))))
			}
			lists = append(lists, chain, fan)
		}
	}
	// look-alike monetaries: assets ending in digits x amounts whose texts concatenate to the same string ("X"+"15" / "X1"+"5")
	var twins []ledger.Posting
	for _, d := range []string{"a", "b"} {
		for _, as := range []string{"X", "X1", "Y/2", "Y/21"} {
			for _, am := range []int64{1, 5, 15} {
				twins = append(twins, ledger.NewPosting("world", d, as, big.NewInt(am)))
			}
		}
	}
	for _, p1 := range twins {
		for _, p2 := range twins {
			lists = append(lists, ledger.Postings{p1, p2})
		}
	}
	bals := []*big.Int{big.NewInt(0), big.NewInt(5), big70}
	ts, _ := ledger.ParseTime("2023-05-06T07:08:09.123456Z")
	var evals, accepted, rejected int64
	var samples evid.Samples
	samples.N = 4
	evid.ParallelFor(len(lists), workers(), func(w, li int) {
		for _, ba := range bals {
			for _, bb := range bals {
				for variant := 0; variant < 2; variant++ {
					c := &c09Case{Postings: lists[li], BalA: ba, BalB: bb}
					entry := "commander"
					if variant == 1 {
						c.Meta = metadata.Metadata{"k": "v", "x": "y"}
						c.Ref = "ref-1"
						c.TS = ts
						entry = []string{"v1", "v2"}[li%2]
					}
					if variant == 0 && li%5 == 0 {
						cv := &c09Case{Postings: lists[li], BalA: ba, BalB: bb}
						c09One(rep, cv, "v2-vars", &evals, &accepted, &rejected, &samples)
					}
					if variant == 1 && li%3 == 0 {
						// the same list, bare, as the SECOND element of a bulk whose first element carries metadata, reference and timestamp
						cb := &c09Case{Postings: lists[li], BalA: ba, BalB: bb}
						c09One(rep, cb, "bulk-second", &evals, &accepted, &rejected, &samples)
					}
					c09One(rep, c, entry, &evals, &accepted, &rejected, &samples)
					if variant == 1 && li%4 == 2 {
						// the timestamp written with more decimals than the ledger keeps, and with an offset
						for _, raw := range []string{"2023-05-06T07:08:09.1234567Z", "2023-05-06T09:08:09.123456789+02:00"} {
							ct := &c09Case{Postings: lists[li], BalA: ba, BalB: bb, TSRaw: raw}
							ct.TS, _ = ledger.ParseTime("2023-05-06T07:08:09.123457Z")
							c09One(rep, ct, entry, &evals, &accepted, &rejected, &samples)
						}
					}
					if variant == 1 && li%4 == 1 {
						cc := &c09Case{Postings: lists[li], BalA: ba, BalB: bb}
						c09One(rep, cc, entry+"-confirm", &evals, &accepted, &rejected, &samples)
					}
				}
			}
		}
	})
	// invalid requests must be rejected as a whole (v1 validates up front; the engine validates variables)
	bad := []ledger.Posting{
		ledger.NewPosting("a b", "b", "X", big.NewInt(1)), ledger.NewPosting("a", "", "X", big.NewInt(1)), ledger.NewPosting("a", "b", "x", big.NewInt(1)),
		ledger.NewPosting("a", "b", "X", big.NewInt(-1)), ledger.NewPosting("world", "b:", "X", big.NewInt(1)), ledger.NewPosting("world", "b", "", big.NewInt(1)),
	}
	good := ledger.NewPosting("world", "a", "X", big.NewInt(1))
	for _, bp := range bad {
		for _, l := range []ledger.Postings{{bp}, {good, bp}, {bp, good}} {
			for _, entry := range []string{"commander", "v1", "v2"} {
				c := &c09Case{Postings: l, BalA: big.NewInt(5), BalB: big.NewInt(5)}
				c09Invalid(rep, c, entry, &evals)
			}
		}
	}
	cov := evid.Coverage{
		"evaluations":         int(evals),
		"distinct_nontrivial": int(accepted),
		"rule":                fmt.Sprintf("every posting list of length 1..2 over accounts {a,b,world} (self-transfers, world on either side) x assets {X,Y/2} x amounts {0,1,5,2^70}, every list of length 3 over the X-only alphabet, chains and fans of 4..6 postings, x starting balances of a,b in {0,5,2^70}, each plain through Commander.CreateTransaction and with metadata+reference+timestamp through the v1 / v2 HTTP handlers (and with a body that also carries script variables named like the generated ones), on a real Commander over memstore; plus a list of invalid requests; non-trivial = accepted requests (%d rejected)", rejected),
		"samples":             samples.Got,
		"exhaustive":          true,
		"posting_lists":       len(lists),
		"rejected":            int(rejected),
	}
	// the engine on the real store, against the stand-in the enumeration above ran on (realstore.go)
	rsH, rsS := realStoreConformance(rep, "")
	cov["realstore_histories"], cov["realstore_steps"] = rsH, rsS
	// the amount of a posting as a client writes it (apivars.go)
	apiCases, apiAccepted, apiRefused := apiAmounts(rep)
	cov["api_amount_cases"], cov["api_amount_accepted"], cov["api_amount_refused"] = apiCases, apiAccepted, apiRefused
	return rep.Finish(cov)
}

func runCreate(eng *engineh.Engine, entry string, c *c09Case) (tx *ledger.Transaction, err error, status int) {
	data := ledger.TransactionData{Postings: c.Postings, Metadata: c.Meta, Reference: c.Ref, Timestamp: c.TS}
	switch entry {
	case "bulk-second":
		b := recbackend.New("l1")
		b.Ledgers["l1"].W = eng.Cmd
		first := map[string]interface{}{"action": "CREATE_TRANSACTION", "data": map[string]interface{}{
			"postings": ledger.Postings{ledger.NewPosting("world", "z", "X", big.NewInt(1))}, "metadata": metadata.Metadata{"campaign": "x"}, "reference": "first-ref", "timestamp": "2023-01-01T00:00:00Z"}}
		second := map[string]interface{}{"action": "CREATE_TRANSACTION", "data": map[string]interface{}{"postings": c.Postings}}
		raw, _ := json.Marshal([]interface{}{first, second})
		req := httptest.NewRequest("POST", "/api/ledger/v2/l1/_bulk?continueOnFailure=true", strings.NewReader(string(raw))).WithContext(eng.Ctx())
		w := httptest.NewRecorder()
		newRouter(b, false).ServeHTTP(w, req)
		var resp struct {
			Data []struct {
				ErrorCode string `json:"errorCode"`
			} `json:"data"`
		}
		_ = json.Unmarshal(w.Body.Bytes(), &resp)
		if len(resp.Data) != 2 {
			return nil, fmt.Errorf("bulk answered %d results (http %d)", len(resp.Data), w.Code), w.Code
		}
		if resp.Data[1].ErrorCode != "" {
			return nil, fmt.Errorf("bulk element rejected: %s", resp.Data[1].ErrorCode), w.Code
		}
		return nil, nil, w.Code
	case "commander":
		tx, err = eng.Cmd.CreateTransaction(eng.Ctx(), command.Parameters{}, ledger.TxToScriptData(data, false))
		return tx, err, 0
	default:
		b := recbackend.New("l1")
		b.Ledgers["l1"].W = eng.Cmd
		body := map[string]interface{}{"postings": c.Postings}
		// "-confirm": the usual preview-then-confirm flow - the request is first sent as a preview, then for real, both
		// carrying the same Idempotency-Key
		confirm := strings.HasSuffix(entry, "-confirm")
		entry = strings.TrimSuffix(entry, "-confirm")
		if entry == "v2-vars" {
			// the body also carries script variables named like the ones the server generates for the postings, with
			// other (well-typed) values: the postings are what was asked for, whatever else the body holds
			poisoned := map[string]interface{}{}
			for name, v := range ledger.TxToScriptData(ledger.TransactionData{Postings: c.Postings}, false).Vars {
				if strings.Contains(v, " ") {
					poisoned[name] = "X 999"
				} else {
					poisoned[name] = "mallory"
				}
			}
			body["script"] = map[string]interface{}{"vars": poisoned}
			entry = "v2"
		}
		if c.Meta != nil {
			body["metadata"] = c.Meta
		}
		if c.Ref != "" {
			body["reference"] = c.Ref
		}
		if c.TSRaw != "" {
			body["timestamp"] = c.TSRaw
		} else if !c.TS.IsZero() {
			body["timestamp"] = c.TS
		}
		raw, _ := json.Marshal(body)
		url := "/api/ledger/l1/transactions"
		if entry == "v2" {
			url = "/api/ledger/v2/l1/transactions"
		}
		if confirm {
			flag := "?preview=true"
			if entry == "v2" {
				flag = "?dryRun=true"
			}
			preq := httptest.NewRequest("POST", url+flag, strings.NewReader(string(raw))).WithContext(eng.Ctx())
			preq.Header.Set("Idempotency-Key", "confirm-1")
			newRouter(b, false).ServeHTTP(httptest.NewRecorder(), preq)
		}
		req := httptest.NewRequest("POST", url, strings.NewReader(string(raw))).WithContext(eng.Ctx())
		if confirm {
			req.Header.Set("Idempotency-Key", "confirm-1")
		}
		w := httptest.NewRecorder()
		newRouter(b, false).ServeHTTP(w, req)
		if w.Code >= 300 {
			return nil, fmt.Errorf("http %d: %s", w.Code, w.Body.String()), w.Code
		}
		return nil, nil, w.Code
	}
}

func c09One(rep *evid.Reporter, c *c09Case, entry string, evals, accepted, rejected *int64, samples *evid.Samples) {
	st := seedBalances(c.BalA, c.BalB)
	before := st.Len()
	eng := engineh.Start(st, nil)
	defer eng.Stop()
	var tx *ledger.Transaction
	var err error
	var panicked interface{}
	func() {
		defer func() { panicked = recover() }()
		tx, err, _ = runCreate(eng, entry, c)
	}()
	atomic.AddInt64(evals, 1)
	replay := map[string]interface{}{"engine": "postings", "postings": c.Postings, "balance_a": c.BalA.String(), "balance_b": c.BalB.String(), "entry": entry}
	key := func(kind string) string { return kind + ":" + c09Shape(c.Postings) }
	if panicked != nil {
		rep.Violation(key("panic"), fmt.Sprint("panic: ", panicked), replay)
		return
	}
	want := c09Expect(c)
	logs := st.Snapshot()
	if err != nil {
		atomic.AddInt64(rejected, 1)
		if want {
			rep.Violation(key("rejected"), "a posting list the balances cover was rejected: "+err.Error(), replay)
		}
		extra := 0
		if entry == "bulk-second" {
			extra = 1
		}
		if len(logs) != before+extra {
			rep.Violation(key("partial"), "rejected request left a log entry", replay)
		}
		return
	}
	atomic.AddInt64(accepted, 1)
	if !want {
		rep.Violation(key("accepted-uncovered"), "accepted although a source cannot cover its posting at its position", replay)
		return
	}
	if entry == "bulk-second" {
		before++ // the first bulk element
	}
	if len(logs) != before+1 {
		rep.Violation(key("log-count"), fmt.Sprintf("%d log entries were added by one accepted request", len(logs)-before), replay)
		return
	}
	pl, ok := logs[len(logs)-1].Data.(ledger.NewTransactionLogPayload)
	if !ok {
		rep.Violation(key("log-type"), "accepted request did not persist a NEW_TRANSACTION entry", replay)
		return
	}
	check := func(where string, got *ledger.Transaction) {
		if !postingsEq(got.Postings, c.Postings) {
			rep.Violation(key("postings-"+where), fmt.Sprintf("%s transaction has postings %v, requested %v", where, got.Postings, c.Postings), replay)
		}
		if !metaEqual(got.Metadata, c.Meta) {
			rep.Violation(key("metadata-"+where), fmt.Sprintf("%s metadata %v, requested %v", where, got.Metadata, c.Meta), replay)
		}
		if got.Reference != c.Ref {
			rep.Violation(key("reference-"+where), fmt.Sprintf("%s reference %q, requested %q", where, got.Reference, c.Ref), replay)
		}
		if !c.TS.IsZero() && !got.Timestamp.Equal(c.TS) {
			rep.Violation(key("timestamp-"+where), fmt.Sprintf("%s timestamp %v, requested %v", where, got.Timestamp, c.TS), replay)
		}
		// (the store keeps microseconds: a finer timestamp in the entry would differ from the row derived from it)
		if got.Timestamp.Time.Nanosecond()%1000 != 0 {
			rep.Violation(key("timestamp-precision-"+where), fmt.Sprintf("%s timestamp %s is finer than the ledger's precision (a microsecond)", where, got.Timestamp.Time.Format(time.RFC3339Nano)), replay)
		}
	}
	check("persisted", pl.Transaction)
	if tx != nil {
		check("returned", tx)
	}
	samples.Offer(func() interface{} { return replay })
}

func c09Invalid(rep *evid.Reporter, c *c09Case, entry string, evals *int64) {
	st := seedBalances(c.BalA, c.BalB)
	before := st.Len()
	eng := engineh.Start(st, nil)
	defer eng.Stop()
	var err error
	var panicked interface{}
	func() {
		defer func() { panicked = recover() }()
		_, err, _ = runCreate(eng, entry, c)
	}()
	atomic.AddInt64(evals, 1)
	replay := map[string]interface{}{"engine": "postings", "postings": fmt.Sprint(c.Postings), "entry": entry}
	if panicked != nil {
		rep.Violation("invalid-panic", fmt.Sprint("panic on an invalid posting list: ", panicked), replay)
		return
	}
	if err == nil || st.Len() != before {
		rep.Violation("invalid-accepted", "a request with an invalid posting was not rejected as a whole", replay)
	}
	_ = context.Background
}

func c09Shape(ps ledger.Postings) string {
	var s []string
	for _, p := range ps {
		a := "n"
		if p.Amount.Sign() == 0 {
			a = "0"
		}
		s = append(s, p.Source+">"+p.Destination+":"+a)
	}
	return strings.Join(s, ",")
}
