package main

import (
	"fmt"

	"github.com/formancehq/ledger/xverif/lib/evid"
)

// development aids (not registered in MANIFEST.json): run one part of a check alone; evidence goes to DEV-*.json
func init() {
	checks["DEV-apiamounts"] = func() int {
		rep := evid.NewReporter("DEV-apiamounts", "exploration")
		c, a, r := apiAmounts(rep)
		fmt.Println("cases", c, "accepted", a, "refused", r)
		return rep.Finish(evid.Coverage{"states": c, "transitions": c, "exhaustive": true})
	}
}

func init() {
	checks["DEV-scriptseq"] = func() int {
		rep := evid.NewReporter("DEV-scriptseq", "exploration")
		n, s := scriptSequences(rep, "")
		fmt.Println("sequences", n, "steps", s)
		return rep.Finish(evid.Coverage{"states": n, "transitions": s, "exhaustive": true})
	}
}

func init() {
	checks["DEV-reslimit"] = func() int {
		rep := evid.NewReporter("DEV-reslimit", "exploration")
		n := resourceLimit(rep, "")
		return rep.Finish(evid.Coverage{"states": n, "transitions": n, "exhaustive": true})
	}
}
