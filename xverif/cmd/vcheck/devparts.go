package main

import (
	"encoding/json"
	"fmt"
	"os"

	"github.com/formancehq/ledger/xverif/lib/engineh"
	"github.com/formancehq/ledger/xverif/lib/evid"
	"github.com/formancehq/ledger/xverif/lib/nsgen"
	"github.com/formancehq/ledger/xverif/lib/nsrun"
)

// development aids (not registered in MANIFEST.json): run one part of a check alone; evidence goes to DEV-*.json
func init() {
	checks["DEV-apiamounts"] = func() int {
		rep := evid.NewReporter("DEV-apiamounts", "exploration")
		c, a, r := apiAmounts(rep)
		fmt.Println("cases", c, "accepted", a, "refused", r)
		return rep.Finish(evid.Coverage{"states": c, "transitions": c, "exhaustive": true})
	}
}

func init() {
	checks["DEV-scriptseq"] = func() int {
		rep := evid.NewReporter("DEV-scriptseq", "exploration")
		n, s := scriptSequences(rep, "")
		fmt.Println("sequences", n, "steps", s)
		return rep.Finish(evid.Coverage{"states": n, "transitions": s, "exhaustive": true})
	}
}

func init() {
	checks["DEV-reslimit"] = func() int {
		rep := evid.NewReporter("DEV-reslimit", "exploration")
		n := resourceLimit(rep, "")
		return rep.Finish(evid.Coverage{"states": n, "transitions": n, "exhaustive": true})
	}
}

func init() {
	// DEV-probe: run the script texts of $VERIF_TEXTS (a JSON list) through the compile / run phases and print what happens
	checks["DEV-probe"] = func() int {
		var texts []string
		if err := json.Unmarshal([]byte(os.Getenv("VERIF_TEXTS")), &texts); err != nil {
			fmt.Println("VERIF_TEXTS:", err)
			return 2
		}
		for _, t := range texts {
			r := nsrun.Run(t, &nsgen.Input{})
			fmt.Printf("%q: class=%s phase=%s err=%q panic=%q\n", t, r.Class, r.Phase, r.Err, r.Panic)
		}
		return 0
	}
}

func init() {
	checks["DEV-realstore"] = func() int {
		rep := evid.NewReporter("DEV-realstore", "exploration")
		h, s := realStoreConformance(rep, "")
		fmt.Println("histories", h, "steps", s)
		return rep.Finish(evid.Coverage{"states": h, "transitions": s, "exhaustive": true})
	}
}

func init() {
	// DEV-realstore-one: one history ($VERIF_HISTORY: JSON list of op names) on the real store, panics not recovered
	checks["DEV-realstore-one"] = func() int {
		var names []string
		_ = json.Unmarshal([]byte(os.Getenv("VERIF_HISTORY")), &names)
		raw, _ := os.ReadFile(schemaFile)
		real, err := rsRealStore(string(raw))
		if err != nil {
			fmt.Println(err)
			return 2
		}
		er := engineh.StartOn(real, nil, nil)
		for _, n := range names {
			for _, o := range rsOps() {
				if o.Name == n {
					fmt.Println(n, "=>", o.Run(er))
				}
			}
		}
		return 0
	}
}
