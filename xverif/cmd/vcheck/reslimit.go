package main

import (
	"fmt"
	"math/big"
	"strings"
	"sync"

	"github.com/formancehq/ledger/internal/machine/script/compiler"
	"github.com/formancehq/ledger/xverif/lib/evid"
	"github.com/formancehq/ledger/xverif/lib/nsgen"
	"github.com/formancehq/ledger/xverif/lib/nsrun"
)

// resourceLimit: programs with 65535 .. 65538 resources (resource addresses are 16 bits wide), the last resource being the
// overdraft bound of a send from an empty account and resource #0 a monetary variable of another size. Written out by hand:
//
//	tight: @poor holds 0, is granted 7 by the text, the send needs 100  -> refused (compile or insufficient funds), never moved
//	loose: @poor holds 0, is granted 7 by the text, the send needs 5    -> poor>dst 5 (or a compile refusal above the limit)
//
// A program the compiler accepts must run as its text says however many resources it has.
func resourceLimitScript(fillers int, need int) (string, map[string]string) {
	const numberVars = 32000 // (variables are cheap fillers: they are not searched linearly)
	vars := map[string]string{}
	var sb strings.Builder
	sb.WriteString("vars {\n monetary $cap\n")
	for i := 0; i < numberVars; i++ {
		fmt.Fprintf(&sb, " number $f%d\n", i)
		vars[fmt.Sprintf("f%d", i)] = "1"
	}
	sb.WriteString("}\n")
	sb.WriteString("send [GEM 1] (\n source = max $cap from @world\n destination = @dst\n)\n")
	for i := 0; i < fillers; i++ {
		fmt.Fprintf(&sb, "set_tx_meta(\"f\", [GEM %d])\n", 1000+i)
	}
	fmt.Fprintf(&sb, "send [GEM %d] (\n source = @poor allowing overdraft up to [GEM 7]\n destination = @dst\n)\n", need)
	return sb.String(), vars
}

func resourceLimit(rep *evid.Reporter, keyPrefix string) int {
	probe, _ := resourceLimitScript(10, 100)
	pc := nsrun.Compile(compiler.Compile, probe)
	if pc.Prog == nil {
		rep.Violation(keyPrefix+"resource-limit-probe", "the probe program (32 000 variables, 10 fillers) does not compile: "+pc.Fail.Err, map[string]interface{}{"engine": "reslimit"})
		return 0
	}
	base := len(pc.Prog.Resources) - 10
	type rlCase struct {
		total int
		need  int
		cap   string
	}
	var cases []rlCase
	for _, total := range []int{65535, 65536, 65537, 65538} {
		cases = append(cases, rlCase{total, 100, "GEM 1000000"}, rlCase{total, 5, "GEM 1"})
	}
	var mu sync.Mutex
	var wg sync.WaitGroup
	for i := range cases {
		wg.Add(1)
		go func(c rlCase) {
			defer wg.Done()
			text, vars := resourceLimitScript(c.total-base, c.need)
			vars["cap"] = c.cap
			res := nsrun.Run(text, &nsgen.Input{Vars: vars, Balances: map[string]map[string]string{"poor": {"GEM": "0"}}})
			mu.Lock()
			defer mu.Unlock()
			replay := map[string]interface{}{"engine": "reslimit", "resources": c.total, "need": c.need, "cap": c.cap}
			name := fmt.Sprintf("%d resources, @poor holds 0 and is granted 7, the send needs %d, resource #0 is %s", c.total, c.need, c.cap)
			switch {
			case res.Class == nsgen.ClsPanic:
				rep.Violation(keyPrefix+"resource-limit-panic", name+": panic: "+res.Panic, replay)
			case res.Class == nsgen.ClsCompile:
				// (a tree that refuses earlier accepts less, which no property here forbids)
			case res.Class == nsgen.ClsOK:
				taken := new(big.Int)
				for _, p := range res.Postings {
					if p.Src == "poor" {
						taken.Add(taken, p.Amt)
					}
				}
				if taken.Cmp(big.NewInt(7)) > 0 {
					rep.Violation(keyPrefix+"resource-limit-overdraw", fmt.Sprintf("%s: accepted, %s taken from @poor (postings %v)", name, taken, res.Postings), replay)
				} else if c.need == 5 && (len(res.Postings) != 2 || res.Postings[1].String() != "poor->dst GEM 5") {
					rep.Violation(keyPrefix+"resource-limit-result", fmt.Sprintf("%s: postings %v, the text defines [world->dst GEM 1, poor->dst GEM 5]", name, res.Postings), replay)
				} else if c.need == 100 {
					rep.Violation(keyPrefix+"resource-limit-result", fmt.Sprintf("%s: accepted with postings %v, the text cannot be funded", name, res.Postings), replay)
				}
			default:
				if c.need == 5 {
					rep.Violation(keyPrefix+"resource-limit-result", fmt.Sprintf("%s: refused at run time (%s: %s), the text defines [world->dst GEM 1, poor->dst GEM 5]", name, res.Class, res.Err), replay)
				}
			}
		}(cases[i])
	}
	wg.Wait()
	return len(cases)
}
