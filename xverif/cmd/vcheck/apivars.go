package main

import (
	"encoding/json"
	"fmt"
	"math/big"
	"net/http/httptest"
	"regexp"
	"strings"

	ledger "github.com/formancehq/ledger/internal"
	"github.com/formancehq/ledger/xverif/lib/engineh"
	"github.com/formancehq/ledger/xverif/lib/evid"
	"github.com/formancehq/ledger/xverif/lib/memstore"
	"github.com/formancehq/ledger/xverif/lib/recbackend"
)

// apiAmounts: the amount of a send as a client states it - every spelling x every way of supplying it (script literal,
// monetary variable as text, monetary variable in the legacy object form with a JSON number, number variable as a JSON number
// or as text, posting with a JSON number) x every entry point (v1, v2, v2 bulk) on the real routers over a real Commander.
// Oracle (written out here, no repository code): the request is refused and nothing is committed, or exactly the stated
// amount - the decimal reading of the digits - is committed. A text that is not standard decimal integer (optional sign, digits) has no reading
// and must be refused; a negative amount is never moved.
var apiAmountTexts = []string{
	"0", "1", "7", "999999", "1000000", "1234567", "4294967296",
	"9007199254740991", "9007199254740992", "9007199254740993", "1234567890123456789",
	"9223372036854775807", "9223372036854775808", "18446744073709551615", "18446744073709551617",
	"340282366920938463463374607431768211455", "1000000000000000000000000000007",
	// spellings: zero padding, other bases, separators, exponents, fractions, signs
	"010", "0100", "08", "00", "0x10", "0b11", "0o17", "1_000", "1e3", "1e+30", "2.5e3", "10.0", "+5", "-5", " 5", "5 ",
}

var plainDigits = regexp.MustCompile(`^[0-9]+$`)
var signedDigits = regexp.MustCompile(`^[+-]?[0-9]+$`)

type apiAmountForm struct {
	Name string
	// body of a create-transaction request stating the amount a (text); ok=false when the form cannot carry this text
	Body func(a string) (body string, ok bool)
	// where the stated value shows up: "posting" (amount of the only posting) or "meta" (tx metadata n)
	Where string
	// JSONNumber: the text is placed as a JSON number (its value is the exact rational it denotes); otherwise it is Numscript /
	// decimal text and only a plain run of digits has a reading
	JSONNumber bool
}

// statedValue: the integer the client stated, nil when the text states none
func statedValue(a string, jsonNumber bool) *big.Int {
	// (blanks around a number are layout; a sign is part of standard decimal notation)
	if t := strings.TrimSpace(a); signedDigits.MatchString(t) {
		v, _ := new(big.Int).SetString(t, 10)
		return v
	}
	if jsonNumber {
		if r, ok := new(big.Rat).SetString(a); ok && r.IsInt() {
			return new(big.Int).Set(r.Num())
		}
	}
	return nil
}

func apiAmountForms() []apiAmountForm {
	jsonNumber := regexp.MustCompile(`^-?(0|[1-9][0-9]*)(\.[0-9]+)?([eE][+-]?[0-9]+)?$`)
	q := func(s string) string { b, _ := json.Marshal(s); return string(b) }
	monScript := "vars {\n monetary $m\n}\nsend $m (\n source = @world\n destination = @a\n)\n"
	numScript := "vars {\n number $n\n}\nsend [X 1] (\n source = @world\n destination = @a\n)\nset_tx_meta(\"n\", $n)\n"
	return []apiAmountForm{
		{"literal", func(a string) (string, bool) {
			return `{"script":{"plain":` + q("send [X "+a+"] (\n source = @world\n destination = @a\n)\n") + `}}`, true
		}, "posting", false},
		{"monetary-var-text", func(a string) (string, bool) {
			return `{"script":{"plain":` + q(monScript) + `,"vars":{"m":` + q("X "+a) + `}}}`, true
		}, "posting", false},
		{"monetary-var-object-number", func(a string) (string, bool) {
			return `{"script":{"plain":` + q(monScript) + `,"vars":{"m":{"asset":"X","amount":` + a + `}}}}`, jsonNumber.MatchString(a)
		}, "posting", true},
		{"monetary-var-object-text", func(a string) (string, bool) {
			return `{"script":{"plain":` + q(monScript) + `,"vars":{"m":{"asset":"X","amount":` + q(a) + `}}}}`, true
		}, "posting", false},
		{"number-var-number", func(a string) (string, bool) {
			return `{"script":{"plain":` + q(numScript) + `,"vars":{"n":` + a + `}}}`, jsonNumber.MatchString(a)
		}, "meta", true},
		{"number-var-text", func(a string) (string, bool) {
			return `{"script":{"plain":` + q(numScript) + `,"vars":{"n":` + q(a) + `}}}`, true
		}, "meta", false},
		{"posting-number", func(a string) (string, bool) {
			return `{"postings":[{"source":"world","destination":"a","asset":"X","amount":` + a + `}]}`, jsonNumber.MatchString(a)
		}, "posting", true},
		{"posting-text", func(a string) (string, bool) {
			return `{"postings":[{"source":"world","destination":"a","asset":"X","amount":` + q(a) + `}]}`, true
		}, "posting", false},
	}
}

func apiAmounts(rep *evid.Reporter) (cases, accepted, refused int) {
	for _, form := range apiAmountForms() {
		for _, a := range apiAmountTexts {
			body, ok := form.Body(a)
			if !ok {
				continue
			}
			outcome := map[string]bool{}
			for _, entry := range []string{"v1", "v2", "v2-bulk", "v2-bulk-second"} {
				cases++
				st := memstore.New()
				eng := engineh.Start(st, nil)
				b := recbackend.New("l1")
				b.Ledgers["l1"].W = eng.Cmd
				path, reqBody := "/api/ledger/l1/transactions", body
				switch entry {
				case "v2":
					path = "/api/ledger/v2/l1/transactions"
				case "v2-bulk":
					path, reqBody = "/api/ledger/v2/l1/_bulk", `[{"action":"CREATE_TRANSACTION","data":`+body+`}]`
				case "v2-bulk-second":
					// behind an element of another shape (postings, metadata, reference, timestamp of its own)
					path, reqBody = "/api/ledger/v2/l1/_bulk", `[{"action":"CREATE_TRANSACTION","data":{"postings":[{"source":"world","destination":"zz","amount":77,"asset":"Y"}],"metadata":{"first":"x"},"reference":"first-ref","timestamp":"2023-01-01T00:00:00Z","script":{"vars":{"m":"Y 1","n":"1"}}}},{"action":"CREATE_TRANSACTION","data":`+body+`}]`
				}
				first := 0
				if entry == "v2-bulk-second" {
					first = 1
				}
				req := httptest.NewRequest("POST", path, strings.NewReader(reqBody)).WithContext(eng.Ctx())
				w := httptest.NewRecorder()
				var panicked interface{}
				func() {
					defer func() { panicked = recover() }()
					newRouter(b, false).ServeHTTP(w, req)
				}()
				logs := st.Snapshot()
				eng.Stop()
				replay := map[string]interface{}{"engine": "apiamounts", "form": form.Name, "amount": a, "entry": entry, "body": reqBody}
				key := func(k string) string { return "api-amount-" + k + ":" + form.Name }
				if panicked != nil {
					rep.Violation(key("panic"), fmt.Sprintf("amount %q supplied as %s through %s: the handler panicked: %v", a, form.Name, entry, panicked), replay)
					continue
				}
				success := w.Code >= 200 && w.Code < 300
				if strings.HasPrefix(entry, "v2-bulk") && strings.Contains(w.Body.String(), `"errorCode"`) {
					success = false
				}
				outcome[entry] = success
				if entry == "v2-bulk-second" && outcome["v2-bulk"] != success {
					rep.Violation(key("bulk-position"), fmt.Sprintf("amount %q supplied as %s: alone in a bulk the element is accepted=%v, behind an element of another shape accepted=%v (%s)", a, form.Name, outcome["v2-bulk"], success, w.Body.String()), replay)
				}
				if !success {
					refused++
					if len(logs) != first {
						rep.Violation(key("refused-with-entry"), fmt.Sprintf("amount %q supplied as %s through %s was refused (%d) but %d entries were committed", a, form.Name, entry, w.Code, len(logs)), replay)
					}
					continue
				}
				accepted++
				want := statedValue(a, form.JSONNumber)
				if want == nil || (want.Sign() < 0 && form.Where == "posting") {
					rep.Violation(key("spelling-accepted"), fmt.Sprintf("amount %q (states no non-negative integer) supplied as %s through %s was accepted: %s", a, form.Name, entry, w.Body.String()), replay)
					continue
				}
				if len(logs) != first+1 {
					rep.Violation(key("entries"), fmt.Sprintf("amount %q supplied as %s through %s reported success with %d entries committed", a, form.Name, entry, len(logs)), replay)
					continue
				}
				tx := txOfLog(logs[first])
				if tx == nil {
					rep.Violation(key("entries"), "the committed entry holds no transaction", replay)
					continue
				}
				switch form.Where {
				case "posting":
					if len(tx.Postings) != 1 || tx.Postings[0].Amount == nil || tx.Postings[0].Amount.Cmp(want) != 0 || tx.Postings[0].Source != "world" || tx.Postings[0].Destination != "a" || tx.Postings[0].Asset != "X" {
						rep.Violation(key("moved"), fmt.Sprintf("the request states %s (supplied as %s through %s); committed postings: %v", a, form.Name, entry, tx.Postings), replay)
					}
				case "meta":
					got, _ := new(big.Int).SetString(strings.Trim(tx.Metadata["n"], `"`), 10)
					if got == nil || got.Cmp(want) != 0 {
						rep.Violation(key("value"), fmt.Sprintf("the request binds number %s (supplied as %s through %s); the transaction metadata carries %q", a, form.Name, entry, tx.Metadata["n"]), replay)
					}
				}
				// the answer shows the committed transaction
				if tx != nil && entry == "v2-bulk-second" && (tx.Reference != "" || len(tx.Metadata) > 1 || tx.Metadata["first"] != "") {
					rep.Violation(key("inherited"), fmt.Sprintf("the second element of the bulk (amount %s supplied as %s) is committed with reference %q and metadata %v of the element before it", a, form.Name, tx.Reference, tx.Metadata), replay)
				}
				if !strings.Contains(w.Body.String(), want.String()) && form.Where == "posting" {
					rep.Violation(key("answer"), fmt.Sprintf("the answer to %s (supplied as %s through %s) does not carry the amount: %s", a, form.Name, entry, w.Body.String()), replay)
				}
			}
		}
	}
	return
}

var _ = ledger.NewTransaction
