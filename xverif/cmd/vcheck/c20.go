//go:build verif

package main

import (
	"context"
	"encoding/json"
	"fmt"
	"math/big"
	"net/http"
	"net/http/httptest"
	"net/url"
	"strings"
	"sync/atomic"

	ledger "github.com/formancehq/ledger/internal"
	"github.com/formancehq/ledger/internal/storage/ledgerstore"
	"github.com/formancehq/ledger/xverif/lib/engineh"
	"github.com/formancehq/ledger/xverif/lib/evid"
	"github.com/formancehq/ledger/xverif/lib/pglex"
	"github.com/formancehq/ledger/xverif/lib/recbackend"
	"github.com/formancehq/ledger/xverif/lib/recdb"
	"github.com/formancehq/ledger/xverif/lib/storeh"
	sharedapi "github.com/formancehq/stack/libs/go-libs/api"
	"github.com/formancehq/stack/libs/go-libs/bun/bunpaginate"
	"github.com/formancehq/stack/libs/go-libs/query"
)

func init() { checks["C20"] = c20 }

var hostile = []string{
	"'", "''", "\\'", "\\", "\\\\", "\"", "--", "/*", "*/", ";", "$$", "$1", "?", "??", "::", "E'", "\x00", "\n", "’", "%", "_", ")", "(",
	"?0", "?1", "?ledger", "?TableName", "?TableAlias", "?Columns", "?PKs", "%s", "%d", "%v", "%!s(MISSING)", "%[1]s",
	"x' or 1=1 --", "x' or '1'='1", "x'); drop table logs; --", "x\" or 1=1 --", "a'||'b", "x' /*", "$tag$x$tag$", "x]", "[x", "{\"a\":1}", "\\x27", "x\\' or 1=1 --",
	"' union select 1 --", "x?y", "x')::jsonpath or true --", "\" == \"\" || \"", "é'è",
}

// validators in the code base test for a character class somewhere in the text (an upper-case letter, a digit, an asset or
// address look): every hostile string also comes upper-cased and dressed as an asset / an address / a number
func init() {
	seen := map[string]bool{}
	for _, h := range hostile {
		seen[h] = true
	}
	base := append([]string{}, hostile...)
	for _, h := range base {
		for _, v := range []string{strings.ToUpper(h), "USD" + h, "USD/2" + h, "users:1" + h, "42" + h} {
			if !seen[v] {
				seen[v] = true
				hostile = append(hostile, v)
			}
		}
	}
}

const benign = "zzz"

// address shapes: where the client's text sits inside an address pattern
var addrShapes = []string{"%s", "%s:", ":%s", "a::%s", "%s::c", "a:%s:b"}

type sqlRun func(value string) (sqls []string, rejected bool)

func collect(rec *recdb.Recorder) []string {
	var out []string
	for _, q := range rec.Take() {
		out = append(out, q.SQL)
	}
	return out
}

// storeRunner: calls one store method with a filter built from JSON.
func storeRunner(method string, mkFilter func(v string) interface{}, pit, volumes, later bool) sqlRun {
	var st *ledgerstore.Store
	var rec *recdb.Recorder
	return func(v string) ([]string, bool) {
		raw, _ := json.Marshal(mkFilter(v))
		qb, err := query.ParseJSON(string(raw))
		if err != nil {
			return nil, true
		}
		if st == nil {
			st, rec = storeh.NewRecordingStore("b1", "l1")
		}
		_ = rec.Take()
		ctx := context.Background()
		var pitT *ledger.Time
		if pit {
			t, _ := ledger.ParseTime("2023-05-06T07:08:09Z")
			pitT = &t
		}
		var callErr error
		func() {
			defer func() {
				if e := recover(); e != nil {
					callErr = fmt.Errorf("panic: %v", e)
				}
			}()
			switch method {
			case "GetAccountsWithVolumes", "CountAccounts":
				opts := ledgerstore.NewPaginatedQueryOptions(ledgerstore.PITFilterWithVolumes{PITFilter: ledgerstore.PITFilter{PIT: pitT}, ExpandVolumes: volumes, ExpandEffectiveVolumes: volumes}).WithQueryBuilder(qb)
				q := ledgerstore.NewGetAccountsQuery(opts)
				if later {
					q.Offset = 3 // a later page, as a cursor token would carry it
				}
				if method == "CountAccounts" {
					_, callErr = st.CountAccounts(ctx, q)
				} else {
					_, callErr = st.GetAccountsWithVolumes(ctx, q)
				}
			case "GetTransactions", "CountTransactions":
				opts := ledgerstore.NewPaginatedQueryOptions(ledgerstore.PITFilterWithVolumes{PITFilter: ledgerstore.PITFilter{PIT: pitT}, ExpandVolumes: volumes, ExpandEffectiveVolumes: volumes}).WithQueryBuilder(qb)
				q := ledgerstore.NewGetTransactionsQuery(opts)
				if later {
					q.PaginationID, q.Bottom, q.Reverse = big.NewInt(7), big.NewInt(9), true
				}
				if method == "CountTransactions" {
					_, callErr = st.CountTransactions(ctx, q)
				} else {
					_, callErr = st.GetTransactions(ctx, q)
				}
			case "GetAggregatedBalances":
				opts := ledgerstore.NewPaginatedQueryOptions(ledgerstore.PITFilter{PIT: pitT}).WithQueryBuilder(qb)
				_, callErr = st.GetAggregatedBalances(ctx, ledgerstore.NewGetAggregatedBalancesQuery(opts))
			case "GetLogs":
				opts := ledgerstore.NewPaginatedQueryOptions[any](nil).WithQueryBuilder(qb)
				lq := ledgerstore.NewGetLogsQuery(opts)
				if later {
					lq.PaginationID, lq.Bottom = big.NewInt(7), big.NewInt(9)
				}
				_, callErr = st.GetLogs(ctx, lq)
			}
		}()
		sqls := collect(rec)
		// an error before any SQL was sent = the request was rejected as invalid
		if callErr != nil && len(sqls) == 0 {
			return nil, true
		}
		return sqls, false
	}
}

// httpRunner: sends one HTTP request to the real router; list methods of the backend run the real store on a recorder.
func httpRunner(mkReq func(v string) (method, target, body string)) sqlRun {
	// one store + router per case (a case is worked on by one goroutine at a time): building them per value made the
	// thorough tier allocate tens of GB of short-lived routers
	var rec *recdb.Recorder
	var router http.Handler
	return func(v string) ([]string, bool) {
		if router == nil {
			var st *ledgerstore.Store
			st, rec = storeh.NewRecordingStore("b1", "l1")
			b := recbackend.New("l1")
			b.R = recbackend.Reads{
				GetAccountsWithVolumes: st.GetAccountsWithVolumes,
				CountAccounts:          st.CountAccounts,
				GetAggregatedBalances:  st.GetAggregatedBalances,
				GetLogs:                st.GetLogs,
				CountTransactions:      st.CountTransactions,
				GetTransactions:        st.GetTransactions,
			}
			router = newRouter(b, false)
		}
		_ = rec.Take()
		m, target, body := mkReq(v)
		var code int
		func() {
			defer func() {
				if recover() != nil {
					code = 500
				}
			}()
			req := httptest.NewRequest(m, target, strings.NewReader(body)).WithContext(engineh.QuietCtx())
			w := httptest.NewRecorder()
			router.ServeHTTP(w, req)
			code = w.Code
		}()
		sqls := collect(rec)
		if len(sqls) == 0 {
			return nil, true
		}
		_ = code
		return sqls, false
	}
}

type c20Case struct {
	Name string
	Run  sqlRun
	Addr bool // the value is an address pattern: try every shape
}

func c20Cases(thorough bool) []c20Case {
	var out []c20Case
	wrap := map[string]func(f interface{}) interface{}{
		"plain": func(f interface{}) interface{} { return f },
		"and":   func(f interface{}) interface{} { return map[string]interface{}{"$and": []interface{}{f, f}} },
		// next to another clause that carries an argument of its own (a placeholder smuggled into the client's text would
		// take it), in either order
		"and-then-arg": func(f interface{}) interface{} {
			return map[string]interface{}{"$and": []interface{}{f, map[string]interface{}{"$match": map[string]interface{}{"metadata[k]": "zzz"}}}}
		},
		"arg-then-and": func(f interface{}) interface{} {
			return map[string]interface{}{"$and": []interface{}{map[string]interface{}{"$match": map[string]interface{}{"metadata[k]": "zzz"}}, f}}
		},
		"or-not": func(f interface{}) interface{} {
			return map[string]interface{}{"$or": []interface{}{map[string]interface{}{"$not": f}, f}}
		},
	}
	kv := func(op, key string, v interface{}) interface{} {
		return map[string]interface{}{op: map[string]interface{}{key: v}}
	}
	ops := []string{"$match", "$lt", "$lte", "$gt", "$gte"}
	type keySpec struct {
		methods []string
		key     func(v string) string // key text (may embed the client's text)
		val     func(v string) interface{}
		addr    bool
		name    string
	}
	acc := []string{"GetAccountsWithVolumes", "CountAccounts"}
	txs := []string{"GetTransactions", "CountTransactions"}
	keys := []keySpec{
		{acc, func(string) string { return "address" }, func(v string) interface{} { return v }, true, "address"},
		{[]string{"GetAggregatedBalances"}, func(string) string { return "address" }, func(v string) interface{} { return v }, true, "address"},
		{acc, func(string) string { return "metadata[k]" }, func(v string) interface{} { return v }, false, "metadata-value"},
		{acc, func(v string) string { return "metadata[" + v + "]" }, func(string) interface{} { return "x" }, false, "metadata-key"},
		{[]string{"GetAggregatedBalances"}, func(v string) string { return "metadata[" + v + "]" }, func(v string) interface{} { return v }, false, "metadata-key+value"},
		{acc, func(v string) string { return "balance[" + v + "]" }, func(string) interface{} { return 5 }, false, "balance-asset"},
		{acc, func(string) string { return "balance[USD]" }, func(v string) interface{} { return v }, false, "balance-value"},
		{acc, func(string) string { return "balance" }, func(v string) interface{} { return v }, false, "balance-any-value"},
		{txs, func(string) string { return "reference" }, func(v string) interface{} { return v }, false, "reference"},
		{txs, func(string) string { return "timestamp" }, func(v string) interface{} { return v }, false, "timestamp"},
		{txs, func(string) string { return "date" }, func(v string) interface{} { return v }, false, "date"},
		{txs, func(string) string { return "id" }, func(v string) interface{} { return v }, false, "id"},
		{txs, func(string) string { return "account" }, func(v string) interface{} { return v }, true, "account"},
		{txs, func(string) string { return "source" }, func(v string) interface{} { return v }, true, "source"},
		{txs, func(string) string { return "destination" }, func(v string) interface{} { return v }, true, "destination"},
		{txs, func(string) string { return "metadata[k]" }, func(v string) interface{} { return v }, false, "metadata-value"},
		{txs, func(v string) string { return "metadata[" + v + "]" }, func(string) interface{} { return "x" }, false, "metadata-key"},
		{[]string{"GetLogs"}, func(string) string { return "date" }, func(v string) interface{} { return v }, false, "date"},
		{[]string{"GetLogs"}, func(string) string { return "id" }, func(v string) interface{} { return v }, false, "id"},
		{append(append([]string{"GetLogs"}, acc...), txs...), func(v string) string { return v }, func(string) interface{} { return "x" }, false, "unknown-key"},
	}
	for _, ks := range keys {
		for _, m := range ks.methods {
			for _, op := range ops {
				for wn, wf := range wrap {
					if !thorough && wn != "plain" && op != "$match" {
						continue
					}
					for _, pit := range []bool{false, true} {
						for _, vol := range []bool{false, true} {
							if vol && (m == "GetLogs" || m == "GetAggregatedBalances" || !pit && !thorough) {
								continue
							}
							ks, m, op, wf, pit, vol := ks, m, op, wf, pit, vol
							for _, later := range []bool{false, true} {
								if later && (m == "GetAggregatedBalances" || strings.HasPrefix(m, "Count") || (!thorough && (op != "$match" || wn != "plain"))) {
									continue
								}
								later := later
								out = append(out, c20Case{
									Name: fmt.Sprintf("store %s %s %s %s pit=%v volumes=%v later-page=%v", m, ks.name, op, wn, pit, vol, later),
									Run:  storeRunner(m, func(v string) interface{} { return wf(kv(op, ks.key(v), ks.val(v))) }, pit, vol, later),
									Addr: ks.addr,
								})
							}
						}
					}
				}
			}
		}
	}
	// v2: JSON bodies through the real handlers
	v2 := func(name, method, path string, mk func(v string) interface{}, addr bool) {
		out = append(out, c20Case{Name: "v2 " + name, Addr: addr, Run: httpRunner(func(v string) (string, string, string) {
			raw, _ := json.Marshal(mk(v))
			return method, "/api/ledger/v2/l1/" + path, string(raw)
		})})
	}
	for _, pit := range []string{"", "?pit=2023-05-06T07:08:09Z", "?expand=volumes&expand=effectiveVolumes"} {
		v2("accounts address"+pit, "GET", "accounts"+pit, func(v string) interface{} { return kv("$match", "address", v) }, true)
		v2("accounts metadata value"+pit, "GET", "accounts"+pit, func(v string) interface{} { return kv("$match", "metadata[k]", v) }, false)
		v2("accounts metadata key"+pit, "GET", "accounts"+pit, func(v string) interface{} { return kv("$match", "metadata["+v+"]", "x") }, false)
		v2("accounts balance asset"+pit, "GET", "accounts"+pit, func(v string) interface{} { return kv("$lt", "balance["+v+"]", 5) }, false)
		v2("accounts count address"+pit, "HEAD", "accounts"+pit, func(v string) interface{} { return kv("$match", "address", v) }, true)
		v2("transactions account"+pit, "GET", "transactions"+pit, func(v string) interface{} { return kv("$match", "account", v) }, true)
		v2("transactions source"+pit, "GET", "transactions"+pit, func(v string) interface{} { return kv("$match", "source", v) }, true)
		v2("transactions destination"+pit, "GET", "transactions"+pit, func(v string) interface{} { return kv("$match", "destination", v) }, true)
		v2("transactions reference"+pit, "GET", "transactions"+pit, func(v string) interface{} { return kv("$match", "reference", v) }, false)
		v2("transactions metadata key"+pit, "GET", "transactions"+pit, func(v string) interface{} { return kv("$match", "metadata["+v+"]", "x") }, false)
		v2("transactions count account"+pit, "HEAD", "transactions"+pit, func(v string) interface{} { return kv("$match", "account", v) }, true)
		v2("aggregate balances address"+pit, "GET", "aggregate/balances"+pit, func(v string) interface{} { return kv("$match", "address", v) }, true)
	}
	v2("logs date", "GET", "logs", func(v string) interface{} { return kv("$lt", "date", v) }, false)
	// cursor tokens: the filter travels inside a token the client sends back (and can forge), at a later position
	cursor := func(name, api, path string, mkTok func(qb query.Builder) string, mk func(v string) interface{}, addr bool) {
		out = append(out, c20Case{Name: api + " cursor " + name, Addr: addr, Run: httpRunner(func(v string) (string, string, string) {
			raw, _ := json.Marshal(mk(v))
			qb, err := query.ParseJSON(string(raw))
			if err != nil {
				return "GET", "/nowhere", ""
			}
			prefix := "/api/ledger/v2/l1/"
			if api == "v1" {
				prefix = "/api/ledger/l1/"
			}
			return "GET", prefix + path + "?cursor=" + url.QueryEscape(mkTok(qb)), ""
		})})
	}
	accTok := func(qb query.Builder) string {
		q := ledgerstore.NewGetAccountsQuery(ledgerstore.NewPaginatedQueryOptions(ledgerstore.PITFilterWithVolumes{}).WithQueryBuilder(qb).WithPageSize(3))
		q.Offset = 3
		return bunpaginate.EncodeCursor(q)
	}
	txTok := func(qb query.Builder) string {
		q := ledgerstore.NewGetTransactionsQuery(ledgerstore.NewPaginatedQueryOptions(ledgerstore.PITFilterWithVolumes{}).WithQueryBuilder(qb).WithPageSize(3))
		q.PaginationID, q.Bottom = big.NewInt(7), big.NewInt(9)
		return bunpaginate.EncodeCursor(q)
	}
	logTok := func(qb query.Builder) string {
		q := ledgerstore.NewGetLogsQuery(ledgerstore.NewPaginatedQueryOptions[any](nil).WithQueryBuilder(qb).WithPageSize(3))
		q.PaginationID, q.Bottom = big.NewInt(7), big.NewInt(9)
		return bunpaginate.EncodeCursor(q)
	}
	for _, api := range []string{"v2", "v1"} {
		cursor("accounts address", api, "accounts", accTok, func(v string) interface{} { return kv("$match", "address", v) }, true)
		cursor("accounts metadata key", api, "accounts", accTok, func(v string) interface{} { return kv("$match", "metadata["+v+"]", "x") }, false)
		cursor("accounts metadata value", api, "accounts", accTok, func(v string) interface{} { return kv("$match", "metadata[k]", v) }, false)
		cursor("accounts balance asset", api, "accounts", accTok, func(v string) interface{} { return kv("$lt", "balance["+v+"]", 5) }, false)
		cursor("transactions account", api, "transactions", txTok, func(v string) interface{} { return kv("$match", "account", v) }, true)
		cursor("transactions source", api, "transactions", txTok, func(v string) interface{} { return kv("$match", "source", v) }, true)
		cursor("transactions destination", api, "transactions", txTok, func(v string) interface{} { return kv("$match", "destination", v) }, true)
		cursor("transactions reference", api, "transactions", txTok, func(v string) interface{} { return kv("$match", "reference", v) }, false)
		cursor("transactions metadata key", api, "transactions", txTok, func(v string) interface{} { return kv("$match", "metadata["+v+"]", "x") }, false)
		cursor("logs date", api, "logs", logTok, func(v string) interface{} { return kv("$lt", "date", v) }, false)
	}
	cursor("balances address", "v1", "balances", accTok, func(v string) interface{} { return kv("$match", "address", v) }, true)
	// v1: query parameters
	v1 := func(name, method, path, param string, addr bool, extra string) {
		out = append(out, c20Case{Name: "v1 " + name, Addr: addr, Run: httpRunner(func(v string) (string, string, string) {
			q := url.Values{}
			q.Set(param, v)
			return method, "/api/ledger/l1/" + path + "?" + q.Encode() + extra, ""
		})})
	}
	v1("accounts address", "GET", "accounts", "address", true, "")
	v1("accounts count address", "HEAD", "accounts", "address", true, "")
	v1("accounts metadata value", "GET", "accounts", "metadata[k]", false, "")
	v1("accounts balance", "GET", "accounts", "balance", false, "&balanceOperator=lt")
	v1("accounts balanceOperator", "GET", "accounts", "balanceOperator", false, "&balance=5")
	v1("transactions account", "GET", "transactions", "account", true, "")
	v1("transactions source", "GET", "transactions", "source", true, "")
	v1("transactions destination", "GET", "transactions", "destination", true, "")
	v1("transactions reference", "GET", "transactions", "reference", false, "")
	v1("transactions metadata value", "GET", "transactions", "metadata[k]", false, "")
	v1("transactions start_time", "GET", "transactions", "start_time", false, "")
	v1("transactions after", "GET", "transactions", "after", false, "")
	v1("transactions count account", "HEAD", "transactions", "account", true, "")
	v1("balances address", "GET", "balances", "address", true, "")
	v1("aggregate balances address", "GET", "aggregate/balances", "address", true, "")
	v1("logs start_time", "GET", "logs", "start_time", false, "")
	// metadata key through v1 (the parameter NAME carries the client's text)
	out = append(out, c20Case{Name: "v1 accounts metadata key", Run: httpRunner(func(v string) (string, string, string) {
		q := url.Values{}
		q.Set("metadata["+v+"]", "x")
		return "GET", "/api/ledger/l1/accounts?" + q.Encode(), ""
	})})
	return out
}

func c20() int {
	silenceStderr()
	rep := evid.NewReporter("C20", "exploration")
	cases := c20Cases(rep.Thorough())
	var evals, accepted, rejected int64
	var samples evid.Samples
	samples.N = 5
	evid.ParallelFor(len(cases), workers(), func(w, ci int) {
		c := cases[ci]
		shapes := []string{"%s"}
		if c.Addr {
			shapes = addrShapes
		}
		for _, sh := range shapes {
			// besides the fixed list: "?name" for every identifier of the statement the harmless request sends (the SQL builder
			// substitutes ?name / ?0 placeholders; a client value must never be read as one)
			hs := hostile
			if probe, rej := c.Run(fmt.Sprintf(sh, benign)); !rej {
				seen := map[string]bool{}
				for _, q := range probe {
					for _, t := range pglex.Lex(q) {
						if t.Kind == "ident" && !seen[t.Text] && len(seen) < 24 {
							seen[t.Text] = true
							hs = append(append([]string{}, hs...), "?"+t.Text)
						}
					}
				}
			}
			for _, h := range hs {
				val := fmt.Sprintf(sh, h)
				// the harmless value of the same shape: same segmentation (for address patterns), every non-empty segment replaced
				harmless := benign
				if c.Addr {
					segs := strings.Split(val, ":")
					for i, sg := range segs {
						if sg != "" {
							segs[i] = benign
						}
					}
					harmless = strings.Join(segs, ":")
				}
				base, baseRej := c.Run(harmless)
				got, rej := c.Run(val)
				atomic.AddInt64(&evals, 1)
				if rej {
					atomic.AddInt64(&rejected, 1)
					continue
				}
				atomic.AddInt64(&accepted, 1)
				replay := map[string]interface{}{"engine": "sqlskeleton", "case": c.Name, "shape": sh, "value": val}
				if baseRej {
					// the harmless value of the same shape is rejected but the hostile one is not: nothing to compare with, judge the text alone
					base = nil
				}
				if base != nil && len(got) != len(base) {
					rep.Violation("sql-count:"+c20Key(c.Name), fmt.Sprintf("%d SQL statements for %q, %d for a harmless value of the same shape", len(got), val, len(base)), replay)
					continue
				}
				for i, s := range got {
					toks := pglex.Lex(s)
					sk := pglex.Skeleton(toks)
					if strings.Contains(sk, "<BAD>") {
						replay["sql"] = s
						rep.Violation("sql-unterminated:"+c20Key(c.Name), fmt.Sprintf("value %q leaves a literal or comment unterminated in: %s", val, s), replay)
						break
					}
					if base != nil {
						if bsk := pglex.Skeleton(pglex.Lex(base[i])); bsk != sk {
							replay["sql"] = s
							replay["harmless_sql"] = base[i]
							rep.Violation("sql-structure:"+c20Key(c.Name), fmt.Sprintf("value %q changes the structure of the SQL: %s  (harmless: %s)", val, s, base[i]), replay)
							break
						}
					}
				}
				samples.Offer(func() interface{} {
					return map[string]interface{}{"case": c.Name, "value": val, "sql": got}
				})
			}
		}
	})
	if accepted == 0 {
		rep.Undecide("every request was rejected before any SQL was sent: the harness does not reach the SQL layer of this tree")
	}
	cov := evid.Coverage{
		"evaluations":         int(evals),
		"distinct_nontrivial": int(accepted),
		"rule":                fmt.Sprintf("every filter key x operator x ($and/$or/$not wrapper) x PIT on/off x volumes on/off for Get/Count Accounts, Get/Count Transactions, GetAggregatedBalances, GetLogs called on the real store over a recording SQL driver, plus the v2 (JSON body) and v1 (query parameter) HTTP handlers over that store (%d cases) x address shapes x %d hostile strings (a base list, each also upper-cased and prefixed like an asset, an address and a number); the SQL sent is lexed with a PostgreSQL lexer and its token skeleton compared with that of a harmless value of the same shape; non-trivial = requests that were not rejected (%d rejected)", len(cases), len(hostile), rejected),
		"samples":             samples.Got,
		"exhaustive":          true,
		"cases":               len(cases),
		"rejected":            int(rejected),
	}
	rep.Assume = []string{"bun renders bound arguments client-side with pgdialect quoting; the lexer implements PostgreSQL's token syntax with standard_conforming_strings=on", "jsonpath / jsonb literal *contents* are not parsed: only SQL-level structure is compared"}
	return rep.Finish(cov)
}

func c20Key(name string) string {
	f := strings.Fields(name)
	if len(f) >= 3 && f[0] == "store" {
		return f[1] + " " + f[2]
	}
	return name
}

var _ = sharedapi.Cursor[int]{}
