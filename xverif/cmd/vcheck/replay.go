package main

import (
	"encoding/json"
	"fmt"
	"os"

	"github.com/formancehq/ledger/xverif/lib/nsgen"
	"github.com/formancehq/ledger/xverif/lib/nsrun"
)

var replayers = map[string]func(raw json.RawMessage) int{}

func replay(path string) int {
	b, err := os.ReadFile(path)
	if err != nil {
		fmt.Println(err)
		return 3
	}
	var f struct {
		Property string          `json:"property"`
		Key      string          `json:"key"`
		Replay   json.RawMessage `json:"replay"`
	}
	if err := json.Unmarshal(b, &f); err != nil {
		fmt.Println(err)
		return 3
	}
	var eng struct {
		Engine string `json:"engine"`
	}
	_ = json.Unmarshal(f.Replay, &eng)
	fmt.Printf("replaying %s key=%s engine=%s\n", f.Property, f.Key, eng.Engine)
	if eng.Engine == "nsgen" {
		var r nsReplay
		_ = json.Unmarshal(f.Replay, &r)
		if r.Input == nil {
			r.Input = &nsgen.Input{}
		}
		res := nsrun.Run(r.Text, r.Input)
		fmt.Printf("program:\n%s\ninput: %s\nimplementation: class=%s phase=%s err=%q panic=%q\npostings=%v txmeta=%v accmeta=%v\n", r.Text, shortJSON(r.Input), res.Class, res.Phase, res.Err, res.Panic, res.Postings, res.TxMeta, res.AccMeta)
		return 0
	}
	if fn, ok := replayers[eng.Engine]; ok {
		return fn(f.Replay)
	}
	fmt.Println("unknown engine")
	return 3
}
