//go:build verif

package main

import (
	"context"
	"fmt"
	"math/big"
	"os"
	"runtime/debug"
	"sort"
	"strings"
	"sync"
	"sync/atomic"
	"time"

	ledger "github.com/formancehq/ledger/internal"
	"github.com/formancehq/ledger/internal/storage/ledgerstore"
	"github.com/formancehq/ledger/xverif/lib/evid"
	"github.com/formancehq/ledger/xverif/lib/memstore"
	"github.com/formancehq/ledger/xverif/lib/pgmini"
	"github.com/formancehq/ledger/xverif/lib/storeh"
	"github.com/formancehq/stack/libs/go-libs/metadata"
	"github.com/formancehq/stack/libs/go-libs/query"
	"github.com/uptrace/bun"
	"github.com/uptrace/bun/dialect/pgdialect"
)

func init() { checks["C04"] = c04 }

const schemaFile = "/repo/internal/storage/ledgerstore/migrations/0-init-schema.sql"

// a state of the exploration: the interpreted database plus, per ledger, the chained logs it was fed
type c04State struct {
	db   *pgmini.DB
	logs map[string][]*ledger.ChainedLog
	path []string
	// kinds of disagreement already present in an ancestor state (reported there, with the operation that introduced them)
	bad map[string]bool
}

type c04Op struct {
	Name   string
	Ledger string
	// Make builds the log(s) to append, or nil when the op is not applicable in this state
	Make func(st *c04State) []*ledger.Log
	// At: date of the log entries (zero: the synthetic clock of the history)
	At ledger.Time
}

var (
	c04T0, _ = ledger.ParseTime("2023-05-06T06:00:00Z")
	c04T1, _ = ledger.ParseTime("2023-05-06T07:08:09.123456Z")
	c04T2, _ = ledger.ParseTime("2100-01-01T00:00:00Z") // later than the wall clock of any run: a v2 read without pit (= now) must not show it yet
	c04TOff  = func() ledger.Time { t, _ := ledger.ParseTime("2023-05-06T09:30:00+02:00"); return t }()
	// log entries are inserted from 07:00:00 on, one second apart: t0 is back-dated, t1 / the offset one slightly ahead, t2 far ahead
	c04Base = time.Date(2023, 5, 6, 7, 0, 0, 0, time.UTC)
)

func nextTxID(logs []*ledger.ChainedLog) *big.Int {
	n := int64(0)
	for _, l := range logs {
		switch l.Data.(type) {
		case ledger.NewTransactionLogPayload, ledger.RevertedTransactionLogPayload:
			n++
		}
	}
	return big.NewInt(n)
}

func c04Ops(thorough bool) []c04Op {
	tx := func(name, ldg string, ts ledger.Time, md metadata.Metadata, am map[string]metadata.Metadata, ref bool, ps ...ledger.Posting) c04Op {
		return c04Op{Name: name, Ledger: ldg, Make: func(st *c04State) []*ledger.Log {
			id := nextTxID(st.logs[ldg])
			t := ledger.NewTransaction().WithPostings(ps...).WithID(id).WithDate(ts).WithMetadata(md)
			if ref {
				t = t.WithReference("ref-" + id.String())
			}
			if am == nil {
				am = map[string]metadata.Metadata{}
			}
			l := ledger.NewTransactionLogWithDate(t, am, ledger.Time{})
			if ref {
				// the same key on both ledgers of the bucket: a key belongs to its ledger
				l = l.WithIdempotencyKey("ik-" + id.String())
			}
			return []*ledger.Log{l}
		}}
	}
	p := func(s, d, a string, n int64) ledger.Posting { return ledger.NewPosting(s, d, a, big.NewInt(n)) }
	big70 := ledger.NewPosting("world", "a", "X", new(big.Int).Lsh(big.NewInt(1), 70))
	ops := []c04Op{
		tx("tx world->a 5 @t1", "l1", c04T1, metadata.Metadata{}, nil, false, p("world", "a", "X", 5)),
		tx("tx a->b 3 @t1", "l1", c04T1, metadata.Metadata{}, nil, false, p("a", "b", "X", 3)),
		tx("tx a->a 2 @t1 (self transfer)", "l1", c04T1, metadata.Metadata{}, nil, false, p("a", "a", "X", 2)),
		tx("tx a->b 1, b->c 1 @t1", "l1", c04T1, metadata.Metadata{}, nil, false, p("a", "b", "X", 1), p("b", "c", "X", 1)),
		tx("tx world->a 5 @t0 (back-dated)", "l1", c04T0, metadata.Metadata{}, nil, false, p("world", "a", "X", 5)),
		tx("tx world->a 5 @t2 (future)", "l1", c04T2, metadata.Metadata{}, nil, false, p("world", "a", "X", 5)),
		tx("tx world->a 2^63+1 +02:00 offset", "l1", c04TOff, metadata.Metadata{}, nil, false, ledger.NewPosting("world", "a", "X", new(big.Int).Add(new(big.Int).Lsh(big.NewInt(1), 63), big.NewInt(1)))),
		tx("tx with metadata+reference+account metadata", "l1", c04T1, metadata.Metadata{"m": "1"}, map[string]metadata.Metadata{"a": {"k": "v"}, "z": {"only": "meta"}, "b": {"seen": "y"}}, true, p("world", "a", "X", 1)), // (a: takes part; z: new, takes no part; b: takes no part and may exist already)
		{Name: "revert last unreverted tx", Ledger: "l1", Make: func(st *c04State) []*ledger.Log {
			f := memstore.Fold(st.logs["l1"])
			ids := f.TxIDs()
			for i := len(ids) - 1; i >= 0; i-- {
				t := f.Tx(ids[i])
				if !t.Reverted && t.Metadata[ledger.RevertMetadataSpecKey()] == "" {
					rt := t.Reverse()
					nt := ledger.NewTransaction().WithPostings(rt.Postings...).WithID(nextTxID(st.logs["l1"])).WithDate(c04T1).WithMetadata(ledger.MarkReverts(metadata.Metadata{}, t.ID))
					return []*ledger.Log{ledger.NewRevertedTransactionLog(ledger.Time{}, t.ID, nt)}
				}
			}
			return nil
		}},
		{Name: "set metadata account a", Ledger: "l1", Make: func(st *c04State) []*ledger.Log {
			return []*ledger.Log{ledger.NewSetMetadataOnAccountLog(ledger.Time{}, "a", metadata.Metadata{"k2": "v2", "k": "w"})}
		}},
		{Name: "set metadata tx 0", Ledger: "l1", Make: func(st *c04State) []*ledger.Log {
			if nextTxID(st.logs["l1"]).Sign() == 0 {
				return nil
			}
			return []*ledger.Log{ledger.NewSetMetadataOnTransactionLog(ledger.Time{}, big.NewInt(0), metadata.Metadata{"m": "x", "n": "y"})}
		}},
		{Name: "delete metadata account a key k", Ledger: "l1", Make: func(st *c04State) []*ledger.Log {
			return []*ledger.Log{ledger.NewDeleteMetadataLog(ledger.Time{}, ledger.DeleteMetadataLogPayload{TargetType: ledger.MetaTargetTypeAccount, TargetID: "a", Key: "k"})}
		}},
		{Name: "delete metadata tx 0 key m", Ledger: "l1", Make: func(st *c04State) []*ledger.Log {
			if nextTxID(st.logs["l1"]).Sign() == 0 {
				return nil
			}
			return []*ledger.Log{ledger.NewDeleteMetadataLog(ledger.Time{}, ledger.DeleteMetadataLogPayload{TargetType: ledger.MetaTargetTypeTransaction, TargetID: big.NewInt(0), Key: "m"})}
		}},
		tx("L2: tx world->a 1 @t1", "l2", c04T1, metadata.Metadata{"on": "l2"}, map[string]metadata.Metadata{"a": {"l2": "yes"}}, true, p("world", "a", "X", 1)),
		{Name: "L2: set metadata account a", Ledger: "l2", Make: func(st *c04State) []*ledger.Log {
			return []*ledger.Log{ledger.NewSetMetadataOnAccountLog(ledger.Time{}, "a", metadata.Metadata{"k": "l2"})}
		}},
	}
	if thorough {
		ops = append(ops,
			tx("tx n->n 2 (self transfer, new account)", "l1", c04T1, metadata.Metadata{}, nil, false, p("n", "n", "X", 2)),
			tx("tx world->a Y 7", "l1", c04T1, metadata.Metadata{}, nil, false, p("world", "a", "Y/2", 7)),
			tx("tx world->a 2^70", "l1", c04T1, metadata.Metadata{}, nil, false, big70),
			c04Op{Name: "batch of two: world->a 5, a->b 5", Ledger: "l1", Make: func(st *c04State) []*ledger.Log {
				id := nextTxID(st.logs["l1"])
				t1 := ledger.NewTransaction().WithPostings(p("world", "a", "X", 5)).WithID(id).WithDate(c04T1)
				t2 := ledger.NewTransaction().WithPostings(p("a", "b", "X", 5)).WithID(new(big.Int).Add(id, big.NewInt(1))).WithDate(c04T1)
				return []*ledger.Log{ledger.NewTransactionLogWithDate(t1, map[string]metadata.Metadata{}, ledger.Time{}), ledger.NewTransactionLogWithDate(t2, map[string]metadata.Metadata{}, ledger.Time{})}
			}},
		)
	} else {
		ops = append(ops, tx("tx n->n 2 (self transfer, new account)", "l1", c04T1, metadata.Metadata{}, nil, false, p("n", "n", "X", 2)))
	}
	ops = append(ops, tx("tx world->a X 1, world->a Y 1 (two assets)", "l1", c04T1, metadata.Metadata{}, nil, false, p("world", "a", "X", 1), p("world", "a", "Y/2", 1)))
	if thorough {
		ops = append(ops,
			tx("tx @t0 (back-dated) writing metadata on z", "l1", c04T0, metadata.Metadata{}, map[string]metadata.Metadata{"z": {"only": "old", "extra": "1"}}, false, p("world", "a", "X", 1)),
			c04Op{Name: "set metadata account z", Ledger: "l1", Make: func(st *c04State) []*ledger.Log {
				return []*ledger.Log{ledger.NewSetMetadataOnAccountLog(ledger.Time{}, "z", metadata.Metadata{"k2": "v2"})}
			}})
	}
	return ops
}

func (st *c04State) store(ldg string) *ledgerstore.Store {
	db := bun.NewDB(pgmini.OpenSQL(st.db, "b1"), pgdialect.New(), bun.WithDiscardUnknownColumns())
	return ledgerstore.VerifNewStore(db, "b1", ldg)
}

// apply: append the op's logs through the real Store.InsertLogs; returns the successor state (or an error string).
func (st *c04State) apply(op c04Op) (*c04State, string) {
	ls := op.Make(st)
	if ls == nil {
		return nil, ""
	}
	n := &c04State{db: st.db.Clone(), logs: map[string][]*ledger.ChainedLog{}, path: append(append([]string{}, st.path...), op.Name), bad: map[string]bool{}}
	for k := range st.bad {
		n.bad[k] = true
	}
	for k, v := range st.logs {
		n.logs[k] = v
	}
	chain := n.logs[op.Ledger]
	var batch []*ledger.ChainedLog
	total := len(n.logs["l1"]) + len(n.logs["l2"])
	for i, l := range ls {
		l.Date = ledger.Time{Time: c04Base.Add(time.Duration(total+i) * time.Second)}
		if !op.At.IsZero() {
			l.Date = op.At
		}
		var prev *ledger.ChainedLog
		if len(chain) > 0 {
			prev = chain[len(chain)-1]
		}
		cl := l.ChainLog(prev)
		chain = append(append([]*ledger.ChainedLog{}, chain...), cl)
		batch = append(batch, cl)
	}
	s := n.store(op.Ledger)
	err := s.InsertLogs(context.Background(), batch...)
	_ = s.GetDB().Close()
	if err != nil {
		return nil, err.Error()
	}
	n.logs[op.Ledger] = chain
	return n, ""
}

type moveKey struct{ acc, asset string }

// accountAt: what the log says about an account as of pit (nil = now). Entries are dated by their log entry, except (byTS)
// metadata a script writes on an account outside its postings, which the schema dates with the transaction's timestamp.
func accountAt(logs []*ledger.ChainedLog, a string, pit *ledger.Time, byTS bool) (bool, metadata.Metadata) {
	upTo := pitOrMax(pit)
	vis := false
	md := metadata.Metadata{}
	merge := func(m metadata.Metadata) {
		vis = true
		for k, v := range m {
			md[k] = v
		}
	}
	for _, l := range logs {
		in := !l.Date.Time.After(upTo)
		switch p := l.Data.(type) {
		case ledger.NewTransactionLogPayload:
			posted := false
			for _, ps := range p.Transaction.Postings {
				if ps.Source == a || ps.Destination == a {
					posted = true
				}
			}
			am, has := p.AccountMetadata[a]
			if posted && in {
				merge(am)
			}
			if !posted && has {
				when := l.Date.Time
				if byTS {
					when = p.Transaction.Timestamp.Time
				}
				if !when.After(upTo) {
					merge(am)
				}
			}
		case ledger.RevertedTransactionLogPayload:
			for _, ps := range p.RevertTransaction.Postings {
				if (ps.Source == a || ps.Destination == a) && in {
					vis = true
				}
			}
		case ledger.SetMetadataLogPayload:
			if p.TargetType == ledger.MetaTargetTypeAccount && fmt.Sprint(p.TargetID) == a && in {
				merge(p.Metadata)
			}
		case ledger.DeleteMetadataLogPayload:
			if p.TargetType == ledger.MetaTargetTypeAccount && fmt.Sprint(p.TargetID) == a && in {
				delete(md, p.Key)
			}
		}
	}
	return vis, md
}

// txAt: what the log says about transaction id as of pit (nil = now): visible from its timestamp on, reverted from the
// reverting transaction's timestamp on, metadata = creation metadata plus the metadata entries dated up to pit.
func txAt(logs []*ledger.ChainedLog, id string, pit *ledger.Time) (visible, reverted bool, md metadata.Metadata, tx *ledger.Transaction) {
	upTo := pitOrMax(pit)
	for _, l := range logs {
		switch p := l.Data.(type) {
		case ledger.NewTransactionLogPayload:
			if p.Transaction.ID.String() == id {
				tx = p.Transaction
				visible = !tx.Timestamp.Time.After(upTo)
				md = tx.Metadata.Copy()
			}
		case ledger.RevertedTransactionLogPayload:
			if p.RevertTransaction.ID.String() == id {
				tx = p.RevertTransaction
				visible = !tx.Timestamp.Time.After(upTo)
				md = tx.Metadata.Copy()
			}
			if p.RevertedTransactionID.String() == id && !p.RevertTransaction.Timestamp.Time.After(upTo) {
				reverted = true
			}
		case ledger.SetMetadataLogPayload:
			if p.TargetType == ledger.MetaTargetTypeTransaction && fmt.Sprint(p.TargetID) == id && !l.Date.Time.After(upTo) {
				for k, v := range p.Metadata {
					md[k] = v
				}
			}
		case ledger.DeleteMetadataLogPayload:
			if p.TargetType == ledger.MetaTargetTypeTransaction && fmt.Sprint(p.TargetID) == id && !l.Date.Time.After(upTo) {
				delete(md, p.Key)
			}
		}
	}
	return
}

// expected moves of one ledger: in log order, source then destination per posting
type expMove struct {
	acc, asset string
	amt        *big.Int
	isSource   bool
	eff        time.Time
	ins        time.Time // date of the log entry that produced it
	tx         string    // id of the transaction it belongs to
}

func expectedMoves(logs []*ledger.ChainedLog) []expMove {
	var out []expMove
	for _, l := range logs {
		var tx *ledger.Transaction
		switch p := l.Data.(type) {
		case ledger.NewTransactionLogPayload:
			tx = p.Transaction
		case ledger.RevertedTransactionLogPayload:
			tx = p.RevertTransaction
		}
		if tx == nil {
			continue
		}
		eff := tx.Timestamp.Time.UTC()
		for _, p := range tx.Postings {
			out = append(out, expMove{p.Source, p.Asset, p.Amount, true, eff, l.Date.Time.UTC(), tx.ID.String()}, expMove{p.Destination, p.Asset, p.Amount, false, eff, l.Date.Time.UTC(), tx.ID.String()})
		}
	}
	return out
}

func vols(v pgmini.Value) (in, out *big.Int, ok bool) {
	c, isC := v.(pgmini.Composite)
	if !isC || len(c.Fields) != 2 {
		return nil, nil, false
	}
	i, ok1 := c.Fields[0].(*big.Int)
	o, ok2 := c.Fields[1].(*big.Int)
	return i, o, ok1 && ok2
}

func colIndex(cols []string) map[string]int {
	m := map[string]int{}
	for i, c := range cols {
		m[c] = i
	}
	return m
}

// judge one state: returns (kind, explanation) of the first disagreement with the fold of the logs.
func (st *c04State) judge(withPIT bool) (string, string) {
	ctx := context.Background()
	for _, ldg := range []string{"l1", "l2"} {
		logs := st.logs[ldg]
		fold := memstore.Fold(logs)
		// ---- (a) moves table
		cols, rows := st.db.TableRows("b1", "moves")
		ci := colIndex(cols)
		exp := expectedMoves(logs)
		var mine [][]pgmini.Value
		for _, r := range rows {
			if r[ci["ledger"]] == ldg {
				mine = append(mine, r)
			}
		}
		sort.SliceStable(mine, func(i, j int) bool { return mine[i][ci["seq"]].(*big.Int).Cmp(mine[j][ci["seq"]].(*big.Int)) < 0 })
		if len(mine) != len(exp) {
			return "moves-count", fmt.Sprintf("ledger %s: %d rows in moves, the log defines %d", ldg, len(mine), len(exp))
		}
		runIn, runOut := map[moveKey]*big.Int{}, map[moveKey]*big.Int{}
		for i, r := range mine {
			e := exp[i]
			k := moveKey{e.acc, e.asset}
			if runIn[k] == nil {
				runIn[k], runOut[k] = new(big.Int), new(big.Int)
			}
			if e.isSource {
				runOut[k].Add(runOut[k], e.amt)
			} else {
				runIn[k].Add(runIn[k], e.amt)
			}
			if r[ci["account_address"]] != e.acc || r[ci["asset"]] != e.asset || r[ci["is_source"]] != e.isSource {
				return "moves-order", fmt.Sprintf("ledger %s: move %d is %v/%v source=%v, expected %s/%s source=%v", ldg, i, r[ci["account_address"]], r[ci["asset"]], r[ci["is_source"]], e.acc, e.asset, e.isSource)
			}
			if t, ok := r[ci["effective_date"]].(time.Time); !ok || !t.Equal(e.eff) {
				return "effective-date", fmt.Sprintf("ledger %s: move %d (%s %s) has effective date %v but the transaction's timestamp is the instant %v", ldg, i, e.acc, e.asset, r[ci["effective_date"]], e.eff.Format(time.RFC3339Nano))
			}
			in, out, ok := vols(r[ci["post_commit_volumes"]])
			if !ok || in.Cmp(runIn[k]) != 0 || out.Cmp(runOut[k]) != 0 {
				return "volumes", fmt.Sprintf("ledger %s: after move %d (%s %s, source=%v, amount %s) post_commit_volumes = %v, the log gives inputs=%s outputs=%s", ldg, i, e.acc, e.asset, e.isSource, e.amt, r[ci["post_commit_volumes"]], runIn[k], runOut[k])
			}
		}
		// effective volumes: fold of all moves of the account/asset with (effective_date, seq) <= own
		for i, r := range mine {
			e := exp[i]
			wantIn, wantOut := new(big.Int), new(big.Int)
			for j, e2 := range exp {
				if e2.acc != e.acc || e2.asset != e.asset {
					continue
				}
				if e2.eff.Before(e.eff) || (e2.eff.Equal(e.eff) && j <= i) {
					if e2.isSource {
						wantOut.Add(wantOut, e2.amt)
					} else {
						wantIn.Add(wantIn, e2.amt)
					}
				}
			}
			in, out, ok := vols(r[ci["post_commit_effective_volumes"]])
			if !ok || in.Cmp(wantIn) != 0 || out.Cmp(wantOut) != 0 {
				return "effective-volumes", fmt.Sprintf("ledger %s: move %d (%s %s at %s) has post_commit_effective_volumes = %v, replaying the log by effective date gives inputs=%s outputs=%s", ldg, i, e.acc, e.asset, e.eff.Format(time.RFC3339), r[ci["post_commit_effective_volumes"]], wantIn, wantOut)
			}
		}
		// sum of inputs = sum of outputs per asset
		totIn, totOut := map[string]*big.Int{}, map[string]*big.Int{}
		for k := range runIn {
			if totIn[k.asset] == nil {
				totIn[k.asset], totOut[k.asset] = new(big.Int), new(big.Int)
			}
			totIn[k.asset].Add(totIn[k.asset], runIn[k])
			totOut[k.asset].Add(totOut[k.asset], runOut[k])
		}
		for a := range totIn {
			if totIn[a].Cmp(totOut[a]) != 0 {
				return "conservation", fmt.Sprintf("ledger %s: asset %s inputs %s != outputs %s", ldg, a, totIn[a], totOut[a])
			}
		}
		// ---- (b) reads through the repository's Go code
		s := st.store(ldg)
		bad := func() (kind, why string) {
			defer s.GetDB().Close()
			defer func() {
				if r := recover(); r != nil {
					st := string(debug.Stack())
					where := ""
					for _, ln := range strings.Split(st, "\n") {
						if strings.Contains(ln, "/repo/internal/storage/ledgerstore/") {
							where = strings.TrimSpace(ln)
							break
						}
					}
					kind, why = "read-panic", fmt.Sprintf("ledger %s: a read method panics: %v (%s)", ldg, r, where)
				}
			}()
			for k := range runIn {
				got, err := s.GetBalance(ctx, k.acc, k.asset)
				if err != nil {
					return "read-error", "GetBalance: " + err.Error()
				}
				if want := fold.Balance(k.acc, k.asset); got == nil || got.Cmp(want) != 0 {
					return "balance", fmt.Sprintf("ledger %s: GetBalance(%s,%s) = %v, replaying the log gives %s", ldg, k.acc, k.asset, got, want)
				}
			}
			for _, id := range fold.TxIDs() {
				want := fold.Tx(id)
				got, err := s.GetTransaction(ctx, want.ID)
				if err != nil {
					return "read-error", "GetTransaction: " + err.Error()
				}
				if fmt.Sprint(got.Postings) != fmt.Sprint(want.Postings) || got.Reverted != want.Reverted || got.Reference != want.Reference || !metaEqual(got.Metadata, want.Metadata) {
					return "transaction", fmt.Sprintf("ledger %s: GetTransaction(%s) = %+v, replaying the log gives %+v", ldg, id, got, want)
				}
				if !got.Timestamp.Time.Equal(want.Timestamp.Time) {
					return "transaction-timestamp", fmt.Sprintf("ledger %s: GetTransaction(%s) reports timestamp %s, the log entry says %s", ldg, id, got.Timestamp.Time.UTC().Format(time.RFC3339Nano), want.Timestamp.Time.UTC().Format(time.RFC3339Nano))
				}
				if want.Reference != "" {
					byRef, err := s.GetTransactionByReference(ctx, want.Reference)
					if err != nil || byRef.ID.Cmp(want.ID) != 0 {
						return "by-reference", fmt.Sprintf("ledger %s: GetTransactionByReference(%s) = %v %v", ldg, want.Reference, byRef, err)
					}
				}
			}
			if ids := fold.TxIDs(); len(ids) > 0 {
				last, err := s.GetLastTransaction(ctx)
				if err != nil || last.ID.String() != ids[len(ids)-1] {
					return "last-transaction", fmt.Sprintf("ledger %s: GetLastTransaction = %v %v, expected id %s", ldg, last, err, ids[len(ids)-1])
				}
				n, err := s.CountTransactions(ctx, ledgerstore.NewGetTransactionsQuery(ledgerstore.NewPaginatedQueryOptions(ledgerstore.PITFilterWithVolumes{})))
				if err != nil || n != len(ids) {
					return "count-transactions", fmt.Sprintf("ledger %s: CountTransactions = %d %v, the log holds %d", ldg, n, err, len(ids))
				}
				cur, err := s.GetTransactions(ctx, ledgerstore.NewGetTransactionsQuery(ledgerstore.NewPaginatedQueryOptions(ledgerstore.PITFilterWithVolumes{}).WithPageSize(100)))
				if err != nil || len(cur.Data) != len(ids) {
					return "list-transactions", fmt.Sprintf("ledger %s: GetTransactions returns %v items (%v), the log holds %d", ldg, cur, err, len(ids))
				}
			}
			for _, l := range logs {
				if l.IdempotencyKey == "" {
					continue
				}
				got, err := s.ReadLogWithIdempotencyKey(ctx, l.IdempotencyKey)
				var first *ledger.ChainedLog
				for _, x := range logs {
					if x.IdempotencyKey == l.IdempotencyKey {
						first = x
						break
					}
				}
				if err != nil || got == nil || got.ID.Cmp(first.ID) != 0 || string(got.Hash) != string(first.Hash) {
					return "log-by-idempotency-key", fmt.Sprintf("ledger %s: ReadLogWithIdempotencyKey(%s) = %v %v, this ledger's entry with that key is %s", ldg, l.IdempotencyKey, got, err, first.ID)
				}
			}
			if len(logs) > 0 {
				ll, err := s.GetLastLog(ctx)
				if err != nil || ll.ID.Cmp(logs[len(logs)-1].ID) != 0 || string(ll.Hash) != string(logs[len(logs)-1].Hash) {
					return "last-log", fmt.Sprintf("ledger %s: GetLastLog = %v %v", ldg, ll, err)
				}
				cur, err := s.GetLogs(ctx, ledgerstore.NewGetLogsQuery(ledgerstore.NewPaginatedQueryOptions[any](nil).WithPageSize(100)))
				if err != nil {
					return "read-error", "GetLogs: " + err.Error()
				}
				if len(cur.Data) != len(logs) {
					return "logs-listing", fmt.Sprintf("ledger %s: GetLogs returns %d entries, this ledger's log has %d (entries of another ledger of the same bucket leak in)", ldg, len(cur.Data), len(logs))
				}
			}
			// accounts: metadata and existence
			accs := map[string]bool{}
			for k := range runIn {
				accs[k.acc] = true
			}
			for _, l := range logs {
				switch p := l.Data.(type) {
				case ledger.NewTransactionLogPayload:
					for a := range p.AccountMetadata {
						accs[a] = true
					}
				case ledger.SetMetadataLogPayload:
					if p.TargetType == ledger.MetaTargetTypeAccount {
						accs[fmt.Sprint(p.TargetID)] = true
					}
				}
			}
			for a := range accs {
				got, err := s.GetAccount(ctx, a)
				if err != nil {
					return "read-error", "GetAccount: " + err.Error()
				}
				if want := fold.AccountMeta(a); !metaEqual(got.Metadata, want) {
					return "account-metadata", fmt.Sprintf("ledger %s: GetAccount(%s).metadata = %v, replaying the log gives %v", ldg, a, got.Metadata, want)
				}
			}
			// volumes through the read API: current, as of a past instant (by insertion date), and by effective date
			var pits []*ledger.Time
			pits = append(pits, nil)
			extra := []time.Time{c04T0.Time.Add(-time.Hour), c04T0.Time.Add(time.Minute), c04T1.Time, c04T2.Time.Add(time.Hour)}
			if !withPIT {
				extra = nil
			}
			for _, t := range extra {
				t := ledger.Time{Time: t}
				pits = append(pits, &t)
			}
			for i := range logs {
				if !withPIT {
					break
				}
				t := ledger.Time{Time: logs[i].Date.Time.Add(500 * time.Millisecond)}
				pits = append(pits, &t)
			}
			for _, pit := range pits {
				wantVols := map[string][2]map[string][2]*big.Int{}
				cmpVols := func(a, kind string, gotM ledger.VolumesByAssets, want map[string][2]*big.Int) (string, string) {
					for asset, w := range want {
						g := gotM[asset]
						if g == nil || g.Input == nil || g.Output == nil || g.Input.Cmp(w[0]) != 0 || g.Output.Cmp(w[1]) != 0 {
							return kind, fmt.Sprintf("ledger %s: account %s %s at %v: the read API reports %v for %s, replaying the log gives input=%s output=%s", ldg, a, kind, pitStr(pit), g, asset, w[0], w[1])
						}
					}
					for asset, g := range gotM {
						if _, ok := want[asset]; !ok && g != nil && (g.Input.Sign() != 0 || g.Output.Sign() != 0) {
							return kind, fmt.Sprintf("ledger %s: account %s %s at %v: the read API reports %v for %s, the log has no such movement yet", ldg, a, kind, pitStr(pit), g, asset)
						}
					}
					return "", ""
				}
				for a := range accs {
					q := ledgerstore.NewGetAccountQuery(a)
					q.PIT = pit
					q.ExpandVolumes, q.ExpandEffectiveVolumes = true, true
					got, err := s.GetAccountWithVolumes(ctx, q)
					if err != nil {
						return "read-error", "GetAccountWithVolumes: " + err.Error()
					}
					wantV, wantE := map[string][2]*big.Int{}, map[string][2]*big.Int{}
					// an account exists from the first log entry that touches it (the point-in-time listing filters on that)
					visible := pit == nil
					for _, e := range exp {
						if e.acc == a && !e.ins.After(pitOrMax(pit)) {
							visible = true
						}
					}
					for _, l := range logs {
						if l.Date.Time.After(pitOrMax(pit)) {
							continue
						}
						switch p := l.Data.(type) {
						case ledger.NewTransactionLogPayload:
							if _, ok := p.AccountMetadata[a]; ok {
								visible = true
							}
						case ledger.SetMetadataLogPayload:
							if p.TargetType == ledger.MetaTargetTypeAccount && fmt.Sprint(p.TargetID) == a {
								visible = true
							}
						}
					}
					add := func(m map[string][2]*big.Int, e expMove) {
						v, ok := m[e.asset]
						if !ok {
							v = [2]*big.Int{new(big.Int), new(big.Int)}
						}
						if e.isSource {
							v[1] = new(big.Int).Add(v[1], e.amt)
						} else {
							v[0] = new(big.Int).Add(v[0], e.amt)
						}
						m[e.asset] = v
					}
					for _, e := range exp {
						if e.acc != a {
							continue
						}
						if !visible {
							continue
						}
						if pit == nil || !e.ins.After(pit.Time) {
							add(wantV, e)
						}
						if pit == nil || !e.eff.After(pit.Time) {
							add(wantE, e)
						}
					}
					wantVols[a] = [2]map[string][2]*big.Int{wantV, wantE}
					if k, w := cmpVols(a, "api-volumes", got.Volumes, wantV); w != "" {
						return k, w
					}
					if k, w := cmpVols(a, "api-effective-volumes", got.EffectiveVolumes, wantE); w != "" {
						return k, w
					}
				}
				// account listing and count as of the instant: every account that exists at the instant, exactly once, in
				// address order, with the metadata written up to the instant. Account metadata written by a script on an
				// account that is not in the postings is dated by the schema with the transaction's timestamp, everything else
				// with the log entry's date: both datings are accepted for those entries (accountAt, byTS).
				{
					type accState struct {
						vis bool
						md  metadata.Metadata
					}
					want := map[bool]map[string]accState{false: {}, true: {}}
					for _, byTS := range []bool{false, true} {
						for a := range accs {
							vis, md := accountAt(logs, a, pit, byTS)
							want[byTS][a] = accState{vis, md}
						}
					}
					listing := func(byTS bool) []string {
						var out []string
						for a, st := range want[byTS] {
							if st.vis {
								out = append(out, a)
							}
						}
						sort.Strings(out)
						return out
					}
					opts := ledgerstore.NewPaginatedQueryOptions(ledgerstore.PITFilterWithVolumes{PITFilter: ledgerstore.PITFilter{PIT: pit}, ExpandVolumes: withPIT, ExpandEffectiveVolumes: withPIT}).WithPageSize(100)
					cur, err := s.GetAccountsWithVolumes(ctx, ledgerstore.NewGetAccountsQuery(opts))
					if err != nil {
						return "read-error", fmt.Sprintf("GetAccountsWithVolumes at %s: %v", pitStr(pit), err)
					}
					for _, a := range cur.Data {
						if w, ok := wantVols[a.Address]; ok && withPIT {
							if k, why := cmpVols(a.Address, "list-volumes", a.Volumes, w[0]); why != "" {
								return k, why
							}
							if k, why := cmpVols(a.Address, "list-effective-volumes", a.EffectiveVolumes, w[1]); why != "" {
								return k, why
							}
						}
					}
					var gotAccs []string
					for _, a := range cur.Data {
						gotAccs = append(gotAccs, a.Address)
					}
					clock := -1
					for i, byTS := range []bool{false, true} {
						if fmt.Sprint(gotAccs) == fmt.Sprint(listing(byTS)) {
							clock = i
							break
						}
					}
					if clock < 0 {
						return "list-accounts", fmt.Sprintf("ledger %s: the account listing as of %s is %v, the log entries up to that instant define %v", ldg, pitStr(pit), gotAccs, listing(false))
					}
					okMeta := func(a string, got metadata.Metadata) (metadata.Metadata, bool) {
						for _, byTS := range []bool{false, true} {
							if st := want[byTS][a]; st.vis && metaEqual(got, st.md) {
								return nil, true
							}
						}
						return want[false][a].md, false
					}
					for _, a := range cur.Data {
						if w, ok := okMeta(a.Address, a.Metadata); !ok {
							return "list-accounts-metadata", fmt.Sprintf("ledger %s: the account listing as of %s gives %s metadata %v, replaying the log entries up to that instant gives %v", ldg, pitStr(pit), a.Address, a.Metadata, w)
						}
					}
					n, err := s.CountAccounts(ctx, ledgerstore.NewGetAccountsQuery(opts))
					if err != nil || (n != len(listing(false)) && n != len(listing(true))) {
						return "count-accounts", fmt.Sprintf("ledger %s: CountAccounts as of %s = %d (%v), the log entries up to that instant define %d accounts %v", ldg, pitStr(pit), n, err, len(listing(false)), listing(false))
					}
					if pit != nil {
						for _, a := range gotAccs {
							q := ledgerstore.NewGetAccountQuery(a)
							q.PIT = pit
							got, err := s.GetAccountWithVolumes(ctx, q)
							if err != nil {
								return "read-error", "GetAccountWithVolumes: " + err.Error()
							}
							if w, ok := okMeta(a, got.Metadata); !ok {
								return "pit-account-metadata", fmt.Sprintf("ledger %s: account %s as of %s has metadata %v, replaying the log entries up to that instant gives %v", ldg, a, pitStr(pit), got.Metadata, w)
							}
						}
					}
				}
				// transactions as of the instant: visible from their timestamp on, reverted once the reverting transaction's
				// timestamp is reached, metadata as of the log entries dated up to the instant; expanded volumes are those
				// after the transaction's last move on each account (by insertion, and by effective date)
				for _, id := range fold.TxIDs() {
					bid, _ := new(big.Int).SetString(id, 10)
					q := ledgerstore.NewGetTransactionQuery(bid).WithExpandVolumes().WithExpandEffectiveVolumes()
					q.PIT = pit
					got, err := s.GetTransactionWithVolumes(ctx, q)
					vis, rev, md, cur := txAt(logs, id, pit)
					if !vis {
						if err == nil {
							return "pit-transaction", fmt.Sprintf("ledger %s: transaction %s (timestamp %s) is reported as of %s, before it takes effect", ldg, id, cur.Timestamp.Time.UTC().Format(time.RFC3339Nano), pitStr(pit))
						}
						continue
					}
					if err != nil {
						return "read-error", fmt.Sprintf("GetTransactionWithVolumes(%s) at %s: %v", id, pitStr(pit), err)
					}
					if fmt.Sprint(got.Postings) != fmt.Sprint(cur.Postings) || got.Reference != cur.Reference || !got.Timestamp.Time.Equal(cur.Timestamp.Time) {
						return "pit-transaction", fmt.Sprintf("ledger %s: transaction %s as of %s = %+v, the log defines %+v", ldg, id, pitStr(pit), got.Transaction, cur)
					}
					if got.Reverted != rev {
						return "pit-reverted", fmt.Sprintf("ledger %s: transaction %s as of %s is reported reverted=%v, replaying the log entries up to that instant gives reverted=%v", ldg, id, pitStr(pit), got.Reverted, rev)
					}
					if !metaEqual(got.Metadata, md) {
						return "pit-transaction-metadata", fmt.Sprintf("ledger %s: transaction %s as of %s has metadata %v, replaying the log entries up to that instant gives %v", ldg, id, pitStr(pit), got.Metadata, md)
					}
					// expected post-commit volumes
					wantPC, wantPCE := map[moveKey][2]*big.Int{}, map[moveKey][2]*big.Int{}
					for i, e := range exp {
						if e.tx != id {
							continue
						}
						k := moveKey{e.acc, e.asset}
						vi, vo, ei, eo := new(big.Int), new(big.Int), new(big.Int), new(big.Int)
						for j, e2 := range exp {
							if e2.acc != e.acc || e2.asset != e.asset {
								continue
							}
							if j <= i {
								if e2.isSource {
									vo.Add(vo, e2.amt)
								} else {
									vi.Add(vi, e2.amt)
								}
							}
							if e2.eff.Before(e.eff) || (e2.eff.Equal(e.eff) && j <= i) {
								if e2.isSource {
									eo.Add(eo, e2.amt)
								} else {
									ei.Add(ei, e2.amt)
								}
							}
						}
						wantPC[k], wantPCE[k] = [2]*big.Int{vi, vo}, [2]*big.Int{ei, eo} // later moves of the transaction overwrite earlier ones
					}
					cmpTx := func(kind string, gotM ledger.AccountsAssetsVolumes, want map[moveKey][2]*big.Int) (string, string) {
						for k, w := range want {
							g := gotM[k.acc][k.asset]
							if g == nil || g.Input == nil || g.Output == nil || g.Input.Cmp(w[0]) != 0 || g.Output.Cmp(w[1]) != 0 {
								return kind, fmt.Sprintf("ledger %s: transaction %s %s at %v: the read API reports %v for %s/%s, replaying the log gives input=%s output=%s", ldg, id, kind, pitStr(pit), g, k.acc, k.asset, w[0], w[1])
							}
						}
						return "", ""
					}
					if k, w := cmpTx("tx-post-commit-volumes", got.PostCommitVolumes, wantPC); w != "" {
						return k, w
					}
					if k, w := cmpTx("tx-post-commit-effective-volumes", got.PostCommitEffectiveVolumes, wantPCE); w != "" {
						return k, w
					}
				}
				if pit != nil {
					nvis := 0
					for _, id := range fold.TxIDs() {
						if vis, _, _, _ := txAt(logs, id, pit); vis {
							nvis++
						}
					}
					opts := ledgerstore.NewPaginatedQueryOptions(ledgerstore.PITFilterWithVolumes{PITFilter: ledgerstore.PITFilter{PIT: pit}}).WithPageSize(100)
					cur, err := s.GetTransactions(ctx, ledgerstore.NewGetTransactionsQuery(opts))
					if err != nil {
						return "read-error", fmt.Sprintf("GetTransactions at %s: %v", pitStr(pit), err)
					}
					if len(cur.Data) != nvis {
						return "pit-list-transactions", fmt.Sprintf("ledger %s: GetTransactions as of %s lists %d transactions, %d have a timestamp up to that instant", ldg, pitStr(pit), len(cur.Data), nvis)
					}
					for _, t := range cur.Data {
						if _, rev, md, _ := txAt(logs, t.ID.String(), pit); t.Reverted != rev || !metaEqual(t.Metadata, md) {
							return "pit-list-transactions", fmt.Sprintf("ledger %s: GetTransactions as of %s lists transaction %s with reverted=%v metadata=%v, replaying the log entries up to that instant gives reverted=%v metadata=%v", ldg, pitStr(pit), t.ID, t.Reverted, t.Metadata, rev, md)
						}
					}
					n, err := s.CountTransactions(ctx, ledgerstore.NewGetTransactionsQuery(opts))
					if err != nil || n != nvis {
						return "pit-count-transactions", fmt.Sprintf("ledger %s: CountTransactions as of %s = %d (%v), %d have a timestamp up to that instant", ldg, pitStr(pit), n, err, nvis)
					}
				}
				// aggregated balances restricted to one account = that account's balances at the instant
				for a := range accs {
					if strings.ContainsAny(a, ":") {
						continue
					}
					qb, _ := query.ParseJSON(fmt.Sprintf(`{"$match":{"address":%q}}`, a))
					opts := ledgerstore.NewPaginatedQueryOptions(ledgerstore.PITFilter{PIT: pit}).WithQueryBuilder(qb)
					got, err := s.GetAggregatedBalances(ctx, ledgerstore.NewGetAggregatedBalancesQuery(opts))
					if err != nil {
						return "read-error", "GetAggregatedBalances: " + err.Error()
					}
					want := map[string]*big.Int{}
					for _, e := range exp {
						if e.acc != a || (pit != nil && e.ins.After(pit.Time)) {
							continue
						}
						if want[e.asset] == nil {
							want[e.asset] = new(big.Int)
						}
						if e.isSource {
							want[e.asset].Sub(want[e.asset], e.amt)
						} else {
							want[e.asset].Add(want[e.asset], e.amt)
						}
					}
					for asset, w := range want {
						if g := got[asset]; g == nil || g.Cmp(w) != 0 {
							return "aggregated-balances", fmt.Sprintf("ledger %s: aggregated balance of %s in %s at %v is %v, replaying the log gives %s", ldg, a, asset, pitStr(pit), g, w)
						}
					}
				}
			}
			n, err := s.CountAccounts(ctx, ledgerstore.NewGetAccountsQuery(ledgerstore.NewPaginatedQueryOptions(ledgerstore.PITFilterWithVolumes{})))
			if err != nil || n != len(accs) {
				return "count-accounts", fmt.Sprintf("ledger %s: CountAccounts = %d %v, the log touches %d accounts %v", ldg, n, err, len(accs), accs)
			}
			return "", ""
		}
		if k, w := bad(); w != "" {
			return k, w
		}
		// ---- (c) reverted_at / metadata history tables
		tcols, trows := st.db.TableRows("b1", "transactions")
		ti := colIndex(tcols)
		for _, r := range trows {
			if r[ti["ledger"]] != ldg {
				continue
			}
			id := r[ti["id"]].(*big.Int).String()
			want := fold.Tx(id)
			if want == nil {
				return "transactions-table", fmt.Sprintf("ledger %s: transactions holds id %s which the log does not define", ldg, id)
			}
			if (r[ti["reverted_at"]] != nil) != want.Reverted {
				return "reverted-at", fmt.Sprintf("ledger %s: transaction %s reverted_at=%v but reverted=%v in the log", ldg, id, r[ti["reverted_at"]], want.Reverted)
			}
		}
	}
	return "", ""
}

// structural isolation: every read statement of every list/get method constrains the ledger.
func c04Structural(rep *evid.Reporter) int {
	ctx := context.Background()
	n := 0
	pit, _ := ledger.ParseTime("2023-05-06T07:08:09Z")
	qb, _ := query.ParseJSON(`{"$match":{"metadata[k]":"v"}}`)
	type call struct {
		name string
		f    func(s *ledgerstore.Store)
	}
	var calls []call
	for _, withPIT := range []bool{false, true} {
		for _, withQB := range []bool{false, true} {
			for _, vol := range []bool{false, true} {
				o := ledgerstore.PITFilterWithVolumes{ExpandVolumes: vol, ExpandEffectiveVolumes: vol}
				if withPIT {
					o.PIT = &pit
				}
				opts := ledgerstore.NewPaginatedQueryOptions(o)
				if withQB {
					opts = opts.WithQueryBuilder(qb)
				}
				sfx := fmt.Sprintf(" pit=%v filter=%v volumes=%v", withPIT, withQB, vol)
				calls = append(calls,
					call{"GetTransactions" + sfx, func(s *ledgerstore.Store) { s.GetTransactions(ctx, ledgerstore.NewGetTransactionsQuery(opts)) }},
					call{"CountTransactions" + sfx, func(s *ledgerstore.Store) { s.CountTransactions(ctx, ledgerstore.NewGetTransactionsQuery(opts)) }},
					call{"GetAccountsWithVolumes" + sfx, func(s *ledgerstore.Store) { s.GetAccountsWithVolumes(ctx, ledgerstore.NewGetAccountsQuery(opts)) }},
					call{"CountAccounts" + sfx, func(s *ledgerstore.Store) { s.CountAccounts(ctx, ledgerstore.NewGetAccountsQuery(opts)) }},
					call{"GetTransactionWithVolumes" + sfx, func(s *ledgerstore.Store) {
						q := ledgerstore.NewGetTransactionQuery(big.NewInt(1))
						q.PITFilterWithVolumes = o
						s.GetTransactionWithVolumes(ctx, q)
					}},
					call{"GetAccountWithVolumes" + sfx, func(s *ledgerstore.Store) {
						q := ledgerstore.NewGetAccountQuery("a")
						q.PITFilterWithVolumes = o
						s.GetAccountWithVolumes(ctx, q)
					}},
				)
			}
			po := ledgerstore.PITFilter{}
			if withPIT {
				po.PIT = &pit
			}
			popts := ledgerstore.NewPaginatedQueryOptions(po)
			if withQB {
				popts = popts.WithQueryBuilder(qb)
			}
			calls = append(calls, call{fmt.Sprintf("GetAggregatedBalances pit=%v filter=%v", withPIT, withQB), func(s *ledgerstore.Store) {
				s.GetAggregatedBalances(ctx, ledgerstore.NewGetAggregatedBalancesQuery(popts))
			}})
		}
	}
	calls = append(calls,
		call{"GetLogs", func(s *ledgerstore.Store) {
			s.GetLogs(ctx, ledgerstore.NewGetLogsQuery(ledgerstore.NewPaginatedQueryOptions[any](nil)))
		}},
		call{"GetLastLog", func(s *ledgerstore.Store) { s.GetLastLog(ctx) }},
		call{"ReadLogWithIdempotencyKey", func(s *ledgerstore.Store) { s.ReadLogWithIdempotencyKey(ctx, "k") }},
		call{"GetBalance", func(s *ledgerstore.Store) { s.GetBalance(ctx, "a", "X") }},
		call{"GetAccount", func(s *ledgerstore.Store) { s.GetAccount(ctx, "a") }},
		call{"GetTransaction", func(s *ledgerstore.Store) { s.GetTransaction(ctx, big.NewInt(1)) }},
		call{"GetTransactionByReference", func(s *ledgerstore.Store) { s.GetTransactionByReference(ctx, "r") }},
		call{"GetLastTransaction", func(s *ledgerstore.Store) { s.GetLastTransaction(ctx) }},
	)
	for _, c := range calls {
		st, rec := storeh.NewRecordingStore("b1", "LEDGERNAME")
		func() {
			defer func() { recover() }()
			c.f(st)
		}()
		for _, q := range rec.Take() {
			n++
			low := strings.ToLower(q.SQL)
			touches := false
			for _, t := range []string{`"transactions"`, `"accounts"`, `"moves"`, `"logs"`, " transactions ", " accounts ", " moves ", " logs "} {
				if strings.Contains(low, t) {
					touches = true
				}
			}
			if touches && !strings.Contains(q.SQL, "'LEDGERNAME'") {
				rep.Violation("no-ledger-predicate:"+strings.Fields(c.name)[0], fmt.Sprintf("%s reads a per-bucket table without constraining the ledger: %s", c.name, q.SQL), map[string]interface{}{"engine": "sqlisolation", "method": c.name, "sql": q.SQL})
			}
		}
	}
	return n
}

func c04() int {
	silenceStderr()
	rep := evid.NewReporter("C04", "model_checking")
	ddl, err := os.ReadFile(schemaFile)
	if err != nil {
		rep.Undecide("cannot read the schema: " + err.Error())
		return rep.Finish(evid.Coverage{"explanation": "schema file missing", "evaluations": 1, "distinct_nontrivial": 0})
	}
	root := &c04State{db: pgmini.New(), logs: map[string][]*ledger.ChainedLog{}, bad: map[string]bool{}}
	if err := root.db.LoadSchema("b1", string(ddl)); err != nil {
		if pgmini.IsUnsupported(err) {
			rep.Undecide("the schema uses a construct outside the interpreted subset: " + err.Error())
		} else {
			rep.Undecide("the schema does not load: " + err.Error())
		}
		return rep.Finish(evid.Coverage{"explanation": "schema not interpretable", "evaluations": 1, "distinct_nontrivial": 0})
	}
	ops := c04Ops(rep.Thorough())
	var states, transitions, unsupported, httpRequests int64
	httpDepth := 2
	if rep.Thorough() {
		httpDepth = 3
	}
	var samples evid.Samples
	samples.N = 4
	kinds := evid.NewHistogram()
	// explore: breadth-first over histories; the states of the last level are judged and dropped at once (memory stays
	// bounded by the level before)
	explore := func(ops []c04Op, depth, pitDepth int) {
		frontier := []*c04State{root}
		for d := 1; d <= depth; d++ {
			var mu sync.Mutex
			var next []*c04State
			evid.ParallelFor(len(frontier), workers(), func(w, i int) {
				st := frontier[i]
				for _, op := range ops {
					n, errText := st.apply(op)
					if n == nil && errText == "" {
						continue
					}
					atomic.AddInt64(&transitions, 1)
					replay := map[string]interface{}{"engine": "pgmini", "history": append(append([]string{}, st.path...), op.Name)}
					if errText != "" {
						if strings.Contains(errText, "pgmini: unsupported") {
							atomic.AddInt64(&unsupported, 1)
							rep.Undecide("interpreter: " + errText)
							continue
						}
						if interpreterLimit(errText) {
							rep.Undecide("the interpreter cannot execute the schema / a statement: " + errText)
						} else {
							rep.Violation("insert-error:"+op.Name, "InsertLogs failed: "+errText, replay)
						}
						continue
					}
					atomic.AddInt64(&states, 1)
					kind, why := n.judge(len(n.path) <= pitDepth)
					if why != "" {
						if strings.Contains(why, "pgmini: unsupported") {
							atomic.AddInt64(&unsupported, 1)
							rep.Undecide("interpreter: " + why)
						} else if !n.bad[kind] {
							n.bad[kind] = true
							kinds.Add(kind)
							rep.Violation(kind+":"+c04Culprit(n.path), why+" [history: "+strings.Join(n.path, " ; ")+"]", replay)
						}
					}
					if why == "" && len(n.path) <= httpDepth {
						if hk, hw := n.judgeHTTP(&httpRequests); hw != "" {
							if strings.Contains(hw, "pgmini: unsupported") {
								atomic.AddInt64(&unsupported, 1)
								rep.Undecide("interpreter: " + hw)
							} else if !n.bad[hk] {
								n.bad[hk] = true
								kinds.Add(hk)
								rep.Violation(hk+":"+c04Culprit(n.path), hw+" [history: "+strings.Join(n.path, " ; ")+"]", replay)
							}
						}
					}
					samples.Offer(func() interface{} { return n.path })
					if d < depth {
						mu.Lock()
						next = append(next, n)
						mu.Unlock()
					}
				}
			})
			frontier = next
		}
	}
	depth, pitDepth := 4, 3
	scope := fmt.Sprintf("every log history of length <= %d over %d log shapes", depth, len(ops))
	devFiltersOnly := os.Getenv("VERIF_C04_PART") == "filters" // development aid: skip the history exploration
	if !devFiltersOnly {
		explore(ops, depth, pitDepth)
	}
	if rep.Thorough() && !devFiltersOnly {
		// a second, deeper pass over the shapes that interact (dates before / after the insertion clock, reverts, metadata
		// set and delete on both target kinds, two assets, self transfer, the second ledger)
		var core []c04Op
		for _, op := range ops {
			if c04Core[op.Name] {
				core = append(core, op)
			}
		}
		explore(core, 5, 4)
		scope += fmt.Sprintf(", plus every history of length <= 5 over %d of them", len(core))
	}
	nPatterns, nFilterReads := c04Filters(rep, root, rep.Thorough())
	nValueFilters, nValueReads := c04ValueFilters(rep, root)
	nFilterReads += nValueReads
	nsql := c04Structural(rep)
	cov := evid.Coverage{
		"states":                        int(states),
		"transitions":                   int(transitions),
		"traces_validated_against_impl": int(transitions),
		"samples":                       samples.Got,
		"exhaustive":                    true,
		"rule":                          fmt.Sprintf("breadth-first exploration of %s on two ledgers sharing one bucket (point-in-time reads at every insertion midpoint and at 4 effective instants up to depth %d, current-state reads at every depth); each log is chained with the repository's constructors and inserted through the real ledgerstore.Store.InsertLogs into pgmini, an interpreter that executes the working tree's 0-init-schema.sql (PL/pgSQL triggers) and the SQL the Go store emits; in every state the moves / transactions tables and the Go read methods are compared with an independent fold of that ledger's log; states = histories reached, transitions = InsertLogs executed; plus %d address patterns (every sequence of 1..4 segments over a small alphabet incl. the wildcard) through every filtered read (%d reads) on a ledger with accounts of 1..4 segments, and %d metadata / balance / reference / timestamp filters (every operator, plain and under $not / $and / $or) through the listings and counts; plus %d read statements checked for a ledger predicate", scope, pitDepth, nPatterns, nFilterReads, nValueFilters, nsql),
		"validated_against_postgresql":  0,
		"interpreter_unsupported_hits":  int(unsupported),
		"violation_kinds":               kinds.M,
		"address_patterns":              nPatterns,
		"value_filters":                 nValueFilters,
		"http_requests":                 int(httpRequests),
		"filtered_reads":                nFilterReads,
	}
	rep.Assume = []string{"pgmini's reading of PostgreSQL semantics (SPEC.md in /verif/xverif/lib/pgmini; no PostgreSQL server exists in the sandbox to validate it against)", "account volumes / effective volumes and aggregated balances are executed with and without a point in time (by insertion date resp. effective date); the point-in-time variants of the transaction listings and the volumes of listed accounts are not compared (only their ledger predicate is checked)"}
	// the engine on the real store, history by history, against the stand-in (realstore.go): what the engine writes - also
	// the dates it gives its entries, which every point-in-time read relies on - is what the log replay assumes
	if os.Getenv("VERIF_C04_PART") == "" {
		rsH, rsS := realStoreConformance(rep, "")
		cov["realstore_histories"], cov["realstore_steps"] = rsH, rsS
	}
	return rep.Finish(cov)
}

// c04Culprit: fingerprint = the kinds of the operations in the history (not their order beyond the last one)
var c04Core = map[string]bool{
	"tx world->a 5 @t1": true, "tx a->b 3 @t1": true, "tx a->a 2 @t1 (self transfer)": true, "tx world->a 5 @t0 (back-dated)": true,
	"tx world->a 5 @t2 (future)": true, "tx with metadata+reference+account metadata": true, "revert last unreverted tx": true,
	"set metadata account a": true, "set metadata tx 0": true, "delete metadata account a key k": true, "delete metadata tx 0 key m": true,
	"L2: tx world->a 1 @t1": true, "tx world->a X 1, world->a Y 1 (two assets)": true,
}

func c04Culprit(path []string) string {
	if len(path) == 0 {
		return ""
	}
	return path[len(path)-1]
}

func pitStr(t *ledger.Time) string {
	if t == nil {
		return "now"
	}
	return t.Time.UTC().Format(time.RFC3339Nano)
}

func pitOrMax(t *ledger.Time) time.Time {
	if t == nil {
		return time.Date(9999, 1, 1, 0, 0, 0, 0, time.UTC)
	}
	return t.Time
}

// interpreterLimit: an error that says the interpreter does not know a construct (PostgreSQL's grammar is larger than its own),
// not that the statement is wrong: such a tree is undecided, not in violation
func interpreterLimit(errText string) bool {
	return strings.Contains(errText, "pgmini:") || strings.Contains(errText, "syntax error")
}
