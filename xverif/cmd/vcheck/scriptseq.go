package main

import (
	"fmt"
	"math/big"
	"sort"
	"strings"

	ledger "github.com/formancehq/ledger/internal"
	"github.com/formancehq/ledger/internal/engine/command"
	"github.com/formancehq/ledger/xverif/lib/engineh"
	"github.com/formancehq/ledger/xverif/lib/evid"
	"github.com/formancehq/ledger/xverif/lib/memstore"
	"github.com/formancehq/stack/libs/go-libs/metadata"
)

// scriptSequences: every sequence of <= n scripts of a small alphabet through ONE real Commander (and one compilation cache of
// size 1, 2 or 64, shared with a second ledger's Commander that runs every other step). Each script's outcome is written out
// below by hand (all sends draw on @world; @bank's balance and @cfg's metadata never change), so whatever an earlier script
// left behind in the engine - a cached program, a recycled machine, a pending balance lookup - shows as a difference.
type seqScript struct {
	Name string
	Run  ledger.RunScript
	// expected: "" = accepted with these postings / tx metadata; otherwise the error class
	Err      string
	Postings string
	Meta     map[string]string
	// Later: postings when the script already ran on this ledger (when that differs)
	Later *string
}

func seqAlphabet() []seqScript {
	sc := func(plain string, vars map[string]string) ledger.RunScript {
		if vars == nil {
			vars = map[string]string{}
		}
		return ledger.RunScript{Script: ledger.Script{Plain: plain, Vars: vars}}
	}
	return []seqScript{
		{Name: "balance-var", Run: sc("vars {\n monetary $b = balance(@bank, GEM)\n}\nset_tx_meta(\"b\", $b)\nsend [GEM 1] (\n source = @world\n destination = @x\n)\n", nil),
			Postings: "world>x GEM 1", Meta: map[string]string{"b": "GEM 100"}},
		{Name: "plain-100", Run: sc("send [GEM 100] (\n source = @world\n destination = @y\n)\n", nil), Postings: "world>y GEM 100"},
		{Name: "many-vars", Run: sc("vars {\n account $a\n account $c\n number $n\n}\nsend [GEM 3] (\n source = @world\n destination = $a\n)\nset_tx_meta(\"n\", $n)\nset_account_meta($c, \"k\", \"v\")\n", map[string]string{"a": "p", "c": "q", "n": "42"}),
			Postings: "world>p GEM 3", Meta: map[string]string{"n": "42"}},
		{Name: "two-balances", Run: sc("vars {\n monetary $b = balance(@bank, GEM)\n monetary $c = balance(@bank, COIN)\n}\nset_tx_meta(\"c\", $c)\nsend $b (\n source = @world\n destination = @z\n)\n", nil),
			Postings: "world>z GEM 100", Meta: map[string]string{"c": "COIN 0"}},
		{Name: "meta-var", Run: sc("vars {\n account $s = meta(@cfg, \"dst\")\n}\nsend [GEM 2] (\n source = @world\n destination = $s\n)\n", nil), Postings: "world>target GEM 2"},
		{Name: "portions", Run: sc("send [GEM 10] (\n source = @world\n destination = {\n  1/2 to @p\n  1/2 to @q\n }\n)\n", nil), Postings: "world>p GEM 5|world>q GEM 5"},
		{Name: "monetary-var", Run: sc("vars {\n monetary $m\n}\nsend $m (\n source = @world\n destination = @x\n)\n", map[string]string{"m": "GEM 5"}), Postings: "world>x GEM 5"},
		// (everything an empty account can give with the overdraft its text grants: 5 the first time, nothing afterwards)
		{Name: "overdraft-all", Run: sc("send [GEM *] (\n source = @debtor allowing overdraft up to [GEM 5]\n destination = @shop\n)\n", nil), Postings: "debtor>shop GEM 5", Later: &seqNothing},
		{Name: "poor", Run: sc("send [GEM 1] (\n source = @nobody\n destination = @x\n)\n", nil), Err: "insufficient"},
		{Name: "no-compile", Run: sc("send [GEM 1] (\n source = \n)\n", nil), Err: "compil"},
		{Name: "missing-var", Run: sc("vars {\n account $a\n}\nsend [GEM 1] (\n source = @world\n destination = $a\n)\n", nil), Err: "compil"},
	}
}

var seqNothing = "debtor>shop GEM 0"

func seqObserve(tx *ledger.Transaction, err error) (class, postings string, meta map[string]string) {
	if err != nil {
		c := errClass(err)
		if c == "no more fund" {
			c = "insufficient"
		}
		if c != "insufficient" && c != "compil" {
			c = "other"
		}
		return c, "", nil
	}
	var ps []string
	for _, p := range tx.Postings {
		ps = append(ps, fmt.Sprintf("%s>%s %s %s", p.Source, p.Destination, p.Asset, p.Amount))
	}
	meta = map[string]string{}
	for k, v := range tx.Metadata {
		meta[k] = v
	}
	return "", strings.Join(ps, "|"), meta
}

func metaString(m map[string]string) string {
	var ks []string
	for k := range m {
		ks = append(ks, k)
	}
	sort.Strings(ks)
	var out []string
	for _, k := range ks {
		out = append(out, k+"="+m[k])
	}
	return strings.Join(out, ",")
}

func scriptSequences(rep *evid.Reporter, keyPrefix string) (sequences, steps int) {
	alpha := seqAlphabet()
	maxLen := 3
	if rep.Thorough() {
		maxLen = 4
	}
	var seqs [][]int
	var rec func(cur []int)
	rec = func(cur []int) {
		if len(cur) > 0 {
			seqs = append(seqs, append([]int{}, cur...))
		}
		if len(cur) == maxLen {
			return
		}
		for i := range alpha {
			rec(append(cur, i))
		}
	}
	rec(nil)
	seed := func() *memstore.Store {
		st := memstore.New()
		st.Seed(ledger.NewTransactionLog(ledger.NewTransaction().WithID(big.NewInt(0)).WithPostings(ledger.NewPosting("world", "bank", "GEM", big.NewInt(100))), nil))
		st.Seed(ledger.NewSetMetadataOnAccountLog(ledger.Now(), "cfg", metadata.Metadata{"dst": "target"}))
		return st
	}
	for _, size := range []int{1, 2, 64} {
		for _, seq := range seqs {
			sequences++
			compiler := command.NewCompiler(size)
			e1 := engineh.StartWithCompiler(seed(), nil, compiler)
			e2 := engineh.StartWithCompiler(seed(), nil, compiler) // another ledger of the process: same compiler, same process-wide state
			var names []string
			ran := map[string]int{}
			for i, si := range seq {
				s := alpha[si]
				names = append(names, s.Name)
				eng := e1
				if i%2 == 1 {
					eng = e2
				}
				var tx *ledger.Transaction
				var err error
				var panicked interface{}
				func() {
					defer func() { panicked = recover() }()
					run := s.Run
					run.Vars = map[string]string{}
					for k, v := range s.Run.Vars {
						run.Vars[k] = v
					}
					tx, err = eng.Cmd.CreateTransaction(eng.Ctx(), command.Parameters{}, run)
				}()
				steps++
				replay := map[string]interface{}{"engine": "scriptseq", "sequence": names, "cache_size": size}
				if panicked != nil {
					rep.Violation(keyPrefix+"sequence-panic:"+s.Name, fmt.Sprintf("script %s panicked as step %d of %v (cache size %d): %v", s.Name, i+1, names, size, panicked), replay)
					break
				}
				class, postings, meta := seqObserve(tx, err)
				wantPostings := s.Postings
				ranKey := fmt.Sprint(i%2, s.Name)
				if ran[ranKey] > 0 && s.Later != nil {
					wantPostings = *s.Later
				}
				if class == "" {
					ran[ranKey]++
				}
				if class != s.Err {
					rep.Violation(keyPrefix+"sequence-outcome:"+s.Name, fmt.Sprintf("script %s as step %d of %v (cache size %d): outcome %q (%v), on its own it is %q", s.Name, i+1, names, size, class, err, s.Err), replay)
					continue
				}
				if class == "" && (postings != wantPostings || metaString(meta) != metaString(s.Meta)) {
					rep.Violation(keyPrefix+"sequence-result:"+s.Name, fmt.Sprintf("script %s as step %d of %v (cache size %d): postings %s metadata {%s}; its text defines %s {%s}", s.Name, i+1, names, size, postings, metaString(meta), wantPostings, metaString(s.Meta)), replay)
				}
			}
			e1.Stop()
			e2.Stop()
		}
	}
	return
}
