package main

import (
	"crypto/sha256"
	"fmt"
	"math/big"
	"reflect"
	"strings"
	"sync/atomic"

	"github.com/formancehq/ledger/internal/engine/command"
	"github.com/formancehq/ledger/internal/machine/script/compiler"
	"github.com/formancehq/ledger/xverif/lib/evid"
	"github.com/formancehq/ledger/xverif/lib/nsgen"
	"github.com/formancehq/ledger/xverif/lib/nsrun"
)

func init() { checks["C08"] = c08 }

func metaEq(a, b map[string]string) bool {
	if len(a) == 0 && len(b) == 0 {
		return true
	}
	return reflect.DeepEqual(a, b)
}

func accMetaEq(a, b map[string]map[string]string) bool {
	if len(a) == 0 && len(b) == 0 {
		return true
	}
	return reflect.DeepEqual(a, b)
}

// compareRef returns "" when the implementation outcome is the one the reference defines.
func compareRef(c *nsCase) (kind, why string) {
	ref, res := c.Ref, c.Res
	if ref.Skip != "" {
		return "", ""
	}
	if res.Class == nsgen.ClsPanic {
		return "", "" // C12's business
	}
	if ref.Class != nsgen.ClsOK {
		if res.Class == nsgen.ClsOK {
			return "rejected-program-ran", fmt.Sprintf("the language rejects this case (%s) but the implementation returned a result", ref.Class)
		}
		if ref.Loose || ref.Class == res.Class {
			return "", ""
		}
		return "error-class", fmt.Sprintf("rejected with class %s (%s), the reference defines class %s", res.Class, res.Err, ref.Class)
	}
	if res.Class != nsgen.ClsOK {
		if ref.Ambiguous && res.Class == nsgen.ClsInsufficient {
			return "", ""
		}
		return "valid-program-rejected", fmt.Sprintf("the source defines a result but the implementation rejected it: %s (%s)", res.Class, res.Err)
	}
	if !nsgen.PostingsEqual(nsgen.NormalForm(ref.Postings), nsgen.NormalForm(res.Postings)) {
		return "postings", fmt.Sprintf("postings %v, the source defines %v", res.Postings, ref.Postings)
	}
	if !metaEq(ref.TxMeta, res.TxMeta) {
		return "tx-metadata", fmt.Sprintf("transaction metadata %v, the source defines %v", res.TxMeta, ref.TxMeta)
	}
	if !accMetaEq(ref.AccMeta, res.AccMeta) {
		return "account-metadata", fmt.Sprintf("account metadata %v, the source defines %v", res.AccMeta, ref.AccMeta)
	}
	return "", ""
}

func c08() int {
	rep := evid.NewReporter("C08", "exploration")
	sp := nsgen.StandardSpace(rep.Thorough())
	st := newStats()
	var ambiguous, skipped int64
	forEachCase(rep, sp, balAlphabet(rep), st, func(c *nsCase) {
		if c.Ref.Skip != "" {
			atomic.AddInt64(&skipped, 1)
		}
		if c.Ref.Ambiguous {
			atomic.AddInt64(&ambiguous, 1)
		}
		if kind, why := compareRef(c); why != "" {
			rep.Violation(kind+":"+shapeKey(c.P), why, c.replay(map[string]interface{}{"class": c.Res.Class, "postings": fmt.Sprint(c.Res.Postings), "tx": c.Res.TxMeta, "acc": c.Res.AccMeta},
				map[string]interface{}{"class": c.Ref.Class, "postings": fmt.Sprint(c.Ref.Postings), "tx": c.Ref.TxMeta, "acc": c.Ref.AccMeta}))
		}
	})

	// text outside the language: a well-formed program with one fragment that no rule of the grammar accepts, inserted at
	// every gap between tokens, must be refused at compile time (never run as if the fragment were not there)
	noiseCases := c08Noise(rep, sp)

	// odd programs (typed or not): the reference decides accept / reject
	odd := nsgen.OddPrograms(rep.Thorough())
	var oddCases int64
	evid.ParallelFor(len(odd), workers(), func(w, i int) {
		p := odd[i]
		text := p.Text()
		comp := nsrun.Compile(compiler.Compile, text)
		for _, in := range nsgen.OddInputs(p) {
			c := &nsCase{P: p, Text: text, In: in, Comp: comp, Ref: nsgen.Eval(p, in), Res: comp.Exec(in)}
			atomic.AddInt64(&oddCases, 1)
			if kind, why := compareRef(c); why != "" {
				rep.Violation("odd-"+kind+":"+shapeKey(p), why, c.replay(map[string]interface{}{"class": c.Res.Class, "err": c.Res.Err, "postings": fmt.Sprint(c.Res.Postings)}, map[string]interface{}{"class": c.Ref.Class, "postings": fmt.Sprint(c.Ref.Postings)}))
			}
		}
	})

	// ill-typed variants of a sub-space: the language rejects, so must the implementation (compile, vars, resolve or run)
	vb := nsgen.Bounds{SrcDepth: 1, DstDepth: 1, Vars: true}
	pb := nsgen.Bounds{SrcDepth: 1, DstDepth: 1}
	var leafSrc []nsgen.VSource
	for _, s := range vb.Sources() {
		if s.Portions != nil || s.Src.K == nsgen.SAcc {
			leafSrc = append(leafSrc, s)
		}
	}
	msp := &nsgen.Space{Blocks: []nsgen.ProgBlock{
		&nsgen.Block{Name: "mutation-base-dst", Amounts: vb.Amounts(), Sources: leafSrc[:8], Dests: vb.Dests()[:12]},
		&nsgen.Block{Name: "mutation-base-src", Amounts: pb.Amounts()[:3], Sources: pb.Sources(), Dests: pb.Dests()[:1]},
	}}
	if rep.Thorough() {
		msp.Blocks = append(msp.Blocks, &nsgen.Block{Name: "mutation-base-wide", Amounts: vb.Amounts(), Sources: vb.Sources(), Dests: vb.Dests()[:4]})
	}
	var mutants, mutantRejected int64
	evid.ParallelFor(msp.Size(), workers(), func(w, i int) {
		p := msp.Program(i)
		if rej, _ := nsgen.StaticReject(p); rej {
			return
		}
		for _, m := range nsgen.IllTyped(p) {
			rej, why := nsgen.StaticReject(m.P)
			if !rej {
				continue // the variant happens to be well-typed
			}
			atomic.AddInt64(&mutants, 1)
			text := m.P.Text()
			comp := nsrun.Compile(compiler.Compile, text)
			var first *nsgen.Input
			accepted := false
			m.P.EachInput([]string{"100"}, func(in *nsgen.Input) {
				if accepted {
					return
				}
				res := comp.Exec(in)
				if res.Class == nsgen.ClsOK {
					accepted = true
					first = in
				}
			})
			if accepted {
				rep.Violation("ill-typed-ran:"+m.What[:minInt(len(m.What), 40)], "a program the language rejects ("+why+"; "+m.What+") was run and returned a result", nsReplay{Engine: "nsgen", Text: text, Input: first})
			} else {
				atomic.AddInt64(&mutantRejected, 1)
			}
		}
	})

	// compilation cache: every sequence <= 4 over every triple of a script pool x cache sizes 1..3
	cacheRuns := c08Cache(rep) + nearDuplicateCache(rep, "")
	if rep.Thorough() {
		cacheRuns += c08KeyFamily(rep) // (quick tier: run by C03)
	}
	shareRuns := c08Sharing(rep)

	cov := st.coverage(sp, nsRule+"; plus odd programs, ill-typed single-slot variants, cache sequences and phase interleavings of two machines on one cached program")
	cov["evaluations"] = int(st.cases) + int(oddCases) + int(mutants) + cacheRuns + shareRuns
	cov["ambiguous_cases_accepted_either_way"] = int(ambiguous)
	cov["reference_declined"] = int(skipped)
	cov["odd_cases"] = int(oddCases)
	cov["noise_texts"] = int(noiseCases)
	cov["ill_typed_variants"] = int(mutants)
	cov["ill_typed_rejected"] = int(mutantRejected)
	cov["cache_runs"] = cacheRuns
	cov["sharing_runs"] = shareRuns
	rep.Assume = []string{"reference semantics of DESIGN.md Appendix A (my reading of Numscript, anchored on the language's own tests)", "one documented ambiguity (capped destination entry after a kept amount) accepted either way"}
	// sequences of scripts through one Commander / one cache / two ledgers (scriptseq.go)
	seqN, seqSteps := scriptSequences(rep, "")
	cov["script_sequences"], cov["script_sequence_steps"] = seqN, seqSteps
	if rep.Thorough() {
		cov["resource_limit_cases"] = resourceLimit(rep, "") // (quick tier: run by C01)
	}
	// the amount as a client states it, through the v1 / v2 routers and bulk (apivars.go)
	apiCases, apiAccepted, apiRefused := apiAmounts(rep)
	cov["api_amount_cases"], cov["api_amount_accepted"], cov["api_amount_refused"] = apiCases, apiAccepted, apiRefused
	// scripts on the REAL store, against the stand-in stores of the enumerations above (realstore.go)
	rsH, rsS := realStoreConformance(rep, "")
	cov["realstore_histories"], cov["realstore_steps"] = rsH, rsS
	return rep.Finish(cov)
}

func minInt(a, b int) int {
	if a < b {
		return a
	}
	return b
}

func c08Pool() []struct {
	text string
	in   *nsgen.Input
} {
	b := nsgen.Bounds{SrcDepth: 1, DstDepth: 1, Vars: true}
	sp := &nsgen.Space{Blocks: []nsgen.ProgBlock{&nsgen.Block{Name: "pool", Amounts: b.Amounts(), Sources: b.Sources(), Dests: b.Dests()}}}
	var out []struct {
		text string
		in   *nsgen.Input
	}
	n := sp.Size()
	for k := 0; k < 10; k++ {
		p := sp.Program((k*7919 + 13) % n * 1 % n)
		var in *nsgen.Input
		p.EachInput([]string{"100"}, func(i *nsgen.Input) {
			if in == nil {
				in = i
			}
		})
		out = append(out, struct {
			text string
			in   *nsgen.Input
		}{p.Text(), in})
	}
	out = append(out, struct {
		text string
		in   *nsgen.Input
	}{"send [X 1] (\n source = @a\n", &nsgen.Input{}})
	// two scripts sharing a 16-byte prefix and differing only in whitespace / a late token
	out = append(out, struct {
		text string
		in   *nsgen.Input
	}{"send [X 1] (\n  source = @world\n  destination = @a\n)\n", &nsgen.Input{}}, struct {
		text string
		in   *nsgen.Input
	}{"send [X 1] (\n  source = @world\n  destination = @b\n)\n", &nsgen.Input{}})
	return out
}

func c08Cache(rep *evid.Reporter) int {
	pool := c08Pool()
	fresh := make([]string, len(pool))
	for i, s := range pool {
		fresh[i] = obsOf(nsrun.Run(s.text, s.in))
	}
	var runs int64
	n := len(pool)
	type triple [3]int
	var triples []triple
	for a := 0; a < n; a++ {
		for b := a + 1; b < n; b++ {
			for c := b + 1; c < n; c++ {
				triples = append(triples, triple{a, b, c})
			}
		}
	}
	evid.ParallelFor(len(triples), workers(), func(w, ti int) {
		t := triples[ti]
		for size := 1; size <= 3; size++ {
			var rec func(seq []int)
			rec = func(seq []int) {
				if len(seq) > 0 {
					comp := command.NewCompiler(size)
					for _, k := range seq {
						s := pool[t[k]]
						res := nsrun.RunWith(comp.Compile, s.text, s.in)
						atomic.AddInt64(&runs, 1)
						if o := obsOf(res); o != fresh[t[k]] {
							rep.Violation("cache", fmt.Sprintf("script behaves differently through the compilation cache (size %d, sequence %v of triple %v)", size, seq, t), nsReplay{Engine: "nsgen", Text: s.text, Input: s.in, Observed: o, Expected: fresh[t[k]]})
						}
					}
				}
				if len(seq) > 1 {
					// a request holds the program it was given while later compilations go through the cache (and evict it):
					// run afterwards, the held program still is the first script's
					comp := command.NewCompiler(size)
					first := pool[t[seq[0]]]
					held := nsrun.Compile(comp.Compile, first.text)
					for _, k := range seq[1:] {
						_ = nsrun.Compile(comp.Compile, pool[t[k]].text)
					}
					atomic.AddInt64(&runs, 1)
					if o := obsOf(held.Exec(first.in)); o != fresh[t[seq[0]]] {
						rep.Violation("cache-held-program", fmt.Sprintf("a program obtained from the cache behaves differently once later compilations went through it (size %d, sequence %v of triple %v)", size, seq, t), nsReplay{Engine: "nsgen", Text: first.text, Input: first.in, Observed: o, Expected: fresh[t[seq[0]]]})
					}
				}
				if len(seq) == 4 {
					return
				}
				for k := 0; k < 3; k++ {
					rec(append(append([]int{}, seq...), k))
				}
			}
			rec(nil)
		}
	})
	return int(runs)
}

// c08Sharing: two executions of one cached *Program, every interleaving of their five phases (C(10,5)=252 orders),
// for every ordered pair of inputs of every pool program: both must equal their solo result.
func c08Sharing(rep *evid.Reporter) int {
	b := nsgen.Bounds{SrcDepth: 1, DstDepth: 1, Vars: true}
	sp := &nsgen.Space{Blocks: []nsgen.ProgBlock{
		&nsgen.Block{Name: "share-src", Amounts: b.Amounts(), Sources: b.Sources(), Dests: b.Dests()[:1]},
		&nsgen.Block{Name: "share-dst", Amounts: b.Amounts()[:2], Sources: b.Sources()[:3], Dests: b.Dests()},
	}}
	var orders [][]int
	var gen func(cur []int, a, bb int)
	gen = func(cur []int, a, bb int) {
		if a == 0 && bb == 0 {
			orders = append(orders, append([]int{}, cur...))
			return
		}
		if a > 0 {
			gen(append(cur, 0), a-1, bb)
		}
		if bb > 0 {
			gen(append(cur, 1), a, bb-1)
		}
	}
	gen(nil, 5, 5)
	var runs int64
	evid.ParallelFor(sp.Size(), workers(), func(w, i int) {
		p := sp.Program(i)
		text := p.Text()
		comp := command.NewCompiler(4)
		prog := nsrun.Compile(comp.Compile, text)
		if prog.Fail != nil {
			return
		}
		var inputs []*nsgen.Input
		p.EachInput([]string{"3", "100"}, func(in *nsgen.Input) {
			if len(inputs) < 2 {
				inputs = append(inputs, in)
			}
		})
		solo := make([]string, len(inputs))
		for k, in := range inputs {
			solo[k] = obsOf(nsrun.Compile(compiler.Compile, text).Exec(in))
		}
		for x := range inputs {
			for y := range inputs {
				for _, ord := range orders {
					// both machines come from the same cached program
					c2 := nsrun.Compile(comp.Compile, text)
					s := [2]*nsrun.Stepper{prog.Stepper(inputs[x]), c2.Stepper(inputs[y])}
					done := [2]bool{}
					for _, who := range ord {
						if !done[who] {
							done[who] = s[who].Step()
						}
					}
					atomic.AddInt64(&runs, 1)
					for who, idx := range []int{x, y} {
						if o := obsOf(s[who].Res); o != solo[idx] && s[who].Res.Class != nsgen.ClsPanic {
							rep.Violation("sharing:"+shapeKey(p), fmt.Sprintf("two executions sharing one cached program interfere (phase order %v)", ord), nsReplay{Engine: "nsgen", Text: text, Input: inputs[idx], Observed: o, Expected: solo[idx]})
						}
					}
				}
			}
		}
	})
	return int(runs)
}

// c08Noise: see the call site. Fragments are separated by blanks, so they can only be tokens of their own.
func c08Noise(rep *evid.Reporter, sp *nsgen.Space) int64 {
	fragments := []string{".", ";", ",", "#", "'", "`", "!", "?", "~", "^", "&", "|", "<", ">", ":", "\\", "@", "$", "foo", "Send", "é", "\"a.b\"", "'x'", "/", "%%"}
	// base programs: the first program of every block plus a few more of each
	var bases []*nsgen.Program
	off := 0
	for _, b := range sp.Blocks {
		for _, k := range []int{0, 1, b.Size() / 2, b.Size() - 1} {
			if k >= 0 && k < b.Size() {
				bases = append(bases, sp.Program(off+k))
			}
		}
		off += b.Size()
	}
	var n int64
	evid.ParallelFor(len(bases), workers(), func(w, bi int) {
		text := bases[bi].Text()
		if nsrun.Compile(compiler.Compile, text).Fail != nil {
			return // not a well-formed base
		}
		var gaps []int
		gaps = append(gaps, 0)
		inStr := false
		for i := 0; i < len(text); i++ {
			if text[i] == '"' {
				inStr = !inStr
			}
			if !inStr && (text[i] == ' ' || text[i] == '\n') {
				gaps = append(gaps, i+1)
			}
		}
		gaps = append(gaps, len(text))
		for _, g := range gaps {
			for _, f := range fragments {
				frag := strings.ReplaceAll(f, "%%", "%")
				mutated := text[:g] + " " + frag + " " + text[g:]
				atomic.AddInt64(&n, 1)
				c := nsrun.Compile(compiler.Compile, mutated)
				if c.Fail == nil {
					rep.Violation("noise-accepted:"+frag, fmt.Sprintf("text that is not Numscript compiles (fragment %q inserted at offset %d): %q", frag, g, mutated), map[string]interface{}{"engine": "nsgen", "text": mutated, "input": map[string]interface{}{}})
				} else if c.Fail.Class == nsgen.ClsPanic {
					rep.Violation("noise-panic:"+frag, fmt.Sprintf("compiling %q panics: %s", mutated, c.Fail.Panic), map[string]interface{}{"engine": "nsgen", "text": mutated, "input": map[string]interface{}{}})
				}
			}
		}
	})
	return n
}

// c08KeyFamily: K script texts that differ in one number go through ONE compilation cache large enough to keep them all; each
// must get its own program (run: it posts its own amount). A cache key narrower than the text (a short hash, a prefix, a
// normalised form) hands some text the program of another one; with K = 3e5 a 32-bit key collides about ten times.
func c08KeyFamily(rep *evid.Reporter) int {
	k := 300000
	if rep.Thorough() {
		k = 600000
	}
	comp := command.NewCompiler(k + 16)
	var bad int64
	evid.ParallelFor(k, workers(), func(w, i int) {
		n := i + 1
		// (the texts also differ in a comment whose bytes are spread evenly - a digest of n - so that structured hashes,
		// which collide rarely on texts that differ in a few digits only, meet their birthday bound)
		tag := sha256.Sum256([]byte(fmt.Sprint(n)))
		text := fmt.Sprintf("// %x\nsend [X %d] (\n  source = @world\n  destination = @a\n)\n", tag[:9], n)
		res := nsrun.Compile(comp.Compile, text).Exec(&nsgen.Input{})
		if res.Class != nsgen.ClsOK || len(res.Postings) != 1 || res.Postings[0].Amt.Cmp(big.NewInt(int64(n))) != 0 {
			if atomic.AddInt64(&bad, 1) <= 3 {
				rep.Violation("cache-key", fmt.Sprintf("through a cache holding the %d texts of the family, the text sending %d got a program that yields %s %v", k, n, res.Class, res.Postings),
					nsReplay{Engine: "nsgen", Text: text, Input: &nsgen.Input{}, Observed: fmt.Sprint(res.Postings), Expected: fmt.Sprintf("[world->a X %d]", n)})
			}
		}
	})
	return k
}
