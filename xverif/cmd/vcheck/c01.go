package main

import (
	"fmt"
	"math/big"

	"github.com/formancehq/ledger/xverif/lib/evid"
	"github.com/formancehq/ledger/xverif/lib/nsgen"
)

func init() { checks["C01"] = c01 }

// overdrawCheck replays postings in order over the balances served and returns a description of the first overdraw.
func overdrawCheck(c *nsCase) string {
	grants := nsgen.StaticGrants(c.P, c.In)
	bal := map[string]*big.Int{}
	get := func(acc, asset string) *big.Int {
		k := acc + "|" + asset
		if b, ok := bal[k]; ok {
			return b
		}
		b, ok := c.Res.Served[k]
		if !ok {
			b = c.In.Balance(acc, asset)
		}
		bal[k] = new(big.Int).Set(b)
		return bal[k]
	}
	for i, p := range c.Res.Postings {
		if p.Amt.Sign() < 0 {
			return fmt.Sprintf("posting %d has a negative amount: %s", i, p)
		}
		if p.Src != "world" && p.Amt.Sign() > 0 {
			b := get(p.Src, p.Asset)
			b.Sub(b, p.Amt)
			g, has := grants[p.Src+"|"+p.Asset]
			if has && g == nil {
				// unbounded
			} else {
				floor := new(big.Int)
				if has {
					floor.Neg(g)
				}
				if b.Cmp(floor) < 0 {
					return fmt.Sprintf("posting %d (%s) leaves %s at %s, below the floor %s", i, p, p.Src, b, floor)
				}
			}
		}
		if p.Dst != "world" {
			b := get(p.Dst, p.Asset)
			b.Add(b, p.Amt)
		}
	}
	return ""
}

func c01() int {
	rep := evid.NewReporter("C01", "exploration")
	sp := nsgen.StandardSpace(rep.Thorough())
	st := newStats()
	forEachCase(rep, sp, balAlphabet(rep), st, func(c *nsCase) {
		if c.Res.Class == nsgen.ClsOK {
			if why := overdrawCheck(c); why != "" {
				rep.Violation("overdraw:"+shapeKey(c.P), why, c.replay(fmt.Sprint(c.Res.Postings), "no account below -(granted overdraft) at any point of the in-order replay"))
			}
		}
		if c.Ref.Skip == "" && c.Ref.Class == nsgen.ClsInsufficient && !c.Ref.Ambiguous {
			if c.Res.Class == nsgen.ClsPanic {
				return // C12's business
			}
			if c.Res.Class == nsgen.ClsOK {
				rep.Violation("uncovered-accepted:"+shapeKey(c.P), "the sources cannot cover a send but the transaction was accepted", c.replay(fmt.Sprint(c.Res.Postings), "insufficient-funds rejection"))
			} else if !c.Res.IsInsufficient {
				rep.Violation("uncovered-wrong-error:"+shapeKey(c.P), "uncovered send rejected, but not with an insufficient-funds error: "+c.Res.Err, c.replay(c.Res.Class, "insufficient"))
			} else if len(c.Res.Postings) != 0 {
				rep.Violation("uncovered-postings", "rejected transaction yields postings", c.replay(fmt.Sprint(c.Res.Postings), "none"))
			}
		}
	})
	rep.Assume = []string{"reference semantics of DESIGN.md Appendix A decides 'uncovered' (one direction only)", "programs outside the bounded grammar are not covered"}
	cov := st.coverage(sp, nsRule)
	// the same question at the Commander's level: sequences of scripts through one engine (scriptseq.go), and programs at the
	// 16-bit resource-address boundary (reslimit.go)
	seqN, seqSteps := scriptSequences(rep, "")
	cov["script_sequences"], cov["script_sequence_steps"] = seqN, seqSteps
	cov["resource_limit_cases"] = resourceLimit(rep, "")
	// scripts on the REAL store, against the stand-in stores of the enumerations above (realstore.go)
	rsH, rsS := realStoreConformance(rep, "")
	cov["realstore_histories"], cov["realstore_steps"] = rsH, rsS
	return rep.Finish(cov)
}

// shapeKey: fingerprint of the failing input class: the kinds of source/destination constructs involved (not the concrete values).
func shapeKey(p *nsgen.Program) string {
	k := ""
	for _, st := range p.Stmts {
		switch st.K {
		case nsgen.StSend:
			k += "send("
			if st.All != nil {
				k += "*,"
			}
			if st.Src.Portions != nil {
				k += "allot["
				for _, s := range st.Src.Srcs {
					k += srcShape(s)
				}
				k += "]"
			} else {
				k += srcShape(st.Src.Src)
			}
			k += "->" + dstShape(st.Dst) + ")"
		case nsgen.StSave:
			k += "save;"
		case nsgen.StFail:
			k += "fail;"
		case nsgen.StPrint:
			k += "print;"
		case nsgen.StSetTxMeta:
			k += "txmeta;"
		case nsgen.StSetAccMeta:
			k += "accmeta;"
		}
	}
	return k
}

func srcShape(s *nsgen.Source) string {
	switch s.K {
	case nsgen.SAcc:
		n := "acc"
		if s.Acc.K == nsgen.EVar {
			n = "$" + s.Acc.S
		} else if s.Acc.S == "world" {
			n = "world"
		}
		switch s.Ov {
		case nsgen.OvBounded:
			n += "+ov"
		case nsgen.OvUnbounded:
			n += "+unb"
		}
		return n + ","
	case nsgen.SMax:
		return "max(" + srcShape(s.Sub) + ")"
	case nsgen.SOrder:
		k := "{"
		for _, c := range s.List {
			k += srcShape(c)
		}
		return k + "}"
	}
	return "?"
}

func dstShape(d *nsgen.Dest) string {
	kd := func(k nsgen.KD) string {
		if k.Kept {
			return "kept,"
		}
		return dstShape(k.D)
	}
	switch d.K {
	case nsgen.DAcc:
		return "acc,"
	case nsgen.DOrder:
		k := "ord{"
		for _, it := range d.Items {
			k += kd(it)
		}
		return k + "rem:" + kd(d.Rem) + "}"
	case nsgen.DAllot:
		k := "allot{"
		for _, it := range d.Items {
			k += kd(it)
		}
		return k + "}"
	}
	return "?"
}
