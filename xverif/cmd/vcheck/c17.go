//go:build verif

package main

import (
	"context"
	"encoding/json"
	"fmt"
	"net/http/httptest"
	"net/url"
	"strings"
	"sync/atomic"

	ledger "github.com/formancehq/ledger/internal"
	"github.com/formancehq/ledger/internal/storage/ledgerstore"
	"github.com/formancehq/ledger/xverif/lib/engineh"
	"github.com/formancehq/ledger/xverif/lib/evid"
	"github.com/formancehq/ledger/xverif/lib/minidb"
	"github.com/formancehq/ledger/xverif/lib/recbackend"
	"github.com/formancehq/ledger/xverif/lib/storeh"
	"github.com/formancehq/stack/libs/go-libs/bun/bunpaginate"
	"github.com/formancehq/stack/libs/go-libs/query"
	"github.com/uptrace/bun"
	"github.com/uptrace/bun/dialect/pgdialect"
)

func init() { checks["C17"] = c17 }

type c17Item struct {
	bun.BaseModel `bun:"items,alias:items"`
	ID            *bunpaginate.BigInt `bun:"id,type:numeric"`
	Flag          int64               `bun:"flag"`
}

type c17Opts struct {
	OnlyFlagged bool `json:"onlyFlagged"`
}

// walkColumn explores the cursor graph of UsingColumn for one collection / page size / order / filter.
func walkColumn(rep *evid.Reporter, ids []int64, pageSize uint64, order bunpaginate.Order, filtered bool, states, transitions *int64) {
	tbl := &minidb.Table{Cols: []string{"id", "flag"}}
	var want []int64
	for _, id := range ids {
		flag := id % 2
		tbl.Rows = append(tbl.Rows, minidb.Row{"id": id, "flag": flag})
		if !filtered || flag == 1 {
			want = append(want, id)
		}
	}
	if order == bunpaginate.OrderDesc {
		for i, j := 0, len(want)-1; i < j; i, j = i+1, j-1 {
			want[i], want[j] = want[j], want[i]
		}
	}
	db := bun.NewDB(minidb.Open(tbl), pgdialect.New())
	defer db.Close()
	fetch := func(q bunpaginate.ColumnPaginatedQuery[c17Opts]) ([]int64, string, string, bool, error) {
		sb := db.NewSelect().Table("items").Column("id", "flag")
		if q.Options.OnlyFlagged {
			sb = sb.Where("flag = 1")
		}
		cur, err := bunpaginate.UsingColumn[c17Opts, c17Item](context.Background(), sb, q)
		if err != nil {
			return nil, "", "", false, err
		}
		var got []int64
		for _, it := range cur.Data {
			got = append(got, it.ID.ToMathBig().Int64())
		}
		return got, cur.Next, cur.Previous, cur.HasMore, nil
	}
	name := fmt.Sprintf("column ids=%v page=%d order=%v filtered=%v", ids, pageSize, order, filtered)
	replay := map[string]interface{}{"engine": "cursorwalk", "kind": "column", "ids": ids, "pageSize": pageSize, "order": int(order), "filtered": filtered}
	viol := func(kind, why string) {
		rep.Violation("column-"+kind, why+" ["+name+"]", replay)
	}
	q := bunpaginate.ColumnPaginatedQuery[c17Opts]{PageSize: pageSize, Column: "id", Order: order, Options: c17Opts{OnlyFlagged: filtered}}
	var pages [][]int64
	var all []int64
	var prevTokens []string
	for step := 0; step < len(ids)+3; step++ {
		got, next, prev, hasMore, err := fetch(q)
		atomic.AddInt64(transitions, 1)
		atomic.AddInt64(states, 1)
		if err != nil {
			if _, ok := err.(minidb.ErrUnsupported); ok {
				rep.Undecide("minidb cannot execute: " + err.Error())
				return
			}
			viol("error", "page fetch failed: "+err.Error())
			return
		}
		pages = append(pages, got)
		prevTokens = append(prevTokens, prev)
		all = append(all, got...)
		if len(got) > int(pageSize) {
			viol("page-too-long", fmt.Sprintf("page %d holds %d items", step, len(got)))
		}
		if hasMore != (next != "") {
			viol("hasmore", "hasMore disagrees with the presence of a next token")
		}
		if !hasMore {
			break
		}
		var nq bunpaginate.ColumnPaginatedQuery[c17Opts]
		if err := bunpaginate.UnmarshalCursor(next, &nq); err != nil {
			viol("token", "the server's own next token is not accepted back: "+err.Error())
			return
		}
		if nq.Options != q.Options || nq.PageSize != q.PageSize || nq.Order != q.Order {
			viol("token-query", "the next token stands for a different query")
		}
		q = nq
	}
	if fmt.Sprint(all) != fmt.Sprint(want) {
		viol("walk", fmt.Sprintf("following next yields %v, the collection in order is %v", all, want))
		return
	}
	// previous of page k+1 yields page k
	for k := 1; k < len(pages); k++ {
		if prevTokens[k] == "" {
			viol("previous-missing", fmt.Sprintf("page %d has no previous token", k))
			continue
		}
		var pq bunpaginate.ColumnPaginatedQuery[c17Opts]
		if err := bunpaginate.UnmarshalCursor(prevTokens[k], &pq); err != nil {
			viol("token", "previous token not accepted back: "+err.Error())
			continue
		}
		got, _, _, _, err := fetch(pq)
		atomic.AddInt64(transitions, 1)
		if err != nil {
			viol("error", "previous page fetch failed: "+err.Error())
			continue
		}
		if fmt.Sprint(got) != fmt.Sprint(pages[k-1]) {
			viol("previous", fmt.Sprintf("previous of page %d yields %v, the page before is %v", k, got, pages[k-1]))
		}
	}
	if len(pages) > 0 && prevTokens[0] != "" {
		viol("previous-first", "the first page has a previous token")
	}
}

func walkOffset(rep *evid.Reporter, ids []int64, pageSize uint64, filtered bool, states, transitions *int64) {
	tbl := &minidb.Table{Cols: []string{"id", "flag"}}
	var want []int64
	for _, id := range ids {
		flag := id % 2
		tbl.Rows = append(tbl.Rows, minidb.Row{"id": id, "flag": flag})
		if !filtered || flag == 1 {
			want = append(want, id)
		}
	}
	db := bun.NewDB(minidb.Open(tbl), pgdialect.New())
	defer db.Close()
	fetch := func(q bunpaginate.OffsetPaginatedQuery[c17Opts]) ([]int64, string, string, bool, error) {
		sb := db.NewSelect().Table("items").Column("id", "flag").OrderExpr("id ASC")
		if q.Options.OnlyFlagged {
			sb = sb.Where("flag = 1")
		}
		cur, err := bunpaginate.UsingOffset[c17Opts, c17Item](context.Background(), sb, q)
		if err != nil {
			return nil, "", "", false, err
		}
		var got []int64
		for _, it := range cur.Data {
			got = append(got, it.ID.ToMathBig().Int64())
		}
		return got, cur.Next, cur.Previous, cur.HasMore, nil
	}
	name := fmt.Sprintf("offset ids=%v page=%d filtered=%v", ids, pageSize, filtered)
	replay := map[string]interface{}{"engine": "cursorwalk", "kind": "offset", "ids": ids, "pageSize": pageSize, "filtered": filtered}
	viol := func(kind, why string) { rep.Violation("offset-"+kind, why+" ["+name+"]", replay) }
	q := bunpaginate.OffsetPaginatedQuery[c17Opts]{PageSize: pageSize, Options: c17Opts{OnlyFlagged: filtered}}
	var pages [][]int64
	var prevTokens []string
	var all []int64
	for step := 0; step < len(ids)+3; step++ {
		got, next, prev, hasMore, err := fetch(q)
		atomic.AddInt64(transitions, 1)
		atomic.AddInt64(states, 1)
		if err != nil {
			if _, ok := err.(minidb.ErrUnsupported); ok {
				rep.Undecide("minidb cannot execute: " + err.Error())
				return
			}
			viol("error", err.Error())
			return
		}
		pages = append(pages, got)
		prevTokens = append(prevTokens, prev)
		all = append(all, got...)
		if hasMore != (next != "") {
			viol("hasmore", "hasMore disagrees with the presence of a next token")
		}
		if !hasMore {
			break
		}
		var nq bunpaginate.OffsetPaginatedQuery[c17Opts]
		if err := bunpaginate.UnmarshalCursor(next, &nq); err != nil {
			viol("token", "next token not accepted back: "+err.Error())
			return
		}
		q = nq
	}
	if fmt.Sprint(all) != fmt.Sprint(want) {
		viol("walk", fmt.Sprintf("following next yields %v, the collection in order is %v", all, want))
		return
	}
	for k := 1; k < len(pages); k++ {
		var pq bunpaginate.OffsetPaginatedQuery[c17Opts]
		if prevTokens[k] == "" {
			viol("previous-missing", fmt.Sprintf("page %d has no previous token", k))
			continue
		}
		if err := bunpaginate.UnmarshalCursor(prevTokens[k], &pq); err != nil {
			viol("token", err.Error())
			continue
		}
		got, _, _, _, err := fetch(pq)
		atomic.AddInt64(transitions, 1)
		if err == nil && fmt.Sprint(got) != fmt.Sprint(pages[k-1]) {
			viol("previous", fmt.Sprintf("previous of page %d yields %v, the page before is %v", k, got, pages[k-1]))
		}
	}
}

// filter expressions up to depth 2 over the keys / operators an endpoint accepts
func c17Filters(keys []string, values map[string]interface{}) []interface{} {
	var leaves []interface{}
	for _, k := range keys {
		for _, op := range []string{"$match", "$lt", "$gte"} {
			leaves = append(leaves, map[string]interface{}{op: map[string]interface{}{k: values[k]}})
		}
	}
	out := append([]interface{}{}, leaves...)
	for _, set := range []string{"$and", "$or"} {
		for i, a := range leaves {
			b := leaves[(i+1)%len(leaves)]
			out = append(out, map[string]interface{}{set: []interface{}{a, b}})
			out = append(out, map[string]interface{}{set: []interface{}{a}})
		}
		out = append(out, map[string]interface{}{set: []interface{}{map[string]interface{}{"$or": []interface{}{leaves[0], leaves[1]}}, leaves[2]}})
	}
	return out
}

func sqlOf(f func(st *ledgerstore.Store) error) ([]string, error) {
	st, rec := storeh.NewRecordingStore("b1", "l1")
	var err error
	func() {
		defer func() {
			if e := recover(); e != nil {
				err = fmt.Errorf("panic: %v", e)
			}
		}()
		err = f(st)
	}()
	return collect(rec), err
}

// tokenChecks: every cursor handed out for a filtered listing decodes and stands for the same query.
func tokenChecks(rep *evid.Reporter, evals *int64) {
	ctx := context.Background()
	pit, _ := ledger.ParseTime("2023-05-06T07:08:09Z")
	txFilters := c17Filters([]string{"reference", "account", "source", "destination", "metadata[k]", "timestamp"},
		map[string]interface{}{"reference": "ref", "account": "a:b", "source": "a:", "destination": "b", "metadata[k]": "v", "timestamp": "2023-05-06T07:08:09Z"})
	accFilters := c17Filters([]string{"address", "metadata[k]", "balance[USD]"},
		map[string]interface{}{"address": "a:", "metadata[k]": "v", "balance[USD]": 5})
	logFilters := c17Filters([]string{"date"}, map[string]interface{}{"date": "2023-05-06T07:08:09Z"})
	judge := func(kind string, filter interface{}, withPIT bool, direct func(st *ledgerstore.Store) (string, error), viaToken func(st *ledgerstore.Store, tok string) error, httpPath string) {
		atomic.AddInt64(evals, 1)
		raw, _ := json.Marshal(filter)
		replay := map[string]interface{}{"engine": "cursortoken", "listing": kind, "filter": string(raw), "pit": withPIT}
		var tok string
		sqlDirect, err := sqlOf(func(st *ledgerstore.Store) error {
			var e error
			tok, e = direct(st)
			return e
		})
		if len(sqlDirect) == 0 {
			return // this key/operator combination is rejected as an invalid query: no cursor is ever handed out
		}
		_ = err
		sqlTok, terr := sqlOf(func(st *ledgerstore.Store) error { return viaToken(st, tok) })
		if terr != nil && len(sqlTok) == 0 {
			rep.Violation("token-rejected:"+kind, fmt.Sprintf("a cursor token for a filtered %s listing is not accepted back: %v [filter %s]", kind, terr, raw), replay)
			return
		}
		if strings.Join(sqlTok, "\n") != strings.Join(sqlDirect, "\n") {
			rep.Violation("token-different-query:"+kind, fmt.Sprintf("the cursor token of a %s listing stands for a different query (filter %s): %v vs %v", kind, raw, sqlTok, sqlDirect), replay)
			return
		}
		// through the HTTP handler: ?cursor=<token>
		st, rec := storeh.NewRecordingStore("b1", "l1")
		b := recbackend.New("l1")
		b.R = recbackend.Reads{GetAccountsWithVolumes: st.GetAccountsWithVolumes, GetLogs: st.GetLogs, GetTransactions: st.GetTransactions}
		req := httptest.NewRequest("GET", "/api/ledger/v2/l1/"+httpPath+"?cursor="+url.QueryEscape(tok), nil).WithContext(engineh.QuietCtx())
		w := httptest.NewRecorder()
		newRouter(b, false).ServeHTTP(w, req)
		got := collect(rec)
		if len(got) == 0 {
			rep.Violation("token-rejected-http:"+kind, fmt.Sprintf("GET %s?cursor=<token handed out by the server> answers %d without querying [filter %s]", httpPath, w.Code, raw), replay)
		} else if strings.Join(got, "\n") != strings.Join(sqlDirect, "\n") {
			rep.Violation("token-different-query-http:"+kind, fmt.Sprintf("the HTTP cursor path issues a different query for filter %s", raw), replay)
		}
	}
	for _, withPIT := range []bool{false, true} {
		for _, f := range txFilters {
			raw, _ := json.Marshal(f)
			mk := func() ledgerstore.GetTransactionsQuery {
				qb, _ := query.ParseJSON(string(raw))
				o := ledgerstore.PITFilterWithVolumes{}
				if withPIT {
					o.PIT = &pit
					o.ExpandVolumes = true
				}
				q := ledgerstore.NewGetTransactionsQuery(ledgerstore.NewPaginatedQueryOptions(o).WithQueryBuilder(qb).WithPageSize(3))
				return q
			}
			judge("transactions", f, withPIT,
				func(st *ledgerstore.Store) (string, error) {
					q := mk()
					_, err := st.GetTransactions(ctx, q)
					return bunpaginate.EncodeCursor(q), err
				},
				func(st *ledgerstore.Store, tok string) error {
					var q ledgerstore.GetTransactionsQuery
					if err := bunpaginate.UnmarshalCursor(tok, &q); err != nil {
						return err
					}
					_, err := st.GetTransactions(ctx, q)
					return err
				}, "transactions")
		}
		for _, f := range accFilters {
			raw, _ := json.Marshal(f)
			mk := func() ledgerstore.GetAccountsQuery {
				qb, _ := query.ParseJSON(string(raw))
				o := ledgerstore.PITFilterWithVolumes{}
				if withPIT {
					o.PIT = &pit
					o.ExpandVolumes = true
				}
				return ledgerstore.NewGetAccountsQuery(ledgerstore.NewPaginatedQueryOptions(o).WithQueryBuilder(qb).WithPageSize(3))
			}
			judge("accounts", f, withPIT,
				func(st *ledgerstore.Store) (string, error) {
					q := mk()
					_, err := st.GetAccountsWithVolumes(ctx, q)
					return bunpaginate.EncodeCursor(q), err
				},
				func(st *ledgerstore.Store, tok string) error {
					var q ledgerstore.GetAccountsQuery
					if err := bunpaginate.UnmarshalCursor(tok, &q); err != nil {
						return err
					}
					_, err := st.GetAccountsWithVolumes(ctx, q)
					return err
				}, "accounts")
		}
	}
	for _, f := range logFilters {
		raw, _ := json.Marshal(f)
		judge("logs", f, false,
			func(st *ledgerstore.Store) (string, error) {
				qb, _ := query.ParseJSON(string(raw))
				q := ledgerstore.NewGetLogsQuery(ledgerstore.NewPaginatedQueryOptions[any](nil).WithQueryBuilder(qb).WithPageSize(3))
				_, err := st.GetLogs(ctx, q)
				return bunpaginate.EncodeCursor(q), err
			},
			func(st *ledgerstore.Store, tok string) error {
				var q ledgerstore.GetLogsQuery
				if err := bunpaginate.UnmarshalCursor(tok, &q); err != nil {
					return err
				}
				_, err := st.GetLogs(ctx, q)
				return err
			}, "logs")
	}
}

func c17() int {
	silenceStderr()
	rep := evid.NewReporter("C17", "model_checking")
	var states, transitions, tokenEvals int64
	maxN := 8
	if rep.Thorough() {
		maxN = 10
	}
	type job struct {
		ids      []int64
		page     uint64
		order    bunpaginate.Order
		filtered bool
		offset   bool
	}
	var jobs []job
	for n := 0; n <= maxN; n++ {
		// ids with gaps: 1,2,4,7,11,... ; and a dense variant
		for _, dense := range []bool{false, true} {
			ids := make([]int64, n)
			x := int64(1)
			for i := range ids {
				ids[i] = x
				if dense {
					x++
				} else {
					x += int64(i%3) + 1
				}
			}
			for page := uint64(1); page <= uint64(maxN)+1; page++ {
				for _, filtered := range []bool{false, true} {
					jobs = append(jobs, job{ids, page, bunpaginate.OrderAsc, filtered, false}, job{ids, page, bunpaginate.OrderDesc, filtered, false}, job{ids, page, 0, filtered, true})
				}
			}
		}
	}
	evid.ParallelFor(len(jobs), workers(), func(w, i int) {
		j := jobs[i]
		if j.offset {
			walkOffset(rep, j.ids, j.page, j.filtered, &states, &transitions)
		} else {
			walkColumn(rep, j.ids, j.page, j.order, j.filtered, &states, &transitions)
		}
	})
	tokenChecks(rep, &tokenEvals)
	storeN := 5
	if rep.Thorough() {
		storeN = 7
	}
	storeWalks, storeFetches := c17StoreWalks(rep, storeN)
	transitions += int64(storeFetches)
	states += int64(storeFetches)
	cov := evid.Coverage{
		"states":                        int(states),
		"transitions":                   int(transitions),
		"traces_validated_against_impl": len(jobs) + int(tokenEvals),
		"samples":                       []interface{}{fmt.Sprintf("%+v", jobs[len(jobs)/2]), fmt.Sprintf("%+v", jobs[len(jobs)-1])},
		"exhaustive":                    true,
		"rule":                          fmt.Sprintf("cursor-graph walk of bunpaginate.UsingColumn / UsingOffset over an in-memory table (minidb executes the SQL they emit): collection sizes 0..%d (ids with gaps and dense) x page sizes 1..%d x both orders x with/without a filter = %d walks; states = pages reached, transitions = page fetches (next and previous); plus %d cursor tokens of filtered store listings (every filter expression to depth 2 over the keys of transactions / accounts / logs, PIT on/off) decoded and compared by the SQL they issue, directly and through GET ?cursor=; plus store-level walks: the real GetTransactions / GetAccountsWithVolumes / GetLogs executed on pgmini over ledgers of 0..%d transactions x every page size x with/without a metadata filter", maxN, maxN+1, len(jobs), tokenEvals, storeN),
		"walks":                         len(jobs),
		"store_level_walks":             storeWalks,
		"store_level_fetches":           storeFetches,
		"token_round_trips":             int(tokenEvals),
	}
	rep.Assume = []string{"minidb executes the single-table SELECT / WHERE / ORDER BY / LIMIT / OFFSET shape exactly as SQL defines it; PostgreSQL itself is not available", "store-level listings are compared by the SQL text they emit (same SQL = same query), not executed"}
	return rep.Finish(cov)
}
