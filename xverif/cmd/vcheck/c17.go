//go:build verif

package main

import (
	"context"
	"encoding/json"
	"fmt"
	"net/http/httptest"
	"net/url"
	"strings"
	"sync/atomic"

	ledger "github.com/formancehq/ledger/internal"
	"github.com/formancehq/ledger/internal/storage/ledgerstore"
	"github.com/formancehq/ledger/xverif/lib/engineh"
	"github.com/formancehq/ledger/xverif/lib/evid"
	"github.com/formancehq/ledger/xverif/lib/minidb"
	"github.com/formancehq/ledger/xverif/lib/recbackend"
	"github.com/formancehq/ledger/xverif/lib/storeh"
	"github.com/formancehq/stack/libs/go-libs/bun/bunpaginate"
	"github.com/formancehq/stack/libs/go-libs/query"
	"github.com/uptrace/bun"
	"github.com/uptrace/bun/dialect/pgdialect"
)

func init() { checks["C17"] = c17 }

type c17Item struct {
	bun.BaseModel `bun:"items,alias:items"`
	ID            *bunpaginate.BigInt `bun:"id,type:numeric"`
	Flag          int64               `bun:"flag"`
}

type c17Opts struct {
	OnlyFlagged bool `json:"onlyFlagged"`
}

// walkGraph explores the whole cursor graph reachable from the first page: every token handed out (next or previous, at
// any position, including pages reached by stepping back) is fetched once; each page must be a page of the in-order
// partition of the collection, next must lead to the following page and previous to the page before.
func walkGraph[T any](want []T, pageSize uint64, fetch func(tok string) ([]T, string, string, bool, error), viol func(kind, why string), states, transitions *int64) bool {
	var pages [][]T
	for i := 0; i < len(want); i += int(pageSize) {
		j := i + int(pageSize)
		if j > len(want) {
			j = len(want)
		}
		pages = append(pages, want[i:j])
	}
	if len(pages) == 0 {
		pages = [][]T{nil}
	}
	type node struct {
		tok  string
		idx  int
		path string
	}
	short := func(v []T) string {
		if len(v) > 12 {
			return fmt.Sprintf("[%d items %v..%v]", len(v), v[0], v[len(v)-1])
		}
		return fmt.Sprint(v)
	}
	seen := map[string]bool{"": true}
	queue := []node{{"", 0, "first"}}
	limit := 4*len(pages) + 8 // the token space is finite (position x direction); the cap only guards against a runaway graph
	for fetched := 0; len(queue) > 0 && fetched < limit; fetched++ {
		n := queue[0]
		queue = queue[1:]
		got, next, prev, hasMore, err := fetch(n.tok)
		atomic.AddInt64(transitions, 1)
		atomic.AddInt64(states, 1)
		if err != nil {
			if _, ok := err.(minidb.ErrUnsupported); ok || strings.Contains(err.Error(), "pgmini: unsupported") {
				return false
			}
			viol("error", fmt.Sprintf("page fetch failed at %s: %v", n.path, err))
			return true
		}
		if len(got) > int(pageSize) {
			viol("page-too-long", fmt.Sprintf("the page at %s holds %d items", n.path, len(got)))
		}
		if fmt.Sprint(got) != fmt.Sprint(pages[n.idx]) {
			kind := "walk"
			if strings.Contains(n.path, "previous") {
				kind = "previous"
			}
			viol(kind, fmt.Sprintf("the page at %s is %s, page %d of the collection in order is %s", n.path, short(got), n.idx, short(pages[n.idx])))
			return true
		}
		if hasMore != (next != "") {
			viol("hasmore", "hasMore disagrees with the presence of a next token at "+n.path)
		}
		last := n.idx == len(pages)-1
		if last && next != "" {
			viol("next-extra", fmt.Sprintf("the last page (%s) still hands out a next token", n.path))
		}
		if !last && next == "" {
			viol("walk", fmt.Sprintf("the page at %s (page %d of %d) hands out no next token: following next stops early", n.path, n.idx, len(pages)))
		}
		if n.idx == 0 && prev != "" {
			viol("previous-first", "the first page (reached by "+n.path+") has a previous token")
		}
		if n.idx > 0 && prev == "" {
			viol("previous-missing", fmt.Sprintf("the page at %s (page %d) has no previous token", n.path, n.idx))
		}
		if next != "" && !last && !seen[next] {
			seen[next] = true
			queue = append(queue, node{next, n.idx + 1, n.path + ">next"})
		}
		if prev != "" && n.idx > 0 && !seen[prev] {
			seen[prev] = true
			queue = append(queue, node{prev, n.idx - 1, n.path + ">previous"})
		}
	}
	return true
}

func c17Table(ids []int64, filtered bool) (*minidb.Table, []int64) {
	tbl := &minidb.Table{Cols: []string{"id", "flag"}}
	var want []int64
	for _, id := range ids {
		flag := id % 2
		tbl.Rows = append(tbl.Rows, minidb.Row{"id": id, "flag": flag})
		if !filtered || flag == 1 {
			want = append(want, id)
		}
	}
	return tbl, want
}

func idsName(ids []int64) string {
	if len(ids) > 12 {
		return fmt.Sprintf("%d ids %d..%d", len(ids), ids[0], ids[len(ids)-1])
	}
	return fmt.Sprint(ids)
}

// walkColumn explores the cursor graph of UsingColumn for one collection / page size / order / filter.
func walkColumn(rep *evid.Reporter, ids []int64, pageSize uint64, order bunpaginate.Order, filtered bool, states, transitions *int64) {
	tbl, want := c17Table(ids, filtered)
	if order == bunpaginate.OrderDesc {
		for i, j := 0, len(want)-1; i < j; i, j = i+1, j-1 {
			want[i], want[j] = want[j], want[i]
		}
	}
	db := bun.NewDB(minidb.Open(tbl), pgdialect.New())
	defer db.Close()
	name := fmt.Sprintf("column ids=%s page=%d order=%v filtered=%v", idsName(ids), pageSize, order, filtered)
	replay := map[string]interface{}{"engine": "cursorwalk", "kind": "column", "n": len(ids), "first": firstOf(ids), "last": lastOf(ids), "pageSize": pageSize, "order": int(order), "filtered": filtered}
	viol := func(kind, why string) {
		rep.Violation("column-"+kind, why+" ["+name+"]", replay)
	}
	first := bunpaginate.ColumnPaginatedQuery[c17Opts]{PageSize: pageSize, Column: "id", Order: order, Options: c17Opts{OnlyFlagged: filtered}}
	fetch := func(tok string) ([]int64, string, string, bool, error) {
		q := first
		if tok != "" {
			var nq bunpaginate.ColumnPaginatedQuery[c17Opts]
			if err := bunpaginate.UnmarshalCursor(tok, &nq); err != nil {
				return nil, "", "", false, fmt.Errorf("the server's own token is not accepted back: %w", err)
			}
			if nq.Options != first.Options || nq.PageSize != first.PageSize || nq.Order != first.Order || nq.Column != first.Column {
				viol("token-query", "a token stands for a different query")
			}
			q = nq
		}
		sb := db.NewSelect().Table("items").Column("id", "flag")
		if q.Options.OnlyFlagged {
			sb = sb.Where("flag = 1")
		}
		cur, err := bunpaginate.UsingColumn[c17Opts, c17Item](context.Background(), sb, q)
		if err != nil {
			return nil, "", "", false, err
		}
		var got []int64
		for _, it := range cur.Data {
			got = append(got, it.ID.ToMathBig().Int64())
		}
		return got, cur.Next, cur.Previous, cur.HasMore, nil
	}
	if !walkGraph(want, pageSize, fetch, viol, states, transitions) {
		rep.Undecide("minidb cannot execute a statement of " + name)
	}
}

func firstOf(v []int64) int64 {
	if len(v) == 0 {
		return 0
	}
	return v[0]
}
func lastOf(v []int64) int64 {
	if len(v) == 0 {
		return 0
	}
	return v[len(v)-1]
}

func walkOffset(rep *evid.Reporter, ids []int64, pageSize uint64, filtered bool, states, transitions *int64) {
	tbl, want := c17Table(ids, filtered)
	db := bun.NewDB(minidb.Open(tbl), pgdialect.New())
	defer db.Close()
	name := fmt.Sprintf("offset ids=%s page=%d filtered=%v", idsName(ids), pageSize, filtered)
	replay := map[string]interface{}{"engine": "cursorwalk", "kind": "offset", "n": len(ids), "first": firstOf(ids), "last": lastOf(ids), "pageSize": pageSize, "filtered": filtered}
	viol := func(kind, why string) { rep.Violation("offset-"+kind, why+" ["+name+"]", replay) }
	first := bunpaginate.OffsetPaginatedQuery[c17Opts]{PageSize: pageSize, Options: c17Opts{OnlyFlagged: filtered}}
	fetch := func(tok string) ([]int64, string, string, bool, error) {
		q := first
		if tok != "" {
			var nq bunpaginate.OffsetPaginatedQuery[c17Opts]
			if err := bunpaginate.UnmarshalCursor(tok, &nq); err != nil {
				return nil, "", "", false, fmt.Errorf("the server's own token is not accepted back: %w", err)
			}
			if nq.Options != first.Options || nq.PageSize != first.PageSize {
				viol("token-query", "a token stands for a different query")
			}
			q = nq
		}
		sb := db.NewSelect().Table("items").Column("id", "flag").OrderExpr("id ASC")
		if q.Options.OnlyFlagged {
			sb = sb.Where("flag = 1")
		}
		cur, err := bunpaginate.UsingOffset[c17Opts, c17Item](context.Background(), sb, q)
		if err != nil {
			return nil, "", "", false, err
		}
		var got []int64
		for _, it := range cur.Data {
			got = append(got, it.ID.ToMathBig().Int64())
		}
		return got, cur.Next, cur.Previous, cur.HasMore, nil
	}
	if !walkGraph(want, pageSize, fetch, viol, states, transitions) {
		rep.Undecide("minidb cannot execute a statement of " + name)
	}
}

// filter expressions up to depth 2 over the keys / operators an endpoint accepts
func c17Filters(keys []string, values map[string]interface{}) []interface{} {
	var leaves []interface{}
	for _, k := range keys {
		for _, op := range []string{"$match", "$lt", "$gte"} {
			leaves = append(leaves, map[string]interface{}{op: map[string]interface{}{k: values[k]}})
		}
	}
	out := append([]interface{}{}, leaves...)
	for _, set := range []string{"$and", "$or"} {
		for i, a := range leaves {
			b := leaves[(i+1)%len(leaves)]
			out = append(out, map[string]interface{}{set: []interface{}{a, b}})
			out = append(out, map[string]interface{}{set: []interface{}{a}})
		}
		out = append(out, map[string]interface{}{set: []interface{}{map[string]interface{}{"$or": []interface{}{leaves[0], leaves[1]}}, leaves[2]}})
	}
	return out
}

func sqlOf(f func(st *ledgerstore.Store) error) ([]string, error) {
	st, rec := storeh.NewRecordingStore("b1", "l1")
	var err error
	func() {
		defer func() {
			if e := recover(); e != nil {
				err = fmt.Errorf("panic: %v", e)
			}
		}()
		err = f(st)
	}()
	return collect(rec), err
}

// tokenChecks: every cursor handed out for a filtered listing decodes and stands for the same query.
func tokenChecks(rep *evid.Reporter, evals *int64) {
	ctx := context.Background()
	pit, _ := ledger.ParseTime("2023-05-06T07:08:09Z")
	txFilters := c17Filters([]string{"reference", "account", "source", "destination", "metadata[k]", "timestamp"},
		map[string]interface{}{"reference": "ref", "account": "a:b", "source": "a:", "destination": "b", "metadata[k]": "v", "timestamp": "2023-05-06T07:08:09Z"})
	accFilters := c17Filters([]string{"address", "metadata[k]", "balance[USD]"},
		map[string]interface{}{"address": "a:", "metadata[k]": "v", "balance[USD]": 5})
	logFilters := c17Filters([]string{"date"}, map[string]interface{}{"date": "2023-05-06T07:08:09Z"})
	// values whose bytes fall on every base64 alignment with the bit patterns that differ between alphabets (62 / 63), long
	// values, and non-ASCII text: the token must carry any filter value
	for _, v := range []string{"?", "??", "???", "x?", "xy?", "~", "~~", "~~~", ">", ">>", ">>>", "ÿ", "ÿÿ", "ÿÿÿ", "🙂", "really???", strings.Repeat("long-", 60), "a+b/c=d", "\u0000", "\"quoted\""} {
		txFilters = append(txFilters, map[string]interface{}{"$match": map[string]interface{}{"reference": v}}, map[string]interface{}{"$match": map[string]interface{}{"metadata[k]": v}})
		accFilters = append(accFilters, map[string]interface{}{"$match": map[string]interface{}{"metadata[k]": v}})
	}
	judge := func(kind string, filter interface{}, withPIT bool, direct func(st *ledgerstore.Store) (string, error), viaToken func(st *ledgerstore.Store, tok string) error, httpPath string) {
		atomic.AddInt64(evals, 1)
		raw, _ := json.Marshal(filter)
		replay := map[string]interface{}{"engine": "cursortoken", "listing": kind, "filter": string(raw), "pit": withPIT}
		var tok string
		sqlDirect, err := sqlOf(func(st *ledgerstore.Store) error {
			var e error
			tok, e = direct(st)
			return e
		})
		if len(sqlDirect) == 0 {
			return // this key/operator combination is rejected as an invalid query: no cursor is ever handed out
		}
		_ = err
		sqlTok, terr := sqlOf(func(st *ledgerstore.Store) error { return viaToken(st, tok) })
		if terr != nil && len(sqlTok) == 0 {
			rep.Violation("token-rejected:"+kind, fmt.Sprintf("a cursor token for a filtered %s listing is not accepted back: %v [filter %s]", kind, terr, raw), replay)
			return
		}
		if strings.Join(sqlTok, "\n") != strings.Join(sqlDirect, "\n") {
			rep.Violation("token-different-query:"+kind, fmt.Sprintf("the cursor token of a %s listing stands for a different query (filter %s): %v vs %v", kind, raw, sqlTok, sqlDirect), replay)
			return
		}
		// through the HTTP handlers of both API versions: ?cursor=<token> (v1 runs the decoded query as it is for these three listings)
		for _, prefix := range []string{"/api/ledger/v2/l1/", "/api/ledger/l1/"} {
			st, rec := storeh.NewRecordingStore("b1", "l1")
			b := recbackend.New("l1")
			b.R = recbackend.Reads{GetAccountsWithVolumes: st.GetAccountsWithVolumes, GetLogs: st.GetLogs, GetTransactions: st.GetTransactions}
			req := httptest.NewRequest("GET", prefix+httpPath+"?cursor="+url.QueryEscape(tok), nil).WithContext(engineh.QuietCtx())
			w := httptest.NewRecorder()
			newRouter(b, false).ServeHTTP(w, req)
			got := collect(rec)
			ver := "v2"
			if !strings.Contains(prefix, "/v2/") {
				ver = "v1"
			}
			if len(got) == 0 {
				rep.Violation("token-rejected-http:"+ver+":"+kind, fmt.Sprintf("GET %s%s?cursor=<token handed out by the server> answers %d without querying [filter %s]", prefix, httpPath, w.Code, raw), replay)
			} else if strings.Join(got, "\n") != strings.Join(sqlDirect, "\n") {
				rep.Violation("token-different-query-http:"+ver+":"+kind, fmt.Sprintf("the %s HTTP cursor path issues a different query for filter %s: %v vs %v", ver, raw, got, sqlDirect), replay)
			}
		}
	}
	for _, withPIT := range []bool{false, true} {
		for _, f := range txFilters {
			raw, _ := json.Marshal(f)
			mk := func() ledgerstore.GetTransactionsQuery {
				qb, _ := query.ParseJSON(string(raw))
				o := ledgerstore.PITFilterWithVolumes{}
				if withPIT {
					o.PIT = &pit
					o.ExpandVolumes = true
				}
				q := ledgerstore.NewGetTransactionsQuery(ledgerstore.NewPaginatedQueryOptions(o).WithQueryBuilder(qb).WithPageSize(3))
				return q
			}
			judge("transactions", f, withPIT,
				func(st *ledgerstore.Store) (string, error) {
					q := mk()
					_, err := st.GetTransactions(ctx, q)
					return bunpaginate.EncodeCursor(q), err
				},
				func(st *ledgerstore.Store, tok string) error {
					var q ledgerstore.GetTransactionsQuery
					if err := bunpaginate.UnmarshalCursor(tok, &q); err != nil {
						return err
					}
					_, err := st.GetTransactions(ctx, q)
					return err
				}, "transactions")
		}
		for _, f := range accFilters {
			raw, _ := json.Marshal(f)
			mk := func() ledgerstore.GetAccountsQuery {
				qb, _ := query.ParseJSON(string(raw))
				o := ledgerstore.PITFilterWithVolumes{}
				if withPIT {
					o.PIT = &pit
					o.ExpandVolumes = true
				}
				return ledgerstore.NewGetAccountsQuery(ledgerstore.NewPaginatedQueryOptions(o).WithQueryBuilder(qb).WithPageSize(3))
			}
			judge("accounts", f, withPIT,
				func(st *ledgerstore.Store) (string, error) {
					q := mk()
					_, err := st.GetAccountsWithVolumes(ctx, q)
					return bunpaginate.EncodeCursor(q), err
				},
				func(st *ledgerstore.Store, tok string) error {
					var q ledgerstore.GetAccountsQuery
					if err := bunpaginate.UnmarshalCursor(tok, &q); err != nil {
						return err
					}
					_, err := st.GetAccountsWithVolumes(ctx, q)
					return err
				}, "accounts")
		}
	}
	for _, f := range logFilters {
		raw, _ := json.Marshal(f)
		judge("logs", f, false,
			func(st *ledgerstore.Store) (string, error) {
				qb, _ := query.ParseJSON(string(raw))
				q := ledgerstore.NewGetLogsQuery(ledgerstore.NewPaginatedQueryOptions[any](nil).WithQueryBuilder(qb).WithPageSize(3))
				_, err := st.GetLogs(ctx, q)
				return bunpaginate.EncodeCursor(q), err
			},
			func(st *ledgerstore.Store, tok string) error {
				var q ledgerstore.GetLogsQuery
				if err := bunpaginate.UnmarshalCursor(tok, &q); err != nil {
					return err
				}
				_, err := st.GetLogs(ctx, q)
				return err
			}, "logs")
	}
}

func c17() int {
	silenceStderr()
	rep := evid.NewReporter("C17", "model_checking")
	var states, transitions, tokenEvals int64
	maxN := 8
	if rep.Thorough() {
		maxN = 12
	}
	type job struct {
		ids      []int64
		page     uint64
		order    bunpaginate.Order
		filtered bool
		offset   bool
	}
	var jobs []job
	for n := 0; n <= maxN; n++ {
		// ids with gaps: 1,2,4,7,11,... ; and a dense variant
		for _, dense := range []bool{false, true} {
			ids := make([]int64, n)
			x := int64(1)
			for i := range ids {
				ids[i] = x
				if dense {
					x++
				} else {
					x += int64(i%3) + 1
				}
			}
			for page := uint64(1); page <= uint64(maxN)+1; page++ {
				for _, filtered := range []bool{false, true} {
					jobs = append(jobs, job{ids, page, bunpaginate.OrderAsc, filtered, false}, job{ids, page, bunpaginate.OrderDesc, filtered, false}, job{ids, page, 0, filtered, true})
				}
			}
		}
	}
	// page sizes around every constant of the page-size logic (default 15, bunpaginate.MaxPageSize 100, the v1 API's 1000)
	// with collections just below / at / above one, two and three pages
	bigPages := []uint64{15, 16, 99, 100, 101, 1000}
	if rep.Thorough() {
		bigPages = []uint64{14, 15, 16, 50, 99, 100, 101, 102, 250, 999, 1000}
	}
	nSmall := len(jobs)
	for _, page := range bigPages {
		for _, n := range []int{int(page) - 1, int(page), int(page) + 1, 2*int(page) - 1, 2 * int(page), 2*int(page) + 1, 3*int(page) + 1} {
			ids := make([]int64, n)
			for i := range ids {
				ids[i] = int64(2*i + 1 + i%2) // gaps, both parities
			}
			for _, filtered := range []bool{false, true} {
				jobs = append(jobs, job{ids, page, bunpaginate.OrderAsc, filtered, false}, job{ids, page, bunpaginate.OrderDesc, filtered, false}, job{ids, page, 0, filtered, true})
			}
		}
	}
	evid.ParallelFor(len(jobs), workers(), func(w, i int) {
		j := jobs[i]
		if j.offset {
			walkOffset(rep, j.ids, j.page, j.filtered, &states, &transitions)
		} else {
			walkColumn(rep, j.ids, j.page, j.order, j.filtered, &states, &transitions)
		}
	})
	tokenChecks(rep, &tokenEvals)
	storeN := 7
	if rep.Thorough() {
		storeN = 12
	}
	storeWalks, storeFetches := c17StoreWalks(rep, storeN)
	transitions += int64(storeFetches)
	states += int64(storeFetches)
	cov := evid.Coverage{
		"states":                        int(states),
		"transitions":                   int(transitions),
		"traces_validated_against_impl": len(jobs) + int(tokenEvals),
		"samples":                       []interface{}{fmt.Sprintf("%+v", jobs[nSmall/2]), fmt.Sprintf("%+v", jobs[nSmall-1]), fmt.Sprintf("page=%d n=%d offset=%v", jobs[len(jobs)-1].page, len(jobs[len(jobs)-1].ids), jobs[len(jobs)-1].offset)},
		"exhaustive":                    true,
		"rule":                          fmt.Sprintf("cursor-graph walk of bunpaginate.UsingColumn / UsingOffset over an in-memory table (minidb executes the SQL they emit): collection sizes 0..%d (ids with gaps and dense) x page sizes 1..%d x both orders x with/without a filter = %d walks, plus %d walks with page sizes %v over collections of p-1, p, p+1, 2p-1, 2p, 2p+1, 3p+1 items; every walk is a breadth-first exploration of the whole cursor graph (each next and previous token handed out at any position is followed once), states = pages reached, transitions = page fetches; plus %d cursor tokens of filtered store listings (every filter expression to depth 2 over the keys of transactions / accounts / logs, PIT on/off) decoded and compared by the SQL they issue, directly and through GET ?cursor=; plus store-level walks: the real GetTransactions / GetAccountsWithVolumes / GetLogs executed on pgmini over ledgers of 0..%d transactions x every page size x with/without a metadata filter x with/without a point in time, each a breadth-first exploration of the whole cursor graph", maxN, maxN+1, nSmall, len(jobs)-nSmall, bigPages, tokenEvals, storeN),
		"walks":                         len(jobs),
		"store_level_walks":             storeWalks,
		"store_level_fetches":           storeFetches,
		"token_round_trips":             int(tokenEvals),
	}
	rep.Assume = []string{"minidb executes the single-table SELECT / WHERE / ORDER BY / LIMIT / OFFSET shape exactly as SQL defines it; PostgreSQL itself is not available", "store-level listings are compared by the SQL text they emit (same SQL = same query), not executed"}
	return rep.Finish(cov)
}
