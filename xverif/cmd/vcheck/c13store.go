//go:build verif

package main

import (
	"bytes"
	"context"
	"encoding/json"
	"fmt"
	"math/big"
	"os"
	"strings"

	ledger "github.com/formancehq/ledger/internal"
	"github.com/formancehq/ledger/internal/storage/ledgerstore"
	"github.com/formancehq/ledger/xverif/lib/evid"
	"github.com/formancehq/ledger/xverif/lib/pgmini"
	"github.com/formancehq/stack/libs/go-libs/bun/bunpaginate"
)

func init() { c13StorePass = c13Store }

// c13Store: every shape is written through the real Store.InsertLogs into the interpreted schema (jsonb normalisation,
// timestamp column, triggers and all) and read back through the real GetLogs; the entry must come back unchanged and its
// hash must be recomputable from the read-back content and the previous entry.
func c13Store(rep *evid.Reporter, shapes []logShape) int {
	ddl, err := os.ReadFile(schemaFile)
	if err != nil {
		rep.Undecide("cannot read the schema: " + err.Error())
		return 0
	}
	ctx := context.Background()
	checked := 0
	const chunk = 120
	for lo := 0; lo < len(shapes); lo += chunk {
		hi := lo + chunk
		if hi > len(shapes) {
			hi = len(shapes)
		}
		st := &c04State{db: pgmini.New(), logs: map[string][]*ledger.ChainedLog{}, bad: map[string]bool{}}
		if err := st.db.LoadSchema("b1", string(ddl)); err != nil {
			rep.Undecide("schema does not load in the interpreter: " + err.Error())
			return checked
		}
		store := st.store("l1")
		var chain []*ledger.ChainedLog
		var names []string
		nextTx := int64(0)
		for i := lo; i < hi; i++ {
			var prev *ledger.ChainedLog
			if len(chain) > 0 {
				prev = chain[len(chain)-1]
			}
			var cl *ledger.ChainedLog
			func() {
				defer func() { recover() }()
				l := shapes[i].Mk()
				// give transactions distinct, increasing ids (the schema enforces uniqueness); a revert targets the previous transaction
				switch p := l.Data.(type) {
				case ledger.NewTransactionLogPayload:
					p.Transaction.ID = big.NewInt(nextTx)
					nextTx++
				case ledger.RevertedTransactionLogPayload:
					if nextTx == 0 {
						return
					}
					p.RevertedTransactionID = big.NewInt(nextTx - 1)
					p.RevertTransaction.ID = big.NewInt(nextTx)
					l.Data = p
					nextTx++
				}
				cl = l.ChainLog(prev)
			}()
			if cl == nil {
				continue
			}
			// the projection triggers need ids / targets that make sense; entries they reject are skipped (their JSON form is covered by parts 1-3)
			if err := store.InsertLogs(ctx, cl); err != nil {
				if strings.Contains(err.Error(), "pgmini: unsupported") {
					rep.Undecide("store path: " + err.Error())
					return checked
				}
				continue
			}
			chain = append(chain, cl)
			names = append(names, shapes[i].Name)
		}
		// read everything back through GetLogs (desc by id), following the cursor
		var back []ledger.ChainedLog
		q := ledgerstore.NewGetLogsQuery(ledgerstore.NewPaginatedQueryOptions[any](nil).WithPageSize(50))
		for {
			cur, err := store.GetLogs(ctx, q)
			if err != nil {
				rep.Violation("store-read-error", "GetLogs failed on entries the store accepted: "+err.Error(), map[string]interface{}{"engine": "logshapes", "chunk": lo})
				return checked
			}
			back = append(back, cur.Data...)
			if !cur.HasMore {
				break
			}
			q = ledgerstore.GetLogsQuery{}
			if err := bunpaginate.UnmarshalCursor(cur.Next, &q); err != nil {
				break
			}
		}
		if len(back) != len(chain) {
			rep.Violation("store-count", fmt.Sprintf("%d entries written, %d read back", len(chain), len(back)), map[string]interface{}{"engine": "logshapes", "chunk": lo})
			continue
		}
		for i := range chain {
			got := back[len(back)-1-i]
			want := chain[i]
			checked++
			wb, _ := json.Marshal(want)
			gb, _ := json.Marshal(&got)
			var prev *ledger.ChainedLog
			if i > 0 {
				prev = chain[i-1]
			}
			if !bytes.Equal(wb, gb) {
				rep.Violation("store-changed:"+c13Class(names[i]), fmt.Sprintf("entry read back from the store differs: written %s, read %s", wb, gb), map[string]interface{}{"engine": "logshapes", "shape": names[i]})
				continue
			}
			if re := got.Log.ChainLog(prev); !bytes.Equal(re.Hash, want.Hash) {
				rep.Violation("store-hash:"+c13Class(names[i]), "hash recomputed from the entry read back from the store differs from the stored hash: "+string(gb), map[string]interface{}{"engine": "logshapes", "shape": names[i]})
			}
		}
		_ = store.GetDB().Close()
	}
	return checked
}
