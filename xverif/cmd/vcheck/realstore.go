package main

import (
	"context"
	"encoding/json"
	"fmt"
	"math/big"
	"os"
	"runtime/debug"
	"strings"
	"sync/atomic"
	"time"

	ledger "github.com/formancehq/ledger/internal"
	"github.com/formancehq/ledger/internal/engine/command"
	"github.com/formancehq/ledger/internal/storage/ledgerstore"
	"github.com/formancehq/ledger/xverif/lib/engineh"
	"github.com/formancehq/ledger/xverif/lib/evid"
	"github.com/formancehq/ledger/xverif/lib/memstore"
	"github.com/formancehq/ledger/xverif/lib/pgmini"
	"github.com/formancehq/stack/libs/go-libs/metadata"
	"github.com/uptrace/bun"
	"github.com/uptrace/bun/dialect/pgdialect"
)

// realStoreConformance: the scheduler checks run the Commander on memstore, a 300-line stand-in for the store. Here every
// history of <= n engine operations (all write kinds, keyed and unkeyed, duplicate references, previews, restarts) runs
// twice - on memstore and on the REAL ledgerstore.Store (its Go query builders and the working tree's SQL schema with its
// triggers, executed by the pgmini interpreter) - and every answer and the final log are compared. A difference is either
// a stand-in that misrepresents the store (then every memstore-based verdict is in doubt) or a store that does not keep the
// contract the engine relies on (key / reference / transaction lookups, last log and last transaction at start-up,
// balances and metadata the scripts read).
type rsOp struct {
	Name string
	Run  func(e *engineh.Engine) string
}

// (an operation whose name starts with "L2:" goes to another ledger of the same bucket: its own engine, and on the stand-in
// side its own store)

func rsOps() []rsOp {
	script := func(plain string, vars map[string]string, ref string) ledger.RunScript {
		if vars == nil {
			vars = map[string]string{}
		}
		return ledger.RunScript{Script: ledger.Script{Plain: plain, Vars: vars}, Reference: ref}
	}
	create := func(rs func() ledger.RunScript, p command.Parameters) func(e *engineh.Engine) string {
		return func(e *engineh.Engine) string { return txResp(e.Cmd.CreateTransaction(e.Ctx(), p, rs())) }
	}
	fund := func() ledger.RunScript { return postingsScript("world", "bank", 10) }
	spend := func() ledger.RunScript { return postingsScript("bank", "alice", 7) }
	return []rsOp{
		{"fund", create(fund, command.Parameters{})},
		{"spend", create(spend, command.Parameters{})},
		{"fund[k]", create(fund, command.Parameters{IdempotencyKey: "k"})},
		{"spend[k]", create(spend, command.Parameters{IdempotencyKey: "k"})},
		{"fund-ref-r", create(func() ledger.RunScript { rs := fund(); rs.Reference = "r"; return rs }, command.Parameters{})},
		{"spend-ref-r", create(func() ledger.RunScript { rs := spend(); rs.Reference = "r"; return rs }, command.Parameters{})},
		{"preview-spend", create(spend, command.Parameters{DryRun: true})},
		// metadata on targets that do not exist, keys that are not there, awkward addresses and keys
		{"meta-tx-9", func(e *engineh.Engine) string {
			return errResp(e.Cmd.SaveMeta(e.Ctx(), command.Parameters{}, ledger.MetaTargetTypeTransaction, big.NewInt(9), metadata.Metadata{"m": "1"}))
		}},
		{"delete-meta-cfg-missing-key", func(e *engineh.Engine) string {
			return errResp(e.Cmd.DeleteMetadata(e.Ctx(), command.Parameters{}, ledger.MetaTargetTypeAccount, "cfg", "never-set"))
		}},
		{"delete-meta-nobody", func(e *engineh.Engine) string {
			return errResp(e.Cmd.DeleteMetadata(e.Ctx(), command.Parameters{}, ledger.MetaTargetTypeAccount, "nobody", "k"))
		}},
		{"meta-odd-account", func(e *engineh.Engine) string {
			return errResp(e.Cmd.SaveMeta(e.Ctx(), command.Parameters{}, ledger.MetaTargetTypeAccount, "users:\"bob\":<x>", metadata.Metadata{"k.with.dots": "v", "k\"q": "{}", "": "empty key"}))
		}},
		{"delete-meta-odd-key", func(e *engineh.Engine) string {
			return errResp(e.Cmd.DeleteMetadata(e.Ctx(), command.Parameters{}, ledger.MetaTargetTypeAccount, "users:\"bob\":<x>", "k.with.dots"))
		}},
		{"script-meta-on-bank", create(func() ledger.RunScript {
			return script("send [USD 1] (\n source = @world\n destination = @carol\n)\nset_account_meta(@bank, \"vip\", \"yes\")\nset_account_meta(@carol, \"n\", 42)\nset_tx_meta(\"t\", [USD 3])\n", nil, "")
		}, command.Parameters{})},
		{"script-reads-bank-meta", create(func() ledger.RunScript {
			return script("vars {\n string $v = meta(@bank, \"vip\")\n}\nsend [USD 1] (\n source = @world\n destination = @carol\n)\nset_tx_meta(\"seen\", $v)\n", nil, "")
		}, command.Parameters{})},
		// scripts whose outcome depends on what they read from the store: balances (send-all, ordered sources, a bounded
		// overdraft) and metadata of every declared type
		{"script-send-all-bank", create(func() ledger.RunScript {
			return script("send [USD *] (\n source = @bank\n destination = @x\n)\n", nil, "")
		}, command.Parameters{})},
		{"script-two-sources", create(func() ledger.RunScript {
			return script("send [USD 12] (\n source = {\n  @bank\n  @alice\n }\n destination = @y\n)\n", nil, "")
		}, command.Parameters{})},
		{"script-overdraft", create(func() ledger.RunScript {
			return script("send [USD 15] (\n source = @bank allowing overdraft up to [USD 5]\n destination = @z\n)\n", nil, "")
		}, command.Parameters{})},
		{"meta-cfg-typed", func(e *engineh.Engine) string {
			return errResp(e.Cmd.SaveMeta(e.Ctx(), command.Parameters{}, ledger.MetaTargetTypeAccount, "cfg", metadata.Metadata{"n": "3", "m": "USD 2", "p": "1/2", "dst": "erin", "s": "text with \"quotes\""}))
		}},
		{"script-meta-typed", create(func() ledger.RunScript {
			return script("vars {\n number $n = meta(@cfg, \"n\")\n monetary $m = meta(@cfg, \"m\")\n portion $p = meta(@cfg, \"p\")\n account $d = meta(@cfg, \"dst\")\n string $s = meta(@cfg, \"s\")\n}\nsend $m (\n source = @world\n destination = {\n  $p to $d\n  remaining to @rest\n }\n)\nset_tx_meta(\"n\", $n)\nset_tx_meta(\"s\", $s)\n", nil, "")
		}, command.Parameters{})},
		// the earliest timestamp the parser lets through
		{"fund-year0", create(func() ledger.RunScript {
			rs := fund()
			if t, err := ledger.ParseTime("0000-06-01T00:00:00Z"); err == nil {
				rs.Timestamp = t
			}
			return rs
		}, command.Parameters{})},
		// a second asset on accounts that exist already
		{"fund-eur", create(func() ledger.RunScript {
			return ledger.TxToScriptData(ledger.TransactionData{Postings: ledger.Postings{ledger.NewPosting("world", "bank", "EUR", big.NewInt(10))}}, false)
		}, command.Parameters{})},
		{"spend-eur", create(func() ledger.RunScript {
			return ledger.TxToScriptData(ledger.TransactionData{Postings: ledger.Postings{ledger.NewPosting("bank", "alice", "EUR", big.NewInt(7))}}, false)
		}, command.Parameters{})},
		{"fund-ref-r-postdated", create(func() ledger.RunScript {
			rs := fund()
			rs.Reference = "r"
			rs.Timestamp = ledger.Time{Time: ledger.Now().Time.Add(time.Hour)}
			return rs
		}, command.Parameters{})},
		// caller-dated transactions: balances are what was WRITTEN so far, whatever the dates say
		{"spend-backdated", create(func() ledger.RunScript {
			rs := postingsScript("bank", "bob", 6)
			rs.Timestamp, _ = ledger.ParseTime("2020-01-01T00:00:00Z")
			return rs
		}, command.Parameters{})},
		{"spend-postdated", create(func() ledger.RunScript {
			rs := postingsScript("bank", "carol", 6)
			rs.Timestamp = ledger.Time{Time: ledger.Now().Time.Add(time.Hour)}
			return rs
		}, command.Parameters{})},
		{"script-balance-meta", create(func() ledger.RunScript {
			return script("vars {\n monetary $b = balance(@bank, USD)\n account $d = meta(@cfg, \"dst\")\n}\nsend $b (\n source = @bank\n destination = $d\n)\nset_account_meta(@cfg, \"dst\", \"carol\")\nset_tx_meta(\"moved\", $b)\n", nil, "")
		}, command.Parameters{})},
		{"meta-cfg", func(e *engineh.Engine) string {
			return errResp(e.Cmd.SaveMeta(e.Ctx(), command.Parameters{}, ledger.MetaTargetTypeAccount, "cfg", metadata.Metadata{"dst": "dave"}))
		}},
		// a metadata body of null (POST .../metadata with the body null decodes to a nil map without error)
		{"meta-cfg-null", func(e *engineh.Engine) string {
			return errResp(e.Cmd.SaveMeta(e.Ctx(), command.Parameters{}, ledger.MetaTargetTypeAccount, "cfg", nil))
		}},
		{"meta-tx-0-null", func(e *engineh.Engine) string {
			return errResp(e.Cmd.SaveMeta(e.Ctx(), command.Parameters{}, ledger.MetaTargetTypeTransaction, big.NewInt(0), nil))
		}},
		{"meta-tx-0[k]", func(e *engineh.Engine) string {
			return errResp(e.Cmd.SaveMeta(e.Ctx(), command.Parameters{IdempotencyKey: "k"}, ledger.MetaTargetTypeTransaction, big.NewInt(0), metadata.Metadata{"m": "1"}))
		}},
		{"delete-meta-cfg", func(e *engineh.Engine) string {
			return errResp(e.Cmd.DeleteMetadata(e.Ctx(), command.Parameters{}, ledger.MetaTargetTypeAccount, "cfg", "dst"))
		}},
		{"delete-meta-tx-0", func(e *engineh.Engine) string {
			return errResp(e.Cmd.DeleteMetadata(e.Ctx(), command.Parameters{}, ledger.MetaTargetTypeTransaction, big.NewInt(0), "m"))
		}},
		{"revert-0", func(e *engineh.Engine) string {
			return txResp(e.Cmd.RevertTransaction(e.Ctx(), command.Parameters{}, big.NewInt(0), false))
		}},
		{"revert-0-force[k2]", func(e *engineh.Engine) string {
			return txResp(e.Cmd.RevertTransaction(e.Ctx(), command.Parameters{IdempotencyKey: "k2"}, big.NewInt(0), true))
		}},
		{"revert-1", func(e *engineh.Engine) string {
			return txResp(e.Cmd.RevertTransaction(e.Ctx(), command.Parameters{}, big.NewInt(1), false))
		}},
		// keys around the width of the column that stores them (varchar(255)): one character more, and 255 characters
		// followed by blanks
		{"fund[k x256]", create(fund, command.Parameters{IdempotencyKey: strings.Repeat("k", 256)})},
		{"fund[k x255 + blanks]", create(fund, command.Parameters{IdempotencyKey: strings.Repeat("k", 255) + "   "})},
		// the neighbour ledger uses the same key, the same reference, the same accounts and transaction ids
		{"L2:fund[k]", create(fund, command.Parameters{IdempotencyKey: "k"})},
		{"L2:fund-ref-r", create(func() ledger.RunScript { rs := postingsScript("world", "bank", 1000); rs.Reference = "r"; return rs }, command.Parameters{})},
		{"L2:meta-cfg", func(e *engineh.Engine) string {
			return errResp(e.Cmd.SaveMeta(e.Ctx(), command.Parameters{}, ledger.MetaTargetTypeAccount, "cfg", metadata.Metadata{"dst": "mallory"}))
		}},
	}
}

func rsRealStore(ddl string) (*ledgerstore.Store, error) {
	s, _, err := rsRealStores(ddl)
	return s, err
}

// rsRealStores: two ledgers of one bucket (one database, one set of tables)
func rsRealStores(ddl string) (*ledgerstore.Store, *ledgerstore.Store, error) {
	db := pgmini.New()
	if err := db.LoadSchema("b1", ddl); err != nil {
		return nil, nil, err
	}
	mk := func(name string) *ledgerstore.Store {
		bdb := bun.NewDB(pgmini.OpenSQL(db, "b1"), pgdialect.New(), bun.WithDiscardUnknownColumns())
		return ledgerstore.VerifNewStore(bdb, "b1", name)
	}
	return mk("l1"), mk("l2"), nil
}

// rsGuard: the real store; a batch it refuses is recorded instead of being returned to the engine (whose writer goroutine
// panics on any InsertLogs error and takes the process down)
type rsGuard struct {
	*ledgerstore.Store
	refused atomic.Value
}

func (g *rsGuard) InsertLogs(ctx context.Context, logs ...*ledger.ChainedLog) error {
	if err := g.Store.InsertLogs(ctx, logs...); err != nil {
		g.refused.Store(err.Error())
	}
	return nil
}

func rsEvents(e *engineh.Engine) string {
	var sb strings.Builder
	for _, m := range e.Pub.Snapshot() {
		fmt.Fprintf(&sb, "%s %s\n", m.Topic, normJSON(m.Payload))
	}
	return sb.String()
}

func rsLogDigest(logs []*ledger.ChainedLog) string {
	var sb strings.Builder
	for _, l := range logs {
		data, _ := json.Marshal(l.Data)
		fmt.Fprintf(&sb, "id=%s type=%s ik=%s data=%s\n", l.ID, l.Type, l.IdempotencyKey, normJSON(data))
	}
	return sb.String()
}

func realStoreConformance(rep *evid.Reporter, keyPrefix string) (histories, steps int) {
	raw, err := os.ReadFile(schemaFile)
	if err != nil {
		rep.Undecide("cannot read the schema: " + err.Error())
		return
	}
	ddl := string(raw)
	ops := rsOps()
	// depth 3 over both alphabets; the thorough tier adds depth 4 over a core alphabet (the product of everything at depth 4
	// would be 1.5e6 histories for each of the 16 checks that run this part)
	maxLen := 3
	core := map[string]bool{"fund": true, "spend": true, "fund[k]": true, "spend[k]": true, "fund-ref-r": true, "spend-ref-r": true, "preview-spend": true,
		"script-balance-meta": true, "meta-cfg": true, "meta-tx-0[k]": true, "delete-meta-cfg": true, "delete-meta-tx-0": true, "revert-0": true,
		"revert-0-force[k2]": true, "revert-1": true, "L2:fund[k]": true, "spend-backdated": true}
	// two alphabets sharing the basic operations (the product of everything with everything grows with the cube):
	// A - kinds of write, keys, references, dates, the neighbour ledger; B - what scripts read, metadata of every kind
	inB := map[string]bool{"fund": true, "spend": true, "fund-eur": true, "spend-eur": true, "script-balance-meta": true, "meta-cfg": true, "meta-cfg-null": true,
		"delete-meta-cfg": true, "delete-meta-cfg-missing-key": true, "delete-meta-nobody": true, "meta-odd-account": true, "delete-meta-odd-key": true,
		"script-meta-on-bank": true, "script-reads-bank-meta": true, "script-send-all-bank": true, "script-two-sources": true, "script-overdraft": true,
		"meta-cfg-typed": true, "script-meta-typed": true, "revert-0": true, "L2:meta-cfg": true, "spend-backdated": true}
	onlyB := map[string]bool{"script-meta-on-bank": true, "script-reads-bank-meta": true, "script-send-all-bank": true, "script-two-sources": true, "script-overdraft": true,
		"meta-cfg-typed": true, "script-meta-typed": true, "delete-meta-cfg-missing-key": true, "delete-meta-nobody": true, "meta-odd-account": true, "delete-meta-odd-key": true}
	var groupA, groupB []int
	for i, o := range ops {
		if inB[o.Name] {
			groupB = append(groupB, i)
		}
		if !onlyB[o.Name] {
			groupA = append(groupA, i)
		}
	}
	var groupCore []int
	for i, o := range ops {
		if core[o.Name] {
			groupCore = append(groupCore, i)
		}
	}
	groups := [][]int{groupA, groupB}
	depths := []int{maxLen, maxLen}
	if rep.Thorough() {
		groups, depths = append(groups, groupCore), append(depths, 4)
	}
	var hists [][]int
	seenHist := map[string]bool{}
	for gi, group := range groups {
		maxLen := depths[gi]
		var rec func(cur []int)
		rec = func(cur []int) {
			if len(cur) > 0 {
				if k := fmt.Sprint(cur); !seenHist[k] {
					seenHist[k] = true
					hists = append(hists, append([]int{}, cur...))
				}
			}
			if len(cur) == maxLen {
				return
			}
			for _, i := range append([]int{-1}, group...) {
				if i == -1 && (len(cur) == 0 || cur[len(cur)-1] == -1) {
					continue // (a restart first, or two in a row, adds nothing)
				}
				rec(append(cur, i))
			}
		}
		rec(nil)
	}
	// every history runs from the empty ledger and from a ledger that already holds two transactions (fund, spend)
	preamble := []int{0, 1}
	nh := len(hists)
	for _, h := range hists[:nh] {
		// (quick tier: up to two operations, or three with a restart in the middle; thorough: up to three)
		if len(h) <= 2 || (len(h) == 3 && (h[1] == -1 || rep.Thorough())) {
			hists = append(hists, append(append([]int{-2}, preamble...), h...))
		}
	}
	var nSteps int64
	var undecided atomic.Value
	started := ledger.Now()
	evid.ParallelFor(len(hists), workers(), func(w, hi int) {
		h := hists[hi]
		if h[0] == -2 {
			h = h[1:]
		}
		real, real2, err := rsRealStores(ddl)
		if err != nil {
			undecided.Store("schema does not load in the interpreter: " + err.Error())
			return
		}
		defer func() { _ = real.GetDB().Close(); _ = real2.GetDB().Close() }()
		mem := memstore.New()
		em := engineh.Start(mem, nil)
		g1, g2 := &rsGuard{Store: real}, &rsGuard{Store: real2}
		er := engineh.StartOn(g1, nil, nil)
		em2 := engineh.Start(memstore.New(), nil)
		er2 := engineh.StartOn(g2, nil, nil)
		stopAll := true
		defer func() {
			if stopAll {
				em2.Stop()
				er2.Stop()
			}
		}()
		var names []string
		diverged := false
		for i, o := range h {
			name := "restart"
			if o >= 0 {
				name = ops[o].Name
			}
			names = append(names, name)
			replay := map[string]interface{}{"engine": "realstore", "history": names}
			if o < 0 {
				restart := func(e *engineh.Engine) (ne *engineh.Engine, failed string) {
					defer func() {
						if p := recover(); p != nil {
							ne, failed = e, fmt.Sprint(p)
						}
					}()
					return e.Restart(), ""
				}
				var fm, fr string
				em, fm = restart(em)
				er, fr = restart(er)
				if fm != fr {
					// (an engine whose restart failed is stopped already: nothing more is run or stopped on either side)
					stopAll = false
					rep.Violation(keyPrefix+"realstore-restart", fmt.Sprintf("restart after %v: on the stand-in store %q, on the real store %q (the engine cannot be initialised from what the store holds)", names[:len(names)-1], fm, fr), replay)
					diverged = true
					break
				}
				continue
			}
			run := func(e *engineh.Engine) (out string) {
				defer func() {
					if p := recover(); p != nil {
						out = fmt.Sprint("panic: ", p)
						if os.Getenv("VERIF_STACK") != "" {
							fmt.Println(string(debug.Stack()))
						}
					}
				}()
				return ops[o].Run(e)
			}
			tm, tr := em, er
			if strings.HasPrefix(name, "L2:") {
				tm, tr = em2, er2
			}
			am, ar := run(tm), run(tr)
			atomic.AddInt64(&nSteps, 1)
			for _, g := range []*rsGuard{g1, g2} {
				if r, ok := g.refused.Load().(string); ok && !diverged {
					if strings.Contains(r, "pgmini:") {
						undecided.Store("the interpreter cannot execute a statement of the store: " + r)
					} else {
						rep.Violation(keyPrefix+"realstore-refused:"+name, fmt.Sprintf("step %d (%s) of %v: the real store refuses the entry the engine hands it (%s) - the engine's writer panics on that and the process ends", i+1, name, names, r), replay)
					}
					diverged = true
				}
			}
			if diverged {
				break
			}
			if strings.Contains(ar, "pgmini: unsupported") || strings.Contains(ar, "pgmini:") {
				undecided.Store("the interpreter cannot execute a statement of the store: " + ar)
				diverged = true
				break
			}
			if am != ar {
				rep.Violation(keyPrefix+"realstore-answer:"+name, fmt.Sprintf("step %d (%s) of %v: on the stand-in store the engine answers %q, on the real store (schema + query builders on the interpreter) %q", i+1, name, names, am, ar), replay)
				diverged = true
				break
			}
		}
		if stopAll {
			em.Stop()
			er.Stop()
		}
		if diverged {
			return
		}
		// what was published (both ledgers' engines): the same events on either store
		if a, b := rsEvents(em)+"--- l2 ---\n"+rsEvents(em2), rsEvents(er)+"--- l2 ---\n"+rsEvents(er2); a != b {
			rep.Violation(keyPrefix+"realstore-events", fmt.Sprintf("after %v the engine on the real store published other events than on the stand-in:\n%s--- stand-in ---\n%s", names, b, a), map[string]interface{}{"engine": "realstore", "history": names})
			return
		}
		// the log the real store holds
		var realLogs []*ledger.ChainedLog
		q := ledgerstore.NewGetLogsQuery(ledgerstore.NewPaginatedQueryOptions[any](nil).WithPageSize(100))
		cur, err := real.GetLogs(context.Background(), q)
		if err != nil {
			rep.Violation(keyPrefix+"realstore-logs-read", fmt.Sprintf("reading the log back from the real store after %v: %v", names, err), map[string]interface{}{"engine": "realstore", "history": names})
			return
		}
		for i := len(cur.Data) - 1; i >= 0; i-- { // (listed newest first)
			l := cur.Data[i]
			realLogs = append(realLogs, &l)
		}
		// entries are dated by when they were written: within the run, never decreasing along the log (the store's
		// point-in-time reads take "the newest row dated <= pit" for "the state at pit")
		var prevDate ledger.Time
		for _, l := range realLogs {
			if l.Date.Time.Before(started.Time.Add(-time.Second)) || l.Date.Time.After(time.Now().Add(time.Second)) || l.Date.Time.Before(prevDate.Time) {
				rep.Violation(keyPrefix+"realstore-log-date", fmt.Sprintf("after %v entry %s is dated %s (previous entry: %s; the run started %s): entries are dated by when they were written", names, l.ID, l.Date.Time.Format(time.RFC3339Nano), prevDate.Time.Format(time.RFC3339Nano), started.Time.Format(time.RFC3339Nano)), map[string]interface{}{"engine": "realstore", "history": names})
				break
			}
			prevDate = l.Date
		}
		if a, b := rsLogDigest(mem.Snapshot()), rsLogDigest(realLogs); a != b {
			rep.Violation(keyPrefix+"realstore-log", fmt.Sprintf("after %v the real store holds another log than the stand-in:\n%s--- stand-in ---\n%s", names, b, a), map[string]interface{}{"engine": "realstore", "history": names})
		}
	})
	if u, ok := undecided.Load().(string); ok {
		rep.Undecide(u)
	}
	return len(hists), int(nSteps)
}

// the scheduler-only properties get a first part: the stand-in their scenarios run on is validated against the real store
func init() {
	for _, prop := range []string{"C02", "C05", "C11", "C16"} {
		prop := prop
		checks[prop] = func() int {
			rep := evid.NewReporter(prop, "model_checking")
			h, s := realStoreConformance(rep, "")
			return rep.Finish(evid.Coverage{"states": h, "transitions": s, "traces_validated_against_impl": h, "realstore_histories": h, "exhaustive": true,
				"rule": "part 1: histories of engine operations run on the stand-in store and on the real ledgerstore.Store (schema and query builders on the pgmini interpreter), answers and final logs compared; part 2 (controlled scheduler) follows"})
		}
	}
}
