//go:build verif

package main

import (
	"bytes"
	"encoding/json"
	"fmt"
	"math/big"
	"net/http/httptest"
	"net/url"
	"sort"
	"strings"
	"time"

	ledger "github.com/formancehq/ledger/internal"
	"github.com/formancehq/ledger/xverif/lib/engineh"
	"github.com/formancehq/ledger/xverif/lib/memstore"
	"github.com/formancehq/ledger/xverif/lib/recbackend"
)

// c04HTTP: the same comparison one layer up - the v1 and v2 read endpoints of the real router, their backend wired to the
// real store on the interpreted database of this state. What the JSON answers say must be the fold of the ledger's log.
// Returns the number of requests sent; the first disagreement is returned as (kind, explanation).
func (st *c04State) judgeHTTP(requests *int64) (kind, why string) {
	const ldg = "l1"
	logs := st.logs[ldg]
	fold := memstore.Fold(logs)
	exp := expectedMoves(logs)
	s := st.store(ldg)
	defer s.GetDB().Close()
	b := recbackend.New(ldg)
	b.R = recbackend.Reads{
		GetAccountsWithVolumes: s.GetAccountsWithVolumes, CountAccounts: s.CountAccounts, GetAggregatedBalances: s.GetAggregatedBalances,
		GetLogs: s.GetLogs, CountTransactions: s.CountTransactions, GetTransactions: s.GetTransactions,
		GetAccountWithVolumes: s.GetAccountWithVolumes, GetTransactionWithVolumes: s.GetTransactionWithVolumes,
	}
	router := newRouter(b, false)
	defer func() {
		if r := recover(); r != nil {
			kind, why = "http-panic", fmt.Sprint("a read endpoint panics: ", r)
		}
	}()
	get := func(method, target string) (int, map[string]interface{}, string) {
		*requests++
		req := httptest.NewRequest(method, target, nil).WithContext(engineh.QuietCtx())
		w := httptest.NewRecorder()
		router.ServeHTTP(w, req)
		var out map[string]interface{}
		dec := json.NewDecoder(bytes.NewReader(w.Body.Bytes()))
		dec.UseNumber()
		_ = dec.Decode(&out)
		return w.Code, out, w.Header().Get("Count")
	}
	num := func(v interface{}) *big.Int {
		n, ok := v.(json.Number)
		if !ok {
			return nil
		}
		z, ok := new(big.Int).SetString(n.String(), 10)
		if !ok {
			return nil
		}
		return z
	}
	obj := func(v interface{}) map[string]interface{} { m, _ := v.(map[string]interface{}); return m }
	accs := map[string]bool{}
	for _, e := range exp {
		accs[e.acc] = true
	}
	for _, l := range logs {
		switch p := l.Data.(type) {
		case ledger.NewTransactionLogPayload:
			for a := range p.AccountMetadata {
				accs[a] = true
			}
		case ledger.SetMetadataLogPayload:
			if p.TargetType == ledger.MetaTargetTypeAccount {
				accs[fmt.Sprint(p.TargetID)] = true
			}
		}
	}
	// without a pit parameter the v2 API reads as of the wall clock (v1: no point in time at all)
	wall := ledger.Now()
	pits := []*ledger.Time{nil, {Time: c04T1.Time}, {Time: c04T2.Time.AddDate(1, 0, 0)}}
	if len(logs) > 1 {
		pits = append(pits, &ledger.Time{Time: logs[len(logs)/2].Date.Time.Add(500 * time.Millisecond)})
	}
	for _, reqPit := range pits {
		q := ""
		pit := reqPit
		if reqPit != nil {
			q = "pit=" + url.QueryEscape(reqPit.Time.UTC().Format(time.RFC3339Nano))
		} else {
			pit = &wall
		}
		and := func(s string) string {
			if q == "" {
				return s
			}
			if s == "" {
				return q
			}
			return s + "&" + q
		}
		volumes := func(a string, byEff bool) map[string][2]*big.Int {
			out := map[string][2]*big.Int{}
			for _, e := range exp {
				if e.acc != a {
					continue
				}
				when := e.ins
				if byEff {
					when = e.eff
				}
				if pit != nil && when.After(pit.Time) {
					continue
				}
				v, ok := out[e.asset]
				if !ok {
					v = [2]*big.Int{new(big.Int), new(big.Int)}
				}
				if e.isSource {
					v[1] = new(big.Int).Add(v[1], e.amt)
				} else {
					v[0] = new(big.Int).Add(v[0], e.amt)
				}
				out[e.asset] = v
			}
			return out
		}
		cmpVol := func(where, a string, got map[string]interface{}, want map[string][2]*big.Int, withBalance bool) string {
			for asset, w := range want {
				g := obj(got[asset])
				in, out := num(g["input"]), num(g["output"])
				if in == nil || out == nil || in.Cmp(w[0]) != 0 || out.Cmp(w[1]) != 0 {
					return fmt.Sprintf("%s reports %v for %s/%s, replaying the log gives input=%s output=%s", where, got[asset], a, asset, w[0], w[1])
				}
				if withBalance {
					if bal := num(g["balance"]); bal == nil || bal.Cmp(new(big.Int).Sub(w[0], w[1])) != 0 {
						return fmt.Sprintf("%s reports balance %v for %s/%s, input-output is %s", where, g["balance"], a, asset, new(big.Int).Sub(w[0], w[1]))
					}
				}
			}
			return ""
		}
		var visible []string
		for a := range accs {
			visL, mdL := accountAt(logs, a, pit, false)
			visT, mdT := accountAt(logs, a, pit, true)
			if !visL && !visT {
				continue
			}
			visible = append(visible, a)
			// v2 account
			code, body, _ := get("GET", "/api/ledger/v2/l1/accounts/"+a+"?"+and("expand=volumes&expand=effectiveVolumes"))
			if code != 200 {
				return "http-status", fmt.Sprintf("GET v2 accounts/%s (%s) answers %d", a, pitStr(pit), code)
			}
			d := obj(body["data"])
			gotMD := toMeta(d["metadata"])
			// (an account that exists under one dating only may also be answered as not existing yet: empty)
			if !(visL && metaEqual(gotMD, mdL)) && !(visT && metaEqual(gotMD, mdT)) && !((!visL || !visT) && len(gotMD) == 0) {
				return "http-account-metadata", fmt.Sprintf("GET v2 accounts/%s (%s) reports metadata %v, replaying the log gives %v", a, pitStr(pit), gotMD, mdL)
			}
			if visL && visT {
				if w := cmpVol("GET v2 accounts/"+a+" ("+pitStr(pit)+") volumes", a, obj(d["volumes"]), volumes(a, false), true); w != "" {
					return "http-account-volumes", w
				}
				if w := cmpVol("GET v2 accounts/"+a+" ("+pitStr(pit)+") effectiveVolumes", a, obj(d["effectiveVolumes"]), volumes(a, true), true); w != "" {
					return "http-account-effective-volumes", w
				}
			}
			if reqPit == nil {
				// v1 account: volumes and balances are always given (no point in time: the whole log)
				code, body, _ := get("GET", "/api/ledger/l1/accounts/"+a)
				if code != 200 {
					return "http-status", fmt.Sprintf("GET v1 accounts/%s answers %d", a, code)
				}
				d := obj(body["data"])
				want := map[string][2]*big.Int{}
				for _, e := range exp {
					if e.acc != a {
						continue
					}
					v, ok := want[e.asset]
					if !ok {
						v = [2]*big.Int{new(big.Int), new(big.Int)}
					}
					if e.isSource {
						v[1] = new(big.Int).Add(v[1], e.amt)
					} else {
						v[0] = new(big.Int).Add(v[0], e.amt)
					}
					want[e.asset] = v
				}
				if w := cmpVol("GET v1 accounts/"+a+" volumes", a, obj(d["volumes"]), want, false); w != "" {
					return "http-v1-account-volumes", w
				}
				for asset, w := range want {
					if bal := num(obj(d["balances"])[asset]); bal == nil || bal.Cmp(new(big.Int).Sub(w[0], w[1])) != 0 {
						return "http-v1-account-balances", fmt.Sprintf("GET v1 accounts/%s reports balances %v, replaying the log gives %s for %s", a, d["balances"], new(big.Int).Sub(w[0], w[1]), asset)
					}
				}
				if !metaEqual(toMeta(d["metadata"]), fold.AccountMeta(a)) {
					return "http-v1-account-metadata", fmt.Sprintf("GET v1 accounts/%s reports metadata %v, replaying the log gives %v", a, d["metadata"], fold.AccountMeta(a))
				}
			}
		}
		sort.Strings(visible)
		// listings and counts
		for _, api := range []string{"v2/", ""} {
			if api == "" {
				continue // (the v1 listings are compared below, without a point in time)
			}
			code, body, _ := get("GET", "/api/ledger/"+api+"l1/accounts?"+and("pageSize=100"))
			if code != 200 {
				return "http-status", fmt.Sprintf("GET %saccounts (%s) answers %d: %v", api, pitStr(pit), code, body)
			}
			var got []string
			for _, it := range listOf(obj(body["cursor"])["data"]) {
				got = append(got, fmt.Sprint(obj(it)["address"]))
			}
			var both []string // accounts visible under both datings (the others may or may not be listed)
			for _, a := range visible {
				vl, _ := accountAt(logs, a, pit, false)
				vt, _ := accountAt(logs, a, pit, true)
				if vl && vt {
					both = append(both, a)
				}
			}
			if !subsetInOrder(both, got) || !subsetInOrder(got, visible) {
				return "http-list-accounts", fmt.Sprintf("GET %saccounts (%s) lists %v, the log entries up to that instant define %v", api, pitStr(pit), got, visible)
			}
			_, _, count := get("HEAD", "/api/ledger/"+api+"l1/accounts?"+and(""))
			if count != fmt.Sprint(len(got)) {
				return "http-count-accounts", fmt.Sprintf("HEAD %saccounts (%s) counts %s, the listing holds %d", api, pitStr(pit), count, len(got))
			}
		}
		// transactions
		var visTx []string
		for _, id := range fold.TxIDs() {
			vis, rev, md, cur := txAt(logs, id, pit)
			code, body, _ := get("GET", "/api/ledger/v2/l1/transactions/"+id+"?"+and("expand=volumes"))
			if !vis {
				if code == 200 {
					return "http-pit-transaction", fmt.Sprintf("GET v2 transactions/%s (%s) answers a transaction that takes effect later (%s)", id, pitStr(pit), cur.Timestamp.Time.UTC().Format(time.RFC3339Nano))
				}
				continue
			}
			visTx = append(visTx, id)
			if code != 200 {
				return "http-status", fmt.Sprintf("GET v2 transactions/%s (%s) answers %d: %v", id, pitStr(pit), code, body)
			}
			d := obj(body["data"])
			if fmt.Sprint(d["id"]) != id || fmt.Sprint(d["reverted"]) != fmt.Sprint(rev) || !metaEqual(toMeta(d["metadata"]), md) || fmt.Sprint(d["reference"]) != refOrNil(cur.Reference) {
				return "http-transaction", fmt.Sprintf("GET v2 transactions/%s (%s) reports id=%v reverted=%v metadata=%v reference=%v, replaying the log gives reverted=%v metadata=%v reference=%q", id, pitStr(pit), d["id"], d["reverted"], d["metadata"], d["reference"], rev, md, cur.Reference)
			}
			if w := postingsDiffer(d["postings"], cur.Postings); w != "" {
				return "http-transaction-postings", fmt.Sprintf("GET v2 transactions/%s (%s): %s", id, pitStr(pit), w)
			}
			if ts, err := time.Parse(time.RFC3339Nano, fmt.Sprint(d["timestamp"])); err != nil || !ts.Equal(cur.Timestamp.Time) {
				return "http-transaction-timestamp", fmt.Sprintf("GET v2 transactions/%s reports timestamp %v, the log entry says %s", id, d["timestamp"], cur.Timestamp.Time.UTC().Format(time.RFC3339Nano))
			}
			if false {
				code, body, _ := get("GET", "/api/ledger/l1/transactions/"+id)
				d := obj(body["data"])
				want := fold.Tx(id)
				if code != 200 || fmt.Sprint(d["txid"]) != id || !metaEqual(toMeta(d["metadata"]), want.Metadata) || postingsDiffer(d["postings"], want.Postings) != "" {
					return "http-v1-transaction", fmt.Sprintf("GET v1 transactions/%s answers %d %v, replaying the log gives %+v", id, code, d, want)
				}
			}
		}
		for _, api := range []string{"v2/"} {
			code, body, _ := get("GET", "/api/ledger/"+api+"l1/transactions?"+and("pageSize=100"))
			if code != 200 {
				return "http-status", fmt.Sprintf("GET %stransactions (%s) answers %d: %v", api, pitStr(pit), code, body)
			}
			var got []string
			for _, it := range listOf(obj(body["cursor"])["data"]) {
				idKey := "id"
				if api == "" {
					idKey = "txid"
				}
				got = append(got, fmt.Sprint(obj(it)[idKey]))
			}
			want := append([]string{}, visTx...)
			sort.Slice(want, func(i, j int) bool {
				a, _ := new(big.Int).SetString(want[i], 10)
				b, _ := new(big.Int).SetString(want[j], 10)
				return a.Cmp(b) > 0
			})
			if fmt.Sprint(got) != fmt.Sprint(want) {
				return "http-list-transactions", fmt.Sprintf("GET %stransactions (%s) lists ids %v, the log has %v (newest first)", api, pitStr(pit), got, want)
			}
			_, _, count := get("HEAD", "/api/ledger/"+api+"l1/transactions?"+and(""))
			if count != fmt.Sprint(len(want)) {
				return "http-count-transactions", fmt.Sprintf("HEAD %stransactions (%s) counts %s, %d transactions have taken effect", api, pitStr(pit), count, len(want))
			}
		}
		// aggregated balances over everything: zero per asset (inputs = outputs)
		for _, api := range []string{"v2/"} {
			code, body, _ := get("GET", "/api/ledger/"+api+"l1/aggregate/balances?"+and(""))
			if code != 200 {
				return "http-status", fmt.Sprintf("GET %saggregate/balances (%s) answers %d: %v", api, pitStr(pit), code, body)
			}
			for asset, v := range obj(body["data"]) {
				if n := num(v); n == nil || n.Sign() != 0 {
					return "http-aggregated", fmt.Sprintf("GET %saggregate/balances (%s) reports %v for %s over all accounts; inputs and outputs of an asset cancel out", api, pitStr(pit), v, asset)
				}
			}
		}
	}
	// v1, no point in time: the whole log
	{
		var all []string
		for a := range accs {
			all = append(all, a)
		}
		sort.Strings(all)
		code, body, _ := get("GET", "/api/ledger/l1/accounts?pageSize=100")
		var got []string
		for _, it := range listOf(obj(body["cursor"])["data"]) {
			got = append(got, fmt.Sprint(obj(it)["address"]))
		}
		if code != 200 || fmt.Sprint(got) != fmt.Sprint(all) {
			return "http-v1-list-accounts", fmt.Sprintf("GET v1 accounts answers %d and lists %v, the log defines %v", code, got, all)
		}
		if _, _, count := get("HEAD", "/api/ledger/l1/accounts"); count != fmt.Sprint(len(all)) {
			return "http-v1-count-accounts", fmt.Sprintf("HEAD v1 accounts counts %s, the log defines %d accounts", count, len(all))
		}
		ids := fold.TxIDs()
		var want []string
		for i := len(ids) - 1; i >= 0; i-- {
			want = append(want, ids[i])
		}
		code, body, _ = get("GET", "/api/ledger/l1/transactions?pageSize=100")
		got = nil
		for _, it := range listOf(obj(body["cursor"])["data"]) {
			got = append(got, fmt.Sprint(obj(it)["txid"]))
		}
		if code != 200 || fmt.Sprint(got) != fmt.Sprint(want) {
			return "http-v1-list-transactions", fmt.Sprintf("GET v1 transactions answers %d and lists %v, the log has %v (newest first)", code, got, want)
		}
		if _, _, count := get("HEAD", "/api/ledger/l1/transactions"); count != fmt.Sprint(len(want)) {
			return "http-v1-count-transactions", fmt.Sprintf("HEAD v1 transactions counts %s, the log has %d", count, len(want))
		}
		for _, id := range ids {
			code, body, _ := get("GET", "/api/ledger/l1/transactions/"+id)
			d := obj(body["data"])
			wantTx := fold.Tx(id)
			if code != 200 || fmt.Sprint(d["txid"]) != id || !metaEqual(toMeta(d["metadata"]), wantTx.Metadata) || postingsDiffer(d["postings"], wantTx.Postings) != "" || fmt.Sprint(d["reverted"]) != fmt.Sprint(wantTx.Reverted) {
				return "http-v1-transaction", fmt.Sprintf("GET v1 transactions/%s answers %d %v, replaying the log gives %+v", id, code, d, wantTx)
			}
		}
		code, body, _ = get("GET", "/api/ledger/l1/aggregate/balances")
		for asset, v := range obj(body["data"]) {
			if n := num(v); code != 200 || n == nil || n.Sign() != 0 {
				return "http-v1-aggregated", fmt.Sprintf("GET v1 aggregate/balances reports %v for %s over all accounts; inputs and outputs of an asset cancel out", v, asset)
			}
		}
	}
	// v1 balances listing and logs
	code, body, _ := get("GET", "/api/ledger/l1/balances?pageSize=100")
	if code != 200 {
		return "http-status", fmt.Sprintf("GET v1 balances answers %d: %v", code, body)
	}
	for _, it := range listOf(obj(body["cursor"])["data"]) {
		for a, assets := range obj(it) {
			for asset, v := range obj(assets) {
				if n := num(v); n == nil || n.Cmp(fold.Balance(a, asset)) != 0 {
					return "http-v1-balances", fmt.Sprintf("GET v1 balances reports %v for %s/%s, replaying the log gives %s", v, a, asset, fold.Balance(a, asset))
				}
			}
		}
	}
	for _, api := range []string{"v2/", ""} {
		code, body, _ := get("GET", "/api/ledger/"+api+"l1/logs?pageSize=100")
		if code != 200 {
			return "http-status", fmt.Sprintf("GET %slogs answers %d: %v", api, code, body)
		}
		items := listOf(obj(body["cursor"])["data"])
		if len(items) != len(logs) {
			return "http-logs", fmt.Sprintf("GET %slogs lists %d entries, the ledger's log has %d", api, len(items), len(logs))
		}
		for i, it := range items {
			want := logs[len(logs)-1-i]
			if fmt.Sprint(obj(it)["id"]) != want.ID.String() || fmt.Sprint(obj(it)["type"]) != want.Type.String() {
				return "http-logs", fmt.Sprintf("GET %slogs entry %d is id=%v type=%v, the log has id=%s type=%s there (newest first)", api, i, obj(it)["id"], obj(it)["type"], want.ID, want.Type)
			}
		}
	}
	return "", ""
}

func refOrNil(ref string) string {
	if ref == "" {
		return "<nil>"
	}
	return ref
}

func toMeta(v interface{}) map[string]string {
	out := map[string]string{}
	for k, x := range func() map[string]interface{} { m, _ := v.(map[string]interface{}); return m }() {
		out[k] = fmt.Sprint(x)
	}
	return out
}

func listOf(v interface{}) []interface{} { l, _ := v.([]interface{}); return l }

// subsetInOrder: every element of sub occurs in sup, in the same relative order
func subsetInOrder(sub, sup []string) bool {
	i := 0
	for _, s := range sup {
		if i < len(sub) && sub[i] == s {
			i++
		}
	}
	return i == len(sub)
}

func postingsDiffer(v interface{}, want ledger.Postings) string {
	items := listOf(v)
	if len(items) != len(want) {
		return fmt.Sprintf("%d postings reported, the log entry has %d", len(items), len(want))
	}
	for i, it := range items {
		m, _ := it.(map[string]interface{})
		if fmt.Sprint(m["source"]) != want[i].Source || fmt.Sprint(m["destination"]) != want[i].Destination || fmt.Sprint(m["asset"]) != want[i].Asset || fmt.Sprint(m["amount"]) != want[i].Amount.String() {
			return fmt.Sprintf("posting %d reported as %v, the log entry has %v", i, m, want[i])
		}
	}
	return ""
}

var _ = strings.TrimSpace
