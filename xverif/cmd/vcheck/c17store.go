//go:build verif

package main

import (
	"context"
	"fmt"
	"math/big"
	"os"
	"strings"

	ledger "github.com/formancehq/ledger/internal"
	"github.com/formancehq/ledger/internal/storage/ledgerstore"
	"github.com/formancehq/ledger/xverif/lib/evid"
	"github.com/formancehq/ledger/xverif/lib/pgmini"
	sharedapi "github.com/formancehq/stack/libs/go-libs/api"
	"github.com/formancehq/stack/libs/go-libs/bun/bunpaginate"
	"github.com/formancehq/stack/libs/go-libs/metadata"
	"github.com/formancehq/stack/libs/go-libs/query"
)

// store-level walks: the real GetTransactions / GetLogs / GetAccountsWithVolumes executed on pgmini over ledgers of
// 0..n transactions, every page size, with and without a metadata filter; tokens are decoded exactly as the API does.
func c17StoreWalks(rep *evid.Reporter, maxN int) (walks, fetches int) {
	ddl, err := os.ReadFile(schemaFile)
	if err != nil {
		rep.Undecide("cannot read the schema: " + err.Error())
		return
	}
	ctx := context.Background()
	for n := 0; n <= maxN; n++ {
		st := &c04State{db: pgmini.New(), logs: map[string][]*ledger.ChainedLog{}, bad: map[string]bool{}}
		if err := st.db.LoadSchema("b1", string(ddl)); err != nil {
			rep.Undecide("schema does not load in the interpreter: " + err.Error())
			return
		}
		for i := 0; i < n; i++ {
			i := i
			op := c04Op{Name: "tx", Ledger: "l1", Make: func(s *c04State) []*ledger.Log {
				md := metadata.Metadata{}
				if i%2 == 0 {
					md["tag"] = "even"
				}
				t := ledger.NewTransaction().WithPostings(ledger.NewPosting("world", fmt.Sprintf("acc%d", i), "X", big.NewInt(1))).WithID(big.NewInt(int64(i))).WithDate(c04T1).WithMetadata(md)
				return []*ledger.Log{ledger.NewTransactionLogWithDate(t, map[string]metadata.Metadata{fmt.Sprintf("acc%d", i): md}, ledger.Time{})}
			}}
			next, errText := st.apply(op)
			if errText != "" || next == nil {
				rep.Undecide("cannot build the history on the interpreter: " + errText)
				return
			}
			st = next
		}
		store := st.store("l1")
		for _, filtered := range []bool{false, true} {
			var qb query.Builder
			if filtered {
				qb, _ = query.ParseJSON(`{"$match":{"metadata[tag]":"even"}}`)
			}
			var wantTx []string // ids desc
			var wantAcc []string
			for i := n - 1; i >= 0; i-- {
				if !filtered || i%2 == 0 {
					wantTx = append(wantTx, fmt.Sprint(i))
				}
			}
			for i := 0; i < n; i++ {
				if !filtered || i%2 == 0 {
					wantAcc = append(wantAcc, fmt.Sprintf("acc%d", i))
				}
			}
			if !filtered && n > 0 {
				wantAcc = append(wantAcc, "world")
			}
			var wantLogs []string
			for i := n - 1; i >= 0; i-- {
				wantLogs = append(wantLogs, fmt.Sprint(i))
			}
			far := ledger.Time{Time: c04T2.Time.AddDate(1, 0, 0)}
			for _, pit := range []*ledger.Time{nil, &far} {
				for page := uint64(1); page <= uint64(n)+1; page++ {
					// with a point in time the listings are other statements (lateral joins on the metadata history, distinct on)
					opts := ledgerstore.NewPaginatedQueryOptions(ledgerstore.PITFilterWithVolumes{PITFilter: ledgerstore.PITFilter{PIT: pit}}).WithQueryBuilder(qb).WithPageSize(page)
					name := fmt.Sprintf("n=%d page=%d filtered=%v pit=%v", n, page, filtered, pit != nil)
					// transactions (column pagination, id desc)
					storeWalk(rep, "transactions "+name, wantTx, page, func(tok string) (*sharedapi.Cursor[string], error) {
						q := ledgerstore.NewGetTransactionsQuery(opts)
						if tok != "" {
							q = ledgerstore.GetTransactionsQuery{}
							if err := bunpaginate.UnmarshalCursor(tok, &q); err != nil {
								return nil, fmt.Errorf("token rejected: %w", err)
							}
						}
						cur, err := store.GetTransactions(ctx, q)
						if err != nil {
							return nil, err
						}
						return sharedapi.MapCursor(cur, func(t ledger.ExpandedTransaction) string { return t.ID.String() }), nil
					}, &fetches)
					walks++
					// accounts (offset pagination, address asc)
					storeWalk(rep, "accounts "+name, wantAcc, page, func(tok string) (*sharedapi.Cursor[string], error) {
						q := ledgerstore.NewGetAccountsQuery(opts)
						if tok != "" {
							q = ledgerstore.GetAccountsQuery{}
							if err := bunpaginate.UnmarshalCursor(tok, &q); err != nil {
								return nil, fmt.Errorf("token rejected: %w", err)
							}
						}
						cur, err := store.GetAccountsWithVolumes(ctx, q)
						if err != nil {
							return nil, err
						}
						return sharedapi.MapCursor(cur, func(a ledger.ExpandedAccount) string { return a.Address }), nil
					}, &fetches)
					walks++
					if !filtered && pit == nil {
						storeWalk(rep, "logs "+name, wantLogs, page, func(tok string) (*sharedapi.Cursor[string], error) {
							q := ledgerstore.NewGetLogsQuery(ledgerstore.NewPaginatedQueryOptions[any](nil).WithPageSize(page))
							if tok != "" {
								q = ledgerstore.GetLogsQuery{}
								if err := bunpaginate.UnmarshalCursor(tok, &q); err != nil {
									return nil, fmt.Errorf("token rejected: %w", err)
								}
							}
							cur, err := store.GetLogs(ctx, q)
							if err != nil {
								return nil, err
							}
							return sharedapi.MapCursor(cur, func(l ledger.ChainedLog) string { return l.ID.String() }), nil
						}, &fetches)
						walks++
					}
				}
			}
		}
		_ = store.GetDB().Close()
	}
	return
}

// storeWalk explores the whole cursor graph of one store listing (see walkGraph) and reports what disagrees.
func storeWalk(rep *evid.Reporter, name string, want []string, pageSize uint64, fetch func(tok string) (*sharedapi.Cursor[string], error), fetches *int) {
	replay := map[string]interface{}{"engine": "cursorwalk-store", "listing": name}
	kind := strings.Fields(name)[0]
	var st, tr int64
	ok := walkGraph(want, pageSize, func(tok string) ([]string, string, string, bool, error) {
		cur, err := fetch(tok)
		if err != nil {
			return nil, "", "", false, err
		}
		return cur.Data, cur.Next, cur.Previous, cur.HasMore, nil
	}, func(k, why string) {
		rep.Violation("store-walk-"+k+":"+kind, why+" ["+name+"]", replay)
	}, &st, &tr)
	*fetches += int(tr)
	if !ok {
		rep.Undecide("store-level walk: the interpreter cannot execute a statement of " + name)
	}
}
