//go:build verif

package main

import (
	"bytes"
	"context"
	"encoding/json"
	"fmt"
	"math/big"
	"net/http"
	"net/http/httptest"
	"net/url"
	"os"
	"sort"
	"strings"
	"time"

	ledger "github.com/formancehq/ledger/internal"
	"github.com/formancehq/ledger/internal/storage/ledgerstore"
	"github.com/formancehq/ledger/xverif/lib/engineh"
	"github.com/formancehq/ledger/xverif/lib/evid"
	"github.com/formancehq/ledger/xverif/lib/pgmini"
	"github.com/formancehq/ledger/xverif/lib/recbackend"
	sharedapi "github.com/formancehq/stack/libs/go-libs/api"
	"github.com/formancehq/stack/libs/go-libs/bun/bunpaginate"
	"github.com/formancehq/stack/libs/go-libs/metadata"
	"github.com/formancehq/stack/libs/go-libs/query"
)

// store-level walks: the real GetTransactions / GetLogs / GetAccountsWithVolumes executed on pgmini over ledgers of
// 0..n transactions, every page size, with and without a metadata filter; tokens are decoded exactly as the API does.
func c17StoreWalks(rep *evid.Reporter, maxN int) (walks, fetches int) {
	ddl, err := os.ReadFile(schemaFile)
	if err != nil {
		rep.Undecide("cannot read the schema: " + err.Error())
		return
	}
	ctx := context.Background()
	sizes := []int{}
	for n := 0; n <= maxN; n++ {
		sizes = append(sizes, n)
	}
	sizes = append(sizes, 17)  // more than the default page size of 15
	sizes = append(sizes, 103) // more than the largest page the v2 API serves (100): only walked through the HTTP layer
	for _, n := range sizes {
		st := &c04State{db: pgmini.New(), logs: map[string][]*ledger.ChainedLog{}, bad: map[string]bool{}}
		if err := st.db.LoadSchema("b1", string(ddl)); err != nil {
			rep.Undecide("schema does not load in the interpreter: " + err.Error())
			return
		}
		for i := 0; i < n; i++ {
			i := i
			op := c04Op{Name: "tx", Ledger: "l1", Make: func(s *c04State) []*ledger.Log {
				md := metadata.Metadata{}
				if i%2 == 0 {
					md["tag"] = "even"
				}
				t := ledger.NewTransaction().WithPostings(ledger.NewPosting("world", fmt.Sprintf("acc%d", i), "X", big.NewInt(1))).WithID(big.NewInt(int64(i))).WithDate(c04T1).WithMetadata(md)
				return []*ledger.Log{ledger.NewTransactionLogWithDate(t, map[string]metadata.Metadata{fmt.Sprintf("acc%d", i): md}, ledger.Time{})}
			}}
			next, errText := st.apply(op)
			if errText != "" || next == nil {
				rep.Undecide("cannot build the history on the interpreter: " + errText)
				return
			}
			st = next
		}
		store := st.store("l1")
		for _, filtered := range []bool{false, true} {
			if n > 50 {
				break
			}
			var qb query.Builder
			if filtered {
				qb, _ = query.ParseJSON(`{"$match":{"metadata[tag]":"even"}}`)
			}
			var wantTx []string // ids desc
			var wantAcc []string
			for i := n - 1; i >= 0; i-- {
				if !filtered || i%2 == 0 {
					wantTx = append(wantTx, fmt.Sprint(i))
				}
			}
			for i := 0; i < n; i++ {
				if !filtered || i%2 == 0 {
					wantAcc = append(wantAcc, fmt.Sprintf("acc%d", i))
				}
			}
			sort.Strings(wantAcc) // address order is textual: acc10 sorts before acc2
			if !filtered && n > 0 {
				wantAcc = append(wantAcc, "world")
			}
			var wantLogs []string
			for i := n - 1; i >= 0; i-- {
				wantLogs = append(wantLogs, fmt.Sprint(i))
			}
			far := ledger.Time{Time: c04T2.Time.AddDate(1, 0, 0)}
			for _, pit := range []*ledger.Time{nil, &far} {
				for page := uint64(1); page <= uint64(n)+1; page++ {
					// with a point in time the listings are other statements (lateral joins on the metadata history, distinct on)
					opts := ledgerstore.NewPaginatedQueryOptions(ledgerstore.PITFilterWithVolumes{PITFilter: ledgerstore.PITFilter{PIT: pit}}).WithQueryBuilder(qb).WithPageSize(page)
					name := fmt.Sprintf("n=%d page=%d filtered=%v pit=%v", n, page, filtered, pit != nil)
					// transactions (column pagination, id desc)
					storeWalk(rep, "transactions "+name, wantTx, page, func(tok string) (*sharedapi.Cursor[string], error) {
						q := ledgerstore.NewGetTransactionsQuery(opts)
						if tok != "" {
							q = ledgerstore.GetTransactionsQuery{}
							if err := bunpaginate.UnmarshalCursor(tok, &q); err != nil {
								return nil, fmt.Errorf("token rejected: %w", err)
							}
						}
						cur, err := store.GetTransactions(ctx, q)
						if err != nil {
							return nil, err
						}
						return sharedapi.MapCursor(cur, func(t ledger.ExpandedTransaction) string { return t.ID.String() }), nil
					}, &fetches)
					walks++
					// accounts (offset pagination, address asc)
					storeWalk(rep, "accounts "+name, wantAcc, page, func(tok string) (*sharedapi.Cursor[string], error) {
						q := ledgerstore.NewGetAccountsQuery(opts)
						if tok != "" {
							q = ledgerstore.GetAccountsQuery{}
							if err := bunpaginate.UnmarshalCursor(tok, &q); err != nil {
								return nil, fmt.Errorf("token rejected: %w", err)
							}
						}
						cur, err := store.GetAccountsWithVolumes(ctx, q)
						if err != nil {
							return nil, err
						}
						return sharedapi.MapCursor(cur, func(a ledger.ExpandedAccount) string { return a.Address }), nil
					}, &fetches)
					walks++
					if !filtered && pit == nil {
						storeWalk(rep, "logs "+name, wantLogs, page, func(tok string) (*sharedapi.Cursor[string], error) {
							q := ledgerstore.NewGetLogsQuery(ledgerstore.NewPaginatedQueryOptions[any](nil).WithPageSize(page))
							if tok != "" {
								q = ledgerstore.GetLogsQuery{}
								if err := bunpaginate.UnmarshalCursor(tok, &q); err != nil {
									return nil, fmt.Errorf("token rejected: %w", err)
								}
							}
							cur, err := store.GetLogs(ctx, q)
							if err != nil {
								return nil, err
							}
							return sharedapi.MapCursor(cur, func(l ledger.ChainedLog) string { return l.ID.String() }), nil
						}, &fetches)
						walks++
					}
				}
			}
		}
		// the same listings as a client walks them: GET with pageSize, then ?cursor=<next/previous> only, on v1 and v2
		if n == 0 || n == 3 || n == maxN || n == 17 || n > 50 {
			w, f := c17HTTPWalks(rep, st, n)
			walks += w
			fetches += f
			if n == 3 || n == maxN {
				w, f = c17MutationWalk(rep, st, n)
				walks += w
				fetches += f
			}
		}
		_ = store.GetDB().Close()
	}
	return
}

func c17HTTPWalks(rep *evid.Reporter, st *c04State, n int) (walks, fetches int) {
	s := st.store("l1")
	defer s.GetDB().Close()
	b := recbackend.New("l1")
	b.R = recbackend.Reads{GetAccountsWithVolumes: s.GetAccountsWithVolumes, CountAccounts: s.CountAccounts, GetAggregatedBalances: s.GetAggregatedBalances,
		GetLogs: s.GetLogs, CountTransactions: s.CountTransactions, GetTransactions: s.GetTransactions,
		GetAccountWithVolumes: s.GetAccountWithVolumes, GetTransactionWithVolumes: s.GetTransactionWithVolumes}
	router := newRouter(b, false)
	var txDesc, accAsc, logDesc []string
	for i := n - 1; i >= 0; i-- {
		txDesc = append(txDesc, fmt.Sprint(i))
		logDesc = append(logDesc, fmt.Sprint(i))
	}
	for i := 0; i < n; i++ {
		accAsc = append(accAsc, fmt.Sprintf("acc%d", i))
	}
	sort.Strings(accAsc)
	if n > 0 {
		accAsc = append(accAsc, "world")
	}
	type listing struct {
		path string
		want []string
		key  func(item map[string]interface{}) string
	}
	for _, api := range []string{"v2/", ""} {
		idKey := "id"
		if api == "" {
			idKey = "txid"
		}
		listings := []listing{
			{"transactions", txDesc, func(it map[string]interface{}) string { return fmt.Sprint(it[idKey]) }},
			{"accounts", accAsc, func(it map[string]interface{}) string { return fmt.Sprint(it["address"]) }},
			{"logs", logDesc, func(it map[string]interface{}) string { return fmt.Sprint(it["id"]) }},
		}
		if api == "" {
			listings = append(listings, listing{"balances", accAsc, func(it map[string]interface{}) string {
				for k := range it {
					return k
				}
				return "?"
			}})
		}
		for _, l := range listings {
			if n > 0 && n <= 17 {
				// pageSize=0 written out: whatever the server makes of it (no limit, the default size), following next must come
				// to an end and yield the listing exactly once
				name := fmt.Sprintf("%s n=%d GET %s%s?pageSize=0", l.path, n, api, l.path)
				replay := map[string]interface{}{"engine": "cursorwalk-http", "listing": name}
				target := "/api/ledger/" + api + "l1/" + l.path + "?pageSize=0"
				var got []string
				ended, failed := false, ""
				for page := 0; page <= len(l.want)+3; page++ {
					req := httptest.NewRequest("GET", target, nil).WithContext(engineh.QuietCtx())
					w := httptest.NewRecorder()
					router.ServeHTTP(w, req)
					fetches++
					var body struct {
						Cursor struct {
							HasMore bool                     `json:"hasMore"`
							Next    string                   `json:"next"`
							Data    []map[string]interface{} `json:"data"`
						} `json:"cursor"`
					}
					dec := json.NewDecoder(bytes.NewReader(w.Body.Bytes()))
					dec.UseNumber()
					_ = dec.Decode(&body)
					if w.Code >= 400 && w.Code < 500 && page == 0 {
						ended = true // refusing the value is a fine answer
						got = l.want
						break
					}
					if w.Code != 200 {
						failed = fmt.Sprintf("GET %s answers %d %s", target, w.Code, w.Body.String())
						break
					}
					for _, it := range body.Cursor.Data {
						got = append(got, l.key(it))
					}
					if !body.Cursor.HasMore {
						ended = true
						break
					}
					target = "/api/ledger/" + api + "l1/" + l.path + "?cursor=" + url.QueryEscape(body.Cursor.Next)
				}
				walks++
				switch {
				case failed != "":
					rep.Violation("http-walk-error:"+l.path, failed+" ["+name+"]", replay)
				case !ended:
					rep.Violation("http-walk-endless:"+l.path, fmt.Sprintf("following next does not come to an end (%d pages fetched for %d items, items seen so far: %v) [%s]", len(l.want)+4, len(l.want), got, name), replay)
				case strings.Join(got, ",") != strings.Join(l.want, ","):
					rep.Violation("http-walk-content:"+l.path, fmt.Sprintf("following next yields %v, the listing is %v [%s]", got, l.want, name), replay)
				}
			}
			sizes := []int{0, 1, 2, n, n + 1}
			if n > 50 {
				// around the largest page of v2 (100; a larger request is served 100 at a time) - v1 serves up to 1000
				sizes = []int{51, 100, 101, 102}
			}
			for _, ps := range sizes {
				if ps < 0 || (ps == 0 && n != 17 && n != 3) {
					continue
				}
				first := "/api/ledger/" + api + "l1/" + l.path
				eff := uint64(ps)
				if api != "" && eff > 100 {
					eff = 100
				}
				if ps == 0 {
					eff = 15 // the documented default page size
				} else {
					first += fmt.Sprintf("?pageSize=%d", ps)
				}
				name := fmt.Sprintf("%s n=%d GET %s%s pageSize=%d", l.path, n, api, l.path, ps)
				replay := map[string]interface{}{"engine": "cursorwalk-http", "listing": name}
				var st2, tr int64
				ok := walkGraph(l.want, eff, func(tok string) ([]string, string, string, bool, error) {
					target := first
					if tok != "" {
						target = "/api/ledger/" + api + "l1/" + l.path + "?cursor=" + url.QueryEscape(tok)
					}
					req := httptest.NewRequest("GET", target, nil).WithContext(engineh.QuietCtx())
					w := httptest.NewRecorder()
					router.ServeHTTP(w, req)
					var body struct {
						Cursor struct {
							PageSize int                      `json:"pageSize"`
							HasMore  bool                     `json:"hasMore"`
							Previous string                   `json:"previous"`
							Next     string                   `json:"next"`
							Data     []map[string]interface{} `json:"data"`
						} `json:"cursor"`
						ErrorMessage string `json:"errorMessage"`
					}
					dec := json.NewDecoder(bytes.NewReader(w.Body.Bytes()))
					dec.UseNumber()
					_ = dec.Decode(&body)
					if w.Code != 200 {
						return nil, "", "", false, fmt.Errorf("GET %s answers %d %s", target, w.Code, body.ErrorMessage)
					}
					if body.Cursor.PageSize != int(eff) {
						return nil, "", "", false, fmt.Errorf("the cursor reports pageSize %d, the request asked for %d", body.Cursor.PageSize, eff)
					}
					var items []string
					for _, it := range body.Cursor.Data {
						items = append(items, l.key(it))
					}
					return items, body.Cursor.Next, body.Cursor.Previous, body.Cursor.HasMore, nil
				}, func(k, why string) {
					rep.Violation("http-walk-"+k+":"+l.path, why+" ["+name+"]", replay)
				}, &st2, &tr)
				walks++
				fetches += int(tr)
				if !ok {
					rep.Undecide("http-level walk: the interpreter cannot execute a statement of " + name)
				}
			}
		}
	}
	return
}

// c17MutationWalk: a v2 listing is the answer to a query as of the instant of its first page; a write that lands between two
// page fetches (dated after that instant, as any concurrent write is) must not move what the following tokens stand for.
func c17MutationWalk(rep *evid.Reporter, st *c04State, n int) (walks, fetches int) {
	mkRouter := func(s *c04State) (http.Handler, func()) {
		store := s.store("l1")
		b := recbackend.New("l1")
		b.R = recbackend.Reads{GetAccountsWithVolumes: store.GetAccountsWithVolumes, CountAccounts: store.CountAccounts, GetAggregatedBalances: store.GetAggregatedBalances,
			GetLogs: store.GetLogs, CountTransactions: store.CountTransactions, GetTransactions: store.GetTransactions,
			GetAccountWithVolumes: store.GetAccountWithVolumes, GetTransactionWithVolumes: store.GetTransactionWithVolumes}
		return newRouter(b, false), func() { _ = store.GetDB().Close() }
	}
	var txDesc, accAsc []string
	for i := n - 1; i >= 0; i-- {
		txDesc = append(txDesc, fmt.Sprint(i))
	}
	for i := 0; i < n; i++ {
		accAsc = append(accAsc, fmt.Sprintf("acc%d", i))
	}
	sort.Strings(accAsc)
	accAsc = append(accAsc, "world")
	for _, l := range []struct {
		path string
		want []string
		key  string
	}{{"accounts", accAsc, "address"}, {"transactions", txDesc, "id"}} {
		for _, ps := range []int{1, 2, 3} {
			for after := 1; after*ps < len(l.want); after++ {
				// pages 1..after are fetched, then the write lands, then the walk goes on
				routerA, closeA := mkRouter(st)
				later, errText := st.apply(c04Op{Name: "write between two pages", Ledger: "l1", At: ledger.Time{Time: time.Now().UTC().Add(time.Second).Round(time.Microsecond)}, Make: func(s *c04State) []*ledger.Log {
					t := ledger.NewTransaction().WithPostings(ledger.NewPosting("world", "aaa", "X", big.NewInt(1))).WithID(big.NewInt(int64(n))).WithDate(c04T1)
					return []*ledger.Log{ledger.NewTransactionLogWithDate(t, map[string]metadata.Metadata{}, ledger.Time{})}
				}})
				if later == nil {
					closeA()
					rep.Undecide("cannot apply the concurrent write on the interpreter: " + errText)
					return
				}
				routerB, closeB := mkRouter(later)
				name := fmt.Sprintf("v2 %s n=%d pageSize=%d, a write lands after page %d", l.path, n, ps, after)
				replay := map[string]interface{}{"engine": "cursorwalk-http-mutation", "listing": name}
				var got []string
				target := fmt.Sprintf("/api/ledger/v2/l1/%s?pageSize=%d", l.path, ps)
				failed := ""
				for page := 1; page <= len(l.want)+3; page++ {
					router := routerA
					if page > after {
						router = routerB
					}
					req := httptest.NewRequest("GET", target, nil).WithContext(engineh.QuietCtx())
					w := httptest.NewRecorder()
					router.ServeHTTP(w, req)
					fetches++
					var body struct {
						Cursor struct {
							HasMore bool                     `json:"hasMore"`
							Next    string                   `json:"next"`
							Data    []map[string]interface{} `json:"data"`
						} `json:"cursor"`
					}
					dec := json.NewDecoder(bytes.NewReader(w.Body.Bytes()))
					dec.UseNumber()
					_ = dec.Decode(&body)
					if w.Code != 200 {
						failed = fmt.Sprintf("GET %s answers %d %s", target, w.Code, w.Body.String())
						break
					}
					for _, it := range body.Cursor.Data {
						got = append(got, fmt.Sprint(it[l.key]))
					}
					if !body.Cursor.HasMore {
						break
					}
					target = fmt.Sprintf("/api/ledger/v2/l1/%s?cursor=%s", l.path, url.QueryEscape(body.Cursor.Next))
				}
				closeA()
				closeB()
				walks++
				if failed != "" {
					if strings.Contains(failed, "pgmini") {
						rep.Undecide("mutation walk: the interpreter cannot execute a statement: " + failed)
					} else {
						rep.Violation("http-mutation-walk-error:"+l.path, failed+" ["+name+"]", replay)
					}
					continue
				}
				if strings.Join(got, ",") != strings.Join(l.want, ",") {
					rep.Violation("http-mutation-walk:"+l.path, fmt.Sprintf("following next yields %v; the listing the first page belongs to is %v [%s]", got, l.want, name), replay)
				}
			}
		}
	}
	return
}

// storeWalk explores the whole cursor graph of one store listing (see walkGraph) and reports what disagrees.
func storeWalk(rep *evid.Reporter, name string, want []string, pageSize uint64, fetch func(tok string) (*sharedapi.Cursor[string], error), fetches *int) {
	replay := map[string]interface{}{"engine": "cursorwalk-store", "listing": name}
	kind := strings.Fields(name)[0]
	var st, tr int64
	ok := walkGraph(want, pageSize, func(tok string) ([]string, string, string, bool, error) {
		cur, err := fetch(tok)
		if err != nil {
			return nil, "", "", false, err
		}
		return cur.Data, cur.Next, cur.Previous, cur.HasMore, nil
	}, func(k, why string) {
		rep.Violation("store-walk-"+k+":"+kind, why+" ["+name+"]", replay)
	}, &st, &tr)
	*fetches += int(tr)
	if !ok {
		rep.Undecide("store-level walk: the interpreter cannot execute a statement of " + name)
	}
}
