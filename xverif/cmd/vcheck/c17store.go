//go:build verif

package main

import (
	"context"
	"fmt"
	"math/big"
	"os"
	"strings"

	ledger "github.com/formancehq/ledger/internal"
	"github.com/formancehq/ledger/internal/storage/ledgerstore"
	"github.com/formancehq/ledger/xverif/lib/evid"
	"github.com/formancehq/ledger/xverif/lib/pgmini"
	sharedapi "github.com/formancehq/stack/libs/go-libs/api"
	"github.com/formancehq/stack/libs/go-libs/bun/bunpaginate"
	"github.com/formancehq/stack/libs/go-libs/metadata"
	"github.com/formancehq/stack/libs/go-libs/query"
)

// store-level walks: the real GetTransactions / GetLogs / GetAccountsWithVolumes executed on pgmini over ledgers of
// 0..n transactions, every page size, with and without a metadata filter; tokens are decoded exactly as the API does.
func c17StoreWalks(rep *evid.Reporter, maxN int) (walks, fetches int) {
	ddl, err := os.ReadFile(schemaFile)
	if err != nil {
		rep.Undecide("cannot read the schema: " + err.Error())
		return
	}
	ctx := context.Background()
	for n := 0; n <= maxN; n++ {
		st := &c04State{db: pgmini.New(), logs: map[string][]*ledger.ChainedLog{}, bad: map[string]bool{}}
		if err := st.db.LoadSchema("b1", string(ddl)); err != nil {
			rep.Undecide("schema does not load in the interpreter: " + err.Error())
			return
		}
		for i := 0; i < n; i++ {
			i := i
			op := c04Op{Name: "tx", Ledger: "l1", Make: func(s *c04State) []*ledger.Log {
				md := metadata.Metadata{}
				if i%2 == 0 {
					md["tag"] = "even"
				}
				t := ledger.NewTransaction().WithPostings(ledger.NewPosting("world", fmt.Sprintf("acc%d", i), "X", big.NewInt(1))).WithID(big.NewInt(int64(i))).WithDate(c04T1).WithMetadata(md)
				return []*ledger.Log{ledger.NewTransactionLogWithDate(t, map[string]metadata.Metadata{fmt.Sprintf("acc%d", i): md}, ledger.Time{})}
			}}
			next, errText := st.apply(op)
			if errText != "" || next == nil {
				rep.Undecide("cannot build the history on the interpreter: " + errText)
				return
			}
			st = next
		}
		store := st.store("l1")
		for _, filtered := range []bool{false, true} {
			var qb query.Builder
			if filtered {
				qb, _ = query.ParseJSON(`{"$match":{"metadata[tag]":"even"}}`)
			}
			var wantTx []string // ids desc
			var wantAcc []string
			for i := n - 1; i >= 0; i-- {
				if !filtered || i%2 == 0 {
					wantTx = append(wantTx, fmt.Sprint(i))
				}
			}
			for i := 0; i < n; i++ {
				if !filtered || i%2 == 0 {
					wantAcc = append(wantAcc, fmt.Sprintf("acc%d", i))
				}
			}
			if !filtered && n > 0 {
				wantAcc = append(wantAcc, "world")
			}
			var wantLogs []string
			for i := n - 1; i >= 0; i-- {
				wantLogs = append(wantLogs, fmt.Sprint(i))
			}
			for page := uint64(1); page <= uint64(n)+1; page++ {
				opts := ledgerstore.NewPaginatedQueryOptions(ledgerstore.PITFilterWithVolumes{}).WithQueryBuilder(qb).WithPageSize(page)
				name := fmt.Sprintf("n=%d page=%d filtered=%v", n, page, filtered)
				// transactions (column pagination, id desc)
				txWalk := func() ([]string, [][]string, string) {
					q := ledgerstore.NewGetTransactionsQuery(opts)
					return walkCursor(func(tok string) (*sharedapi.Cursor[string], error) {
						if tok != "" {
							q = ledgerstore.GetTransactionsQuery{}
							if err := bunpaginate.UnmarshalCursor(tok, &q); err != nil {
								return nil, fmt.Errorf("token rejected: %w", err)
							}
						}
						cur, err := store.GetTransactions(ctx, q)
						if err != nil {
							return nil, err
						}
						return sharedapi.MapCursor(cur, func(t ledger.ExpandedTransaction) string { return t.ID.String() }), nil
					}, n+3, &fetches)
				}
				judgeWalk(rep, "transactions "+name, txWalk, wantTx)
				walks++
				// accounts (offset pagination, address asc)
				accWalk := func() ([]string, [][]string, string) {
					q := ledgerstore.NewGetAccountsQuery(opts)
					return walkCursor(func(tok string) (*sharedapi.Cursor[string], error) {
						if tok != "" {
							q = ledgerstore.GetAccountsQuery{}
							if err := bunpaginate.UnmarshalCursor(tok, &q); err != nil {
								return nil, fmt.Errorf("token rejected: %w", err)
							}
						}
						cur, err := store.GetAccountsWithVolumes(ctx, q)
						if err != nil {
							return nil, err
						}
						return sharedapi.MapCursor(cur, func(a ledger.ExpandedAccount) string { return a.Address }), nil
					}, n+4, &fetches)
				}
				judgeWalk(rep, "accounts "+name, accWalk, wantAcc)
				walks++
				if !filtered {
					logWalk := func() ([]string, [][]string, string) {
						q := ledgerstore.NewGetLogsQuery(ledgerstore.NewPaginatedQueryOptions[any](nil).WithPageSize(page))
						return walkCursor(func(tok string) (*sharedapi.Cursor[string], error) {
							if tok != "" {
								q = ledgerstore.GetLogsQuery{}
								if err := bunpaginate.UnmarshalCursor(tok, &q); err != nil {
									return nil, fmt.Errorf("token rejected: %w", err)
								}
							}
							cur, err := store.GetLogs(ctx, q)
							if err != nil {
								return nil, err
							}
							return sharedapi.MapCursor(cur, func(l ledger.ChainedLog) string { return l.ID.String() }), nil
						}, n+3, &fetches)
					}
					judgeWalk(rep, "logs "+name, logWalk, wantLogs)
					walks++
				}
			}
		}
		_ = store.GetDB().Close()
	}
	return
}

// walkCursor follows next until hasMore is false; also fetches the previous page of every page after the first.
// Returns the concatenation, the previous-page results aligned with pages[1:], and an error description.
func walkCursor(fetch func(tok string) (*sharedapi.Cursor[string], error), maxPages int, fetches *int) (all []string, pagesAndPrev [][]string, errText string) {
	tok := ""
	var pages [][]string
	var prevs []string
	for i := 0; i < maxPages; i++ {
		cur, err := fetch(tok)
		*fetches++
		if err != nil {
			return nil, nil, err.Error()
		}
		pages = append(pages, cur.Data)
		prevs = append(prevs, cur.Previous)
		all = append(all, cur.Data...)
		if cur.HasMore != (cur.Next != "") {
			return nil, nil, "hasMore disagrees with the presence of a next token"
		}
		if !cur.HasMore {
			break
		}
		tok = cur.Next
	}
	// previous of page k+1
	for k := 1; k < len(pages); k++ {
		if prevs[k] == "" {
			return nil, nil, fmt.Sprintf("page %d has no previous token", k)
		}
		cur, err := fetch(prevs[k])
		*fetches++
		if err != nil {
			return nil, nil, "previous: " + err.Error()
		}
		if strings.Join(cur.Data, ",") != strings.Join(pages[k-1], ",") {
			return nil, nil, fmt.Sprintf("previous of page %d yields %v, the page before is %v", k, cur.Data, pages[k-1])
		}
	}
	return all, pages, ""
}

func judgeWalk(rep *evid.Reporter, name string, walk func() ([]string, [][]string, string), want []string) {
	all, _, errText := walk()
	replay := map[string]interface{}{"engine": "cursorwalk-store", "listing": name}
	kind := strings.Fields(name)[0]
	if errText != "" {
		if strings.Contains(errText, "pgmini: unsupported") {
			rep.Undecide("store-level walk: " + errText)
			return
		}
		rep.Violation("store-walk-error:"+kind, errText+" ["+name+"]", replay)
		return
	}
	if strings.Join(all, ",") != strings.Join(want, ",") {
		rep.Violation("store-walk:"+kind, fmt.Sprintf("following next yields %v, the listing in order is %v [%s]", all, want, name), replay)
	}
}
