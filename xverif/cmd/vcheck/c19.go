package main

import (
	"fmt"
	"net/http"
	"net/http/httptest"
	"os"
	"path/filepath"
	"regexp"
	"sort"
	"strings"
	"sync/atomic"

	"github.com/formancehq/ledger/internal/api"
	"github.com/formancehq/ledger/internal/opentelemetry/metrics"
	"github.com/formancehq/ledger/xverif/lib/engineh"
	"github.com/formancehq/ledger/xverif/lib/evid"
	"github.com/formancehq/ledger/xverif/lib/recbackend"
	"github.com/formancehq/stack/libs/go-libs/auth"
	"github.com/formancehq/stack/libs/go-libs/health"
	"github.com/go-chi/chi/v5"
	"go.uber.org/fx"

	"github.com/formancehq/ledger/internal/api/backend"
)

func init() { checks["C19"] = c19 }

const bulkAll = `[{"action":"CREATE_TRANSACTION","data":{"postings":[{"source":"world","destination":"a","amount":1,"asset":"USD"}]}},
{"action":"ADD_METADATA","data":{"targetType":"ACCOUNT","targetId":"a","metadata":{"k":"v"}}},
{"action":"REVERT_TRANSACTION","data":{"id":0}},
{"action":"DELETE_METADATA","data":{"targetType":"ACCOUNT","targetId":"a","key":"k"}}]`

func newRouter(b *recbackend.Backend, readOnly bool) chi.Router {
	return api.NewRouter(b, health.NewHealthController(nil), metrics.NewNoOpRegistry(), auth.NewNoAuth(), readOnly)
}

// wiredRouter builds the router the way the server does: through api.Module(api.Config{ReadOnly: ...}) in an fx
// application (the recording backend replaces the one the module would build from the storage driver). A module that
// drops, inverts or mis-threads the flag is seen here and not by newRouter.
func wiredRouter(b *recbackend.Backend, readOnly bool) (r chi.Router, err error) {
	defer func() {
		if e := recover(); e != nil {
			err = fmt.Errorf("panic: %v", e)
		}
	}()
	app := fx.New(fx.NopLogger,
		api.Module(api.Config{Version: "verif", ReadOnly: readOnly}),
		fx.Supply(fx.Annotate(auth.NewNoAuth(), fx.As(new(auth.Auth)))),
		fx.Provide(func() metrics.GlobalRegistry { return metrics.NewNoOpRegistry() }),
		fx.Decorate(func() backend.Backend { return b }),
		fx.Populate(&r),
	)
	if app.Err() != nil {
		return nil, app.Err()
	}
	return r, nil
}

func c19() int {
	rep := evid.NewReporter("C19", "exploration")
	type route struct{ method, pattern string }
	var routes []route
	probe := newRouter(recbackend.New("l1"), true)
	_ = chi.Walk(probe, func(method, pattern string, handler http.Handler, mws ...func(http.Handler) http.Handler) error {
		routes = append(routes, route{method, pattern})
		return nil
	})
	patterns := map[string]bool{}
	for _, r := range routes {
		patterns[r.pattern] = true
	}
	ledgers := []string{"l1", "new", "_", "a%2Fb", "eu%2Fmain%2Fx", "%2E%2E", "l1%3Fx"}
	methods := []string{"GET", "HEAD", "OPTIONS", "POST", "PUT", "PATCH", "DELETE", "TRACE", "CONNECT", "PURGE", "post", "Post"}
	headers := []map[string]string{{}, {"X-HTTP-Method-Override": "POST"}, {"X-HTTP-Method": "DELETE", "X-Method-Override": "POST"}, {"Idempotency-Key": "k"}, {"Content-Type": "application/json"}}
	bodies := []string{"", `{"postings":[{"source":"world","destination":"a","amount":1,"asset":"USD"}],"metadata":{"k":"v"}}`, bulkAll, `{"k":"v"}`, `{"script":{"plain":"send [USD 1] (\n source=@world\n destination=@a\n)"}}`}
	queries := []string{"", "?dryRun=true", "?_method=POST&continueOnFailure=true", "?force=true"}
	if !rep.Thorough() {
		headers = headers[:4]
		queries = queries[:3]
	}
	// one header set per request header the code base (or the usual proxies / CORS machinery) looks at: the names are
	// harvested from the working tree, so a guard that starts to consult a header is exercised with it
	hnames := map[string]bool{"Access-Control-Request-Method": true, "Access-Control-Request-Headers": true, "Origin": true, "X-Forwarded-Method": true,
		"X-Original-Method": true, "Upgrade": true, "Authorization": true, "X-Requested-With": true}
	hre := regexp.MustCompile(`Header(?:\(\))?\.(?:Get|Values)\("([^"]+)"\)`)
	for _, root := range []string{"/repo/internal", "/repo/libs", "/repo/cmd", "/repo/pkg"} {
		_ = filepath.Walk(root, func(path string, info os.FileInfo, err error) error {
			if err != nil || info.IsDir() || !strings.HasSuffix(path, ".go") || strings.HasSuffix(path, "_test.go") {
				return nil
			}
			if b, err := os.ReadFile(path); err == nil {
				for _, m := range hre.FindAllStringSubmatch(string(b), -1) {
					hnames[http.CanonicalHeaderKey(m[1])] = true
				}
			}
			return nil
		})
	}
	var hsorted []string
	for n := range hnames {
		hsorted = append(hsorted, n)
	}
	sort.Strings(hsorted)
	for _, n := range hsorted {
		headers = append(headers, map[string]string{n: "POST"}, map[string]string{n: "POST", "Origin": "http://example.test"})
		// values a guard could take for "harmless": a safe method name, a truthy flag
		safe := []string{"GET", "true"}
		if rep.Thorough() {
			safe = []string{"GET", "HEAD", "OPTIONS", "true", "1"}
		}
		for _, v := range safe {
			headers = append(headers, map[string]string{n: v})
		}
	}
	variants := func(path string) []string {
		out := []string{path, path + "/", strings.Replace(path, "/api/ledger", "/api/ledger/", 1), strings.ToUpper(path), strings.Replace(path, "/v2", "/%76%32", 1), strings.Replace(path, "transactions", "transactions%2F", 1)}
		seen := map[string]bool{}
		var uniq []string
		for _, p := range out {
			if !seen[p] {
				seen[p] = true
				uniq = append(uniq, p)
			}
		}
		return uniq
	}
	var paths []string
	for p := range patterns {
		p = strings.TrimSuffix(p, "*")
		for _, l := range ledgers {
			q := strings.Replace(p, "{ledger}", l, 1)
			q = strings.Replace(q, "{id}", "0", 1)
			q = strings.Replace(q, "{address}", "a:b", 1)
			paths = append(paths, variants(strings.Replace(q, "{key}", "k", 1))...)
			if strings.Contains(q, "{key}") {
				// a percent-encoded slash / dot segments inside a path parameter (decoded and raw path differ)
				paths = append(paths, strings.Replace(q, "{key}", "foo%2Fbar", 1), strings.Replace(q, "{key}", "%2E%2E", 1), strings.Replace(q, "{key}", "a%252Fb", 1))
			}
			if !strings.Contains(p, "{ledger}") {
				break
			}
		}
	}
	seen := map[string]bool{}
	var upaths []string
	for _, p := range paths {
		if !seen[p] {
			seen[p] = true
			upaths = append(upaths, p)
		}
	}
	var requests, writesWhenRW, panics int64
	reached := evid.NewHistogram()
	statusRO := evid.NewHistogram()
	var samples evid.Samples
	samples.N = 5
	evid.ParallelFor(len(upaths), workers(), func(w, pi int) {
		path := upaths[pi]
		for _, ro := range []bool{true, false} {
			b := recbackend.New("l1", "_")
			b.AnyLedger = true
			router := newRouter(b, ro)
			for _, m := range methods {
				for _, h := range headers {
					for _, body := range bodies {
						for _, q := range queries {
							b.Reset()
							var req *http.Request
							func() {
								defer func() {
									if recover() != nil {
										req = nil
									}
								}()
								req = httptest.NewRequest(m, path+q, strings.NewReader(body)).WithContext(engineh.QuietCtx())
							}()
							if req == nil {
								continue
							}
							for k, v := range h {
								req.Header.Set(k, v)
							}
							rec := httptest.NewRecorder()
							func() {
								defer func() {
									if e := recover(); e != nil {
										atomic.AddInt64(&panics, 1)
									}
								}()
								router.ServeHTTP(rec, req)
							}()
							atomic.AddInt64(&requests, 1)
							wc := b.WriteCalls()
							if ro {
								statusRO.Add(fmt.Sprintf("%s %d", strings.ToUpper(m), rec.Code))
								if len(wc) > 0 {
									rep.Violation("write-in-read-only:"+m+" "+patternOf(path), fmt.Sprintf("read-only server executed %v for %s %s", wc, m, path+q), map[string]interface{}{"engine": "httpenum", "method": m, "path": path + q, "headers": h, "body": body})
								}
							} else {
								for _, c := range wc {
									reached.Add(c.Method)
									atomic.AddInt64(&writesWhenRW, 1)
								}
							}
							samples.Offer(func() interface{} {
								return map[string]interface{}{"read_only": ro, "method": m, "path": path + q, "headers": h, "body_len": len(body), "status": rec.Code, "write_calls": len(wc)}
							})
						}
					}
				}
			}
		}
	})
	// the same routes through the router as the server wires it (api.Module): a reduced request set (no header / query axis)
	var wiredRequests int64
	wiredReached := evid.NewHistogram()
	wiredErr := ""
	for _, ro := range []bool{true, false} {
		b := recbackend.New("l1", "_")
		b.AnyLedger = true
		router, err := wiredRouter(b, ro)
		if err != nil {
			wiredErr = err.Error()
			break
		}
		for _, path := range upaths {
			for _, m := range methods {
				for _, body := range bodies {
					b.Reset()
					var req *http.Request
					func() {
						defer func() {
							if recover() != nil {
								req = nil
							}
						}()
						req = httptest.NewRequest(m, path, strings.NewReader(body)).WithContext(engineh.QuietCtx())
					}()
					if req == nil {
						continue
					}
					rec := httptest.NewRecorder()
					func() {
						defer func() { _ = recover() }()
						router.ServeHTTP(rec, req)
					}()
					wiredRequests++
					wc := b.WriteCalls()
					if ro && len(wc) > 0 {
						rep.Violation("write-in-read-only-wired:"+m+" "+patternOf(path), fmt.Sprintf("server wired by api.Module(Config{ReadOnly:true}) executed %v for %s %s", wc, m, path), map[string]interface{}{"engine": "httpenum", "wired": true, "method": m, "path": path, "body": body})
					}
					if !ro {
						for _, c := range wc {
							wiredReached.Add(c.Method)
						}
					}
				}
			}
		}
	}
	if wiredErr != "" {
		rep.Undecide("the fx application around api.Module could not be built: " + wiredErr)
	}
	for m := range recbackend.WriteMethods {
		if wiredErr == "" && wiredReached.M[m] == 0 {
			rep.Undecide("non-vacuity (wired router): the request set never reaches " + m + " when the module is not read-only")
		}
		if reached.M[m] == 0 {
			rep.Undecide("non-vacuity: the request set never reaches " + m + " even when the server is not read-only")
		}
	}
	cov := evid.Coverage{
		"evaluations":         int(requests),
		"distinct_nontrivial": int(writesWhenRW),
		"rule":                fmt.Sprintf("every route pattern registered in api.NewRouter (chi.Walk: %d method/route pairs, %d patterns) x ledger names x path variants (trailing slash, //, upper case, percent-encoding) = %d paths x %d methods x %d header sets x %d bodies x %d query strings, each sent to a read-only and to a read-write server over a recording backend; non-trivial = the same request reaches a write method of the backend when the server is NOT read-only (counted per backend write call)", len(routes), len(patterns), len(upaths), len(methods), len(headers), len(bodies), len(queries)),
		"samples":             samples.Got,
		"exhaustive":          true,
		"routes":              len(routes),
		"write_methods_reached_when_not_read_only": reached.M,
		"read_only_status_histogram":               statusRO.M,
		"handler_panics_recovered":                 int(panics),
		"wired_router_requests":                    int(wiredRequests),
		"wired_router_write_methods_reached_when_not_read_only": wiredReached.M,
	}
	rep.Assume = []string{"requests are delivered with net/http/httptest straight to the router (no reverse proxy rewriting methods)", "auth is the no-op implementation"}
	return rep.Finish(cov)
}

func patternOf(path string) string {
	if i := strings.Index(path, "?"); i >= 0 {
		path = path[:i]
	}
	for _, l := range []string{"/l1", "/new", "/_", "/a%2Fb"} {
		path = strings.Replace(path, l+"/", "/{ledger}/", 1)
	}
	return path
}
