//go:build verif

package main

import (
	"fmt"
	"net/http/httptest"
	"strings"
	"sync/atomic"

	"github.com/formancehq/ledger/xverif/lib/engineh"
	"github.com/formancehq/ledger/xverif/lib/evid"
	"github.com/formancehq/ledger/xverif/lib/recbackend"
)

// c14HTTP: preview as a client asks for it (v1 ?preview=, v2 ?dryRun=) on every write endpoint, followed by the same write
// for real: the preview leaves no entry, answers with a success status, names the transaction id the real write then gets,
// and flag values that do not mean "yes" are real writes.
func c14HTTP(rep *evid.Reporter) (cases int64, sent int64) {
	reqs := c07Requests()
	type variant struct {
		query   string
		preview bool
	}
	vars := map[string][]variant{
		"v2/": {{"dryRun=true", true}, {"dryRun=TRUE", true}, {"dryRun=1", true}, {"dryRun=yes", true}, {"dryRun=false", false}, {"dryRun=0", false}, {"dryRun=", false}, {"preview=true", false}},
		"":    {{"preview=true", true}, {"preview=TRUE", true}, {"preview=1", true}, {"preview=yes", true}, {"preview=false", false}, {"preview=0", false}, {"preview=", false}, {"dryRun=true", false}},
	}
	for api, vs := range vars {
		for ri, r := range reqs {
			if r.Bulk {
				continue // a bulk has no preview mode
			}
			for _, v := range vs {
				atomic.AddInt64(&cases, 1)
				withQ := r
				withQ.Path = r.Path + "?" + v.query
				local := append(append([]c07Req{}, reqs...), withQ)
				answers, logs, fatal := c07Run(api, local, []c07Step{{Req: len(local) - 1}, {Req: ri}}, &sent)
				label := "v1"
				if api != "" {
					label = "v2"
				}
				desc := fmt.Sprintf("%s %s %s?%s ; then the same write for real", label, r.Method, r.Path, v.query)
				replay := map[string]interface{}{"engine": "previewhttp", "api": label, "request": r.Name, "query": v.query}
				viol := func(kind, why string) { rep.Violation("http-"+kind+":"+r.Name, why+" ["+desc+"]", replay) }
				if fatal != "" {
					viol("panic", fatal)
					continue
				}
				first, second := answers[0], answers[1]
				ok1 := first.Status >= 200 && first.Status < 300
				ok2 := second.Status >= 200 && second.Status < 300
				appended := len(logs) - 1
				if v.preview {
					want := 0
					if ok2 {
						want = 1
					}
					if appended != want {
						viol("preview-effect", fmt.Sprintf("%d entries were appended (the real write answered %d): the preview left an entry or consumed the real write", appended, second.Status))
						continue
					}
					if ok1 != ok2 && r.Name != "revert-0" {
						viol("preview-answer", fmt.Sprintf("the preview answered %d, the real write %d", first.Status, second.Status))
						continue
					}
					if ok1 && ok2 && first.TxID != "" && second.TxID != "" && first.TxID != second.TxID {
						viol("preview-answer", fmt.Sprintf("the preview named transaction %s, the real write got %s", first.TxID, second.TxID))
					}
				} else {
					// not a preview: both are real writes
					okN := 0
					for _, a := range answers {
						if a.Status >= 200 && a.Status < 300 {
							okN++
						}
					}
					if appended != okN {
						viol("not-a-preview", fmt.Sprintf("%d writes reported success, %d entries were appended: a flag value that does not ask for a preview was taken for one", okN, appended))
					}
				}
			}
		}
	}
	return
}

// c14FreshLedger: a preview as the very first request that names a ledger. Whatever a later request on that name is answered
// (the v1 API creates ledgers on first use, the v2 API does not), it is answered the same with and without the preview.
func c14FreshLedger(rep *evid.Reporter) int {
	n := 0
	type probe struct{ method, path string }
	probes := []probe{{"GET", "/api/ledger/fresh/transactions"}, {"GET", "/api/ledger/v2/fresh/transactions"}, {"GET", "/api/ledger/v2/fresh"}, {"GET", "/api/ledger/fresh/accounts/a"}, {"HEAD", "/api/ledger/fresh/transactions"}}
	previews := []probe{
		{"POST", "/api/ledger/fresh/transactions?preview=true"}, {"POST", "/api/ledger/v2/fresh/transactions?dryRun=true"},
		{"POST", "/api/ledger/fresh/accounts/a/metadata?preview=true"}, {"POST", "/api/ledger/v2/fresh/accounts/a/metadata?dryRun=true"},
		{"POST", "/api/ledger/fresh/transactions/0/revert?preview=true"}, {"DELETE", "/api/ledger/v2/fresh/accounts/a/metadata/k?dryRun=true"},
	}
	body := `{"postings":[{"source":"world","destination":"a","amount":5,"asset":"X"}]}`
	send := func(b *recbackend.Backend, pr probe) int {
		var rd *strings.Reader
		if pr.method == "POST" && strings.Contains(pr.path, "metadata") {
			rd = strings.NewReader(`{"k":"v"}`)
		} else if pr.method == "POST" {
			rd = strings.NewReader(body)
		} else {
			rd = strings.NewReader("")
		}
		req := httptest.NewRequest(pr.method, pr.path, rd).WithContext(engineh.QuietCtx())
		w := httptest.NewRecorder()
		func() {
			defer func() { recover() }()
			newRouter(b, false).ServeHTTP(w, req)
		}()
		return w.Code
	}
	for _, pv := range previews {
		for _, pb := range probes {
			// (within one API version: the v1 API creates a ledger on ANY first request that names it, reads included, so a
			// v1 preview does what a v1 read would have done; seen through v2 the ledger exists afterwards - DESIGN.md II.5)
			if strings.Contains(pv.path, "/v2/") != strings.Contains(pb.path, "/v2/") {
				continue
			}
			n++
			without := recbackend.New() // no ledger exists
			with := recbackend.New()
			_ = send(with, pv)
			a, b := send(without, pb), send(with, pb)
			ledgersA, ledgersB := len(without.Ledgers), len(with.Ledgers)
			if a != b || ledgersA != ledgersB {
				rep.Violation("http-preview-creates:"+pv.path, fmt.Sprintf("%s %s is answered %d (and %d ledgers exist) after the preview %s %s, %d (%d ledgers) without it", pb.method, pb.path, b, ledgersB, pv.method, pv.path, a, ledgersA),
					map[string]interface{}{"engine": "previewhttp", "preview": pv.path, "then": pb.path})
			}
		}
	}
	return n
}
