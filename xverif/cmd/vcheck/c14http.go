//go:build verif

package main

import (
	"fmt"
	"sync/atomic"

	"github.com/formancehq/ledger/xverif/lib/evid"
)

// c14HTTP: preview as a client asks for it (v1 ?preview=, v2 ?dryRun=) on every write endpoint, followed by the same write
// for real: the preview leaves no entry, answers with a success status, names the transaction id the real write then gets,
// and flag values that do not mean "yes" are real writes.
func c14HTTP(rep *evid.Reporter) (cases int64, sent int64) {
	reqs := c07Requests()
	type variant struct {
		query   string
		preview bool
	}
	vars := map[string][]variant{
		"v2/": {{"dryRun=true", true}, {"dryRun=TRUE", true}, {"dryRun=1", true}, {"dryRun=yes", true}, {"dryRun=false", false}, {"dryRun=0", false}, {"dryRun=", false}, {"preview=true", false}},
		"":    {{"preview=true", true}, {"preview=TRUE", true}, {"preview=1", true}, {"preview=yes", true}, {"preview=false", false}, {"preview=0", false}, {"preview=", false}, {"dryRun=true", false}},
	}
	for api, vs := range vars {
		for ri, r := range reqs {
			if r.Bulk {
				continue // a bulk has no preview mode
			}
			for _, v := range vs {
				atomic.AddInt64(&cases, 1)
				withQ := r
				withQ.Path = r.Path + "?" + v.query
				local := append(append([]c07Req{}, reqs...), withQ)
				answers, logs, fatal := c07Run(api, local, []c07Step{{Req: len(local) - 1}, {Req: ri}}, &sent)
				label := "v1"
				if api != "" {
					label = "v2"
				}
				desc := fmt.Sprintf("%s %s %s?%s ; then the same write for real", label, r.Method, r.Path, v.query)
				replay := map[string]interface{}{"engine": "previewhttp", "api": label, "request": r.Name, "query": v.query}
				viol := func(kind, why string) { rep.Violation("http-"+kind+":"+r.Name, why+" ["+desc+"]", replay) }
				if fatal != "" {
					viol("panic", fatal)
					continue
				}
				first, second := answers[0], answers[1]
				ok1 := first.Status >= 200 && first.Status < 300
				ok2 := second.Status >= 200 && second.Status < 300
				appended := len(logs) - 1
				if v.preview {
					want := 0
					if ok2 {
						want = 1
					}
					if appended != want {
						viol("preview-effect", fmt.Sprintf("%d entries were appended (the real write answered %d): the preview left an entry or consumed the real write", appended, second.Status))
						continue
					}
					if ok1 != ok2 && r.Name != "revert-0" {
						viol("preview-answer", fmt.Sprintf("the preview answered %d, the real write %d", first.Status, second.Status))
						continue
					}
					if ok1 && ok2 && first.TxID != "" && second.TxID != "" && first.TxID != second.TxID {
						viol("preview-answer", fmt.Sprintf("the preview named transaction %s, the real write got %s", first.TxID, second.TxID))
					}
				} else {
					// not a preview: both are real writes
					okN := 0
					for _, a := range answers {
						if a.Status >= 200 && a.Status < 300 {
							okN++
						}
					}
					if appended != okN {
						viol("not-a-preview", fmt.Sprintf("%d writes reported success, %d entries were appended: a flag value that does not ask for a preview was taken for one", okN, appended))
					}
				}
			}
		}
	}
	return
}
