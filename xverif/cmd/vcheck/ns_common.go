package main

import (
	"encoding/json"
	"fmt"
	"os"
	"sync"
	"sync/atomic"
	"time"

	"github.com/formancehq/ledger/internal/machine/script/compiler"
	"github.com/formancehq/ledger/xverif/lib/evid"
	"github.com/formancehq/ledger/xverif/lib/nsgen"
	"github.com/formancehq/ledger/xverif/lib/nsrun"
)

type nsCase struct {
	P    *nsgen.Program
	Text string
	In   *nsgen.Input
	Ref  *nsgen.Outcome
	Res  *nsrun.Result
	Comp *nsrun.Compiled
	// PrefixComp: compiled statement prefixes of P, shared by all inputs of the program (filled lazily by C03)
	PrefixComp map[int]*nsrun.Compiled
}

type nsReplay struct {
	Engine   string       `json:"engine"`
	Text     string       `json:"text"`
	Input    *nsgen.Input `json:"input"`
	Observed interface{}  `json:"observed,omitempty"`
	Expected interface{}  `json:"expected,omitempty"`
}

func (c *nsCase) replay(obs, exp interface{}) nsReplay {
	return nsReplay{Engine: "nsgen", Text: c.Text, Input: c.In, Observed: obs, Expected: exp}
}

// watchdog: reports a case that runs longer than limit (termination part of C12; never fires on sane code).
type watchdog struct {
	mu    sync.Mutex
	start map[int]time.Time
	what  map[int]string
}

func newWatchdog(rep *evid.Reporter, limit time.Duration) *watchdog {
	w := &watchdog{start: map[int]time.Time{}, what: map[int]string{}}
	go func() {
		for {
			time.Sleep(2 * time.Second)
			w.mu.Lock()
			for k, t := range w.start {
				if time.Since(t) > limit {
					fmt.Printf("case running for more than %v (hang?):\n%s\n", limit, w.what[k])
					rep.Violation("hang", "a case did not terminate within the watchdog limit", map[string]string{"engine": "nsgen", "text": w.what[k]})
					os.Exit(rep.Finish(evid.Coverage{"evaluations": 1, "distinct_nontrivial": 0, "rule": "aborted by watchdog", "samples": []string{w.what[k]}, "exhaustive": false}))
				}
			}
			w.mu.Unlock()
		}
	}()
	return w
}

func (w *watchdog) begin(k int, what string) {
	w.mu.Lock()
	w.start[k] = time.Now()
	w.what[k] = what
	w.mu.Unlock()
}
func (w *watchdog) end(k int) {
	w.mu.Lock()
	delete(w.start, k)
	w.mu.Unlock()
}

type nsStats struct {
	programs, cases int64
	nontrivial      sync.Map // distinct non-trivial fingerprint (hash) set
	ntCount         int64
	classes         *evid.Histogram
	samples         evid.Samples
}

func newStats() *nsStats {
	return &nsStats{classes: evid.NewHistogram(), samples: evid.Samples{N: 5}}
}

// forEachCase enumerates the whole space: every program x every input; ref and impl evaluated for each.
func forEachCase(rep *evid.Reporter, sp *nsgen.Space, bal []string, st *nsStats, f func(c *nsCase)) {
	wd := newWatchdog(rep, 180*time.Second)
	evid.ParallelFor(sp.Size(), workers(), func(w, i int) {
		p := sp.Program(i)
		text := p.Text()
		wd.begin(w, text)
		comp := nsrun.Compile(compiler.Compile, text)
		atomic.AddInt64(&st.programs, 1)
		local := map[string]int{}
		prefixes := map[int]*nsrun.Compiled{}
		p.EachInput(bal, func(in *nsgen.Input) {
			c := &nsCase{P: p, Text: text, In: in, Comp: comp, PrefixComp: prefixes}
			c.Ref = nsgen.Eval(p, in)
			c.Res = comp.Exec(in)
			atomic.AddInt64(&st.cases, 1)
			local[c.Res.Class]++
			if c.Res.Class != nsgen.ClsCompile && (c.Res.Class != nsgen.ClsOK || len(nsgen.NormalForm(c.Res.Postings)) > 0) {
				// non-trivial: accepted with >=1 non-zero posting, or rejected by a run-time check; distinct by (text,input)
				atomic.AddInt64(&st.ntCount, 1)
			}
			st.samples.Offer(func() interface{} {
				return map[string]interface{}{"program": text, "input": in, "impl_class": c.Res.Class, "ref_class": c.Ref.Class, "postings": fmt.Sprint(c.Res.Postings)}
			})
			f(c)
		})
		st.classes.Merge(local)
		wd.end(w)
	})
}

func (st *nsStats) coverage(sp *nsgen.Space, rule string) evid.Coverage {
	return evid.Coverage{
		"evaluations":          int(st.cases),
		"programs":             int(st.programs),
		"distinct_nontrivial":  int(st.ntCount),
		"rule":                 rule,
		"samples":              st.samples.Got,
		"exhaustive":           true,
		"space_blocks":         sp.Describe(),
		"impl_outcome_classes": st.classes.M,
	}
}

func balAlphabet(rep *evid.Reporter) []string {
	if rep.Thorough() {
		return nsgen.ThoroughBalances
	}
	return nsgen.QuickBalances
}

const nsRule = "every program of the bounded Numscript grammar (union of component-product blocks listed in space_blocks, simplest first) x every binding of its variables over the small domains x every balance table over the balance alphabet x metadata present/absent; each (program,input) pair is distinct by construction; non-trivial = implementation accepted with >=1 non-zero posting, or rejected by a run-time (not compile-time) check"

func shortJSON(v interface{}) string {
	b, _ := json.Marshal(v)
	if len(b) > 300 {
		b = b[:300]
	}
	return string(b)
}
