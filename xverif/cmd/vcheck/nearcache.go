package main

import (
	"fmt"

	"github.com/formancehq/ledger/internal/engine/command"
	"github.com/formancehq/ledger/xverif/lib/evid"
	"github.com/formancehq/ledger/xverif/lib/nsgen"
	"github.com/formancehq/ledger/xverif/lib/nsrun"
)

// nearDuplicateTexts: groups of script texts that differ only in layout / a late token / literal spacing - the inputs a
// too-coarse cache key would confuse.
func nearDuplicateTexts() [][]string {
	send := func(n int, dst string) string {
		return fmt.Sprintf("send [X %d] (\n  source = @world\n  destination = @%s\n)\n", n, dst)
	}
	return [][]string{
		{"set_tx_meta(\"k\", \"first  batch\")\n" + send(1, "a"), "set_tx_meta(\"k\", \"first batch\")\n" + send(1, "a"), "set_tx_meta(\"k\", \"first batch \")\n" + send(1, "a")},
		{send(1, "a"), "send [X 1] ( source = @world destination = @a )\n", "send [X 1] (\n\tsource = @world\n\tdestination = @a\n)\n", "\n\n" + send(1, "a"), send(1, "a") + "\n\n"},
		{send(1, "a"), send(1, "b"), send(2, "a"), send(1, "a") + "fail\n", send(1, "A")},
		{"vars {\n  account $d\n}\n" + "send [X 1] (\n  source = @world\n  destination = $d\n)\n", "vars {\n  account $d\n  account $e\n}\n" + "send [X 1] (\n  source = @world\n  destination = $d\n)\n"},
		{"// c\n" + send(1, "a"), "// d\n" + send(1, "a"), "/* c */" + send(1, "a")},
	}
}

// nearDuplicateCache: for every ordered pair of texts of a group and every cache size, compiling and running A and then B
// through one command.Compiler gives B exactly what a fresh compile of B gives.
func nearDuplicateCache(rep *evid.Reporter, keyPrefix string) int {
	runs := 0
	in := &nsgen.Input{Vars: map[string]string{"d": "a", "e": "b"}}
	in1 := &nsgen.Input{Vars: map[string]string{"d": "a"}}
	pick := func(text string) *nsgen.Input {
		if len(text) > 30 && text[:4] == "vars" && !contains(text, "$e") {
			return in1
		}
		if len(text) > 4 && text[:4] == "vars" {
			return in
		}
		return &nsgen.Input{}
	}
	for _, g := range nearDuplicateTexts() {
		fresh := make([]string, len(g))
		for i, t := range g {
			fresh[i] = obsOf(nsrun.Run(t, pick(t)))
		}
		for size := 1; size <= 3; size++ {
			for a := range g {
				for b := range g {
					c := command.NewCompiler(size)
					_ = nsrun.RunWith(c.Compile, g[a], pick(g[a]))
					got := obsOf(nsrun.RunWith(c.Compile, g[b], pick(g[b])))
					runs++
					if got != fresh[b] {
						rep.Violation(keyPrefix+"near-duplicate-cache", fmt.Sprintf("after script A ran, script B (a different text) behaves differently than on a fresh engine (cache size %d)", size),
							map[string]interface{}{"engine": "nsgen", "text": g[b], "input": pick(g[b]), "previous_script": g[a], "observed": got, "expected": fresh[b]})
					}
				}
			}
		}
	}
	return runs
}

func contains(s, sub string) bool {
	for i := 0; i+len(sub) <= len(s); i++ {
		if s[i:i+len(sub)] == sub {
			return true
		}
	}
	return false
}
