package main

import (
	"fmt"
	"math/big"
	"strings"
	"sync/atomic"

	"github.com/formancehq/ledger/internal/machine/script/compiler"
	"github.com/formancehq/ledger/xverif/lib/evid"
	"github.com/formancehq/ledger/xverif/lib/nsgen"
	"github.com/formancehq/ledger/xverif/lib/nsrun"
)

func init() { checks["C03"] = c03 }

func sum(ps []nsgen.Posting) *big.Int {
	t := new(big.Int)
	for _, p := range ps {
		t.Add(t, p.Amt)
	}
	return t
}

// leafAccounts of a source tree (literal names; "" for variables)
func srcAccounts(s *nsgen.Source, out *[]string) {
	switch s.K {
	case nsgen.SAcc:
		if s.Acc.K == nsgen.EAcc {
			*out = append(*out, s.Acc.S)
		} else {
			*out = append(*out, "")
		}
	case nsgen.SMax:
		srcAccounts(s.Sub, out)
	case nsgen.SOrder:
		for _, c := range s.List {
			srcAccounts(c, out)
		}
	}
}

func allSrcAccounts(v nsgen.VSource) []string {
	var out []string
	if v.Src != nil {
		srcAccounts(v.Src, &out)
	}
	for _, s := range v.Srcs {
		srcAccounts(s, &out)
	}
	return out
}

func srcExprs(s *nsgen.Source, out *[]*nsgen.Expr) {
	switch s.K {
	case nsgen.SAcc:
		*out = append(*out, s.Acc)
	case nsgen.SMax:
		srcExprs(s.Sub, out)
	case nsgen.SOrder:
		for _, c := range s.List {
			srcExprs(c, out)
		}
	}
}

func allSrcExprs(v nsgen.VSource) []*nsgen.Expr {
	var out []*nsgen.Expr
	if v.Src != nil {
		srcExprs(v.Src, &out)
	}
	for _, s := range v.Srcs {
		srcExprs(s, &out)
	}
	return out
}

// resolveAccounts: the account each source expression designates in this case ("" when it cannot be told)
func resolveAccounts(c *nsCase, es []*nsgen.Expr) []string {
	var out []string
	for _, e := range es {
		name := ""
		switch e.K {
		case nsgen.EAcc:
			name = e.S
		case nsgen.EVar:
			for _, v := range c.P.Vars {
				if v.Name != e.S {
					continue
				}
				switch v.Origin {
				case nsgen.OrNone:
					name = strings.TrimPrefix(c.In.Vars[v.Name], "@")
				case nsgen.OrMeta:
					if v.OAcc != nil && v.OAcc.K == nsgen.EAcc {
						name = strings.TrimPrefix(c.In.Meta[v.OAcc.S][v.OKey], "@")
					}
				}
			}
		}
		out = append(out, name)
	}
	return out
}

func count(l []string, x string) int {
	n := 0
	for _, y := range l {
		if y == x {
			n++
		}
	}
	return n
}

func litMon(e *nsgen.Expr) *big.Int {
	if e != nil && e.K == nsgen.EMon && e.A.K == nsgen.EAsset {
		return e.N
	}
	return nil
}

func c03() int {
	rep := evid.NewReporter("C03", "exploration")
	sp := nsgen.StandardSpace(rep.Thorough())
	st := newStats()
	var sendsChecked int64
	forEachCase(rep, sp, balAlphabet(rep), st, func(c *nsCase) {
		if c.Res.Class != nsgen.ClsOK || c.Ref.Skip != "" {
			return
		}
		viol := func(kind, why string) {
			rep.Violation(kind+":"+shapeKey(c.P), why, c.replay(fmt.Sprint(c.Res.Postings), fmt.Sprint(c.Ref.Postings)))
		}
		// attribute postings to statements by running statement prefixes
		bounds := []int{0}
		for k := 1; k <= len(c.P.Stmts); k++ {
			if k == len(c.P.Stmts) {
				bounds = append(bounds, len(c.Res.Postings))
				break
			}
			pc := c.PrefixComp[k]
			if pc == nil {
				pc = nsrun.Compile(compiler.Compile, c.P.Prefix(k).Text())
				c.PrefixComp[k] = pc
			}
			r := pc.Exec(c.In)
			if r.Class != nsgen.ClsOK {
				return // prefix behaves differently (cannot attribute); C08 compares the whole program
			}
			bounds = append(bounds, len(r.Postings))
		}
		refSend := map[int]*nsgen.SendInfo{}
		if c.Ref.Class == nsgen.ClsOK {
			for i := range c.Ref.Sends {
				refSend[c.Ref.Sends[i].Stmt] = &c.Ref.Sends[i]
			}
		}
		for k, stm := range c.P.Stmts {
			if stm.K != nsgen.StSend {
				continue
			}
			if bounds[k+1] < bounds[k] || bounds[k+1] > len(c.Res.Postings) {
				viol("attribution", "posting count is not monotone over statement prefixes")
				return
			}
			G := c.Res.Postings[bounds[k]:bounds[k+1]]
			atomic.AddInt64(&sendsChecked, 1)
			// (a)
			for _, p := range G {
				if p.Amt.Sign() < 0 {
					viol("negative-posting", "a send emitted a negative posting: "+p.String())
				}
			}
			ri := refSend[k]
			total := sum(G)
			// (b)
			if ri != nil {
				want := ri.Stated
				if ri.All {
					want = ri.Offered
				}
				if !ri.HasKept {
					if total.Cmp(want) != 0 {
						viol("amount", fmt.Sprintf("send moved %s, stated/available amount is %s and nothing is kept", total, want))
					}
				} else if total.Cmp(want) > 0 {
					viol("amount-kept", fmt.Sprintf("send moved %s, more than the stated/available amount %s", total, want))
				}
			}
			// (c) max on flat ordered destinations over distinct accounts; max on a source whose accounts occur once
			if d := stm.Dst; d.K == nsgen.DOrder {
				accs := map[string]int{}
				flat := true
				for _, it := range d.Items {
					if !it.Kept && it.D.K == nsgen.DAcc && it.D.Acc.K == nsgen.EAcc {
						accs[it.D.Acc.S]++
					} else if !it.Kept {
						flat = false
					}
				}
				if !d.Rem.Kept && d.Rem.D.K == nsgen.DAcc && d.Rem.D.Acc.K == nsgen.EAcc {
					accs[d.Rem.D.Acc.S]++
				} else if !d.Rem.Kept {
					flat = false
				}
				if flat {
					for i, it := range d.Items {
						cap := litMon(d.Caps[i])
						if it.Kept || cap == nil || accs[it.D.Acc.S] != 1 {
							continue
						}
						got := new(big.Int)
						for _, p := range G {
							if p.Dst == it.D.Acc.S {
								got.Add(got, p.Amt)
							}
						}
						if got.Cmp(cap) > 0 {
							viol("dest-max", fmt.Sprintf("destination %s capped at %s received %s", it.D.Acc.S, cap, got))
						}
					}
				}
			}
			if stm.Src.Src != nil && stm.Src.Src.K == nsgen.SMax {
				if cap := litMon(stm.Src.Src.Max); cap != nil && total.Cmp(cap) > 0 {
					viol("source-max", fmt.Sprintf("source capped at %s gave %s", cap, total))
				}
			}
			if stm.Src.Src != nil && stm.Src.Src.K == nsgen.SOrder {
				// accounts designated through a variable are resolved with the case's bindings: a variable bound to the
				// capped account makes it occur twice (the cap then bounds only one of the occurrences)
				all := resolveAccounts(c, allSrcExprs(stm.Src))
				for _, sub := range stm.Src.Src.List {
					if sub.K != nsgen.SMax {
						continue
					}
					cap := litMon(sub.Max)
					var subExprs []*nsgen.Expr
					srcExprs(sub.Sub, &subExprs)
					as := resolveAccounts(c, subExprs)
					ok := cap != nil && count(all, "") == 0
					for _, a := range as {
						if a == "" || count(all, a) != 1 {
							ok = false
						}
					}
					if !ok {
						continue
					}
					got := new(big.Int)
					for _, p := range G {
						if count(as, p.Src) > 0 {
							got.Add(got, p.Amt)
						}
					}
					if got.Cmp(cap) > 0 {
						viol("source-max", fmt.Sprintf("sub-source %v capped at %s gave %s", as, cap, got))
					}
				}
			}
			// (d) flat destination allotment over distinct literal accounts, literal portions: exact floor + leftover shares
			if d := stm.Dst; d.K == nsgen.DAllot && ri != nil {
				ok := true
				seen := map[string]bool{}
				var rats []*big.Rat
				oneMinus := big.NewRat(1, 1)
				remIdx := -1
				for i, it := range d.Items {
					if !it.Kept && (it.D.K != nsgen.DAcc || it.D.Acc.K != nsgen.EAcc || seen[it.D.Acc.S]) {
						ok = false
						break
					}
					if !it.Kept {
						seen[it.D.Acc.S] = true
					}
					switch d.Portions[i].K {
					case nsgen.PLit:
						r := parseRat(d.Portions[i].S)
						rats = append(rats, r)
						oneMinus.Sub(oneMinus, r)
					case nsgen.PRemaining:
						remIdx = i
						rats = append(rats, nil)
					default:
						ok = false
					}
				}
				if ok {
					if remIdx >= 0 {
						rats[remIdx] = oneMinus
					}
					T := ri.Stated
					if ri.All {
						T = ri.Offered
					}
					shares := nsgen.Allocate(T, rats)
					for i, it := range d.Items {
						if it.Kept {
							continue
						}
						got := new(big.Int)
						for _, p := range G {
							if p.Dst == it.D.Acc.S {
								got.Add(got, p.Amt)
							}
						}
						if got.Cmp(shares[i]) != 0 {
							viol("dest-share", fmt.Sprintf("portion entry %d (%s) of %s must receive %s (floor + leftover rule), received %s", i, d.Portions[i], T, shares[i], got))
						}
					}
				}
			}
			// (d') flat source allotment over distinct plain literal accounts (no kept): each gives its share
			if stm.Src.Portions != nil && ri != nil && !ri.HasKept {
				ok := true
				seen := map[string]bool{}
				var rats []*big.Rat
				oneMinus := big.NewRat(1, 1)
				remIdx := -1
				for i, s := range stm.Src.Srcs {
					if s.K != nsgen.SAcc || s.Acc.K != nsgen.EAcc || seen[s.Acc.S] {
						ok = false
						break
					}
					seen[s.Acc.S] = true
					switch stm.Src.Portions[i].K {
					case nsgen.PLit:
						r := parseRat(stm.Src.Portions[i].S)
						rats = append(rats, r)
						oneMinus.Sub(oneMinus, r)
					case nsgen.PRemaining:
						remIdx = i
						rats = append(rats, nil)
					default:
						ok = false
					}
				}
				if ok {
					if remIdx >= 0 {
						rats[remIdx] = oneMinus
					}
					shares := nsgen.Allocate(ri.Stated, rats)
					for i, s := range stm.Src.Srcs {
						got := new(big.Int)
						for _, p := range G {
							if p.Src == s.Acc.S {
								got.Add(got, p.Amt)
							}
						}
						if got.Cmp(shares[i]) != 0 {
							viol("source-share", fmt.Sprintf("source entry %d (%s) of %s must give %s, gave %s", i, stm.Src.Portions[i], ri.Stated, shares[i], got))
						}
					}
				}
			}
			// (e) flat ordered source over distinct plain accounts, first statement: a later entry gives only when earlier gave all they could
			if k == 0 && stm.Src.Src != nil && stm.Src.Src.K == nsgen.SOrder {
				ok := true
				seen := map[string]bool{}
				for _, s := range stm.Src.Src.List {
					if s.K != nsgen.SAcc || s.Acc.K != nsgen.EAcc || seen[s.Acc.S] || s.Ov == nsgen.OvBounded && litMon(s.Up) == nil {
						ok = false
						break
					}
					seen[s.Acc.S] = true
				}
				if ok {
					gave := func(a string) *big.Int {
						g := new(big.Int)
						for _, p := range G {
							if p.Src == a {
								g.Add(g, p.Amt)
							}
						}
						return g
					}
					for j, s := range stm.Src.Src.List {
						if gave(s.Acc.S).Sign() <= 0 {
							continue
						}
						for _, e := range stm.Src.Src.List[:j] {
							if e.Acc.S == "world" || e.Ov == nsgen.OvUnbounded {
								continue
							}
							avail := c.In.Balance(e.Acc.S, stm0Asset(G))
							if e.Ov == nsgen.OvBounded {
								avail = new(big.Int).Add(avail, e.Up.N)
							}
							if avail.Sign() < 0 {
								avail = new(big.Int)
							}
							if gave(e.Acc.S).Cmp(avail) < 0 {
								viol("order", fmt.Sprintf("source %s contributed although the earlier source %s gave %s of the %s it could", s.Acc.S, e.Acc.S, gave(e.Acc.S), avail))
							}
						}
					}
				}
			}
			// (f) normal form equals the reference's group
			if ri != nil && !c.Ref.Ambiguous {
				if !nsgen.PostingsEqual(nsgen.NormalForm(G), nsgen.NormalForm(ri.Postings)) {
					viol("group", fmt.Sprintf("send group %v differs from the reference %v", G, ri.Postings))
				}
			}
		}
	})
	cov := st.coverage(sp, nsRule+"; postings are attributed to sends by running statement prefixes")
	cov["sends_checked"] = int(sendsChecked)
	rep.Assume = []string{"reference semantics of DESIGN.md Appendix A for oracle (f) and for the stated/available amount of (b),(d)"}
	// the amount as a client states it, through the v1 / v2 routers and bulk (apivars.go)
	apiCases, apiAccepted, apiRefused := apiAmounts(rep)
	// every text of a family gets its own program through one compilation cache (c08.go)
	cov["cache_key_family"] = c08KeyFamily(rep)
	cov["api_amount_cases"], cov["api_amount_accepted"], cov["api_amount_refused"] = apiCases, apiAccepted, apiRefused
	// scripts on the REAL store, against the stand-in stores of the enumerations above (realstore.go)
	rsH, rsS := realStoreConformance(rep, "")
	cov["realstore_histories"], cov["realstore_steps"] = rsH, rsS
	return rep.Finish(cov)
}

func stm0Asset(G []nsgen.Posting) string {
	if len(G) > 0 {
		return G[0].Asset
	}
	return "X"
}

func parseRat(s string) *big.Rat {
	// literal portions of the generator: a/b or n% or n.m%
	if len(s) > 0 && s[len(s)-1] == '%' {
		r, _ := new(big.Rat).SetString(s[:len(s)-1])
		return r.Mul(r, big.NewRat(1, 100))
	}
	r, _ := new(big.Rat).SetString(s)
	return r
}
