// nsdiff: development tool — prints space sizes and the disagreement histogram between reference and implementation.
package main

import (
	"fmt"
	"os"
	"runtime"
	"sort"
	"sync"

	"github.com/formancehq/ledger/internal/machine/script/compiler"
	"github.com/formancehq/ledger/xverif/lib/evid"
	"github.com/formancehq/ledger/xverif/lib/nsgen"
	"github.com/formancehq/ledger/xverif/lib/nsrun"
)

func main() {
	sp := nsgen.StandardSpace(len(os.Args) > 1 && os.Args[1] == "thorough")
	for _, l := range sp.Describe() {
		fmt.Println(l)
	}
	fmt.Println("programs:", sp.Size())
	if os.Getenv("SIZES") != "" {
		return
	}
	stride := 1
	if v := os.Getenv("STRIDE"); v != "" {
		fmt.Sscan(v, &stride)
	}
	h := evid.NewHistogram()
	var mu sync.Mutex
	examples := map[string]string{}
	cases := make([]int, 64)
	evid.ParallelFor(sp.Size(), runtime.NumCPU(), func(w, i int) {
		if i%stride != 0 {
			return
		}
		p := sp.Program(i)
		text := p.Text()
		comp := nsrun.Compile(compiler.Compile, text)
		p.EachInput(nsgen.QuickBalances, func(in *nsgen.Input) {
			cases[w]++
			ref := nsgen.Eval(p, in)
			res := comp.Exec(in)
			key := ""
			switch {
			case ref.Skip != "":
				key = "skip:" + ref.Skip
			case res.Class == nsgen.ClsPanic:
				key = "PANIC ref=" + ref.Class + " :: " + res.Panic
			case ref.Class != res.Class:
				if ref.Loose && res.Class != nsgen.ClsOK {
					key = "agree-loose"
				} else if ref.Ambiguous && res.Class == nsgen.ClsInsufficient {
					key = "agree-ambiguous"
				} else {
					key = "CLASS ref=" + ref.Class + " impl=" + res.Class
				}
			case ref.Class == nsgen.ClsOK:
				if !nsgen.PostingsEqual(nsgen.NormalForm(ref.Postings), nsgen.NormalForm(res.Postings)) {
					key = "POSTINGS differ"
				} else {
					key = "agree-ok"
				}
			default:
				key = "agree-" + ref.Class
			}
			h.Add(key)
			if key[0] >= 'A' && key[0] <= 'Z' {
				mu.Lock()
				if _, ok := examples[key]; !ok {
					examples[key] = fmt.Sprintf("%s\ninput=%+v\nref=%v %v\nimpl=%v %v err=%s", text, in, ref.Class, ref.Postings, res.Class, res.Postings, res.Err)
				}
				mu.Unlock()
			}
		})
	})
	tot := 0
	for _, c := range cases {
		tot += c
	}
	fmt.Println("cases:", tot)
	keys := []string{}
	for k := range h.M {
		keys = append(keys, k)
	}
	sort.Strings(keys)
	for _, k := range keys {
		fmt.Printf("%8d  %s\n", h.M[k], k)
	}
	for k, e := range examples {
		fmt.Println("=====", k)
		fmt.Println(e)
	}
}
